#!/usr/bin/python3
"""Offline certificate factory for the TLS harnesses (C01-C07 TLS legs, C09, C14, C18).

Everything is EC P-256.  Output: /verif/build/pki/<set>/ directories that can be used directly
as XCM_TLS_CERT (cert.pem, key.pem, tc.pem, crl.pem) plus a manifest.json describing what each
set is, so that the oracles know which certificate they handed out.
"""
import datetime
import json
import os
import sys

from cryptography import x509
from cryptography.hazmat.primitives import hashes, serialization
from cryptography.hazmat.primitives.asymmetric import ec
from cryptography.x509.oid import ExtendedKeyUsageOID, NameOID

OUT = os.path.join(os.path.dirname(os.path.dirname(os.path.dirname(os.path.abspath(__file__)))),
                   "build", "pki")
NOW = datetime.datetime.utcnow().replace(microsecond=0)
DAY = datetime.timedelta(days=1)


def key():
    return ec.generate_private_key(ec.SECP256R1())


def name(cn):
    return x509.Name([x509.NameAttribute(NameOID.COMMON_NAME, cn)])


def pem_cert(c):
    return c.public_bytes(serialization.Encoding.PEM)


def pem_key(k):
    return k.private_bytes(serialization.Encoding.PEM, serialization.PrivateFormat.PKCS8,
                           serialization.NoEncryption())


def mk_ca(cn, issuer=None, issuer_key=None, nb=None, na=None):
    k = key()
    b = (x509.CertificateBuilder().subject_name(name(cn))
         .issuer_name(issuer.subject if issuer else name(cn))
         .public_key(k.public_key()).serial_number(x509.random_serial_number())
         .not_valid_before(nb or NOW - 30 * DAY).not_valid_after(na or NOW + 3650 * DAY)
         .add_extension(x509.BasicConstraints(ca=True, path_length=None), critical=True)
         .add_extension(x509.KeyUsage(digital_signature=True, key_cert_sign=True, crl_sign=True,
                                      content_commitment=False, key_encipherment=False,
                                      data_encipherment=False, key_agreement=False,
                                      encipher_only=False, decipher_only=False), critical=True)
         .add_extension(x509.SubjectKeyIdentifier.from_public_key(k.public_key()), critical=False))
    c = b.sign(issuer_key or k, hashes.SHA256())
    return c, k


def mk_leaf(cn, ca, ca_key, sans=None, eku=None, nb=None, na=None, emails=(), dirs=()):
    k = key()
    b = (x509.CertificateBuilder().subject_name(name(cn)).issuer_name(ca.subject)
         .public_key(k.public_key()).serial_number(x509.random_serial_number())
         .not_valid_before(nb or NOW - 2 * DAY).not_valid_after(na or NOW + 365 * DAY)
         .add_extension(x509.BasicConstraints(ca=False, path_length=None), critical=True)
         .add_extension(x509.SubjectKeyIdentifier.from_public_key(k.public_key()), critical=False))
    gn = [x509.DNSName(s) for s in (sans if sans is not None else [cn])]
    gn += [x509.RFC822Name(e) for e in emails]
    gn += [x509.DirectoryName(name(d)) for d in dirs]
    if gn:
        b = b.add_extension(x509.SubjectAlternativeName(gn), critical=False)
    if eku:
        b = b.add_extension(x509.ExtendedKeyUsage(eku), critical=False)
    c = b.sign(ca_key, hashes.SHA256())
    return c, k


def mk_crl(ca, ca_key, revoked=()):
    b = (x509.CertificateRevocationListBuilder().issuer_name(ca.subject)
         .last_update(NOW - DAY).next_update(NOW + 365 * DAY))
    for c in revoked:
        b = b.add_revoked_certificate(x509.RevokedCertificateBuilder().serial_number(c.serial_number)
                                      .revocation_date(NOW - DAY).build())
    return b.sign(ca_key, hashes.SHA256()).public_bytes(serialization.Encoding.PEM)


def ski_hex(c):
    return c.extensions.get_extension_for_class(x509.SubjectKeyIdentifier).value.digest.hex()


def write_set(sets, nm, cert_chain, k, tc, crl=None, **meta):
    d = os.path.join(OUT, nm)
    os.makedirs(d, exist_ok=True)
    with open(os.path.join(d, "cert.pem"), "wb") as f:
        f.write(b"".join(pem_cert(c) for c in cert_chain))
    with open(os.path.join(d, "key.pem"), "wb") as f:
        f.write(pem_key(k))
    with open(os.path.join(d, "tc.pem"), "wb") as f:
        f.write(b"".join(pem_cert(c) for c in tc))
    if crl is not None:
        with open(os.path.join(d, "crl.pem"), "wb") as f:
            f.write(crl)
    leaf = cert_chain[0]
    try:
        san = leaf.extensions.get_extension_for_class(x509.SubjectAlternativeName).value
        dns = san.get_values_for_type(x509.DNSName)
    except x509.ExtensionNotFound:
        dns = []
    meta.update(dir=d, ski=ski_hex(leaf), dns=dns,
                cn=leaf.subject.get_attributes_for_oid(NameOID.COMMON_NAME)[0].value,
                sizes=dict(cert=os.path.getsize(os.path.join(d, "cert.pem")),
                           key=os.path.getsize(os.path.join(d, "key.pem")),
                           tc=os.path.getsize(os.path.join(d, "tc.pem"))))
    sets[nm] = meta


def main():
    if os.path.exists(os.path.join(OUT, "manifest.json")) and "--force" not in sys.argv:
        try:
            m = json.load(open(os.path.join(OUT, "manifest.json")))
            made = datetime.datetime.fromisoformat(m["made"])
            if abs((NOW - made).total_seconds()) < 20 * 3600 and all(os.path.isdir(s["dir"]) for s in m["sets"].values()):
                print("pki: up to date")
                return
        except Exception:  # noqa: BLE001
            pass
    os.makedirs(OUT, exist_ok=True)
    sets = {}
    root, root_k = mk_ca("verif-root")
    root2, root2_k = mk_ca("verif-ruut")
    inter, inter_k = mk_ca("verif-inter", root, root_k)
    revint, revint_k = mk_ca("verif-revoked-inter", root, root_k)
    uinter, uinter_k = mk_ca("verif-untrusted-inter", root2, root2_k)

    # revocation material (issued by root; revoked leaf + revoked intermediate)
    revoked_leaf, revoked_leaf_k = mk_leaf("revoked.verif.test", root, root_k)
    crl_empty = mk_crl(root, root_k)
    crl_rev = mk_crl(root, root_k, [revoked_leaf, revint])
    crl_inter_empty = mk_crl(inter, inter_k)
    crl_revint_empty = mk_crl(revint, revint_k)
    all_crls = crl_rev + crl_inter_empty + crl_revint_empty
    all_crls_empty = crl_empty + crl_inter_empty + crl_revint_empty
    tc = [root]

    def both(nm, chain, k, kind, **meta):
        write_set(sets, nm, chain, k, tc, crl=all_crls, kind=kind, **meta)

    # two equal-size credential sets (C18): retry until the PEM sizes agree
    for attempt in range(400):
        a, ak = mk_leaf("alpha.verif.test", root, root_k, sans=["alpha.verif.test", "peer.verif.test"])
        b, bk = mk_leaf("bravo.verif.test", root, root_k, sans=["bravo.verif.test", "peer.verif.test"])
        if len(pem_cert(a)) == len(pem_cert(b)) and len(pem_key(ak)) == len(pem_key(bk)):
            break
    both("good_a", [a], ak, "valid", equal_size_attempts=attempt + 1)
    both("good_b", [b], bk, "valid")
    # a second trust domain of equal size for C18 directory switches
    for attempt in range(400):
        c2, c2k = mk_leaf("alpha.verif.test", root2, root2_k, sans=["alpha.verif.test", "peer.verif.test"])
        if len(pem_cert(c2)) == len(pem_cert(a)) and len(pem_key(c2k)) == len(pem_key(ak)) and \
                len(pem_cert(root2)) == len(pem_cert(root)):
            break
        if attempt % 20 == 19:
            root2, root2_k = mk_ca("verif-ruut")
            uinter, uinter_k = mk_ca("verif-untrusted-inter", root2, root2_k)
    write_set(sets, "other_domain", [c2], c2k, [root2], crl=mk_crl(root2, root2_k), kind="valid-in-other-domain")

    # the C09 peer credential kinds
    c, k = mk_leaf("peer.verif.test", root, root_k)
    both("peer_valid", [c], k, "valid")
    c, k = mk_leaf("peer.verif.test", root2, root2_k)
    both("peer_untrusted_root", [c], k, "untrusted")
    c, k = mk_leaf("peer.verif.test", inter, inter_k)
    both("peer_via_inter", [c, inter], k, "valid-via-intermediate")
    c, k = mk_leaf("peer.verif.test", uinter, uinter_k)
    both("peer_via_untrusted_inter", [c, uinter], k, "untrusted")
    c, k = mk_leaf("peer.verif.test", root, root_k, nb=NOW - 30 * DAY, na=NOW - 2 * DAY)
    both("peer_expired", [c], k, "expired")
    c, k = mk_leaf("peer.verif.test", root, root_k, nb=NOW + 2 * DAY, na=NOW + 30 * DAY)
    both("peer_not_yet_valid", [c], k, "not-yet-valid")
    both("peer_revoked", [revoked_leaf], revoked_leaf_k, "revoked")
    c, k = mk_leaf("peer.verif.test", revint, revint_k)
    both("peer_under_revoked_inter", [c, revint], k, "revoked-intermediate")
    c, k = mk_leaf("wrong.verif.test", root, root_k)
    both("peer_wrong_name", [c], k, "wrong-name")
    c, k = mk_leaf("peer.verif.test", root, root_k, eku=[ExtendedKeyUsageOID.SERVER_AUTH])
    both("peer_eku_server", [c], k, "eku-server-only")
    c, k = mk_leaf("peer.verif.test", root, root_k, eku=[ExtendedKeyUsageOID.CLIENT_AUTH])
    both("peer_eku_client", [c], k, "eku-client-only")
    c, k = mk_leaf("peer.verif.test", root, root_k, sans=[])
    both("peer_no_san", [c], k, "no-names")

    # a set whose CRL file revokes nothing
    c, k = mk_leaf("peer.verif.test", root, root_k)
    write_set(sets, "good_crl_empty", [c], k, tc, crl=all_crls_empty, kind="valid")
    # trust both roots
    write_set(sets, "trust_both", [a], ak, [root, root2], crl=all_crls + mk_crl(root2, root2_k), kind="valid")
    # no trust at all (auth off)
    # peer certificates with many subject alternative names (C14)
    for n in (5, 25, 70):
        c, k = mk_leaf("many%d.verif.test" % n, root, root_k,
                       sans=["n%03d.many.verif.test" % i for i in range(n)],
                       emails=["u%d@verif.test" % i for i in range(min(n, 5))],
                       dirs=["dir%d" % i for i in range(min(n, 3))])
        both("san_%d" % n, [c], k, "valid", san_count=n)
    # a big bundle of trusted CAs (large by-value tc)
    extra = [mk_ca("verif-extra-root-%d" % i)[0] for i in range(12)]
    write_set(sets, "big_tc", [a], ak, [root] + extra, crl=all_crls, kind="valid")
    # garbage material for C18 failure cases
    d = os.path.join(OUT, "garbage")
    os.makedirs(d, exist_ok=True)
    for fn, data in (("cert.pem", b"-----BEGIN CERTIFICATE-----\nnot base64 at all\n-----END CERTIFICATE-----\n"),
                     ("key.pem", b"garbage\n"), ("tc.pem", b""), ("crl.pem", b"junk")):
        with open(os.path.join(d, fn), "wb") as f:
            f.write(data)
    # mismatching key: good_a's certificate with good_b's key
    d = os.path.join(OUT, "mismatch")
    os.makedirs(d, exist_ok=True)
    open(os.path.join(d, "cert.pem"), "wb").write(pem_cert(a))
    open(os.path.join(d, "key.pem"), "wb").write(pem_key(bk))
    open(os.path.join(d, "tc.pem"), "wb").write(pem_cert(root))
    open(os.path.join(d, "crl.pem"), "wb").write(all_crls)

    man = dict(made=NOW.isoformat(), root_ski=ski_hex(root), sets=sets,
               files=dict(crl_revoking=os.path.join(OUT, "crl_revoking.pem"),
                          crl_empty=os.path.join(OUT, "crl_empty.pem"),
                          root=os.path.join(OUT, "root.pem"), root2=os.path.join(OUT, "root2.pem")))
    open(man["files"]["crl_revoking"], "wb").write(all_crls)
    open(man["files"]["crl_empty"], "wb").write(all_crls_empty)
    open(man["files"]["root"], "wb").write(pem_cert(root))
    open(man["files"]["root2"], "wb").write(pem_cert(root2))
    with open(os.path.join(OUT, "manifest.json"), "w") as f:
        json.dump(man, f, indent=1)
    print("pki: %d sets in %s" % (len(sets), OUT))


# ---------------------------------------------------------------------------------------------
# C09: a self-contained PKI of its own (own roots, so the sets above are never touched) under
# build/pki/c09/.  `make.py --c09` (re)generates it atomically (temporary directory + rename).
#
#   <kind>/cert.pem (leaf + the intermediates the peer presents), <kind>/key.pem   -- peer credential kinds
#   own/cert.pem, own/key.pem                                                      -- the valid credential
#   tc_root.pem tc_root2.pem tc_both.pem tc_inter.pem                              -- trust anchor bundles
#   crl_revoking.pem crl_empty.pem                                                 -- CRL bundles (every CA has a CRL)
#   kinds.tsv   name  path  time  revoked  eku  names   -- what the generator put INTO each certificate;
#               this table (not the implementation) is what the `policy` oracle of h_tls.c reads
#   manifest.json
#
# Validity is relative to generation time with wide margins (expired: ended 20 days ago; not yet
# valid: starts in 20 days); the set is regenerated when older than 5 days.
C09_VERSION = 3
C09_MAX_AGE_S = 5 * 24 * 3600


def mk_self_signed_leaf(cn):
    k = key()
    b = (x509.CertificateBuilder().subject_name(name(cn)).issuer_name(name(cn))
         .public_key(k.public_key()).serial_number(x509.random_serial_number())
         .not_valid_before(NOW - 2 * DAY).not_valid_after(NOW + 365 * DAY)
         .add_extension(x509.BasicConstraints(ca=False, path_length=None), critical=True)
         .add_extension(x509.SubjectAlternativeName([x509.DNSName(cn)]), critical=False))
    return b.sign(k, hashes.SHA256()), k


def main_c09():
    import shutil
    dst = os.path.join(OUT, "c09")
    man_path = os.path.join(dst, "manifest.json")
    if "--force" not in sys.argv and os.path.exists(man_path):
        try:
            m = json.load(open(man_path))
            made = datetime.datetime.fromisoformat(m["made"])
            if m.get("version") == C09_VERSION and abs((NOW - made).total_seconds()) < C09_MAX_AGE_S:
                print("pki/c09: up to date")
                return
        except Exception:  # noqa: BLE001
            pass
    os.makedirs(OUT, exist_ok=True)
    tmp = os.path.join(OUT, "c09.tmp%d" % os.getpid())
    shutil.rmtree(tmp, ignore_errors=True)
    os.makedirs(tmp)

    def put(rel, data):
        p = os.path.join(tmp, rel)
        os.makedirs(os.path.dirname(p), exist_ok=True)
        with open(p, "wb") as f:
            f.write(data)

    R, Rk = mk_ca("c09-root")
    U, Uk = mk_ca("c09-untrusted-root")
    inter, Ik = mk_ca("c09-inter", R, Rk)
    RI, RIk = mk_ca("c09-revoked-inter", R, Rk)
    UI, UIk = mk_ca("c09-untrusted-inter", U, Uk)
    XI, XIk = mk_ca("c09-expired-inter", R, Rk, nb=NOW - 400 * DAY, na=NOW - 20 * DAY)
    P = "peer.verif.test"
    EKU = ExtendedKeyUsageOID
    kinds = []     # (name, chain, key, path, time, revoked, eku, names)

    def kind(nm, leaf, k, chain, path, time="ok", revoked="no", eku="none", names=(P,)):
        kinds.append((nm, [leaf] + chain, k, path, time, revoked, eku, list(names)))

    c, k = mk_leaf(P, R, Rk); kind("valid", c, k, [], "R")
    c, k = mk_leaf(P, U, Uk); kind("untrusted_root", c, k, [], "U")
    c, k = mk_leaf(P, inter, Ik); kind("via_inter", c, k, [inter], "I>R")
    c, k = mk_leaf(P, UI, UIk); kind("via_untrusted_inter", c, k, [UI], "UI>U")
    c, k = mk_leaf(P, R, Rk, nb=NOW - 60 * DAY, na=NOW - 20 * DAY); kind("expired", c, k, [], "R", time="expired")
    c, k = mk_leaf(P, R, Rk, nb=NOW + 20 * DAY, na=NOW + 60 * DAY); kind("not_yet_valid", c, k, [], "R", time="notyet")
    rev, revk = mk_leaf(P, R, Rk); kind("revoked", rev, revk, [], "R", revoked="leaf")
    c, k = mk_leaf(P, RI, RIk); kind("under_revoked_inter", c, k, [RI], "RI>R", revoked="inter")
    c, k = mk_leaf("wrong.verif.test", R, Rk); kind("wrong_name", c, k, [], "R", names=["wrong.verif.test"])
    c, k = mk_leaf(P, R, Rk, eku=[EKU.SERVER_AUTH]); kind("eku_server", c, k, [], "R", eku="server")
    c, k = mk_leaf(P, R, Rk, eku=[EKU.CLIENT_AUTH]); kind("eku_client", c, k, [], "R", eku="client")
    c, k = mk_leaf(P, R, Rk, sans=[]); kind("no_san", c, k, [], "R")
    c, k = mk_leaf(P, R, Rk, eku=[EKU.SERVER_AUTH, EKU.CLIENT_AUTH]); kind("eku_both", c, k, [], "R", eku="both")
    c, k = mk_leaf(P, R, Rk, eku=[EKU.CODE_SIGNING]); kind("eku_other", c, k, [], "R", eku="other")
    c, k = mk_self_signed_leaf(P); kind("self_signed", c, k, [], "SELF")
    xrev, xrevk = mk_leaf(P, R, Rk, nb=NOW - 60 * DAY, na=NOW - 20 * DAY)
    kind("expired_revoked", xrev, xrevk, [], "R", time="expired", revoked="leaf")
    c, k = mk_leaf(P, XI, XIk); kind("under_expired_inter", c, k, [XI], "XI>R", time="inter-expired")
    c, k = mk_leaf(P, R, Rk, sans=["other.verif.test"]); kind("cn_right_san_wrong", c, k, [], "R", names=[P, "other.verif.test"])
    c, k = mk_leaf("wrong.verif.test", R, Rk, sans=[P]); kind("cn_wrong_san_right", c, k, [], "R", names=["wrong.verif.test", P])
    c, k = mk_leaf("wild.verif.test", R, Rk, sans=["*.verif.test"]); kind("wildcard", c, k, [], "R", names=["wild.verif.test", "*.verif.test"])

    for nm, chain, k, *_ in kinds:
        put(nm + "/cert.pem", b"".join(pem_cert(x) for x in chain))
        put(nm + "/key.pem", pem_key(k))
    own, ownk = mk_leaf("own.verif.test", R, Rk)
    put("own/cert.pem", pem_cert(own))
    put("own/key.pem", pem_key(ownk))
    put("tc_root.pem", pem_cert(R))
    put("tc_root2.pem", pem_cert(U))
    put("tc_both.pem", pem_cert(R) + pem_cert(U))
    put("tc_inter.pem", pem_cert(inter))
    other = (mk_crl(inter, Ik) + mk_crl(RI, RIk) + mk_crl(XI, XIk) + mk_crl(U, Uk) + mk_crl(UI, UIk))
    put("crl_revoking.pem", mk_crl(R, Rk, [rev, RI, xrev]) + other)
    put("crl_empty.pem", mk_crl(R, Rk) + other)
    lines = ["# name\tpath\ttime\trevoked\teku\tnames"]
    for nm, chain, k, path, time, revoked, eku, names in kinds:
        lines.append("\t".join([nm, path, time, revoked, eku, ":".join(names)]))
    put("kinds.tsv", ("\n".join(lines) + "\n").encode())
    put("manifest.json", json.dumps(dict(made=NOW.isoformat(), version=C09_VERSION,
                                         kinds=[dict(name=x[0], path=x[3], time=x[4], revoked=x[5], eku=x[6],
                                                     names=x[7]) for x in kinds]), indent=1).encode())
    old = dst + ".old%d" % os.getpid()
    if os.path.exists(dst):
        os.rename(dst, old)
    os.rename(tmp, dst)
    shutil.rmtree(old, ignore_errors=True)
    print("pki/c09: %d kinds in %s" % (len(kinds), dst))


if __name__ == "__main__":
    if "--c09" in sys.argv:
        main_c09()
    else:
        main()
