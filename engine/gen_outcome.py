#!/usr/bin/python3
"""Regenerates the two lists of DESIGN.md 5.2 (fix: commits in /repo, known findings) from git and known_findings.json."""
import json
import os
import re
import subprocess

V = os.path.dirname(os.path.dirname(os.path.abspath(__file__)))
p = os.path.join(V, "DESIGN.md")
s = open(p).read()
log = subprocess.run(["git", "-C", "/repo", "log", "--reverse", "--format=%h %s", "--grep=^fix:"], capture_output=True, text=True).stdout
fixes = [l for l in log.splitlines() if l.split(" ", 1)[1].startswith("fix:")]
k = json.load(open(os.path.join(V, "known_findings.json")))["findings"]
known = [e for e in k if e["status"] == "known"]
i = s.index("### 5.2 Outcome")
j = s.index("## 6. Limits")
body = s[i:j]
a = body.index("* `")
head = body[:a]
head = re.sub(r"\*\*\d+ defects were repaired\*\*", "**%d defects were repaired**" % len(fixes), head)
out = head + "\n".join("* `%s`" % f for f in fixes) + "\n\n"
out += ("**%d signatures remain as known findings** (genuine, reproduced, but their repair is not a small safe patch; listed in "
        "`known_findings.json`, each check prints them as KNOWN-FINDING lines and exits 0):\n\n" % len(known))
out += "\n".join("* `%s` - %s" % (e["signature"], e["summary"]) for e in known) + "\n\n"
s = s[:i] + out + s[j:]
open(p, "w").write(s)
print(len(fixes), "fixes,", len(known), "known")
