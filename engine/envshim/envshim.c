/* envshim.c - see envshim.h.  Linked with -Wl,--wrap=<sym> for every __wrap_ function below. */
#define _GNU_SOURCE
#include "envshim.h"
#include "mcx.h"

#include <arpa/inet.h>
#include <dirent.h>
#include <errno.h>
#include <fcntl.h>
#include <netinet/in.h>
#include <netinet/tcp.h>
#include <poll.h>
#include <stddef.h>
#include <stdio.h>
#include <stdlib.h>
#include <string.h>
#include <sys/epoll.h>
#include <sys/eventfd.h>
#include <sys/ioctl.h>
#include <sys/select.h>
#include <sys/socket.h>
#include <sys/timerfd.h>
#include <sys/un.h>
#include <time.h>
#include <unistd.h>

/* ---- real functions ---------------------------------------------------------------- */
int __real_socket(int, int, int);
int __real_bind(int, const struct sockaddr *, socklen_t);
int __real_listen(int, int);
int __real_connect(int, const struct sockaddr *, socklen_t);
int __real_accept4(int, struct sockaddr *, socklen_t *, int);
int __real_accept(int, struct sockaddr *, socklen_t *);
ssize_t __real_send(int, const void *, size_t, int);
ssize_t __real_recv(int, void *, size_t, int);
int __real_close(int);
int __real_getsockname(int, struct sockaddr *, socklen_t *);
int __real_getpeername(int, struct sockaddr *, socklen_t *);
int __real_setsockopt(int, int, int, const void *, socklen_t);
int __real_getsockopt(int, int, int, void *, socklen_t *);
int __real_poll(struct pollfd *, nfds_t, int);
int __real_ppoll(struct pollfd *, nfds_t, const struct timespec *, const sigset_t *);
int __real_select(int, fd_set *, fd_set *, fd_set *, struct timeval *);
int __real_epoll_create1(int);
int __real_epoll_ctl(int, int, int, struct epoll_event *);
int __real_epoll_wait(int, struct epoll_event *, int, int);
int __real_eventfd(unsigned, int);
int __real_timerfd_create(int, int);
int __real_timerfd_settime(int, int, const struct itimerspec *, struct itimerspec *);
int __real_clock_gettime(clockid_t, struct timespec *);
int __real_nanosleep(const struct timespec *, struct timespec *);
int __real_usleep(useconds_t);
unsigned __real_sleep(unsigned);
FILE *__real_fopen(const char *, const char *);

/* optional observer (additive, used by C15's h_thr): called at the entry of every wrapped call with the
   call's name and its first arguments; NULL (the default) = no effect whatsoever */
void (*env_syscall_hook)(const char *name, long a, long b, long c);
#define ENV_HOOK(name, a, b, c) do { if (env_syscall_hook) env_syscall_hook(name, (long)(a), (long)(b), (long)(c)); } while (0)

#define MAXFD 2048
#define ZOMBIE_BASE 3000      /* parked half-closed ends live above every descriptor the library can own */
static int n_zombies;
static int fd_hi;     /* highest descriptor number ever tracked + 1 */

enum { K_NONE = 0, K_TCP, K_UNIXSEQ, K_TIMER, K_EPOLL, K_EVENTFD, K_OTHER };
enum { TS_NEW = 0, TS_LISTEN, TS_CONNECTING, TS_CONNECTED, TS_FAILED };

struct ipport {
    int family;
    unsigned char ip[16];
    int port;
    unsigned scope;
};

struct sopt {
    int level, opt, val;
};

struct efd {
    int kind;
    int lib;               /* created while an XCM API call was in progress */
    int raw;               /* harness-owned: no choice points */
    /* emulated TCP */
    int family;
    int state;
    int bound, bound_fixed_port;
    int rebind_ok;         /* disconnected after a port-0 binding: Linux lets bind() succeed again (DESIGN 1.6 b) */
    struct ipport local, remote;
    int conn_pending;      /* the library has not been told the outcome yet */
    int conn_err;          /* outcome: 0 = connected */
    int so_error;
    int silent;
    int peer_fd;
    int peer_closed;       /* the other end closed orderly */
    int zombie_fd;         /* >0: the peer's closed end, parked half-closed so that this end sees what TCP shows
                              after a FIN (EPOLLIN|EPOLLRDHUP) rather than AF_UNIX's EPOLLHUP */
    int swallowed;
    int reset_pending;
    int stalled;
    int trickle_n, trickle_left;
    int dead;              /* after an injected fault */
    int nonblock;
    uint64_t bytes_out, bytes_in;
    int nopts;
    struct sopt opts[24];
    int seq;               /* creation sequence number */
    /* timer */
    int armed, fired;
    int64_t expiry_ns;
};

static struct efd fdt[MAXFD];
static struct env_cfg cfg = { .io_menu = 0, .only_task = -1 };
static int64_t vclock_ns = 1000LL * 1000000000LL;
static int next_eport = 40000;
static int seq_counter;
static int stray_closes;
static int data_calls;
static int last_tcp_fd = -1;

struct ereg {
    int epfd, fd;
    unsigned events;
    uint64_t data;
    int applied;
    unsigned applied_events;
};
#define MAXREG 512
static struct ereg regs[MAXREG];
static int nregs;

#define MAXLOG 256
static struct { int fd, level, opt, val; } sopt_log[MAXLOG];
static int n_sopt_log;
static struct { int fd; struct ipport a; } bind_log[MAXLOG], conn_log[MAXLOG];
static int n_bind_log, n_conn_log;

struct pol {
    struct ipport ip;
    enum env_policy p;
};
static struct pol pols[32];
static int npols;
static struct ipport local_addrs[16];
static int nlocal;

/* ------------------------------------------------------------------------------------ */
struct env_cfg *env_cfg(void) { return &cfg; }
int64_t env_now_ns(void) { return vclock_ns; }
int64_t mc_env_now_ns(void) { return vclock_ns; }
int env_real_close(int fd) { return __real_close(fd); }
int env_stray_closes(void) { return stray_closes; }
int env_data_calls(void) { return data_calls; }
static int n_transient_faults;
int env_transient_faults(void) { return n_transient_faults; }
int env_last_tcp_fd_created(void) { return last_tcp_fd; }
bool env_is_emulated_tcp(int fd) { return fd >= 0 && fd < MAXFD && fdt[fd].kind == K_TCP; }
void env_set_raw(int fd) { if (fd >= 0 && fd < MAXFD) fdt[fd].raw = 1; }
uint64_t env_bytes_out(int fd) { return fdt[fd].bytes_out; }
uint64_t env_bytes_in(int fd) { return fdt[fd].bytes_in; }
int env_conn_fd_peer(int fd) { return fdt[fd].peer_fd; }

static int in_api(void) { return mc_cur_api()[0] != 0; }

/* ---- forked child: calls that alter a kernel object shared with the owner (additive, used by h_life) --------
 * In a process whose pid differs from env_owner_pid every descriptor known to the shim at the first wrapped call
 * after the fork is an INHERITED duplicate: the open file description (epoll instance, timerfd, socket, eventfd)
 * is the owner's.  close() of such a duplicate is what xcm_cleanup is for; epoll_ctl, timerfd_settime, setsockopt,
 * shutdown, send on it change what the owner sees. */
static pid_t env_owner_pid_fwd(void);
static pid_t env_child_pid;
static unsigned char env_inherited[MAXFD];
static int n_child_alt;
static char child_alt_first[64];

static const char *kind_name(int kind)
{
    switch (kind) {
    case K_TCP: return "tcp-socket";
    case K_UNIXSEQ: return "unix-socket";
    case K_TIMER: return "timerfd";
    case K_EPOLL: return "epoll";
    case K_EVENTFD: return "eventfd";
    default: return "descriptor";
    }
}

static int in_forked_child(void)
{
    pid_t owner = env_owner_pid_fwd();
    if (!owner)
        return 0;
    pid_t p = getpid();
    if (p == owner)
        return 0;
    if (p != env_child_pid) {
        env_child_pid = p;
        n_child_alt = 0;
        child_alt_first[0] = 0;
        for (int fd = 0; fd < MAXFD; fd++)
            env_inherited[fd] = fd < fd_hi && fdt[fd].kind != K_NONE;
    }
    return 1;
}

void env_note_child_call(const char *call, int fd)
{
    if (!in_forked_child() || fd < 0 || fd >= MAXFD || !env_inherited[fd])
        return;
    if (n_child_alt++ == 0)
        snprintf(child_alt_first, sizeof child_alt_first, "%s@%s", call, kind_name(fdt[fd].kind));
}

int env_child_alterations(char *what, size_t n)
{
    if (what && n)
        snprintf(what, n, "%s", child_alt_first);
    return in_forked_child() ? n_child_alt : 0;
}

static void fd_created(int fd, int kind)
{
    if (fd < 0 || fd >= MAXFD)
        return;
    if (in_forked_child())
        env_inherited[fd] = 0;      /* the child's own */
    memset(&fdt[fd], 0, sizeof fdt[fd]);
    if (fd >= fd_hi)
        fd_hi = fd + 1;
    fdt[fd].kind = kind;
    fdt[fd].lib = in_api();
    fdt[fd].peer_fd = -1;
    fdt[fd].seq = ++seq_counter;
}

static int parse_ip(const char *s, struct ipport *o)
{
    memset(o, 0, sizeof *o);
    if (inet_pton(AF_INET, s, o->ip) == 1) {
        o->family = AF_INET;
        return 0;
    }
    if (inet_pton(AF_INET6, s, o->ip) == 1) {
        o->family = AF_INET6;
        return 0;
    }
    return -1;
}

static int ip_eq(const struct ipport *a, const struct ipport *b)
{
    return a->family == b->family && memcmp(a->ip, b->ip, a->family == AF_INET ? 4 : 16) == 0;
}

static int ip_is_any(const struct ipport *a)
{
    static const unsigned char z[16];
    return memcmp(a->ip, z, a->family == AF_INET ? 4 : 16) == 0;
}

static int ip_is_loopback(const struct ipport *a)
{
    static const unsigned char l6[16] = { 0, 0, 0, 0, 0, 0, 0, 0, 0, 0, 0, 0, 0, 0, 0, 1 };
    if (a->family == AF_INET)
        return a->ip[0] == 127;
    return memcmp(a->ip, l6, 16) == 0;
}

static void ip_str(const struct ipport *a, char *buf, int len)
{
    inet_ntop(a->family, a->ip, buf, len);
}

static int sa_to_ipport(const struct sockaddr *sa, socklen_t len, struct ipport *o)
{
    memset(o, 0, sizeof *o);
    if (sa->sa_family == AF_INET && len >= sizeof(struct sockaddr_in)) {
        const struct sockaddr_in *s = (const void *)sa;
        o->family = AF_INET;
        memcpy(o->ip, &s->sin_addr, 4);
        o->port = ntohs(s->sin_port);
        return 0;
    }
    if (sa->sa_family == AF_INET6 && len >= sizeof(struct sockaddr_in6)) {
        const struct sockaddr_in6 *s = (const void *)sa;
        o->family = AF_INET6;
        memcpy(o->ip, &s->sin6_addr, 16);
        o->port = ntohs(s->sin6_port);
        o->scope = s->sin6_scope_id;
        return 0;
    }
    return -1;
}

static int ipport_to_sa(const struct ipport *a, int family, struct sockaddr *sa, socklen_t *len)
{
    if (family == AF_INET) {
        struct sockaddr_in s = { .sin_family = AF_INET, .sin_port = htons(a->port) };
        if (a->family == AF_INET)
            memcpy(&s.sin_addr, a->ip, 4);
        socklen_t n = *len < sizeof s ? *len : sizeof s;
        memcpy(sa, &s, n);
        *len = sizeof s;
    } else {
        struct sockaddr_in6 s = { .sin6_family = AF_INET6, .sin6_port = htons(a->port),
                                  .sin6_scope_id = a->scope };
        if (a->family == AF_INET6)
            memcpy(&s.sin6_addr, a->ip, 16);
        else if (a->family == AF_INET) {  /* v4-mapped */
            s.sin6_addr.s6_addr[10] = s.sin6_addr.s6_addr[11] = 0xff;
            memcpy(&s.sin6_addr.s6_addr[12], a->ip, 4);
        }
        socklen_t n = *len < sizeof s ? *len : sizeof s;
        memcpy(sa, &s, n);
        *len = sizeof s;
    }
    return 0;
}

static pid_t env_owner_pid;   /* the process that runs the scenario; a fork()ed child of it only holds duplicates */
static pid_t env_owner_pid_fwd(void) { return env_owner_pid; }

void env_init(const struct env_cfg *c)
{
    cfg = *c;
    env_owner_pid = getpid();
}

void env_policy_set(const char *ip, enum env_policy p)
{
    struct ipport a;
    if (parse_ip(ip, &a) < 0 || npols >= 32)
        return;
    for (int i = 0; i < npols; i++)
        if (ip_eq(&pols[i].ip, &a)) {
            pols[i].p = p;
            return;
        }
    pols[npols].ip = a;
    pols[npols++].p = p;
}

void env_local_addr_add(const char *ip)
{
    if (nlocal < 16 && parse_ip(ip, &local_addrs[nlocal]) == 0)
        nlocal++;
}

static enum env_policy policy_of(const struct ipport *a)
{
    for (int i = 0; i < npols; i++)
        if (ip_eq(&pols[i].ip, a))
            return pols[i].p;
    return ENV_AUTO;
}

static int is_local_addr(const struct ipport *a)
{
    if (ip_is_any(a) || ip_is_loopback(a))
        return 1;
    for (int i = 0; i < nlocal; i++)
        if (ip_eq(&local_addrs[i], a))
            return 1;
    /* addresses with an ACCEPT-ish policy that somebody listens on count as local */
    return 0;
}

/* ---- choice helpers ----------------------------------------------------------------- */
static int dev_enabled(struct efd *e)
{
    if (e->raw || !in_api())
        return 0;
    if (cfg.only_task >= 0 && mc_cur_task() != cfg.only_task)
        return 0;
    return 1;
}

static void mklabel(char *lb, size_t n, const char *op)
{
    const char *api = mc_cur_api();
    snprintf(lb, n, "%s:%s:%s", op, mc_cur_task_name(), api[0] ? api : "-");
}

/* ---- epoll interposition ------------------------------------------------------------ */
static struct ereg *reg_find(int epfd, int fd)
{
    for (int i = 0; i < nregs; i++)
        if (regs[i].epfd == epfd && regs[i].fd == fd)
            return &regs[i];
    return NULL;
}

static void reg_remove(struct ereg *r)
{
    *r = regs[--nregs];
}

static unsigned effective_events(struct ereg *r)
{
    unsigned ev = r->events;
    struct efd *e = &fdt[r->fd];
    if (e->kind == K_TCP && e->stalled)
        ev &= ~EPOLLOUT;
    return ev;
}

static int reg_apply(struct ereg *r)
{
    struct efd *e = &fdt[r->fd];
    if (e->kind == K_TCP && e->conn_pending) {
        /* withheld until the connect completes */
        if (r->applied) {
            __real_epoll_ctl(r->epfd, EPOLL_CTL_DEL, r->fd, NULL);
            r->applied = 0;
        }
        return 0;
    }
    unsigned ev = effective_events(r);
    struct epoll_event ee = { .events = ev };
    ee.data.u64 = r->data;
    int rc;
    if (!r->applied)
        rc = __real_epoll_ctl(r->epfd, EPOLL_CTL_ADD, r->fd, &ee);
    else if (ev != r->applied_events)
        rc = __real_epoll_ctl(r->epfd, EPOLL_CTL_MOD, r->fd, &ee);
    else
        rc = 0;
    if (rc == 0) {
        r->applied = 1;
        r->applied_events = ev;
    }
    return rc;
}

static void regs_reapply_fd(int fd)
{
    for (int i = 0; i < nregs; i++)
        if (regs[i].fd == fd)
            reg_apply(&regs[i]);
}

static void regs_drop_fd(int fd, int kernel_gone)
{
    for (int i = 0; i < nregs;) {
        if (regs[i].fd == fd || regs[i].epfd == fd) {
            if (!kernel_gone && regs[i].applied && regs[i].fd == fd)
                __real_epoll_ctl(regs[i].epfd, EPOLL_CTL_DEL, fd, NULL);
            reg_remove(&regs[i]);
        } else
            i++;
    }
}

int env_epoll_interest(int epfd, int fd)
{
    struct ereg *r = reg_find(epfd, fd);
    return r ? (int)r->events : -1;
}

int __wrap_epoll_create1(int flags)
{
    ENV_HOOK("epoll_create1", flags, 0, 0);
    if (cfg.fault_resource && in_api()) {
        int a = mc_choose(3, MC_FAULT, "fault:epoll_create1");
        if (a) {
            errno = a == 1 ? EMFILE : ENOMEM;
            return -1;
        }
    }
    int fd = __real_epoll_create1(flags);
    if (fd >= 0)
        fd_created(fd, K_EPOLL);
    return fd;
}

int __wrap_epoll_ctl(int epfd, int op, int fd, struct epoll_event *ev)
{
    ENV_HOOK("epoll_ctl", epfd, op, fd);
    env_note_child_call(op == EPOLL_CTL_ADD ? "epoll_ctl-add" : op == EPOLL_CTL_MOD ? "epoll_ctl-mod" : "epoll_ctl-del", epfd);
    if (fd < 0 || fd >= MAXFD || fdt[fd].kind != K_TCP)
        return __real_epoll_ctl(epfd, op, fd, ev);
    struct ereg *r = reg_find(epfd, fd);
    switch (op) {
    case EPOLL_CTL_ADD:
        if (r) {
            errno = EEXIST;
            return -1;
        }
        if (nregs >= MAXREG) {
            errno = ENOSPC;
            return -1;
        }
        r = &regs[nregs++];
        r->epfd = epfd;
        r->fd = fd;
        r->events = ev->events;
        r->data = ev->data.u64;
        r->applied = 0;
        r->applied_events = 0;
        if (reg_apply(r) < 0) {
            int e = errno;
            reg_remove(r);
            errno = e;
            return -1;
        }
        return 0;
    case EPOLL_CTL_MOD:
        if (!r) {
            errno = ENOENT;
            return -1;
        }
        r->events = ev->events;
        r->data = ev->data.u64;
        return reg_apply(r);
    case EPOLL_CTL_DEL:
        if (!r) {
            errno = ENOENT;
            return -1;
        }
        if (r->applied)
            __real_epoll_ctl(epfd, EPOLL_CTL_DEL, fd, NULL);
        reg_remove(r);
        return 0;
    }
    errno = EINVAL;
    return -1;
}

/* ---- sleeping primitives (C05 monitor + blocking points) ---------------------------- */
static void sleep_monitor(const char *what)
{
    if (cfg.sleep_monitor && mc_cur_api()[0] && mc_cur_api_nonblocking()) {
        char sig[160];
        snprintf(sig, sizeof sig, "C05/sleep/%s/in=%s", what, mc_cur_api());
        if (!mc_in_task())
            mc_fail(sig, "%s (a call that may sleep) issued inside %s on a socket in non-blocking mode",
                    what, mc_cur_api());
        mc_violation(sig, "%s (a call that may sleep) issued inside %s on a socket in non-blocking mode",
                     what, mc_cur_api());
    }
}

static int poll_emulated(struct pollfd *fds, nfds_t n)
{
    /* answers for emulated fds whose state the real socket does not reflect */
    int saved[32];
    short forced[32];
    if (n > 32)
        return __real_poll(fds, n, 0);
    for (nfds_t i = 0; i < n; i++) {
        saved[i] = fds[i].fd;
        forced[i] = 0;
        int fd = fds[i].fd;
        if (fd >= 0 && fd < MAXFD && fdt[fd].kind == K_TCP) {
            struct efd *e = &fdt[fd];
            if (e->conn_pending) {
                fds[i].fd = -1;
            } else if (e->state == TS_FAILED) {
                fds[i].fd = -1;
                forced[i] = (fds[i].events & (POLLOUT | POLLIN)) | POLLERR | POLLHUP;
            } else if (e->stalled && (fds[i].events & POLLOUT)) {
                fds[i].events &= ~POLLOUT;
                forced[i] = -1; /* marker: restore events */
            }
        }
    }
    int rc = __real_poll(fds, n, 0);
    int cnt = 0;
    for (nfds_t i = 0; i < n; i++) {
        if (fds[i].fd == -1 && saved[i] != -1) {
            fds[i].fd = saved[i];
            fds[i].revents = forced[i] > 0 ? forced[i] : 0;
        } else if (forced[i] == -1)
            fds[i].events |= POLLOUT;
        /* once the peer's RST is in (first write after its FIN) TCP reports POLLERR next to POLLHUP */
        if (fds[i].fd >= 0 && fds[i].fd < MAXFD && fdt[fds[i].fd].kind == K_TCP && fdt[fds[i].fd].swallowed &&
            (fds[i].revents & POLLHUP))
            fds[i].revents |= POLLERR;
        if (fds[i].revents)
            cnt++;
    }
    (void)rc;
    return cnt;
}

int __wrap_poll(struct pollfd *fds, nfds_t n, int timeout)
{
    ENV_HOOK("poll", fds, n, timeout);
    if (timeout == 0)
        return poll_emulated(fds, n);
    sleep_monitor("poll");
    if (!mc_in_task())
        return __real_poll(fds, n, timeout);
    return mc_block_poll(fds, n, timeout);
}

int __wrap_ppoll(struct pollfd *fds, nfds_t n, const struct timespec *ts, const sigset_t *ss)
{
    ENV_HOOK("ppoll", fds, n, 0);
    if (ts && ts->tv_sec == 0 && ts->tv_nsec == 0)
        return poll_emulated(fds, n);
    sleep_monitor("ppoll");
    if (!mc_in_task())
        return __real_ppoll(fds, n, ts, ss);
    return mc_block_poll(fds, n, ts ? (int)(ts->tv_sec * 1000 + ts->tv_nsec / 1000000) : -1);
}

int __wrap_select(int nfds, fd_set *r, fd_set *w, fd_set *x, struct timeval *tv)
{
    ENV_HOOK("select", nfds, 0, 0);
    if (!(tv && tv->tv_sec == 0 && tv->tv_usec == 0))
        sleep_monitor("select");
    return __real_select(nfds, r, w, x, tv);
}

int __wrap_epoll_wait(int epfd, struct epoll_event *evs, int max, int timeout)
{
    ENV_HOOK("epoll_wait", epfd, max, timeout);
    if (mc_in_task() && timeout != 0) {
        sleep_monitor("epoll_wait");
        struct pollfd p = { .fd = epfd, .events = POLLIN };
        int rc = mc_block_poll(&p, 1, timeout);
        if (rc < 0)
            return rc;
        timeout = 0;
    }
    return __real_epoll_wait(epfd, evs, max, timeout);
}

int __wrap_nanosleep(const struct timespec *req, struct timespec *rem)
{
    ENV_HOOK("nanosleep", 0, 0, 0);
    if (mc_in_task()) {
        sleep_monitor("nanosleep");
        vclock_ns += (int64_t)req->tv_sec * 1000000000LL + req->tv_nsec;
        return 0;
    }
    return __real_nanosleep(req, rem);
}

int __wrap_usleep(useconds_t us)
{
    ENV_HOOK("usleep", us, 0, 0);
    if (mc_in_task()) {
        sleep_monitor("usleep");
        vclock_ns += (int64_t)us * 1000;
        return 0;
    }
    return __real_usleep(us);
}

unsigned __wrap_sleep(unsigned s)
{
    ENV_HOOK("sleep", s, 0, 0);
    if (mc_in_task()) {
        sleep_monitor("sleep");
        vclock_ns += (int64_t)s * 1000000000LL;
        return 0;
    }
    return __real_sleep(s);
}

static void blocking_fd_monitor(int fd, const char *call)
{
    if (!cfg.sleep_monitor || !mc_cur_api()[0] || !mc_cur_api_nonblocking())
        return;
    int fl = fcntl(fd, F_GETFL, 0);
    if (fl >= 0 && !(fl & O_NONBLOCK)) {
        char sig[160];
        snprintf(sig, sizeof sig, "C05/blocking-fd/%s/in=%s", call, mc_cur_api());
        mc_violation(sig, "%s on a descriptor without O_NONBLOCK inside %s on a non-blocking socket",
                     call, mc_cur_api());
    }
}

/* ---- time ----------------------------------------------------------------------------- */
int __wrap_clock_gettime(clockid_t id, struct timespec *ts)
{
    ENV_HOOK("clock_gettime", id, 0, 0);
    if (id == CLOCK_MONOTONIC || id == CLOCK_MONOTONIC_RAW || id == CLOCK_MONOTONIC_COARSE ||
        id == CLOCK_BOOTTIME) {
        ts->tv_sec = vclock_ns / 1000000000LL;
        ts->tv_nsec = vclock_ns % 1000000000LL;
        return 0;
    }
    return __real_clock_gettime(id, ts);
}

static void timer_fire(int fd)
{
    uint64_t one = 1;
    if (!fdt[fd].fired) {
        if (write(fd, &one, sizeof one) < 0) {
        }
        fdt[fd].fired = 1;
    }
}

static void timer_drain(int fd)
{
    uint64_t v;
    if (fdt[fd].fired) {
        if (read(fd, &v, sizeof v) < 0) {
        }
        fdt[fd].fired = 0;
    }
}

static void timers_check(void)
{
    for (int fd = 0; fd < fd_hi; fd++)
        if (fdt[fd].kind == K_TIMER && fdt[fd].armed && fdt[fd].expiry_ns <= vclock_ns)
            timer_fire(fd);
}

void env_advance_ns(int64_t d)
{
    vclock_ns += d;
    timers_check();
}

int64_t mc_next_poll_deadline_ns(void);

static int64_t next_deadline(void)
{
    int64_t best = -1;
    for (int fd = 0; fd < fd_hi; fd++)
        if (fdt[fd].kind == K_TIMER && fdt[fd].armed && !fdt[fd].fired && fdt[fd].expiry_ns > vclock_ns)
            if (best < 0 || fdt[fd].expiry_ns < best)
                best = fdt[fd].expiry_ns;
    int64_t pd = mc_next_poll_deadline_ns();
    if (pd > vclock_ns && (best < 0 || pd < best))
        best = pd;
    return best;
}

static int ev_clock_enabled(void *a)
{
    (void)a;
    return next_deadline() >= 0;
}

static void ev_clock_fire(void *a)
{
    (void)a;
    int64_t d = next_deadline();
    if (d >= 0) {
        vclock_ns = d + 1000;
        timers_check();
    }
}

int __wrap_timerfd_create(int clockid, int flags)
{
    ENV_HOOK("timerfd_create", clockid, flags, 0);
    (void)clockid;
    if (cfg.fault_resource && in_api()) {
        int a = mc_choose(3, MC_FAULT, "fault:timerfd_create");
        if (a) {
            errno = a == 1 ? EMFILE : ENOMEM;
            return -1;
        }
    }
    int fd = __real_eventfd(0, EFD_NONBLOCK | ((flags & TFD_CLOEXEC) ? EFD_CLOEXEC : 0));
    if (fd >= 0)
        fd_created(fd, K_TIMER);
    return fd;
}

int __wrap_timerfd_settime(int fd, int flags, const struct itimerspec *nv, struct itimerspec *ov)
{
    ENV_HOOK("timerfd_settime", fd, flags, 0);
    env_note_child_call("timerfd_settime", fd);
    if (fd < 0 || fd >= MAXFD || fdt[fd].kind != K_TIMER)
        return __real_timerfd_settime(fd, flags, nv, ov);
    if (ov)
        memset(ov, 0, sizeof *ov);
    struct efd *e = &fdt[fd];
    timer_drain(fd);
    int64_t v = (int64_t)nv->it_value.tv_sec * 1000000000LL + nv->it_value.tv_nsec;
    if (v == 0) {
        e->armed = 0;
        return 0;
    }
    e->armed = 1;
    e->expiry_ns = (flags & TFD_TIMER_ABSTIME) ? v : vclock_ns + v;
    /* timer_mgr passes a relative value with TFD_TIMER_ABSTIME only if it means it; honour the flag */
    if (e->expiry_ns <= vclock_ns)
        timer_fire(fd);
    return 0;
}

/* ---- socket creation -------------------------------------------------------------------- */
static int res_fault(const char *what, const int *errnos, int n)
{
    if (!cfg.fault_resource || !in_api())
        return 0;
    char lb[48];
    snprintf(lb, sizeof lb, "fault:%s", what);
    int a = mc_choose(n + 1, MC_FAULT, lb);
    if (a) {
        errno = errnos[a - 1];
        return -1;
    }
    return 0;
}

int __wrap_socket(int domain, int type, int proto)
{
    ENV_HOOK("socket", domain, type, proto);
    static const int errs[] = { EMFILE, ENFILE, ENOMEM, ENOBUFS };
    if (res_fault("socket", errs, 4) < 0)
        return -1;
    if ((domain == AF_INET || domain == AF_INET6) && (type & 0xf) == SOCK_STREAM) {
        int fd = __real_socket(AF_UNIX, SOCK_STREAM | (type & (SOCK_NONBLOCK | SOCK_CLOEXEC)), 0);
        if (fd < 0)
            return -1;
        if (fd >= MAXFD) {
            __real_close(fd);
            errno = EMFILE;
            return -1;
        }
        fd_created(fd, K_TCP);
        fdt[fd].family = domain;
        fdt[fd].nonblock = !!(type & SOCK_NONBLOCK);
        fdt[fd].local.family = domain;
        int sz = 1 << 20;
        __real_setsockopt(fd, SOL_SOCKET, SO_SNDBUF, &sz, sizeof sz);
        last_tcp_fd = fd;
        return fd;
    }
    int fd = __real_socket(domain, type, proto);
    if (fd >= 0 && fd < MAXFD) {
        fd_created(fd, (domain == AF_UNIX && (type & 0xf) == SOCK_SEQPACKET) ? K_UNIXSEQ : K_OTHER);
    }
    return fd;
}

int __wrap_eventfd(unsigned init, int flags)
{
    ENV_HOOK("eventfd", init, flags, 0);
    static const int errs[] = { EMFILE, ENFILE, ENOMEM };
    if (res_fault("eventfd", errs, 3) < 0)
        return -1;
    int fd = __real_eventfd(init, flags);
    if (fd >= 0 && fd < MAXFD)
        fd_created(fd, K_EVENTFD);
    return fd;
}

/* ---- emulated TCP: naming --------------------------------------------------------------- */
static socklen_t un_name(struct sockaddr_un *un, const char *fmt, ...)
{
    memset(un, 0, sizeof *un);
    un->sun_family = AF_UNIX;
    va_list ap;
    va_start(ap, fmt);
    int n = vsnprintf(un->sun_path + 1, sizeof un->sun_path - 2, fmt, ap);
    va_end(ap);
    return offsetof(struct sockaddr_un, sun_path) + 1 + n;
}

static int port_in_use(int fd, const struct ipport *a)
{
    for (int o = 0; o < fd_hi; o++) {
        struct efd *e = &fdt[o];
        if (o == fd || e->kind != K_TCP || !e->bound || e->local.port != a->port)
            continue;
        /* same port: conflict if addresses overlap and either is listening or lacks reuse */
        int overlap;
        if (e->local.family == a->family)
            overlap = ip_is_any(&e->local) || ip_is_any(a) || ip_eq(&e->local, a);
        else
            overlap = ip_is_any(&e->local) && ip_is_any(a);     /* dual-stack wildcard */
        if (!overlap)
            continue;
        int ra = 0, rb = 0;
        env_sockopt_get(o, SOL_SOCKET, SO_REUSEADDR, &ra);
        env_sockopt_get(fd, SOL_SOCKET, SO_REUSEADDR, &rb);
        if (e->state == TS_LISTEN || !ra || !rb)
            return 1;
    }
    return 0;
}

int __wrap_bind(int fd, const struct sockaddr *sa, socklen_t len)
{
    ENV_HOOK("bind", fd, sa, len);
    static const int errs[] = { EADDRINUSE, EADDRNOTAVAIL, EACCES };
    if (fd < 0 || fd >= MAXFD || fdt[fd].kind != K_TCP) {
        if (res_fault("bind", errs, 3) < 0)
            return -1;
        return __real_bind(fd, sa, len);
    }
    struct efd *e = &fdt[fd];
    struct ipport a;
    if (sa_to_ipport(sa, len, &a) < 0 || a.family != e->family) {
        errno = a.family != e->family ? EAFNOSUPPORT : EINVAL;
        return -1;
    }
    if (n_bind_log < MAXLOG) {
        bind_log[n_bind_log].fd = fd;
        bind_log[n_bind_log++].a = a;
    }
    if (res_fault("bind", errs, 3) < 0)
        return -1;
    if (e->bound && !e->rebind_ok) {
        /* real kernel: a second bind fails with EINVAL when the socket already has a port */
        errno = EINVAL;
        return -1;
    }
    /* ... except after connect(AF_UNSPEC) when the port was not locked by the first bind (port 0
       or implicit binding): inet_num is 0 again and bind() succeeds (probed on loopback TCP) */
    e->rebind_ok = 0;
    if (!is_local_addr(&a)) {
        errno = EADDRNOTAVAIL;
        return -1;
    }
    if (a.port != 0 && port_in_use(fd, &a)) {
        errno = EADDRINUSE;
        return -1;
    }
    e->bound_fixed_port = a.port != 0;
    if (a.port == 0)
        a.port = next_eport++;
    e->local = a;
    e->bound = 1;
    return 0;
}

int __wrap_listen(int fd, int backlog)
{
    ENV_HOOK("listen", fd, backlog, 0);
    static const int errs[] = { EADDRINUSE };
    if (res_fault("listen", errs, 1) < 0)
        return -1;
    if (fd < 0 || fd >= MAXFD || fdt[fd].kind != K_TCP)
        return __real_listen(fd, backlog);
    struct efd *e = &fdt[fd];
    if (!e->bound) {
        e->local.family = e->family;
        e->local.port = next_eport++;
        e->bound = 1;
    }
    struct sockaddr_un un;
    socklen_t l = un_name(&un, "mcx-%d-L%d-%d", getpid(), e->family == AF_INET ? 4 : 6, e->local.port);
    if (__real_bind(fd, (struct sockaddr *)&un, l) < 0)
        return -1;
    if (__real_listen(fd, backlog) < 0)
        return -1;
    e->state = TS_LISTEN;
    return 0;
}

static int find_listener(const struct ipport *target)
{
    /* exact family first, then dual-stack v6 wildcard for v4 targets */
    for (int pass = 0; pass < 2; pass++)
        for (int fd = 0; fd < fd_hi; fd++) {
            struct efd *e = &fdt[fd];
            if (e->kind != K_TCP || e->state != TS_LISTEN || e->local.port != target->port)
                continue;
            if (pass == 0 && e->family == target->family &&
                (ip_is_any(&e->local) || ip_eq(&e->local, target)))
                return fd;
            if (pass == 1 && e->family == AF_INET6 && target->family == AF_INET && ip_is_any(&e->local))
                return fd;
        }
    return -1;
}

static void conn_complete(int fd)
{
    struct efd *e = &fdt[fd];
    if (!e->conn_pending)
        return;
    e->conn_pending = 0;
    if (e->conn_err) {
        e->state = TS_FAILED;
        e->so_error = e->conn_err;
    } else
        e->state = TS_CONNECTED;
    regs_reapply_fd(fd);
    /* a failed connect must wake an EPOLLOUT waiter: an unconnected AF_UNIX stream socket
       reports EPOLLOUT|EPOLLHUP, which is what TCP reports too (plus EPOLLERR) */
}

int env_pending_connects(void)
{
    int n = 0;
    for (int fd = 0; fd < fd_hi; fd++)
        if (fdt[fd].kind == K_TCP && fdt[fd].conn_pending && !fdt[fd].silent)
            n++;
    return n;
}

static int nth_pending(int k)
{
    for (int fd = 0; fd < fd_hi; fd++)
        if (fdt[fd].kind == K_TCP && fdt[fd].conn_pending && !fdt[fd].silent)
            if (k-- == 0)
                return fd;
    return -1;
}

static int ev_complete_enabled(void *a) { return nth_pending((int)(intptr_t)a) >= 0; }
static void ev_complete_fire(void *a)
{
    int fd = nth_pending((int)(intptr_t)a);
    if (fd >= 0) {
        mc_trace("env: connect on fd %d completes (%s)", fd, fdt[fd].conn_err ? strerror(fdt[fd].conn_err) : "ok");
        conn_complete(fd);
    }
}

void env_reset_deviations(void)
{
    /* end of the explored part of an execution: the environment behaves by default from here on */
    cfg.io_menu = 0;
    cfg.fault_data = cfg.fault_resource = cfg.fault_connect = cfg.fault_transient = 0;
    for (int fd = 0; fd < fd_hi; fd++)
        if (fdt[fd].kind == K_TCP) {
            fdt[fd].trickle_left = 0;
            if (fdt[fd].stalled) {
                fdt[fd].stalled = 0;
                regs_reapply_fd(fd);
            }
            if (fdt[fd].conn_pending && !fdt[fd].silent)
                conn_complete(fd);
        }
}

int env_stalled_count(void)
{
    int n = 0;
    for (int fd = 0; fd < fd_hi; fd++)
        if (fdt[fd].kind == K_TCP && fdt[fd].stalled)
            n++;
    return n;
}

static int nth_stalled(int k)
{
    for (int fd = 0; fd < fd_hi; fd++)
        if (fdt[fd].kind == K_TCP && fdt[fd].stalled)
            if (k-- == 0)
                return fd;
    return -1;
}

/* cfg.stall_until_read: the stall is a closed window, and a window opens when the receiver reads: the stall can
   only end once the peer has drained what this end wrote (or is gone).  With both ends stalled at once each
   needs the other to READ - the flow-control deadlock that a socket which lost its read interest falls into. */
static int stall_may_end(int fd)
{
    if (!cfg.stall_until_read)
        return 1;
    int p = fdt[fd].peer_fd;
    if (p < 0 || fdt[p].kind != K_TCP)
        return 1;
    int unread = 0;
    ioctl(p, FIONREAD, &unread);
    return unread == 0;
}

static int ev_unstall_enabled(void *a)
{
    int fd = nth_stalled((int)(intptr_t)a);
    return fd >= 0 && stall_may_end(fd);
}
static void ev_unstall_fire(void *a)
{
    int fd = nth_stalled((int)(intptr_t)a);
    if (fd >= 0) {
        fdt[fd].stalled = 0;
        regs_reapply_fd(fd);
        mc_trace("env: write stall on fd %d ends", fd);
    }
}

static int dns_ev_enabled(void *a);
static void dns_ev_fire(void *a);

void env_register_events(void)
{
    mc_event_create("connect-completes#0", ev_complete_enabled, ev_complete_fire, (void *)0);
    mc_event_create("connect-completes#1", ev_complete_enabled, ev_complete_fire, (void *)1);
    mc_event_create("connect-completes#2", ev_complete_enabled, ev_complete_fire, (void *)2);
    mc_event_create("unstall#0", ev_unstall_enabled, ev_unstall_fire, (void *)0);
    mc_event_create("unstall#1", ev_unstall_enabled, ev_unstall_fire, (void *)1);
    mc_event_create("dns-answer#0", dns_ev_enabled, dns_ev_fire, (void *)0);
    mc_event_create("dns-answer#1", dns_ev_enabled, dns_ev_fire, (void *)1);
    mc_event_create("clock-advance", ev_clock_enabled, ev_clock_fire, NULL);
}

static void tcp_disconnect(int fd)
{
    /* connect(AF_UNSPEC): a fresh socket under the same descriptor number.  The binding
       survives (as on Linux); socket options survive too. */
    struct efd *e = &fdt[fd];
    int fl = fcntl(fd, F_GETFL, 0);
    int nfd = __real_socket(AF_UNIX, SOCK_STREAM | ((fl & O_NONBLOCK) ? SOCK_NONBLOCK : 0), 0);
    if (nfd >= 0) {
        int sz = 1 << 20;
        __real_setsockopt(nfd, SOL_SOCKET, SO_SNDBUF, &sz, sizeof sz);
        dup2(nfd, fd);
        __real_close(nfd);
    }
    /* kernel registrations of the old description are gone */
    for (int i = 0; i < nregs; i++)
        if (regs[i].fd == fd)
            regs[i].applied = 0;
    if (e->peer_fd >= 0 && fdt[e->peer_fd].peer_fd == fd)
        fdt[e->peer_fd].peer_fd = -1;
    e->state = TS_NEW;
    e->seq = ++seq_counter;
    e->conn_pending = 0;
    e->conn_err = 0;
    e->so_error = 0;
    e->silent = 0;
    e->peer_fd = -1;
    e->peer_closed = e->swallowed = e->stalled = e->dead = 0;
    if (e->zombie_fd > 0) {
        __real_close(e->zombie_fd);
        n_zombies--;
        e->zombie_fd = 0;
    }
    memset(&e->remote, 0, sizeof e->remote);
    regs_reapply_fd(fd);
}

int __wrap_connect(int fd, const struct sockaddr *sa, socklen_t len)
{
    ENV_HOOK("connect", fd, sa, len);
    if (fd < 0 || fd >= MAXFD || fdt[fd].kind != K_TCP) {
        static const int errs[] = { EAGAIN, ECONNREFUSED, ENOENT };
        if (fd >= 0 && fd < MAXFD && fdt[fd].kind == K_UNIXSEQ && res_fault("connect", errs, 3) < 0)
            return -1;
        blocking_fd_monitor(fd, "connect");
        return __real_connect(fd, sa, len);
    }
    struct efd *e = &fdt[fd];
    if (sa->sa_family == AF_UNSPEC) {
        tcp_disconnect(fd);
        if (e->bound && !e->bound_fixed_port)
            e->rebind_ok = 1;
        return 0;
    }
    blocking_fd_monitor(fd, "connect");
    struct ipport t;
    if (sa_to_ipport(sa, len, &t) < 0 || t.family != e->family) {
        errno = EAFNOSUPPORT;
        return -1;
    }
    if (n_conn_log < MAXLOG) {
        conn_log[n_conn_log].fd = fd;
        conn_log[n_conn_log++].a = t;
    }
    if (e->state == TS_CONNECTED || e->state == TS_CONNECTING) {
        errno = e->state == TS_CONNECTED ? EISCONN : EALREADY;
        return -1;
    }
    if (cfg.fault_resource && in_api()) {
        static const int errs[] = { ENETUNREACH, EADDRNOTAVAIL, ENOBUFS };
        if (res_fault("connect", errs, 3) < 0)
            return -1;
    }
    enum env_policy p = policy_of(&t);
    if (p == ENV_UNREACH_SYNC) {
        errno = ENETUNREACH;
        return -1;
    }
    if (!e->bound) {
        e->local = t;              /* source address = destination's for loopback-style worlds */
        e->local.port = next_eport++;
        e->local.scope = 0;
        e->bound = 1;
    } else if (ip_is_any(&e->local)) {
        int port = e->local.port;
        e->local = t;
        e->local.port = port;
    }
    e->remote = t;
    e->conn_err = 0;
    e->silent = 0;
    int lfd = -1;
    switch (p) {
    case ENV_AUTO:
        lfd = find_listener(&t);
        if (lfd < 0)
            e->conn_err = ECONNREFUSED;
        break;
    case ENV_REFUSE: e->conn_err = ECONNREFUSED; break;
    case ENV_SILENT: e->silent = 1; break;
    case ENV_UNREACH: e->conn_err = EHOSTUNREACH; break;
    case ENV_NETUNREACH: e->conn_err = ENETUNREACH; break;
    case ENV_TIMEDOUT: e->conn_err = ETIMEDOUT; break;
    default: break;
    }
    if (lfd >= 0) {
        /* identify ourselves to the acceptor through the AF_UNIX peer name */
        struct sockaddr_un un;
        socklen_t l = un_name(&un, "mcx-%d-c-%d-%d", getpid(), fd, e->seq);
        __real_bind(fd, (struct sockaddr *)&un, l);
        struct efd *le = &fdt[lfd];
        l = un_name(&un, "mcx-%d-L%d-%d", getpid(), le->family == AF_INET ? 4 : 6, le->local.port);
        if (__real_connect(fd, (struct sockaddr *)&un, l) < 0) {
            if (errno == EAGAIN)       /* backlog full: SYN dropped */
                e->silent = 1;
            else
                e->conn_err = errno == ENOENT ? ECONNREFUSED : errno;
        }
    }
    if (cfg.fault_connect && !e->raw && in_api() && !e->silent) {
        /* the establishment ends in each errno a kernel can report */
        static const int errs[] = { ECONNREFUSED, ETIMEDOUT, EHOSTUNREACH, ENETUNREACH, ECONNRESET };
        char lb[48];
        mklabel(lb, sizeof lb, "connect-outcome");
        int a = mc_choose(6, MC_FAULT, lb);
        if (a) {
            e->conn_err = errs[a - 1];
            if (lfd >= 0) {
                /* the listener must not see this connection: replace the socket */
                int port = e->local.port;
                struct ipport rem = e->remote, loc = e->local;
                int err = e->conn_err;
                tcp_disconnect(fd);
                e->remote = rem;
                e->local = loc;
                e->local.port = port;
                e->conn_err = err;
            }
        }
    }
    e->state = TS_CONNECTING;
    e->conn_pending = 1;
    int nb = fcntl(fd, F_GETFL, 0) & O_NONBLOCK;
    if (!nb || e->raw) {
        /* blocking connect (harness peers): outcome at once */
        if (e->silent) {
            e->conn_err = ETIMEDOUT;
            e->silent = 0;
        }
        conn_complete(fd);
        if (e->state == TS_FAILED) {
            errno = e->so_error;
            e->so_error = 0;
            e->state = TS_NEW;
            return -1;
        }
        if (nb) {       /* raw non-blocking peer: report success directly */
            return 0;
        }
        return 0;
    }
    regs_reapply_fd(fd);      /* withhold epoll registrations while pending */
    if (!e->silent) {
        int pend = 0;
        if ((cfg.io_menu & ENV_IO_CONNPEND) && dev_enabled(e)) {
            char lb[48];
            mklabel(lb, sizeof lb, "connect-latency");
            pend = mc_choose_mask(2, MC_IO, lb, cfg.connpend_free ? 0 : 0xfffe);
        }
        if (!pend)
            conn_complete(fd);
    }
    errno = EINPROGRESS;
    return -1;
}

static int do_accept(int fd, struct sockaddr *sa, socklen_t *len, int flags)
{
    static const int errs[] = { EMFILE, ENFILE, ENOMEM, ENOBUFS, ECONNABORTED };
    if (fd < 0 || fd >= MAXFD || (fdt[fd].kind != K_TCP && fdt[fd].kind != K_UNIXSEQ))
        return __real_accept4(fd, sa, len, flags);
    blocking_fd_monitor(fd, "accept");
    struct efd *le = &fdt[fd];
    struct pollfd p = { .fd = fd, .events = POLLIN };
    int ready = __real_poll(&p, 1, 0) > 0 && (p.revents & POLLIN);
    if (ready && (cfg.io_menu & ENV_IO_ACCEPT) && dev_enabled(le)) {
        char lb[48];
        mklabel(lb, sizeof lb, "accept");
        if (mc_choose(2, MC_IO, lb) == 1) {
            errno = EAGAIN;
            return -1;
        }
    }
    if (ready && res_fault("accept4", errs, 5) < 0)
        return -1;
    if (le->kind == K_UNIXSEQ) {
        int nfd = __real_accept4(fd, sa, len, flags);
        if (nfd >= 0 && nfd < MAXFD) {
            fd_created(nfd, K_UNIXSEQ);
            fdt[nfd].raw = le->raw;
        }
        return nfd;
    }
    struct sockaddr_un un;
    socklen_t ul = sizeof un;
    memset(&un, 0, sizeof un);
    int nfd = __real_accept4(fd, (struct sockaddr *)&un, &ul, flags);
    if (nfd < 0)
        return -1;
    if (nfd >= MAXFD) {
        __real_close(nfd);
        errno = EMFILE;
        return -1;
    }
    fd_created(nfd, K_TCP);
    struct efd *e = &fdt[nfd];
    e->raw = le->raw;
    e->family = le->family;
    e->state = TS_CONNECTED;
    e->bound = 1;
    e->nonblock = !!(flags & SOCK_NONBLOCK);
    int sz = 1 << 20;
    __real_setsockopt(nfd, SOL_SOCKET, SO_SNDBUF, &sz, sizeof sz);
    int pid, cfd, cseq;
    if (sscanf(un.sun_path + 1, "mcx-%d-c-%d-%d", &pid, &cfd, &cseq) == 3 && cfd >= 0 && cfd < MAXFD &&
        fdt[cfd].kind == K_TCP && fdt[cfd].seq == cseq) {
        struct efd *c = &fdt[cfd];
        e->remote = c->local;
        e->local = c->remote;
        e->peer_fd = cfd;
        c->peer_fd = nfd;
        if (e->family == AF_INET6 && e->remote.family == AF_INET) {
            /* v4 client on a dual-stack listener: v4-mapped */
            struct ipport m = { .family = AF_INET6, .port = e->remote.port };
            m.ip[10] = m.ip[11] = 0xff;
            memcpy(&m.ip[12], e->remote.ip, 4);
            e->remote = m;
            struct ipport ml = { .family = AF_INET6, .port = e->local.port };
            ml.ip[10] = ml.ip[11] = 0xff;
            memcpy(&ml.ip[12], e->local.ip, 4);
            e->local = ml;
        }
    } else {
        /* the client died before we accepted: peer unknown */
        e->local = le->local;
        e->remote.family = le->family;
    }
    /* inherit socket options of the listener as TCP does for the ones XCM uses? no: XCM sets
       them explicitly on the accepted socket; start from an empty table */
    if (sa && len) {
        ipport_to_sa(&e->remote, e->family, sa, len);
    }
    return nfd;
}

int __wrap_accept4(int fd, struct sockaddr *sa, socklen_t *len, int flags)
{
    ENV_HOOK("accept4", fd, flags, 0);
    return do_accept(fd, sa, len, flags);
}

int __wrap_accept(int fd, struct sockaddr *sa, socklen_t *len)
{
    ENV_HOOK("accept", fd, 0, 0);
    return do_accept(fd, sa, len, 0);
}

int __wrap_getsockname(int fd, struct sockaddr *sa, socklen_t *len)
{
    ENV_HOOK("getsockname", fd, 0, 0);
    if (fd < 0 || fd >= MAXFD || fdt[fd].kind != K_TCP)
        return __real_getsockname(fd, sa, len);
    struct efd *e = &fdt[fd];
    struct ipport a = e->local;
    if (!e->bound) {
        memset(&a, 0, sizeof a);
        a.family = e->family;
    }
    return ipport_to_sa(&a, e->family, sa, len);
}

int __wrap_getpeername(int fd, struct sockaddr *sa, socklen_t *len)
{
    ENV_HOOK("getpeername", fd, 0, 0);
    if (fd < 0 || fd >= MAXFD || fdt[fd].kind != K_TCP)
        return __real_getpeername(fd, sa, len);
    struct efd *e = &fdt[fd];
    if (e->state != TS_CONNECTED || e->conn_pending) {
        errno = ENOTCONN;
        return -1;
    }
    return ipport_to_sa(&e->remote, e->family, sa, len);
}

/* ---- socket options ---------------------------------------------------------------------- */
int env_sockopt_get(int fd, int level, int opt, int *val)
{
    struct efd *e = &fdt[fd];
    for (int i = 0; i < e->nopts; i++)
        if (e->opts[i].level == level && e->opts[i].opt == opt) {
            *val = e->opts[i].val;
            return 0;
        }
    return -1;
}

static void sockopt_put(int fd, int level, int opt, int val)
{
    struct efd *e = &fdt[fd];
    for (int i = 0; i < e->nopts; i++)
        if (e->opts[i].level == level && e->opts[i].opt == opt) {
            e->opts[i].val = val;
            return;
        }
    if (e->nopts < 24)
        e->opts[e->nopts++] = (struct sopt){ level, opt, val };
}

int env_sockopt_log_count(void) { return n_sopt_log; }
void env_sockopt_log_entry(int i, int *fd, int *level, int *opt, int *val)
{
    *fd = sopt_log[i].fd;
    *level = sopt_log[i].level;
    *opt = sopt_log[i].opt;
    *val = sopt_log[i].val;
}
int env_bind_log_count(void) { return n_bind_log; }
void env_bind_log_entry(int i, int *fd, char *ip, int iplen, int *port)
{
    *fd = bind_log[i].fd;
    ip_str(&bind_log[i].a, ip, iplen);
    *port = bind_log[i].a.port;
}
int env_connect_log_count(void) { return n_conn_log; }
void env_connect_log_entry(int i, int *fd, char *ip, int iplen, int *port)
{
    *fd = conn_log[i].fd;
    ip_str(&conn_log[i].a, ip, iplen);
    *port = conn_log[i].a.port;
}

int __wrap_setsockopt(int fd, int level, int opt, const void *val, socklen_t len)
{
    ENV_HOOK("setsockopt", fd, level, opt);
    env_note_child_call("setsockopt", fd);
    if (fd < 0 || fd >= MAXFD || fdt[fd].kind != K_TCP) {
        if (fd >= 0 && fd < MAXFD && fdt[fd].kind == K_UNIXSEQ && cfg.fault_resource && in_api()) {
            static const int errs[] = { ENOMEM };
            if (res_fault("setsockopt", errs, 1) < 0)
                return -1;
        }
        return __real_setsockopt(fd, level, opt, val, len);
    }
    if (len < sizeof(int)) {
        errno = EINVAL;
        return -1;
    }
    int v;
    memcpy(&v, val, sizeof v);
    struct efd *e = &fdt[fd];
    int ok = 1;
    if (level == SOL_TCP) {
        switch (opt) {
        case TCP_NODELAY: break;
        case TCP_KEEPIDLE: case TCP_KEEPINTVL: ok = v >= 1 && v <= 32767; break;
        case TCP_KEEPCNT: ok = v >= 1 && v <= 127; break;
        case TCP_SYNCNT: ok = v >= 1 && v <= 127; break;
        case TCP_USER_TIMEOUT: ok = v >= 0; break;
        default: errno = ENOPROTOOPT; return -1;
        }
    } else if (level == SOL_SOCKET) {
        switch (opt) {
        case SO_KEEPALIVE: case SO_REUSEADDR: case SO_SNDBUF: case SO_RCVBUF: case SO_REUSEPORT: break;
        default: errno = ENOPROTOOPT; return -1;
        }
    } else if (level == SOL_IP) {
        if (opt != IP_TOS) {
            errno = ENOPROTOOPT;
            return -1;
        }
    } else if (level == SOL_IPV6) {
        if (e->family != AF_INET6) {
            errno = ENOPROTOOPT;
            return -1;
        }
        if (opt == IPV6_TCLASS)
            ok = v >= -1 && v <= 255;
        else if (opt != IPV6_V6ONLY) {
            errno = ENOPROTOOPT;
            return -1;
        }
    } else {
        errno = ENOPROTOOPT;
        return -1;
    }
    if (!ok) {
        errno = EINVAL;
        return -1;
    }
    if (cfg.fault_resource && in_api() && !e->raw) {
        static const int errs[] = { ENOBUFS };
        if (res_fault("setsockopt", errs, 1) < 0)
            return -1;
    }
    sockopt_put(fd, level, opt, v);
    if (n_sopt_log < MAXLOG) {
        sopt_log[n_sopt_log].fd = fd;
        sopt_log[n_sopt_log].level = level;
        sopt_log[n_sopt_log].opt = opt;
        sopt_log[n_sopt_log++].val = v;
    }
    return 0;
}

int __wrap_getsockopt(int fd, int level, int opt, void *val, socklen_t *len)
{
    ENV_HOOK("getsockopt", fd, level, opt);
    if (fd < 0 || fd >= MAXFD || fdt[fd].kind != K_TCP)
        return __real_getsockopt(fd, level, opt, val, len);
    struct efd *e = &fdt[fd];
    if (level == SOL_SOCKET && opt == SO_ERROR) {
        int v = e->so_error;
        e->so_error = 0;
        if (*len >= sizeof v) {
            memcpy(val, &v, sizeof v);
            *len = sizeof v;
        }
        return 0;
    }
    if (level == SOL_TCP && opt == TCP_INFO) {
        /* a deterministic tcp_info; the kernel truncates to the caller's length */
        struct {
            uint8_t tcpi_state, tcpi_ca_state, tcpi_retransmits, tcpi_probes, tcpi_backoff, tcpi_options;
            uint8_t tcpi_snd_wscale : 4, tcpi_rcv_wscale : 4;
            uint32_t tcpi_rto, tcpi_ato, tcpi_snd_mss, tcpi_rcv_mss, tcpi_unacked, tcpi_sacked, tcpi_lost,
                tcpi_retrans, tcpi_fackets, tcpi_last_data_sent, tcpi_last_ack_sent, tcpi_last_data_recv,
                tcpi_last_ack_recv, tcpi_pmtu, tcpi_rcv_ssthresh, tcpi_rtt, tcpi_rttvar, tcpi_snd_ssthresh,
                tcpi_snd_cwnd, tcpi_advmss, tcpi_reordering, tcpi_rcv_rtt, tcpi_rcv_space, tcpi_total_retrans;
            uint64_t tcpi_pacing_rate, tcpi_max_pacing_rate, tcpi_bytes_acked, tcpi_bytes_received;
            uint32_t tcpi_segs_out, tcpi_segs_in;
            uint32_t later_fields[32];
        } ti;    /* layout of the kernel's struct tcp_info (4.3 prefix) */
        memset(&ti, 0, sizeof ti);
        ti.tcpi_state = e->state == TS_CONNECTED ? 1 : (e->state == TS_LISTEN ? 10 : 7);
        ti.tcpi_rtt = 42;
        ti.tcpi_total_retrans = 0;
        ti.tcpi_segs_in = (unsigned)(e->bytes_in / 1000 + 2);
        ti.tcpi_segs_out = (unsigned)(e->bytes_out / 1000 + 2);
        socklen_t n = *len < sizeof ti ? *len : sizeof ti;
        memcpy(val, &ti, n);
        *len = n;
        return 0;
    }
    int v = 0;
    if (env_sockopt_get(fd, level, opt, &v) < 0) {
        /* kernel defaults */
        if (level == SOL_TCP && opt == TCP_KEEPIDLE) v = 7200;
        else if (level == SOL_TCP && opt == TCP_KEEPINTVL) v = 75;
        else if (level == SOL_TCP && opt == TCP_KEEPCNT) v = 9;
        else if (level == SOL_TCP && opt == TCP_SYNCNT) v = 6;
        else v = 0;
    }
    if (*len >= sizeof v) {
        memcpy(val, &v, sizeof v);
        *len = sizeof v;
    } else {
        errno = EINVAL;
        return -1;
    }
    return 0;
}

/* ---- data path ------------------------------------------------------------------------------ */
static int build_len_menu(size_t L, unsigned menu, int is_send, int *kinds, size_t *lens)
{
    /* kinds: 0 full, 1 short(len), 2 EAGAIN, 3 stall, 4 trickle(n) */
    int n = 0;
    kinds[n] = 0;
    lens[n++] = L;
    size_t cand[3];
    int nc = 0;
    if ((menu & ENV_IO_SHORT1) && L > 1)
        cand[nc++] = 1;
    if ((menu & ENV_IO_HALF) && L > 2)
        cand[nc++] = (L + 1) / 2;
    if ((menu & ENV_IO_ALLBUT1) && L > 3)
        cand[nc++] = L - 1;
    for (int i = 0; i < nc; i++) {
        int dup = 0;
        for (int j = 1; j < n; j++)
            if (lens[j] == cand[i])
                dup = 1;
        if (!dup && cand[i] < L) {
            kinds[n] = 1;
            lens[n++] = cand[i];
        }
    }
    if (menu & ENV_IO_EAGAIN) {
        kinds[n] = 2;
        lens[n++] = 0;
    }
    if (is_send && (menu & ENV_IO_STALL)) {
        kinds[n] = 3;
        lens[n++] = 0;
    }
    if (L > 1 && L <= 64) {
        if (menu & ENV_IO_TRICKLE1) {
            kinds[n] = 4;
            lens[n++] = 1;
        }
        if ((menu & ENV_IO_TRICKLE2) && L > 2) {
            kinds[n] = 4;
            lens[n++] = 2;
        }
        if ((menu & ENV_IO_TRICKLE3) && L > 3) {
            kinds[n] = 4;
            lens[n++] = 3;
        }
    }
    return n;
}

static int data_fault(struct efd *e, const char *op, int is_send)
{
    if (!cfg.fault_data || e->raw || !in_api())
        return 0;
    static const int errs[] = { ECONNRESET, ETIMEDOUT, EHOSTUNREACH, ENETUNREACH, EPIPE };
    char lb[48];
    mklabel(lb, sizeof lb, is_send ? "fault-send" : "fault-recv");
    int n = is_send ? 5 : 4;
    int a = mc_choose(n + 1, MC_FAULT, lb);
    (void)op;
    if (a) {
        e->dead = errs[a - 1];
        return errs[a - 1];
    }
    return 0;
}

static void kill_fd(int fd)
{
    /* the connection is gone as far as this end is concerned; the peer sees a reset */
    struct efd *e = &fdt[fd];
    if (e->peer_fd >= 0) {
        fdt[e->peer_fd].reset_pending = 1;
    }
    shutdown(fd, SHUT_RDWR);
}

ssize_t __wrap_send(int fd, const void *buf, size_t len, int flags)
{
    ENV_HOOK("send", fd, buf, len);
    env_note_child_call("send", fd);
    if (fd < 0 || fd >= MAXFD)
        return __real_send(fd, buf, len, flags);
    struct efd *e = &fdt[fd];
    if (e->kind == K_UNIXSEQ) {
        blocking_fd_monitor(fd, "send");
        if ((cfg.io_menu & ENV_IO_SEQPKT) && dev_enabled(e)) {
            char lb[48];
            mklabel(lb, sizeof lb, "sendpkt");
            if (mc_choose(2, MC_IO, lb) == 1) {
                errno = EAGAIN;
                return -1;
            }
        }
        return __real_send(fd, buf, len, flags);
    }
    if (e->kind != K_TCP)
        return __real_send(fd, buf, len, flags);
    blocking_fd_monitor(fd, "send");
    if (e->state != TS_CONNECTED || e->conn_pending) {
        errno = e->state == TS_FAILED ? EPIPE : ENOTCONN;
        return -1;
    }
    if (!e->raw)
        data_calls++;
    if (e->dead) {
        errno = EPIPE;
        return -1;
    }
    if (e->reset_pending) {
        e->reset_pending = 0;
        e->dead = ECONNRESET;
        errno = ECONNRESET;
        return -1;
    }
    if (len == 0)
        return __real_send(fd, buf, len, flags);
    if (cfg.fault_transient && !e->raw && in_api() && dev_enabled(e)) {
        /* the kernel is out of buffer memory for this one call; nothing is taken and the connection lives on */
        char lb[48];
        mklabel(lb, sizeof lb, "transient-send");
        int a = mc_choose(3, MC_FAULT, lb);
        if (a) {
            n_transient_faults++;
            errno = a == 1 ? ENOBUFS : ENOMEM;
            return -1;
        }
    }
    int f = data_fault(e, "send", 1);
    if (f) {
        kill_fd(fd);
        errno = f;
        return -1;
    }
    if (e->peer_closed) {
        /* TCP: the first write after the peer's FIN is accepted (and answered by RST),
           later ones fail with EPIPE.  A real kernel may also have the RST in already. */
        if (!e->swallowed) {
            /* either way the peer's RST is in afterwards: the socket then reports EPOLLERR|EPOLLHUP on a real
               kernel; dropping the parked half-closed end raises AF_UNIX's EPOLLHUP */
            if (e->zombie_fd > 0) {
                __real_close(e->zombie_fd);
                n_zombies--;
                e->zombie_fd = 0;
            }
            int at_once = 0;
            if ((cfg.io_menu & ENV_IO_FINSWALLOW) && dev_enabled(e)) {
                char lb[48];
                mklabel(lb, sizeof lb, "send-after-fin");
                at_once = mc_choose(2, MC_IO, lb);
            }
            if (!at_once) {
                e->swallowed = 1;
                e->bytes_out += len;
                return len;
            }
            e->swallowed = 1;
        }
        errno = EPIPE;
        return -1;
    }
    if (e->stalled) {
        errno = EAGAIN;
        return -1;
    }
    size_t want = len;
    if (e->trickle_left > 0) {
        e->trickle_left--;
        if (want > (size_t)e->trickle_n)
            want = e->trickle_n;
    } else if (dev_enabled(e) && (cfg.io_menu & 0x87f)) {
        int kinds[12];
        size_t lens[12];
        int n = build_len_menu(len, cfg.io_menu, 1, kinds, lens);
        if (n > 1) {
            char lb[48];
            mklabel(lb, sizeof lb, "send");
            int a = mc_choose(n, MC_IO, lb);
            switch (kinds[a]) {
            case 1: want = lens[a]; break;
            case 2: errno = EAGAIN; return -1;
            case 3:
                e->stalled = 1;
                regs_reapply_fd(fd);
                mc_trace("env: write stall begins on fd %d", fd);
                if (cfg.stall_until_read && len > 1) {
                    /* flow control: the window closes BEHIND a part of this write; it opens again when the
                       peer has read that part (stall_may_end) */
                    want = len / 2;
                    break;
                }
                errno = EAGAIN;
                return -1;
            case 4:
                e->trickle_n = lens[a];
                e->trickle_left = 11;
                want = lens[a];
                break;
            }
        }
    }
    ssize_t rc = __real_send(fd, buf, want, flags | MSG_NOSIGNAL);
    if (rc > 0)
        e->bytes_out += rc;
    else if (rc < 0 && errno == EPIPE && e->peer_fd < 0) {
        /* peer vanished abruptly (reset) */
        errno = ECONNRESET;
    }
    return rc;
}

ssize_t __wrap_recv(int fd, void *buf, size_t cap, int flags)
{
    ENV_HOOK("recv", fd, buf, cap);
    if (fd < 0 || fd >= MAXFD)
        return __real_recv(fd, buf, cap, flags);
    struct efd *e = &fdt[fd];
    if (e->kind == K_UNIXSEQ) {
        blocking_fd_monitor(fd, "recv");
        if ((cfg.io_menu & ENV_IO_SEQPKT) && dev_enabled(e)) {
            struct pollfd p = { .fd = fd, .events = POLLIN };
            if (__real_poll(&p, 1, 0) > 0 && (p.revents & POLLIN)) {
                char lb[48];
                mklabel(lb, sizeof lb, "recvpkt");
                if (mc_choose(2, MC_IO, lb) == 1) {
                    errno = EAGAIN;
                    return -1;
                }
            }
        }
        return __real_recv(fd, buf, cap, flags);
    }
    if (e->kind != K_TCP)
        return __real_recv(fd, buf, cap, flags);
    blocking_fd_monitor(fd, "recv");
    if (e->state != TS_CONNECTED || e->conn_pending) {
        errno = ENOTCONN;
        return -1;
    }
    if (!e->raw)
        data_calls++;
    if (e->dead)
        return 0;
    if (cap == 0) {
        /* a zero-length read on a TCP socket (checked on real loopback, conformance/conf.c): 0 when data is
           queued or the peer has closed, EAGAIN when there is nothing to read */
        int av = 0;
        char pk;
        ioctl(fd, FIONREAD, &av);
        if (av > 0 || e->reset_pending || __real_recv(fd, &pk, 1, MSG_PEEK | MSG_DONTWAIT) == 0)
            return 0;
        errno = EAGAIN;
        return -1;
    }
    int f = data_fault(e, "recv", 0);
    if (f) {
        kill_fd(fd);
        errno = f;
        return -1;
    }
    int avail = 0;
    ioctl(fd, FIONREAD, &avail);
    size_t L = (size_t)avail < cap ? (size_t)avail : cap;
    size_t want = cap;
    if (avail > 0) {
        if (e->trickle_left > 0) {
            e->trickle_left--;
            if (want > (size_t)e->trickle_n)
                want = e->trickle_n;
        } else if (dev_enabled(e) && (cfg.io_menu & 0x86f)) {
            int kinds[12];
            size_t lens[12];
            int n = build_len_menu(L, cfg.io_menu & ~ENV_IO_STALL, 0, kinds, lens);
            if (n > 1) {
                char lb[48];
                mklabel(lb, sizeof lb, "recv");
                int a = mc_choose(n, MC_IO, lb);
                switch (kinds[a]) {
                case 1: want = lens[a]; break;
                case 2: errno = EAGAIN; return -1;
                case 4:
                    e->trickle_n = lens[a];
                    e->trickle_left = 11;
                    want = lens[a];
                    break;
                }
            }
        }
    } else if (e->reset_pending) {
        e->reset_pending = 0;
        e->dead = ECONNRESET;
        errno = ECONNRESET;
        return -1;
    }
    ssize_t rc = __real_recv(fd, buf, want, flags);
    if (rc > 0)
        e->bytes_in += rc;
    return rc;
}

/* ---- close --------------------------------------------------------------------------------- */
int __wrap_close(int fd)
{
    ENV_HOOK("close", fd, 0, 0);
    if (in_forked_child() && fd >= 0 && fd < MAXFD)
        env_inherited[fd] = 0;
    if (fd >= 0 && fd < MAXFD) {
        struct efd *e = &fdt[fd];
        /* inside an API call the library may only close what it created itself (every descriptor
           it creates comes from a wrapped call); anything else is a stray or a double close */
        if (in_api() && (e->kind == K_NONE || (!e->lib && !e->raw)))
            stray_closes++;
        if (e->kind == K_TCP) {
            int unread = 0;
            if (e->state == TS_CONNECTED)
                ioctl(fd, FIONREAD, &unread);
            if (e->peer_fd >= 0 && fdt[e->peer_fd].peer_fd == fd) {
                struct efd *p = &fdt[e->peer_fd];
                if (env_owner_pid && getpid() != env_owner_pid) {
                    /* close() in a fork()ed child drops a duplicate: no FIN, no RST while the parent holds the
                       connection (h_life: xcm_cleanup in a forked child) */
                } else if (unread == 0 && !e->dead) {
                    p->peer_closed = 1;
                    /* orderly close = FIN: keep this end alive as a write-shut zombie until the peer closes
                       too.  The peer then polls EPOLLIN|EPOLLRDHUP and reads EOF, as with TCP in CLOSE_WAIT;
                       closing the AF_UNIX socket outright would raise EPOLLHUP, which no interest mask can
                       filter and real TCP does not report here (conformance/conf.c) */
                    shutdown(fd, SHUT_WR);
                    int z = fcntl(fd, F_DUPFD_CLOEXEC, ZOMBIE_BASE);
                    if (z >= 0) {
                        p->zombie_fd = z;
                        n_zombies++;
                    }
                } else
                    p->reset_pending = 1;
                p->peer_fd = -1;
            }
            if (e->zombie_fd > 0) {
                __real_close(e->zombie_fd);
                n_zombies--;
            }
        }
        regs_drop_fd(fd, 1);
        memset(e, 0, sizeof *e);
        e->peer_fd = -1;
    }
    return __real_close(fd);
}

int env_open_fd_count(void)
{
    int n = 0;
    DIR *d = opendir("/proc/self/fd");
    if (!d)
        return -1;
    struct dirent *de;
    while ((de = readdir(d)) != NULL)
        if (de->d_name[0] != '.')
            n++;
    closedir(d);
    return n - 1 - n_zombies; /* the directory's own descriptor; the shim's parked half-closed ends */
}

int env_lib_fds_open(void)
{
    int n = 0;
    for (int fd = 0; fd < fd_hi; fd++)
        if (fdt[fd].kind != K_NONE && fdt[fd].lib)
            n++;
    return n;
}

/* ---- credential files --------------------------------------------------------------------- */
FILE *__wrap_fopen(const char *path, const char *mode)
{
    ENV_HOOK("fopen", path, mode, 0);
    if (cfg.fault_resource && in_api()) {
        static const int errs[] = { EMFILE, ENFILE, EACCES, ENOENT };
        if (res_fault("fopen", errs, 4) < 0)
            return NULL;
    }
    return __real_fopen(path, mode);
}

/* ======================================================================================== */
/* c-ares stub                                                                              */
/* ======================================================================================== */
#include <ares.h>

struct dns_entry {
    char name[128];
    int n;
    struct ipport ips[40];
    enum env_dns_mode mode;
};
static struct dns_entry dns_tbl[8];
static int n_dns;

struct stub_chan {
    int evfd;
    int active;                /* a query is outstanding */
    int arrived;               /* answer is in (readable) */
    struct dns_entry *ent;
    ares_addrinfo_callback cb;
    void *arg;
    int64_t start_ns;
    int tries, timeout_ms;
    int id;
};
static struct stub_chan *chans[16];

void env_dns_set(const char *name, const char *const *ips, int n, enum env_dns_mode mode)
{
    if (n_dns >= 8)
        return;
    struct dns_entry *d = &dns_tbl[n_dns++];
    snprintf(d->name, sizeof d->name, "%s", name);
    d->n = 0;
    for (int i = 0; i < n && i < 40; i++)
        if (parse_ip(ips[i], &d->ips[d->n]) == 0)
            d->n++;
    d->mode = mode;
}

int ares_library_init(int flags) { (void)flags; return ARES_SUCCESS; }
void ares_library_cleanup(void) {}
const char *ares_strerror(int code)
{
    switch (code) {
    case ARES_SUCCESS: return "Successful completion";
    case ARES_ENOTFOUND: return "Domain name not found";
    case ARES_ETIMEOUT: return "Timeout while contacting DNS servers";
    default: return "DNS error";
    }
}

int ares_init_options(ares_channel *chp, struct ares_options *o, int mask)
{
    struct stub_chan *c = calloc(1, sizeof *c);
    if (!c)
        return ARES_ENOMEM;
    c->evfd = -1;
    c->timeout_ms = (mask & ARES_OPT_TIMEOUTMS) ? o->timeout : 5000;
    c->tries = (mask & ARES_OPT_TRIES) ? o->tries : 4;
    c->id = -1;
    for (int i = 0; i < 16; i++)
        if (!chans[i]) {
            chans[i] = c;
            c->id = i;
            break;
        }
    *chp = (ares_channel)c;
    return ARES_SUCCESS;
}

static struct ares_addrinfo *make_result(struct dns_entry *d)
{
    struct ares_addrinfo *ai = calloc(1, sizeof *ai);
    struct ares_addrinfo_node **tail = &ai->nodes;
    for (int i = 0; i < d->n; i++) {
        struct ares_addrinfo_node *nd = calloc(1, sizeof *nd);
        nd->ai_family = d->ips[i].family;
        socklen_t l = sizeof(struct sockaddr_in6);
        nd->ai_addr = calloc(1, l);
        ipport_to_sa(&d->ips[i], d->ips[i].family, nd->ai_addr, &l);
        nd->ai_addrlen = l;
        *tail = nd;
        tail = &nd->ai_next;
    }
    return ai;
}

void ares_freeaddrinfo(struct ares_addrinfo *ai)
{
    if (!ai)
        return;
    struct ares_addrinfo_node *n = ai->nodes;
    while (n) {
        struct ares_addrinfo_node *nx = n->ai_next;
        free(n->ai_addr);
        free(n);
        n = nx;
    }
    free(ai);
}

static void chan_finish(struct stub_chan *c, int status)
{
    if (!c->active)
        return;
    c->active = 0;
    ares_addrinfo_callback cb = c->cb;
    if (status == ARES_SUCCESS)
        cb(c->arg, ARES_SUCCESS, 0, make_result(c->ent));
    else
        cb(c->arg, status, 0, NULL);
}

void ares_getaddrinfo(ares_channel ch, const char *node, const char *service,
                      const struct ares_addrinfo_hints *hints, ares_addrinfo_callback cb, void *arg)
{
    (void)service;
    (void)hints;
    struct stub_chan *c = (struct stub_chan *)ch;
    struct dns_entry *d = NULL;
    for (int i = 0; i < n_dns; i++)
        if (strcmp(dns_tbl[i].name, node) == 0)
            d = &dns_tbl[i];
    c->cb = cb;
    c->arg = arg;
    c->ent = d;
    c->active = 1;
    c->arrived = 0;
    c->start_ns = vclock_ns;
    if (!d) {                       /* unknown name: NXDOMAIN at once (e.g. from a hosts lookup) */
        chan_finish(c, ARES_ENOTFOUND);
        return;
    }
    if (d->mode == ENV_DNS_NOW && d->n > 0) {
        chan_finish(c, ARES_SUCCESS);
        return;
    }
    if (d->mode == ENV_DNS_FAIL || (d->mode == ENV_DNS_NOW && d->n == 0)) {
        chan_finish(c, ARES_ENOTFOUND);
        return;
    }
    /* the answer is under way: the channel has a socket */
    c->evfd = __real_eventfd(0, EFD_NONBLOCK);
    if (c->evfd >= 0 && c->evfd < MAXFD) {
        fd_created(c->evfd, K_EVENTFD);
        fdt[c->evfd].lib = in_api();
    }
}

int ares_getsock(ares_channel ch, ares_socket_t *socks, int numsocks)
{
    struct stub_chan *c = (struct stub_chan *)ch;
    if (c->active && c->evfd >= 0 && numsocks > 0) {
        socks[0] = c->evfd;
        return 1;      /* readable interest on socket 0 */
    }
    return 0;
}

struct timeval *ares_timeout(ares_channel ch, struct timeval *maxtv, struct timeval *tv)
{
    struct stub_chan *c = (struct stub_chan *)ch;
    if (!c->active)
        return maxtv;
    /* time left of the current try */
    int64_t per = (int64_t)c->timeout_ms * 1000000LL;
    int64_t el = vclock_ns - c->start_ns;
    int64_t left = per - (el % per);
    tv->tv_sec = left / 1000000000LL;
    tv->tv_usec = (left % 1000000000LL) / 1000;
    if (maxtv && (maxtv->tv_sec < tv->tv_sec || (maxtv->tv_sec == tv->tv_sec && maxtv->tv_usec < tv->tv_usec)))
        return maxtv;
    return tv;
}

static void chan_process(struct stub_chan *c)
{
    if (!c->active)
        return;
    if (c->arrived) {
        uint64_t v;
        if (read(c->evfd, &v, sizeof v) < 0) {
        }
        chan_finish(c, c->ent->mode == ENV_DNS_LATE ? ARES_SUCCESS : ARES_ENOTFOUND);
        return;
    }
    int64_t total = (int64_t)c->timeout_ms * 1000000LL * c->tries;
    if (vclock_ns - c->start_ns >= total)
        chan_finish(c, ARES_ETIMEOUT);
}

void ares_process_fd(ares_channel ch, ares_socket_t rfd, ares_socket_t wfd)
{
    (void)rfd;
    (void)wfd;
    chan_process((struct stub_chan *)ch);
}

void ares_process(ares_channel ch, fd_set *r, fd_set *w)
{
    (void)r;
    (void)w;
    chan_process((struct stub_chan *)ch);
}

void ares_destroy(ares_channel ch)
{
    struct stub_chan *c = (struct stub_chan *)ch;
    if (!c)
        return;
    if (c->active) {
        c->active = 0;
        c->cb(c->arg, ARES_EDESTRUCTION, 0, NULL);
    }
    if (c->evfd >= 0)
        __wrap_close(c->evfd);
    if (c->id >= 0)
        chans[c->id] = NULL;
    free(c);
}

static struct stub_chan *nth_waiting_chan(int k)
{
    for (int i = 0; i < 16; i++) {
        struct stub_chan *c = chans[i];
        if (c && c->active && !c->arrived && c->ent &&
            (c->ent->mode == ENV_DNS_LATE || c->ent->mode == ENV_DNS_FAIL_LATE))
            if (k-- == 0)
                return c;
    }
    return NULL;
}

static int dns_ev_enabled(void *a) { return nth_waiting_chan((int)(intptr_t)a) != NULL; }
static void dns_ev_fire(void *a)
{
    struct stub_chan *c = nth_waiting_chan((int)(intptr_t)a);
    if (c) {
        uint64_t one = 1;
        c->arrived = 1;
        if (write(c->evfd, &one, sizeof one) < 0) {
        }
        mc_trace("env: DNS answer for %s arrives", c->ent->name);
    }
}
