/* envshim - the controlled environment below XCM (DESIGN.md §1.2).
 *
 * Real kernel objects stay underneath (epoll, eventfd, AF_UNIX sockets, files); the shim
 * owns the answers: TCP is emulated over AF_UNIX stream sockets, time is virtual, the
 * resolver is a stub, and every answer that a real kernel could give differently is a
 * labelled choice point of the explorer.
 */
#ifndef ENVSHIM_H
#define ENVSHIM_H

#include <stdbool.h>
#include <stddef.h>
#include <stdint.h>
#include <sys/socket.h>

/* I/O deviation menu bits */
#define ENV_IO_SHORT1   0x001   /* accept/return 1 byte */
#define ENV_IO_HALF     0x002
#define ENV_IO_ALLBUT1  0x004
#define ENV_IO_EAGAIN   0x008
#define ENV_IO_STALL    0x010   /* persistent write stall (send only) */
#define ENV_IO_TRICKLE1 0x020
#define ENV_IO_TRICKLE3 0x040
#define ENV_IO_CONNPEND 0x080   /* connect stays pending until an explicit event */
#define ENV_IO_ACCEPT   0x100   /* accept4 says EAGAIN although a connection is queued */
#define ENV_IO_SEQPKT   0x200   /* EAGAIN on SEQPACKET send/recv */
#define ENV_IO_FINSWALLOW 0x400 /* send after peer FIN: EPIPE at once instead of swallowed once */
#define ENV_IO_TRICKLE2 0x800
#define ENV_IO_DEFAULT (ENV_IO_SHORT1 | ENV_IO_HALF | ENV_IO_ALLBUT1 | ENV_IO_EAGAIN | ENV_IO_STALL | \
                        ENV_IO_TRICKLE1 | ENV_IO_TRICKLE3 | ENV_IO_CONNPEND | ENV_IO_ACCEPT |          \
                        ENV_IO_SEQPKT | ENV_IO_FINSWALLOW)

enum env_policy {
    ENV_AUTO = 0,        /* accept if somebody listens there, refuse otherwise */
    ENV_REFUSE,          /* EINPROGRESS, later ECONNREFUSED */
    ENV_SILENT,          /* never answers */
    ENV_UNREACH_SYNC,    /* connect() itself fails with ENETUNREACH */
    ENV_UNREACH,         /* EINPROGRESS, later EHOSTUNREACH */
    ENV_NETUNREACH,      /* EINPROGRESS, later ENETUNREACH */
    ENV_TIMEDOUT         /* EINPROGRESS, later ETIMEDOUT (kernel gave up) */
};

enum env_dns_mode { ENV_DNS_NOW = 0, ENV_DNS_LATE, ENV_DNS_FAIL, ENV_DNS_FAIL_LATE, ENV_DNS_SILENT };

struct env_cfg {
    unsigned io_menu;        /* deviations offered at data-path calls of library-owned fds */
    int fault_data;          /* offer errno faults at send/recv of emulated TCP fds */
    int fault_resource;      /* offer errno faults at resource-creating calls */
    int fault_connect;       /* offer errno outcomes at connect completion */
    int sleep_monitor;       /* C05 monitor on */
    int only_task;           /* restrict I/O deviations to this task index (-1 = all) */
    int stall_until_read;    /* a write stall ends only after the peer has read what was written (flow control);
                                only for scenarios in which every endpoint keeps reading while it waits to write */
    int fault_transient;     /* offer, at send() of a library-owned emulated TCP fd, the answer -1/ENOBUFS or -1/ENOMEM
                                with the connection itself unaffected (send(2): kernel out of buffer memory) */
    int connpend_free;       /* the connect-latency alternative costs no deviation (C11: the life point
                                "TCP handshake pending" is part of the enumerated history, not a deviation) */
};

void env_init(const struct env_cfg *cfg);
struct env_cfg *env_cfg(void);

/* world table */
void env_policy_set(const char *ip, enum env_policy p);    /* ip: "127.0.0.1", "::1", ... */
void env_local_addr_add(const char *ip);                     /* extra addresses that may be bound */
void env_dns_set(const char *name, const char *const *ips, int n, enum env_dns_mode mode);

/* harness-owned descriptors: no choice points, no monitoring */
void env_set_raw(int fd);
bool env_is_emulated_tcp(int fd);

/* virtual clock */
int64_t env_now_ns(void);
void env_advance_ns(int64_t delta);

void env_reset_deviations(void);

/* ledgers */
int  env_sockopt_get(int fd, int level, int opt, int *val);   /* 0 if it was ever set */
int  env_sockopt_log_count(void);
void env_sockopt_log_entry(int i, int *fd, int *level, int *opt, int *val);
int  env_bind_log_count(void);
void env_bind_log_entry(int i, int *fd, char *ip, int iplen, int *port);
int  env_connect_log_count(void);
void env_connect_log_entry(int i, int *fd, char *ip, int iplen, int *port);
int  env_conn_fd_peer(int fd);
uint64_t env_bytes_out(int fd);
uint64_t env_bytes_in(int fd);
int  env_stray_closes(void);
int  env_open_fd_count(void);            /* descriptors open in the process (/proc/self/fd) */
int  env_lib_fds_open(void);             /* descriptors created inside API calls and still open */
int  env_pending_connects(void);
int  env_stalled_count(void);
int  env_epoll_interest(int epfd, int fd); /* requested event mask or -1 */
int  env_transient_faults(void);         /* number of fault_transient answers given so far */
int  env_data_calls(void);               /* number of data-path calls on emulated TCP so far */
/* the emulated-TCP descriptor that carries the connection of peer `fd` etc. */
int  env_last_tcp_fd_created(void);

/* optional observer of every wrapped call (entry; name + first three arguments cast to long); default NULL */
extern void (*env_syscall_hook)(const char *name, long a, long b, long c);

/* forked child (pid != the pid that called env_init): number of calls that altered a kernel object shared with the
   owner through an inherited descriptor (epoll_ctl on an inherited epoll instance, timerfd_settime, setsockopt, send,
   and whatever the harness reports through env_note_child_call, e.g. shutdown); `what` = "<call>@<object kind>" of
   the first one.  close() of an inherited duplicate is not an alteration.  0 in the owner. */
int  env_child_alterations(char *what, size_t n);
void env_note_child_call(const char *call, int fd);

/* direct (unwrapped) access for the harness */
int env_real_close(int fd);

#endif
