#!/usr/bin/python3
"""Writes /verif/MANIFEST.json from the table below (kept in one place so it is always valid)."""
import json
import os

VERIF = os.path.dirname(os.path.dirname(os.path.abspath(__file__)))
PROPS = [json.loads(l)["id"] for l in open(os.path.join(VERIF, "properties.jsonl"))]

RC = "/usr/bin/python3 engine/run_check.py"

# property -> (technique, level text, level note, design ref, engine)
CHECKS = {}


def add(pid, technique, text, note, ref, engine="mcx-explorer", category="model_checking"):
    CHECKS[pid] = dict(
        property_id=pid,
        quick_cmd="%s %s --tier quick" % (RC, pid),
        thorough_cmd="%s %s --tier thorough" % (RC, pid),
        evidence_file="evidence/%s.json" % pid,
        replay_cmd_template=RC + " --replay {path}",
        engine=engine,
        level_claimed=dict(category=category, text=text, design_ref=ref),
        level_note=note,
        technique=technique)


EXPL = ("stateless model checking of the implementation: exhaustive enumeration of all schedules and "
        "environment-deviation patterns up to a deviation bound (CHESS-style iterative bounding), real code "
        "under a controlled scheduler and environment shim")

add("C01", EXPL,
    "Every interleaving of the two endpoints' API calls combined with every pattern of <= D short reads/writes, EAGAINs, "
    "write stalls, trickles and connect/accept delays below XCM (and below OpenSSL) is executed on the real library for "
    "each closed scenario (6 transports, 3 application styles, blocking and non-blocking); the chan reference model is "
    "compared after every receive and at the end; also scenarios in which one send(2) is answered ENOBUFS/ENOMEM with the connection unaffected (the application flushes, re-offers, flushes) and in which the receiver writes into a connection its peer has closed before reading it out (completeness at end-of-stream). quick D=3 tcp-class / D=2 TLS-class, thorough one deeper.",
    "Bounded: more than D deviations, longer scripts, other lengths than the boundary set are not excluded. TCP is "
    "emulated over AF_UNIX by envshim (trusted, see DESIGN 1.2/1.6). OpenSSL and libc trusted. Data independence of "
    "the framing code assumed for payload bytes.", "DESIGN.md 2/C01")
add("C02", EXPL,
    "Same exploration on btcp and btls with a byte-exact stream model (accepted ranges vs received bytes at every step), "
    "send cuts, receive capacities {2,3,64,65536}, a 40000-byte write crossing TLS records, and the four retry policies "
    "after a refused send (same, longer, different, shorter data), and the receiver writing into a connection its peer has closed before reading it to end-of-stream. quick D=3 btcp / D=2 btls, thorough D=4 / D=3.",
    "Bounded as C01. Known findings (BTLS keeps refused bytes inside OpenSSL; BTLS reports end-of-stream ahead of arrived bytes after its own write failed) are listed in known_findings.json.",
    "DESIGN.md 2/C02")
add("C03", EXPL,
    "A 'failing sender' is explored on every transport, non-blocking and blocking: sizes {0,1,65535,65536,2^20}, EAGAIN from the lower "
    "layer at every write, EINTR (signal) at every blocking wait inside xcm_send, re-send or move-on policies, byte-stream retry "
    "policies; every schedule/deviation pattern within D. Oracle: a message whose send returned -1 is never received, a refused call "
    "(EAGAIN/EMSGSIZE/EINVAL/EINTR) leaves all counters unchanged and the connection usable, every accepted message is received "
    "exactly once; includes a send(2) answered ENOBUFS/ENOMEM with the connection unaffected. quick D=2-3 tcp-class / D=2 TLS-class, thorough one deeper.",
    "'As if the call had not been made' is read on counters and on the multiset finally delivered. Bounded as C01.",
    "DESIGN.md 2/C03")
add("C05", EXPL,
    "A sleep monitor in the environment shim flags any primitive that may sleep (poll/ppoll/select/epoll_wait with timeout != 0, "
    "sleeps, connect/accept/send/recv on a descriptor without O_NONBLOCK) issued while an API call on a non-blocking socket is in "
    "progress. It watches (a) the complete product transport x connection phase (resolving, connecting, handshaking, ready, "
    "back-pressured, closed, failed, server, every naming variant of both ends against late/failing/silent resolvers) x every API "
    "operation and attribute access (h_nb), credential files touched by another process at every fopen() of a non-blocking connect/accept, (b) every execution of the explored two-endpoint traffic scenarios, and (c) control sessions served from inside the application's calls.",
    "A call counts as sleeping if it issues a primitive that MAY sleep, whatever its outcome. Resolver = stub of the c-ares entry points.",
    "DESIGN.md 2/C05")
add("C04", EXPL,
    "Strict event-loop tasks (await, wait for xcm_fd, act) and blocking-mode tasks are run under every schedule and "
    "deviation pattern within the bound; quiescence (no descriptor readable, no timer armed, no environment event "
    "pending) with an unfinished script is a lost wake-up / blocking call that never returns; exceeding the step "
    "horizon is a livelock. All 8 transports, traffic in one and both directions, connect/accept/handshake phases included.",
    "Liveness reduced to deadlock/livelock freedom of finite goals within bound D and horizon 3000 steps. Virtual time. "
    "Environment emulation trusted as in C01.", "DESIGN.md 2/C04")
add("C08",
    "stateless fault enumeration inside the explorer: every resource-creating system call inside every XCM API call of 29-35 lifecycle "
    "scenarios x 7 transports is failed with every plausible errno (quick: every single fault; thorough: additionally every pair for the "
    "creation-ladder scenarios, plus an ASan/LeakSanitizer pass), with descriptor-table, heap, file, stray-close and abort oracles",
    "29-35 lifecycle scenarios per transport (server create/close; connect+accept+traffic in three close orders; refused and blocking "
    "connects; address in use; invalid attributes at server/connect/accept; unreadable certificate; non-blocking connect abandoned while "
    "resolving/connecting/handshaking; DNS now/fail; chosen local address; dropped accepted connection; server closed with a pending request; "
    "101 sockets alive at once; control interface on / not a directory / unwritable / with a client attached; fork at API boundaries 1-6 with "
    "xcm_cleanup in the child). Each execution runs a fault-free warm-up, takes a baseline, then the measured repetition in which the explorer "
    "fails one (quick) or two (thorough) resource calls with every errno the shim offers. Oracles: /proc/self/fd set back to the baseline, heap "
    "back to steady state (a difference counts only if re-injection grows it every time), socket and control files gone, no close of a foreign "
    "descriptor, failure surfaces as NULL/-1+errno and never as abort, the owner's connection survives fork+cleanup. quick 13,335 executions; "
    "thorough 230,488.",
    "No malloc-failure injection. TCP is emulated. A one-off allocation cannot be told apart from a cache (hence the re-injection rule). A "
    "foreign epoll_ctl is observed through its effect only. Known finding: eventfd exhaustion aborts (10 signatures, known_findings.json).",
    "DESIGN.md 2/C08", category="fault_enumeration")
add("C09", EXPL.replace("all schedules and environment-deviation patterns up to a deviation bound", "a complete finite configuration matrix (one forked execution per cell, selected by zero-cost choice points), plus every single deviation on a covering subset"),
    "The policy x placement x credential x transport matrix is visited completely: side under test {tls.auth, check_time, check_crl} in {0,1}^3 "
    "(and defaults) x name verification {off, matching, non-matching, no names, DNS hostname in the address} x tls.client natural/reversed x "
    "placement {connect map, server socket inherited, accept map, accept map overriding opposite server values incl. wrong trust anchors/CRLs "
    "given the other way} x 20 peer credential kinds (valid, expired, not yet valid, revoked leaf, under revoked/expired/untrusted intermediate, "
    "wrong name, EKU variants, untrusted root, no certificate at all...) by file or by value x peer permissive/strict, on tls, btls and utls; "
    "each cell is one real connection run to completion with both ends judged by a policy oracle written from xcm.h. quick: 34,836 cells; "
    "thorough: 317,064 cells + every single deviation (D<=1) on 736 cells per transport, D<=2 on 12.",
    "Only fail-open, wrong errno and accepted invalid combinations are violations; stricter-than-documented refusals are INFO. check_time uses "
    "the real clock (20-day margins on generated validity). OpenSSL's chain building and CRL processing trusted. With tls.auth off no "
    "condition applies to the peer.", "DESIGN.md 2/C09")
add("C11", EXPL,
    "Set-histories are enumerated completely inside the explorer through free choice points: every single and every ordered pair of "
    "(attribute, admissible value, life point) with life points = creation map, while resolving (resolver answer withheld), while the "
    "TCP handshake is pending (both the pending and the completed-at-once world), established, closed by peer, on connect-side and "
    "accepted sockets of tcp, tls, btcp, btls and utls; below each history every schedule and I/O-deviation pattern within D. Oracle: "
    "accepted value == xcm_attr_get == option in force (shim's setsockopt table) on the descriptor that carries the connection; "
    "creation-only attributes never change after creation. Plus complete products for xcm.service x transport x role, xcm.blocking vs "
    "xcm_set_blocking (including xcm.blocking in the xcm_accept_a map and a switch to blocking that fails), values the kernel refuses although the library admits them, xcm.local_addr vs bind()/getsockname()/peer's view, and server->accepted inheritance with/without override.",
    "'In force' ends at the setsockopt() the kernel was given (emulated TCP). A creation-only attribute may answer EACCES or EINVAL or "
    "accept a no-op; its value must not change. Value sets are {non-default, default, kernel maximum}.", "DESIGN.md 2/C11 and 7a")
add("C15",
    "preemption-bounded stateless model checking of real threads under a cooperative scheduler with modelled mutexes (every schedule "
    "with <= D preemptions at lock and system-call points), plus a free-running ThreadSanitizer complement",
    "2-3 threads with distinct sockets (ux, tcp, tls with same/different credentials, synchronised hand-over of a socket): every schedule "
    "with <= 2 (quick) / <= 3 (thorough, two-thread) preemptions; scheduling points at every modelled mutex acquisition and every shim "
    "system call inside XCM; oracles on the shared eventfd pool (never closed while in use or registered), the SSL_CTX cache (never freed "
    "while held or while an SSL made from it lives), certificate identity per thread, socket ids, delivery, end state, deadlock, crash. "
    "Complement: free-running ThreadSanitizer pass of the same thread bodies.",
    "Preemption-bounded and sequentially consistent; plain data races and weak-memory effects are covered only by the TSan complement "
    "(a sampling pass, labelled as such in the evidence). pts=dep scenarios use an independence reduction. No I/O deviations.",
    "DESIGN.md 2/C15")
add("C16", EXPL,
    "The readiness oracle (idle+flushed pair with condition 0 / RECEIVABLE-after-EAGAIN not readable; server with nothing "
    "pending not readable; already-met conditions readable at once; xcm_fd constant and POLLIN-only, sampled after every call) "
    "is evaluated at the final quiescent state of every execution inside the bound and at every wait (bytes queued while RECEIVABLE is awaited => readable), on all 8 transports; with control sessions open (h_ctl); and across fork(): a child that only cleans up must not alter the epoll instance behind the owner's xcm_fd (h_life fork scenarios).",
    "Only the situations the property names are judged; histories are those with <= D deviations of the listed scenarios.",
    "DESIGN.md 2/C16")
add("C17", EXPL,
    "All eight xcm.* counters of both endpoints are read after every API call of every explored execution and compared with the "
    "harness's own ledger of accepted sends / obtained receives (monotone, from_app>=to_lower, from_lower>=to_app, refused calls "
    "count nothing, truncated receives count delivered bytes, idle pair agrees).",
    "Bounded as C01. 'Exchanged sizes' = sizes sent; to_app = bytes returned.", "DESIGN.md 2/C17")

add("C19",
    "explicit-state model checking of the implementation (BFS over canonicalised map states rebuilt by history replay) plus exhaustive "
    "input enumeration of the path parser, real code under ASan/UBSan, reference dictionary and three-valued grammar recogniser",
    "Every reachable state of two attribute maps (keys {a,ab} quick / {a,ab,b} thorough x 5 types x 2 values, incl. zero-length and 4 KB "
    "binaries; adds through generic and typed entry points, adds with value pointers obtained from either map, del, clone, add_all in "
    "all directions, destroy) is expanded with every applicable operation; after every transition all observers (size, exists, get, five "
    "typed getters, foreach multiset, equal in both orders, canonical form, heap balance) are compared with a reference list. All strings "
    "<=5 (quick) / <=7 (thorough) over {a B 0 1 9 . [ ] - + space} plus periodic families up to 263 bytes go through "
    "parse/inspect/print/re-parse/equal/equal_str/destroy in both modes against an independent recogniser; scripted sequences cover up "
    "to 3000 keys.",
    "keys=3 runs in the plain build (functional oracle and process death only); ASan covers keys=2, all paths and the large scripts. Where "
    "the documentation is silent (key character set, index spelling, more than 64 components, empty string) either answer is accepted. "
    "Larger key sets are scripted, not exhaustive. libc trusted; allocation failure not injected.",
    "DESIGN.md 2/C19", engine="enumerator")

add("C06", EXPL.replace("all schedules and environment-deviation patterns", "errno faults at every data-path call and connect outcome, peer death at every byte offset of the wire/TLS stream, x all schedules and deviation patterns"),
    "FAULT: two endpoints exchange 2+2 messages; every data-path call x {ECONNRESET, ETIMEDOUT, EHOSTUNREACH, ENETUNREACH, EPIPE}, three scripts "
    "deciding whether send, receive or finish meets the fault, every other call then issued twice (stickiness). CONN: every connect outcome and a "
    "silent peer until tcp.connect_timeout, reported at once or after latency. CLOSE: orderly close with messages queued, first met by "
    "receive/send/finish, with and without a pending frame; client closing before the server finished its handshake. RAW: a raw peer cut at "
    "every byte offset (three frames 0-18, a 65535-byte frame at the boundary offsets, a byte stream; for TLS an OpenSSL raw peer whose whole "
    "output - handshake flights, tickets, records - is cut at every offset), FIN or reset, XCM as client and as server. tcp, tls, btcp, btls, "
    "utls->TLS; ux/uxf for the close clauses. The oracle knows which errno was injected in which call and whether a close was a FIN or a reset. "
    "quick: single faults (+1 deviation on tcp/btcp and close), 70,750 executions; thorough: D=2 everywhere, D=3 tcp/btcp, 1,136,378 executions.",
    "EPIPE is the closed class; once an explicit send/finish reported the end both 'drain then 0' and 'nothing succeeds' are accepted; a close "
    "during which the environment refused the closer's writes counts as a break; a raw TLS truncation may supersede a closed-class report once by "
    "EPROTO; OpenSSL swallowing ECONNRESET/EPIPE at the ticket flush is INFO. Non-blocking sockets only. Emulated TCP.", "DESIGN.md 2/C06",
    category="fault_enumeration")
add("C07",
    "exhaustive input enumeration: every byte stream of a finite wire-format space, in every segmentation of a stated set and every "
    "ending, fed by a raw peer to a real XCM endpoint (ASan+UBSan) and compared with a reference frame decoder; a forked child per batch "
    "turns any crash into a finding naming the input",
    "A raw peer feeds an XCM endpoint (tcp, tls, btcp, btls; as server and as client) every stream of <= 3 frames with announced lengths from "
    "{0,1,2,65535,65536,0x7fffffff,0x80000000,0xffffffff}, payload present / truncated at every offset / followed by garbage, in ALL 2^(n-1) "
    "segmentations for n <= 10-12 bytes (single cuts and 1-byte trickle beyond), ending in close or silence; for TLS the same plaintext through "
    "a harness-side OpenSSL peer, the ciphertext of a record cut at every offset, raw injection below TLS, garbage instead of the handshake, and "
    "every byte offset of every handshake flight x a mutation set. Oracle: no crash/abort/sanitizer report; heap growth <= one frame; delivered "
    "messages == reference decoder; never length 0 or > 65535; illegal length => EPROTO, sticky. quick 0.63 M cases, thorough 4.2 M.",
    "Payload bytes are patterned (data independence). TLS flights come from one deterministic OpenSSL peer. After a handshake mutation both "
    "'nothing delivered' and 'everything as the reference decoder says' are accepted. No environment deviations below the endpoint (the input "
    "segmentation IS the enumeration).", "DESIGN.md 2/C07", engine="enumerator")
add("C12",
    "in-process exhaustive input enumeration (4.8e8 library calls quick / 5.8e9 thorough), exact-ended heap buffers under ASan plus canaries, "
    "differential three-valued reference codec written from xcm.h",
    "Exhaustive enumeration of the stated input space of xcm_addr_make_*, xcm_addr_parse_*, xcm_addr_is_valid, xcm_addr_parse_proto and the "
    "compat wrappers on the real code: 13 make functions x {IPv4, IPv6, DNS name} x all 65536 ports x every capacity 0..len+2 with each result "
    "parsed back through 19 parser entry points; 29 hosts x width-boundary ports x all capacities; UX/UXF names around 107/108; port field over "
    "-2..70000 and wrap-around values; ~10700 structured strings around every limit incl. every byte value 1-255 in every field; every string of "
    "length <= 5/4 (quick) .. 7/6 (thorough) over a 15-letter alphabet after each transport prefix and with none.",
    "Three-valued oracle: must-accept / must-reject / either (leading zeros, label-level DNS syntax, non-LDH bytes other than blanks, controls, "
    "brackets and ':', empty UX names, upper-case transport names are 'either'). Reads outside buffers are judged in the asan build only; quick "
    "runs the 65536-port sweep and the longest strings in the plain build.", "DESIGN.md 2/C12", engine="enumerator")
add("C13", EXPL.replace("all schedules and environment-deviation patterns", "world tables (selected by free choice points) x all event orders and withheld completions"),
    "World tables are enumerated by free choice points: answer lists of length <= 3 (quick) / <= 4 (thorough) over {v4a,v4b,v6a,v6b} x per-address "
    "{accepts, refuses, silent} x resolver {now, late, fails, fails late, silent} x dns.algorithm {single, sequential, happy_eyeballs, unset} x "
    "xcm.local_addr {none, v4/v6 literal with port 0 or fixed port} x tcp.connect_timeout {3 s, 0.5 s} x dns.timeout x which call reports the "
    "outcome, plus the 32-entry cap and xcm_server on unknown/failing/late/silent names; below each table every order of connect completions, DNS "
    "arrival and timer expiries and every withheld completion within D (quick D<=1: 27,643 tables / 343k executions; thorough D<=2..4: 164k tables / "
    "3.1 M executions) on btcp, with covering subsets on tcp/tls/btls/utls. Oracle connect-alg: which addresses are tried in which order, outcome and "
    "errno, ENOENT/ETIMEDOUT, every bind() carries exactly the configured local address, no attempt outlives its outcome.",
    "The 200 ms IPv4 head start is INFO only. An accepting address may end in ETIMEDOUT when its answer was withheld for >= tcp.connect_timeout; in "
    "those executions only the invariants are demanded. Fixed local port exercised on btcp only. Resolver = stub of the c-ares entry points; virtual clock.",
    "DESIGN.md 2/C13")
add("C14", EXPL.replace("all schedules and environment-deviation patterns", "all control sessions (free choice points) x targets x attribute-set sizes, concurrent sessions x schedules x EAGAIN answers"),
    "Control sessions of <= 2 (quick) / <= 3 (thorough) items over a 15-item alphabet (well-formed get-attr for short/long/sensitive/unknown/list names, "
    "get-all, get-all first, wrong-size datagrams, unknown type, unterminated name, disconnects, never reading the reply), raw and through libxcmctl, "
    "against 28 targets (server, connecting and accepted socket of ux, uxf, tcp, tls; small and large attribute sets: 107-character names, by-value "
    "credentials of 1.4-7 KB, peer certificates with 0/5/25/70 SANs), 1-3 concurrent sessions interleaved with the application's traffic under every "
    "schedule and EAGAIN pattern within D, real ctl.c/xcmc.c under ASan. Oracle: no crash; the application's message oracle still holds; no reply "
    "contains private-key material; every reply equals the in-process xcm_attr_get/xcm_attr_get_all answer; control files vanish on close.",
    "The library services control descriptors every 64th/256th data-path call: the application task has a pump macro-step. get-all may omit a value "
    "that does not fit the 512-byte field. Data-path deviations limited to EAGAIN. xcmc's blocking recv yields to the scheduler (one seam).",
    "DESIGN.md 2/C14")

add("C10",
    "exhaustive input enumeration (socket state x attribute name x capacity x getter; name x type x length x value for set) against the ASan "
    "build, canary plus exact-heap-block buffers with two fill patterns, one forked child per name group",
    "Sockets of every transport (ux, uxf, tcp, btcp, tls, btls, utls and utls forced onto its TLS leg) are brought into every reachable state "
    "(server, resolving, connecting, handshaking, established on both ends, closing, closed, reset, connect timeout, DNS timeout; fresh sockets "
    "through the creation maps) and every attribute name (the socket's own, every documented name, list elements [i] for i <= len+1, interior "
    "nodes, a malformed/limit family) is read through 13 getters + get_list_len at every capacity 0..size+2 into a buffer whose written bytes are "
    "known exactly, and written through five value types x lengths {0,1,size-1,size,size+1,4096} x values with an xcm_attr_get_all snapshot "
    "compared after every rejected set. quick 115 cells / 0.98 M library calls; thorough 250 cells / 6.3 M.",
    "Value validity is taken from xcm.h only; other values may succeed or be rejected, but a rejection must leave the socket unchanged. When "
    "several set errors apply any applicable errno is accepted; interior nodes may answer ENOENT or EACCES. Odd index spellings are checked for "
    "memory safety only. No environment deviations (input enumeration).", "DESIGN.md 2/C10", engine="enumerator")

add("C18",
    "explicit enumeration (breadth-first, no merging) of all credential-update/connect histories up to a depth, each replayed on fresh state in "
    "a forked child against a virtual-file-system reference model",
    "Every operation sequence up to depth d over four alphabets is run on the real library: main (16 ops: equal-size in-place rewrite with fresh / "
    "preserved mtime, rename-over, directory- and file-level symlink flips, XCM_TLS_CERT switch, server with default/by-file/by-value "
    "credentials, five client/accept configuration combinations, close connection, close server), files (the file-update part one level deeper), "
    "split (by-value configurations whose items split equal bytes differently, and one that differs only in its trust anchors), and 29 "
    "bad-material families (missing, empty, garbage, truncated, dangling symlink, directory, mismatching key; by file, by value or in the default "
    "directory; on connect / server / accept). Oracle: the identity each side sees (subject key id, CN, names) equals what was designated at call "
    "time; a connection is established iff the designated chains and trust roots verify; every open connection keeps its identity and keeps "
    "passing traffic after every op; bad material => EPROTO; live SSL_CTX objects never exceed open sockets and are 0 at teardown. quick: depths "
    "3-4, 6,823 histories; thorough: depths 4-6, 513,015 histories / 2.56 M oracle-checked operations.",
    "Single thread; default environment (no I/O deviations). mtimes are set explicitly (the preserved-mtime rewrite is placed at a later clock "
    "tick). Rename-over always gets a fresh mtime (inode recycling not explored). EACCES is unreachable as root. OpenSSL's PEM parsing trusted. "
    "Known finding: XCM_TLS_CERT at accept time is ignored (known_findings.json).", "DESIGN.md 2/C18", engine="enumerator")

add("C20", EXPL.replace("all schedules", "all client/relay/server interleavings"),
    "Three tasks - client application, server application and the relay (the real rserver.c/xrelay.c on the real libevent; one relay step is one "
    "dispatch round, and the relay is disabled exactly while poll() on libevent's own epoll descriptor reports nothing) - are explored under every "
    "interleaving with <= D preemptions and every pattern of <= D I/O deviations (short I/O, EAGAIN, persistent write-stall, connect latency) below "
    "XCM on both legs. Leg pairs ux<->tcp, tcp<->ux, tcp<->tls, tls<->tcp, utls<->ux, btcp<->btls, btls<->btcp, btcp<->btcp, tcp<->tcp; scripts: one-way "
    "with close in each direction, both directions with close, concurrent two-way, ping-pong, send-everything-before-reading, two relayed "
    "connections, byte-stream scripts; sizes 1, 300, 65535. Oracle: end-to-end chan in both directions (unmodified, in order, exactly once), the "
    "side that did not close sees EOF only after everything the closer's sends accepted, the relay never terminates and is never quiescent while "
    "a delivery or a close propagation is owed, connections are independent. quick D=1-3: 54 configurations, 214,557 executions; thorough D=2-4: "
    "115 configurations, 1,840,446 executions.",
    "main.c option parsing is not driven. TCP is emulated with 1 MB buffers, so back-pressure is the write-stall deviation. The close-order clause "
    "applies when the closer flushed and nothing was in flight towards it; all clauses are void after 3 s of virtual connect-timeout. Known "
    "findings: the relay tears down a destination leg that still holds an accepted, unflushed frame; a TLS source leg that sent and closed before "
    "the relay's next round loses everything (4 signatures, known_findings.json).", "DESIGN.md 2/C20")


def main():
    man = dict(
        version=1,
        setup_cmd="/usr/bin/python3 engine/build.py && /usr/bin/python3 engine/pki/make.py",
        hooks=dict(guard="XCM_VERIF",
                   enable="no source hooks are needed: the checks compile /repo's working tree into each harness with "
                          "-DXCM_VERIF=1 and interpose libc/c-ares at link time (-Wl,--wrap)",
                   baseline_off_cmd="cd /repo && make -j16 >/dev/null 2>&1 && make -j16 xcmtest >/dev/null 2>&1; ./xcmtest -c -v -p 8",
                   source_commits=[], add_only=True),
        engines=[dict(name="mcx-explorer", path="engine/mcx",
                      serves_properties=[p for p in PROPS if p in CHECKS and CHECKS[p]["engine"] == "mcx-explorer"],
                      kind_free_text="stateless explorer with iterative deviation bounding over the real library; "
                                     "cooperative scheduler; fork per execution; envshim owns libc answers"),
                 dict(name="enumerators", path="engine/harness",
                      serves_properties=[p for p in PROPS if p in CHECKS and CHECKS[p]["engine"] == "enumerator"],
                      kind_free_text="in-process exhaustive enumeration / explicit-state BFS against reference models")],
        checks=[CHECKS[p] for p in PROPS if p in CHECKS],
        notes="See DESIGN.md. known_findings.json lists genuine defects recorded rather than repaired and the fixed ones.",
        not_applicable=[dict(property_id=p, reason="check not built yet in this session (planned, see DESIGN.md section 2); "
                                                   "not a statement that the technique cannot apply")
                        for p in PROPS if p not in CHECKS])
    with open(os.path.join(VERIF, "MANIFEST.json"), "w") as f:
        json.dump(man, f, indent=1)
        f.write("\n")


if __name__ == "__main__":
    main()
