#!/usr/bin/python3
"""Verdict protocol, evidence files, known findings (DESIGN.md §1.7)."""
import json
import os
import re
import sys
import time

VERIF = os.path.dirname(os.path.dirname(os.path.abspath(__file__)))
# the registered commands always write to /verif/evidence and /verif/replays; the seeded-change runner
# (engine/seeded_run.py) redirects both so that runs on a deliberately broken tree never touch them
EVIDENCE_DIR = os.environ.get("VERIF_EVIDENCE_DIR") or os.path.join(VERIF, "evidence")
REPLAY_DIR = os.environ.get("VERIF_REPLAY_DIR") or (os.path.join(os.environ["VERIF_EVIDENCE_DIR"], "replays")
                                                    if os.environ.get("VERIF_EVIDENCE_DIR") else os.path.join(VERIF, "replays"))
KNOWN_FILE = os.path.join(VERIF, "known_findings.json")

EXIT_OK, EXIT_VIOLATION, EXIT_BROKEN = 0, 1, 2


def slug(s, n=80):
    return re.sub(r"[^A-Za-z0-9_.=-]+", "_", s)[:n].strip("_")


def load_known():
    if not os.path.exists(KNOWN_FILE):
        return []
    with open(KNOWN_FILE) as f:
        return json.load(f)["findings"]


class Check:
    """One run of one property's check."""

    def __init__(self, pid, tier, level="model_checking"):
        self.pid = pid
        self.tier = tier
        self.level = level
        self.t0 = time.time()
        self.seed = int(os.environ.get("VERIF_SEED", "0") or 0)
        self.findings = {}      # signature -> dict(text, replay, count)
        self.infos = {}
        self.broken = []
        self.coverage = {}
        self.assumptions = []
        self.deadline_hit = False

    # -- collecting -----------------------------------------------------------------
    def finding(self, signature, text, replay=None):
        f = self.findings.get(signature)
        if f is None:
            self.findings[signature] = dict(text=text, replay=replay, count=1)
        else:
            f["count"] += 1

    def info(self, key, text):
        self.infos.setdefault(key, dict(text=text, count=0))["count"] += 1

    def broke(self, text):
        self.broken.append(text)

    def add_cov(self, **kw):
        for k, v in kw.items():
            if isinstance(v, (int, float)) and not isinstance(v, bool) and k in self.coverage \
                    and isinstance(self.coverage[k], (int, float)):
                self.coverage[k] += v
            elif isinstance(v, list) and k in self.coverage:
                self.coverage[k] = (self.coverage[k] + v)
            else:
                self.coverage[k] = v

    def elapsed(self):
        return time.time() - self.t0

    # -- finishing ------------------------------------------------------------------
    def finish(self):
        known = [k for k in load_known() if k["property"] == self.pid]
        known_open = {k["signature"]: k for k in known if k["status"] == "known"}
        os.makedirs(EVIDENCE_DIR, exist_ok=True)
        violations = 0
        known_seen = 0
        out = []
        for sig in sorted(self.findings):
            f = self.findings[sig]
            os.makedirs(REPLAY_DIR, exist_ok=True)
            path = os.path.join(REPLAY_DIR, "%s-%s.json" % (self.pid, slug(sig)))
            art = dict(property=self.pid, signature=sig, text=f["text"], occurrences=f["count"])
            if isinstance(f["replay"], dict):
                art.update(f["replay"])
            elif f["replay"] is not None:
                art["replay"] = f["replay"]
            with open(path, "w") as fp:
                json.dump(art, fp, indent=1)
            if sig in known_open:
                known_seen += 1
                out.append("KNOWN-FINDING: property=%s %s -- %s (%d occurrence(s) in this run; replay=%s)" %
                           (self.pid, sig, known_open[sig]["summary"], f["count"], path))
                continue
            violations += 1
            out.append("VIOLATION property=%s replay=%s" % (self.pid, path))
            out.append("  signature: %s" % sig)
            out.append("  %s" % f["text"].replace("\n", "\n  "))
        for k in sorted(self.infos):
            out.append("INFO: property=%s %s -- %s (x%d)" % (self.pid, k, self.infos[k]["text"],
                                                              self.infos[k]["count"]))
        cov = dict(self.coverage)
        # exploration-style keys (required by the evidence schema for the levels exploration / fault_enumeration, and a
        # useful summary for every level): measured by this run, never constants
        if isinstance(cov.get("executions"), int):
            cov.setdefault("evaluations", cov["executions"])
        if "distinct_nontrivial" not in cov:
            dn = cov.get("faults_injected") if self.level == "fault_enumeration" else None
            if not isinstance(dn, int) or dn < 2:
                dn = cov.get("distinct_outcomes_summed") if isinstance(cov.get("distinct_outcomes_summed"), int) else cov.get("states")
            if isinstance(dn, int):
                cov["distinct_nontrivial"] = dn
                cov.setdefault("rule", (
                    "every execution is one complete run of a closed scenario on the real code, selected by a distinct choice "
                    "sequence of the explorer (no two executions share their choice sequence); distinct_nontrivial counts " +
                    ("the executions in which the explorer actually injected a fault (an errno at a data-path, connect or "
                     "resource-creating call), i.e. the enumerated fault points x errno values"
                     if self.level == "fault_enumeration" and dn == cov.get("faults_injected") else
                     "the distinct final outcomes (per configuration, summed) the executions ended in")))
        cov.setdefault("exhaustive", not self.deadline_hit)
        cov["deadline_hit"] = self.deadline_hit
        cov["known_findings_seen"] = known_seen
        cov["info_lines"] = len(self.infos)
        # trim samples
        if "samples" in cov and len(cov["samples"]) > 12:
            cov["samples"] = cov["samples"][:12]
        ev = dict(property_id=self.pid, tier=self.tier, seed=self.seed, level=self.level,
                  coverage=cov, assumptions=self.assumptions,
                  wall_s=round(self.elapsed(), 2), violations=violations)
        with open(os.path.join(EVIDENCE_DIR, self.pid + ".json"), "w") as fp:
            json.dump(ev, fp, indent=1)
            fp.write("\n")
        print("\n".join(out))
        summ = {k: v for k, v in cov.items() if isinstance(v, (int, float, bool))}
        print("%s %s: %s wall=%.1fs violations=%d known=%d" %
              (self.pid, self.tier, json.dumps(summ), self.elapsed(), violations, known_seen))
        sys.stdout.flush()
        for b in self.broken:
            print("CHECK-BROKEN: property=%s %s" % (self.pid, b))
        # a violation that was replayed and reproduced stands, whatever else went wrong in the same run (a second
        # finding that did not reproduce, a configuration that could not be built): the run is then both
        if violations:
            return EXIT_VIOLATION
        return EXIT_BROKEN if self.broken else EXIT_OK
