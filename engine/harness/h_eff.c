/* h_eff - C11: attribute values take effect and are inherited as documented.
 *
 * mode=hist   breadth over SET-HISTORIES on a connect-side socket: every history of <= depth set
 *             operations (attribute x admissible value x life point), life points = creation map,
 *             while resolving (the resolver's answer is withheld), while the TCP handshake is pending
 *             (completion withheld: a FREE alternative of the shim, so both the "pending" and the
 *             "completed at once" worlds are enumerated for every history), established, after close
 *             by peer.  The history is selected by free choice points, so the explorer enumerates the
 *             whole product, and on top of it every schedule / I/O deviation pattern within the bound.
 * mode=accept the same on the server side: attribute in the xcm_accept_a map, or set on the accepted
 *             socket once established.
 * mode=static complete small products that need no exploration: xcm.service x transport x role,
 *             xcm.blocking vs xcm_set_blocking, xcm.local_addr vs bind()/getsockname()/peer's view,
 *             creation-only attributes accepted in the map, server -> accepted inheritance of tls.*
 *             and ipv6.scope with and without override.
 *
 * Oracle: accepted value == value reported by xcm_attr_get == value in force on the descriptor that
 * carries the connection (shim's sockopt table); a refused set changes nothing; creation-only
 * attributes do not change after creation.
 *
 * params: tp=tcp|tls|btcp|btls|utlstls mode=hist|accept|static depth=1|2 certs=<dir> menu=<hex>
 */
#define _GNU_SOURCE
#include "hcommon.h"

#include <arpa/inet.h>
#include <fcntl.h>
#include <netinet/in.h>
#include <netinet/tcp.h>
#include <sys/socket.h>

enum { LP_MAP = 0, LP_RESOLVING, LP_CONNECTING, LP_ESTABLISHED, LP_PEERCLOSED, NLP };
static const char *LPN[NLP] = { "creation-map", "resolving", "connecting", "established", "closed-by-peer" };

enum { TY_BOOL, TY_I64, TY_DBL, TY_STR };

struct aspec {
    const char *name;
    int type;
    int nvals;
    int64_t iv[3];
    double dv[3];
    const char *sv[3];
    int level, opt, scale;
    int creation_only;
    int tls_only;
};

#define NTCP 5
static struct aspec AS[] = {
    { "tcp.keepalive", TY_BOOL, 2, { 0, 1 }, { 0 }, { 0 }, SOL_SOCKET, SO_KEEPALIVE, 1, 0, 0 },
    { "tcp.keepalive_time", TY_I64, 3, { 7, 1, 32767 }, { 0 }, { 0 }, SOL_TCP, TCP_KEEPIDLE, 1, 0, 0 },
    { "tcp.keepalive_interval", TY_I64, 3, { 7, 1, 32767 }, { 0 }, { 0 }, SOL_TCP, TCP_KEEPINTVL, 1, 0, 0 },
    { "tcp.keepalive_count", TY_I64, 3, { 5, 3, 127 }, { 0 }, { 0 }, SOL_TCP, TCP_KEEPCNT, 1, 0, 0 },
    { "tcp.user_timeout", TY_I64, 3, { 7, 3, 2147483 }, { 0 }, { 0 }, SOL_TCP, TCP_USER_TIMEOUT, 1000, 0, 0 },
    /* documented as writable only at creation: offered at the later life points, must not change */
    { "dns.algorithm", TY_STR, 2, { 0 }, { 0 }, { "sequential", "happy_eyeballs" }, 0, 0, 0, 1, 0 },
    { "dns.timeout", TY_DBL, 1, { 0 }, { 2.5 }, { 0 }, 0, 0, 0, 1, 0 },
    { "tcp.connect_timeout", TY_DBL, 1, { 0 }, { 1.5 }, { 0 }, 0, 0, 0, 1, 0 },
    { "xcm.local_addr", TY_STR, 1, { 0 }, { 0 }, { "@local" }, 0, 0, 0, 1, 0 },
    { "xcm.service", TY_STR, 2, { 0 }, { 0 }, { "@other", "junk" }, 0, 0, 0, 1, 0 },
    { "tls.auth", TY_BOOL, 1, { 0 }, { 0 }, { 0 }, 0, 0, 0, 1, 1 },
    { "tls.check_time", TY_BOOL, 1, { 0 }, { 0 }, { 0 }, 0, 0, 0, 1, 1 },
    { "tls.verify_peer_name", TY_BOOL, 1, { 1 }, { 0 }, { 0 }, 0, 0, 0, 1, 1 },
    { "tls.client", TY_BOOL, 1, { 0 }, { 0 }, { 0 }, 0, 0, 0, 1, 1 },
    { "tls.cert_file", TY_STR, 1, { 0 }, { 0 }, { "/nonexistent/cert.pem" }, 0, 0, 0, 1, 1 },
};
#define NAS ((int)(sizeof AS / sizeof AS[0]))
static const int64_t TCP_DEFAULT[NTCP] = { 1, 1, 1, 3, 3 };

struct setop {
    int a, v, lp;
};

struct endp {
    const char *who;
    struct xcm_socket *s;
    int fd0;
    int64_t exp[NTCP];
    int last_lp[NTCP];
    int tcp_fd;
};

static char g_tp[16], g_mode[16], g_certs[256], g_addr[256], g_caddr[256], g_local[64];
static int g_bytestream, g_tls, g_port, g_depth;
static struct xcm_socket *g_server;
static struct endp A = { .who = "A" }, B = { .who = "B" };
static struct setop g_ops[4];
static int g_nops;
static struct setop g_bops[2];
static int g_nbops;
static int g_pending_seen;
static int g_a_done, g_b_gone;

#define V(...) mc_violation(__VA_ARGS__)

/* ---- values ------------------------------------------------------------------------------------ */
struct val {
    int type;
    bool b;
    int64_t i;
    double d;
    char s[128];
};

static const char *service_actual(void) { return g_bytestream ? "bytestream" : "messaging"; }

static void spec_val(const struct aspec *a, int v, struct val *out)
{
    memset(out, 0, sizeof *out);
    out->type = a->type;
    switch (a->type) {
    case TY_BOOL: out->b = a->iv[v] != 0; break;
    case TY_I64: out->i = a->iv[v]; break;
    case TY_DBL: out->d = a->dv[v]; break;
    default:
        if (!strcmp(a->sv[v], "@local"))
            snprintf(out->s, sizeof out->s, "%s", g_local);
        else if (!strcmp(a->sv[v], "@other"))
            snprintf(out->s, sizeof out->s, "%s", g_bytestream ? "messaging" : "bytestream");
        else
            snprintf(out->s, sizeof out->s, "%s", a->sv[v]);
    }
}

static void val_str(const struct val *v, char *buf, size_t n)
{
    switch (v->type) {
    case TY_BOOL: snprintf(buf, n, "%s", v->b ? "true" : "false"); break;
    case TY_I64: snprintf(buf, n, "%lld", (long long)v->i); break;
    case TY_DBL: snprintf(buf, n, "%g", v->d); break;
    default: snprintf(buf, n, "\"%s\"", v->s);
    }
}

static bool val_eq(const struct val *a, const struct val *b)
{
    if (a->type != b->type)
        return false;
    switch (a->type) {
    case TY_BOOL: return a->b == b->b;
    case TY_I64: return a->i == b->i;
    case TY_DBL: return a->d == b->d;
    default: return strcmp(a->s, b->s) == 0;
    }
}

/* 0 = read; -1 = no such value now (errno) */
static int get_val(struct xcm_socket *s, const char *name, struct val *out)
{
    enum xcm_attr_type t;
    char buf[256];
    memset(out, 0, sizeof *out);
    int rc = API("xcm_attr_get", 1, xcm_attr_get(s, name, &t, buf, sizeof buf));
    if (rc < 0)
        return -1;
    switch (t) {
    case xcm_attr_type_bool: out->type = TY_BOOL; memcpy(&out->b, buf, sizeof(bool)); break;
    case xcm_attr_type_int64: out->type = TY_I64; memcpy(&out->i, buf, sizeof(int64_t)); break;
    case xcm_attr_type_double: out->type = TY_DBL; memcpy(&out->d, buf, sizeof(double)); break;
    case xcm_attr_type_str: out->type = TY_STR; snprintf(out->s, sizeof out->s, "%s", buf); break;
    default: out->type = 99;
    }
    return 0;
}

static int set_val(struct xcm_socket *s, const char *name, const struct val *v)
{
    switch (v->type) {
    case TY_BOOL: return API("xcm_attr_set", 1, xcm_attr_set_bool(s, name, v->b));
    case TY_I64: return API("xcm_attr_set", 1, xcm_attr_set_int64(s, name, v->i));
    case TY_DBL: return API("xcm_attr_set", 1, xcm_attr_set_double(s, name, v->d));
    default: return API("xcm_attr_set", 1, xcm_attr_set_str(s, name, v->s));
    }
}

static void map_add(struct xcm_attr_map *m, const char *name, const struct val *v)
{
    switch (v->type) {
    case TY_BOOL: xcm_attr_map_add_bool(m, name, v->b); break;
    case TY_I64: xcm_attr_map_add_int64(m, name, v->i); break;
    case TY_DBL: xcm_attr_map_add_double(m, name, v->d); break;
    default: xcm_attr_map_add_str(m, name, v->s);
    }
}

/* ---- oracle: value in force on the connection's descriptor ------------------------------------------ */
static void check_inforce(struct endp *e, const char *when)
{
    char sig[200];
    if (e->tcp_fd < 0)
        return;
    mc_count(2, 1);
    for (int i = 0; i < NTCP; i++) {
        int v = -1;
        int have = env_sockopt_get(e->tcp_fd, AS[i].level, AS[i].opt, &v) == 0;
        int64_t want = e->exp[i] * AS[i].scale;
        if (!have || v != want) {
            snprintf(sig, sizeof sig, "C11/not-in-force/%s/set-at=%s/side=%s/tp=%s", AS[i].name,
                     e->last_lp[i] < 0 ? "default" : LPN[e->last_lp[i]], e->who, g_tp);
            V(sig, "%s (%s): the accepted value of %s is %lld (xcm_attr_get agrees), so the descriptor carrying the "
              "connection (fd %d) must have option %d/%d = %lld; it %s%d", e->who, when, AS[i].name,
              (long long)e->exp[i], e->tcp_fd, AS[i].level, AS[i].opt, (long long)want,
              have ? "has " : "was never given the option, kernel default applies; last value seen ", v);
        }
        /* and xcm_attr_get still reports the accepted value */
        struct val g;
        if (get_val(e->s, AS[i].name, &g) == 0) {
            int64_t gv = g.type == TY_BOOL ? g.b : g.i;
            if (gv != e->exp[i]) {
                snprintf(sig, sizeof sig, "C11/get-differs-from-accepted/%s/side=%s/tp=%s", AS[i].name, e->who, g_tp);
                V(sig, "%s (%s): %s reads %lld, the last accepted value is %lld", e->who, when, AS[i].name,
                  (long long)gv, (long long)e->exp[i]);
            }
        }
    }
}

/* one xcm_attr_set at life point lp */
static void apply_set(struct endp *e, const struct setop *op, int lp, int pending)
{
    const struct aspec *a = &AS[op->a];
    char sig[200], vs[160], gs[160];
    struct val v, before, after;
    spec_val(a, op->v, &v);
    val_str(&v, vs, sizeof vs);
    int had_before = get_val(e->s, a->name, &before) == 0;
    mc_sched_point("attr_set");
    int rc = set_val(e->s, a->name, &v);
    int err = rc < 0 ? errno : 0;
    int have_after = get_val(e->s, a->name, &after) == 0;
    mc_observe("%s set %s=%s at %s%s -> %d %s", e->who, a->name, vs, LPN[lp],
               lp == LP_CONNECTING ? (pending ? "(pending)" : "(completed)") : "", rc, rc < 0 ? errname(err) : "");
    mc_count(1, 1);
    if (have_after)
        val_str(&after, gs, sizeof gs);
    else
        snprintf(gs, sizeof gs, "<none>");
    if (a->creation_only) {
        /* must not change after creation; a no-op acceptance (same value, or "any") is harmless */
        int changed = had_before != have_after || (had_before && !val_eq(&before, &after));
        if (changed) {
            if (!strcmp(a->name, "tcp.connect_timeout") && lp == LP_RESOLVING && rc == 0) {
                mc_info("C11/connect-timeout-writable-while-resolving",
                        "tcp.connect_timeout is documented as writable only at xcm_connect_a() time but is accepted while the "
                        "name is being resolved (before any attempt that it governs has begun)");
                return;
            }
            snprintf(sig, sizeof sig, "C11/creation-only-changed/%s/at=%s/tp=%s", a->name, LPN[lp], g_tp);
            V(sig, "%s: %s is writable only at creation; xcm_attr_set(%s) at '%s' returned %d/%s and the attribute now reads %s",
              e->who, a->name, vs, LPN[lp], rc, errname(err), gs);
        } else if (rc == 0 && !(had_before && val_eq(&before, &v)) &&
                   !(!strcmp(a->name, "xcm.service") && !strcmp(v.s, "any"))) {
            /* accepted although it is not a no-op: "refused afterwards" is part of the documented contract, and a
               value that is stored without taking effect misleads the next reader of the code or of the log */
            snprintf(sig, sizeof sig, "C11/creation-only-accepted-later/%s/at=%s/tp=%s", a->name, LPN[lp], g_tp);
            V(sig, "%s: %s is writable only at creation; xcm_attr_set(%s) at '%s' returned 0 (the attribute reads %s before and after)",
              e->who, a->name, vs, LPN[lp], gs);
        } else if (rc < 0 && err != EACCES && err != EINVAL) {
            snprintf(sig, sizeof sig, "C11/creation-only-wrong-errno/%s/%s/tp=%s", a->name, errname(err), g_tp);
            V(sig, "%s: set of creation-only %s at '%s' failed with %s (EACCES documented)", e->who, a->name, LPN[lp],
              errname(err));
        } else if (rc < 0 && err != EACCES)
            mc_info("C11/creation-only-errno-not-EACCES", "a creation-only attribute refused a later set with EINVAL instead of EACCES (%s)", a->name);
        return;
    }
    /* tcp.* : writable during the whole life of a connection */
    int64_t nv = v.type == TY_BOOL ? v.b : v.i;
    if (rc == 0) {
        e->exp[op->a] = nv;
        e->last_lp[op->a] = lp;
        if (!have_after || !val_eq(&after, &v)) {
            snprintf(sig, sizeof sig, "C11/get-differs-from-set/%s/at=%s/tp=%s", a->name, LPN[lp], g_tp);
            V(sig, "%s: xcm_attr_set(%s=%s) at '%s' succeeded but xcm_attr_get reports %s", e->who, a->name, vs, LPN[lp], gs);
        }
    } else {
        if (lp != LP_PEERCLOSED) {
            snprintf(sig, sizeof sig, "C11/admissible-value-refused/%s/at=%s/%s/tp=%s", a->name, LPN[lp], errname(err), g_tp);
            V(sig, "%s: xcm_attr_set(%s=%s) at '%s' failed with %s", e->who, a->name, vs, LPN[lp], errname(err));
        }
        if (had_before && have_after && !val_eq(&before, &after)) {
            snprintf(sig, sizeof sig, "C11/refused-set-changed-value/%s/at=%s/tp=%s", a->name, LPN[lp], g_tp);
            V(sig, "%s: xcm_attr_set(%s=%s) at '%s' failed with %s yet the attribute now reads %s", e->who, a->name, vs,
              LPN[lp], errname(err), gs);
            /* keep following what the library says so that later checks stay meaningful */
            e->exp[op->a] = after.type == TY_BOOL ? after.b : after.i;
        }
    }
}

static void apply_ops(struct endp *e, const struct setop *ops, int nops, int lp, int pending)
{
    for (int i = 0; i < nops; i++)
        if (ops[i].lp == lp) {
            if (!e->s)
                return;
            apply_set(e, &ops[i], lp, pending);
            if (lp == LP_ESTABLISHED || (lp == LP_CONNECTING && e->tcp_fd >= 0 && !pending && !g_tls))
                check_inforce(e, "after a set on the established connection");
        }
}

static void find_a_fd(void)
{
    int n = env_connect_log_count();
    if (n > 0) {
        char ip[64];
        int port;
        env_connect_log_entry(n - 1, &A.tcp_fd, ip, sizeof ip, &port);
    }
}

static int wait_fd(struct endp *e, int cond, const char *why)
{
    if (API("xcm_await", 1, xcm_await(e->s, cond)) < 0)
        return -1;
    mc_wait_readable(e->fd0, why);
    return 0;
}

/* ---- history selection (free choice points: the explorer enumerates the whole product) --------------- */
static void choose_ops(struct setop *ops, int *nops, int depth, int min_lp_first, const char *tag, int tcp_only)
{
    int lo = 0;
    *nops = 0;
    for (int k = 0; k < depth; k++) {
        char lb[32];
        int na = tcp_only ? NTCP : NAS;
        snprintf(lb, sizeof lb, "%s-op%d-attr", tag, k);
        /* alternative 0 on the second op = no second op */
        int a = mc_choose_mask(na + (k > 0), MC_SCHED, lb, 0);
        if (k > 0) {
            if (a == 0)
                break;
            a--;
        }
        if (AS[a].tls_only && !g_tls) {
            mc_outcome("skipped: tls attribute on %s", g_tp);
            mc_finish();
        }
        snprintf(lb, sizeof lb, "%s-op%d-val", tag, k);
        int v = mc_choose_mask(AS[a].nvals, MC_SCHED, lb, 0);
        int first = AS[a].creation_only ? LP_RESOLVING : LP_MAP;
        if (first < min_lp_first)
            first = min_lp_first;
        if (first < lo)
            first = lo;
        snprintf(lb, sizeof lb, "%s-op%d-when", tag, k);
        int lp = first + mc_choose_mask(NLP - first, MC_SCHED, lb, 0);
        ops[*nops] = (struct setop){ a, v, lp };
        (*nops)++;
        lo = lp;
    }
}

/* ---- tasks ---------------------------------------------------------------------------------------- */
static struct xcm_attr_map *base_map(void)
{
    struct xcm_attr_map *m = xcm_attr_map_create();
    xcm_attr_map_add_bool(m, "xcm.blocking", false);
    if (g_bytestream)
        xcm_attr_map_add_str(m, "xcm.service", "bytestream");
    return m;
}

static void task_a(void *arg)
{
    (void)arg;
    char sig[200];
    struct endp *e = &A;
    struct xcm_attr_map *m = base_map();
    if (strstr(g_caddr, "verif.test"))
        xcm_attr_map_add_double(m, "dns.timeout", 0.25);   /* fewer timer expiries to order against the answer */
    for (int i = 0; i < g_nops; i++)
        if (g_ops[i].lp == LP_MAP) {
            struct val v;
            spec_val(&AS[g_ops[i].a], g_ops[i].v, &v);
            map_add(m, AS[g_ops[i].a].name, &v);
            e->exp[g_ops[i].a] = v.type == TY_BOOL ? v.b : v.i;
            e->last_lp[g_ops[i].a] = LP_MAP;
            mc_count(1, 1);
        }
    mc_sched_point("connect");
    e->s = API("xcm_connect_a", 1, xcm_connect_a(g_caddr, m));
    xcm_attr_map_destroy(m);
    if (!e->s) {
        snprintf(sig, sizeof sig, "C11/creation-map-refused/tp=%s", g_tp);
        V(sig, "xcm_connect_a(%s) with admissible tcp.* values in the attribute map failed: %s", g_caddr, errname(errno));
        g_a_done = 1;
        return;
    }
    e->fd0 = xcm_fd(e->s);
    /* what the map asked for is what get reports */
    for (int i = 0; i < NTCP; i++) {
        struct val g;
        if (get_val(e->s, AS[i].name, &g) < 0 || (g.type == TY_BOOL ? g.b : g.i) != e->exp[i]) {
            snprintf(sig, sizeof sig, "C11/get-differs-from-set/%s/at=%s/tp=%s", AS[i].name, LPN[LP_MAP], g_tp);
            V(sig, "after xcm_connect_a %s reads %lld, the creation map / default says %lld", AS[i].name,
              (long long)(g.type == TY_BOOL ? g.b : g.i), (long long)e->exp[i]);
        }
    }
    apply_ops(e, g_ops, g_nops, LP_RESOLVING, 0);
    int did_conn = 0;
    for (;;) {
        if (!did_conn && env_connect_log_count() > 0) {
            find_a_fd();
            int pending = env_pending_connects() > 0;
            g_pending_seen = pending;
            mc_observe("A connect issued, %s", pending ? "pending" : "completed at once");
            apply_ops(e, g_ops, g_nops, LP_CONNECTING, pending);
            did_conn = 1;
        }
        mc_sched_point("finish");
        int rc = API("xcm_finish", 1, xcm_finish(e->s));
        int err = rc < 0 ? errno : 0;
        if (rc == 0)
            break;
        if (err != EAGAIN) {
            mc_observe("A finish failed %s", errname(err));
            /* virtual time only advances when the environment withholds an answer until a timer
               (dns.timeout, tcp.connect_timeout) expires: a failure after that is the environment's */
            if (env_now_ns() == 0)
                V("C11/connect-failed", "connection establishment failed with %s", errname(err));
            goto out;
        }
        if (!did_conn && env_connect_log_count() > 0)
            continue;
        mc_set_progress(0);
        if (wait_fd(e, 0, "establish") < 0)
            goto out;
    }
    if (!did_conn) {
        find_a_fd();
        mc_observe("A connect issued and completed inside the same call");
        apply_ops(e, g_ops, g_nops, LP_CONNECTING, 0);
    }
    find_a_fd();
    mc_observe("A established");
    check_inforce(e, "at establishment");
    apply_ops(e, g_ops, g_nops, LP_ESTABLISHED, 0);
    check_inforce(e, "established, after all sets");
    /* ask the peer to close: one message / byte */
    for (;;) {
        unsigned char b = 'x';
        mc_sched_point("send");
        int rc = API("xcm_send", 1, xcm_send(e->s, &b, 1));
        if (rc >= 0)
            break;
        if (errno != EAGAIN)
            goto out;
        mc_set_progress(0);
        if (wait_fd(e, XCM_SO_SENDABLE, "send") < 0)
            goto out;
    }
    for (;;) {
        unsigned char buf[16];
        mc_sched_point("recv");
        int rc = API("xcm_receive", 1, xcm_receive(e->s, buf, sizeof buf));
        if (rc == 0)
            break;
        if (rc < 0 && errno != EAGAIN) {
            mc_observe("A receive -> %s", errname(errno));
            goto out;
        }
        if (rc < 0) {
            mc_set_progress(0);
            if (wait_fd(e, XCM_SO_RECEIVABLE, "eof") < 0)
                goto out;
        }
    }
    mc_observe("A saw EOF");
    apply_ops(e, g_ops, g_nops, LP_PEERCLOSED, 0);
out:
    mc_sched_point("close");
    API("xcm_close", 1, xcm_close(e->s));
    e->s = NULL;
    g_a_done = 1;
}

static void task_b(void *arg)
{
    (void)arg;
    char sig[200];
    struct endp *e = &B;
    struct xcm_attr_map *m = base_map();
    for (int i = 0; i < g_nbops; i++)
        if (g_bops[i].lp == LP_MAP) {
            struct val v;
            spec_val(&AS[g_bops[i].a], g_bops[i].v, &v);
            map_add(m, AS[g_bops[i].a].name, &v);
            e->exp[g_bops[i].a] = v.type == TY_BOOL ? v.b : v.i;
            e->last_lp[g_bops[i].a] = LP_MAP;
            mc_count(1, 1);
        }
    for (;;) {
        if (API("xcm_await", 1, xcm_await(g_server, XCM_SO_ACCEPTABLE)) < 0)
            break;
        mc_wait_readable(xcm_fd(g_server), "accept-wait");
        mc_sched_point("accept");
        e->s = API("xcm_accept_a", 1, xcm_accept_a(g_server, m));
        if (e->s)
            break;
        if (errno != EAGAIN) {
            if (!g_a_done && env_now_ns() == 0) {
                snprintf(sig, sizeof sig, "C11/accept-map-refused/tp=%s", g_tp);
                V(sig, "xcm_accept_a with admissible tcp.* values in the attribute map failed: %s", errname(errno));
            }
            break;
        }
        mc_set_progress(0);
    }
    xcm_attr_map_destroy(m);
    if (!e->s) {
        g_b_gone = 1;
        return;
    }
    e->fd0 = xcm_fd(e->s);
    if (A.tcp_fd >= 0)
        e->tcp_fd = env_conn_fd_peer(A.tcp_fd);
    mc_observe("B accepted");
    check_inforce(e, "accepted socket, right after xcm_accept_a");
    for (;;) {
        mc_sched_point("finish");
        int rc = API("xcm_finish", 1, xcm_finish(e->s));
        if (rc == 0)
            break;
        if (errno != EAGAIN)
            goto out;
        mc_set_progress(0);
        if (wait_fd(e, 0, "b-establish") < 0)
            goto out;
    }
    apply_ops(e, g_bops, g_nbops, LP_ESTABLISHED, 0);
    check_inforce(e, "accepted socket, established");
    for (;;) {
        unsigned char buf[16];
        mc_sched_point("recv");
        int rc = API("xcm_receive", 1, xcm_receive(e->s, buf, sizeof buf));
        if (rc >= 0)
            break;
        if (errno != EAGAIN)
            goto out;
        mc_set_progress(0);
        if (wait_fd(e, XCM_SO_RECEIVABLE, "b-recv") < 0)
            goto out;
    }
    check_inforce(e, "accepted socket, before close");
out:
    mc_sched_point("close");
    API("xcm_close", 1, xcm_close(e->s));
    e->s = NULL;
    g_b_gone = 1;
}

/* ---- mode=ctmo: an accepted tcp.connect_timeout governs the attempt --------------------------------- */
static int g_ct_when, g_ct_val;
static const double CT_VALS[2] = { 0.5, 1.5 };

static void task_ctmo(void *arg)
{
    (void)arg;
    char sig[200];
    struct endp *e = &A;
    double want = 3.0;                   /* documented default */
    struct xcm_attr_map *m = base_map();
    xcm_attr_map_add_double(m, "dns.timeout", 0.25);   /* fewer resolver timer expiries to order against the answer */
    if (g_ct_when == 0) {
        xcm_attr_map_add_double(m, "tcp.connect_timeout", CT_VALS[g_ct_val]);
        want = CT_VALS[g_ct_val];
    }
    mc_sched_point("connect");
    e->s = API("xcm_connect_a", 1, xcm_connect_a(g_caddr, m));
    xcm_attr_map_destroy(m);
    if (!e->s) {
        V("C11/creation-map-refused/tcp.connect_timeout", "xcm_connect_a(%s) with tcp.connect_timeout in the map failed: %s",
          g_caddr, errname(errno));
        return;
    }
    e->fd0 = xcm_fd(e->s);
    if (g_ct_when == 1) {
        /* while the name is being resolved: the library either refuses the set (EACCES: then the old value
           governs) or accepts it - and then it must be the accepted value that governs the attempt */
        mc_sched_point("attr_set");
        int rc = API("xcm_attr_set", 1, xcm_attr_set_double(e->s, "tcp.connect_timeout", CT_VALS[g_ct_val]));
        mc_observe("A set tcp.connect_timeout=%g while resolving -> %d %s", CT_VALS[g_ct_val], rc, rc < 0 ? errname(errno) : "");
        if (rc == 0)
            want = CT_VALS[g_ct_val];
    }
    struct val g;
    if (get_val(e->s, "tcp.connect_timeout", &g) < 0 || g.d != want) {
        snprintf(sig, sizeof sig, "C11/get-differs-from-set/tcp.connect_timeout/at=%s/tp=%s", g_ct_when ? "resolving" : "creation-map", g_tp);
        V(sig, "tcp.connect_timeout reads %g, the last accepted value is %g", g.d, want);
    }
    int64_t t_attempt = -1;
    for (;;) {
        if (t_attempt < 0 && env_connect_log_count() > 0)
            t_attempt = env_now_ns();
        mc_sched_point("finish");
        int rc = API("xcm_finish", 1, xcm_finish(e->s));
        int err = rc < 0 ? errno : 0;
        if (t_attempt < 0 && env_connect_log_count() > 0)
            t_attempt = env_now_ns();
        if (rc == 0) {
            V("C11/ctmo-connected", "connect to a silent address succeeded");
            break;
        }
        if (err != EAGAIN) {
            int64_t el = env_now_ns() - t_attempt;
            mc_observe("A attempt given up with %s after %lld ms of virtual time", errname(err), (long long)(el / 1000000));
            mc_count(2, 1);
            /* the timer is exact in virtual time; a late service of the wake-up only adds the other timers' ticks */
            if (t_attempt >= 0 && err == ETIMEDOUT && (el < (int64_t)(want * 1e9) || el > (int64_t)(want * 1e9) + 300000000LL)) {
                snprintf(sig, sizeof sig, "C11/connect-timeout-not-governing/set-at=%s/tp=%s", g_ct_when ? "resolving" : "creation-map", g_tp);
                V(sig, "tcp.connect_timeout=%g s was accepted (and is what xcm_attr_get reports), but the attempt to a silent "
                  "address was given up after %lld ms", want, (long long)(el / 1000000));
            } else if (err == ENOENT && t_attempt < 0) {
                /* the environment withheld the resolver's answer beyond dns.timeout: no attempt was ever made */
            } else if (err != ETIMEDOUT) {
                snprintf(sig, sizeof sig, "C11/ctmo-wrong-errno/%s/tp=%s", errname(err), g_tp);
                V(sig, "attempt to a silent address ended with %s", errname(err));
            }
            break;
        }
        mc_set_progress(0);
        if (wait_fd(e, 0, "ctmo") < 0)
            break;
    }
    mc_sched_point("close");
    API("xcm_close", 1, xcm_close(e->s));
    e->s = NULL;
    g_a_done = 1;
}

/* ---- mode=static ------------------------------------------------------------------------------------ */
static int g_cells;

static struct xcm_socket *establish_pair(const char *saddr, const char *caddr, struct xcm_attr_map *sm,
                                         struct xcm_attr_map *cm, struct xcm_attr_map *am, struct xcm_socket **srv,
                                         struct xcm_socket **acc)
{
    *srv = API("xcm_server_a", 1, xcm_server_a(saddr, sm));
    *acc = NULL;
    if (!*srv)
        return NULL;
    struct xcm_socket *c = API("xcm_connect_a", 1, xcm_connect_a(caddr, cm));
    if (!c)
        return NULL;
    for (int i = 0; i < 400; i++) {
        if (!*acc) {
            *acc = API("xcm_accept_a", 1, xcm_accept_a(*srv, am));
            if (!*acc && errno != EAGAIN)
                break;
        }
        int f1 = API("xcm_finish", 1, xcm_finish(c));
        int e1 = errno;
        int f2 = *acc ? API("xcm_finish", 1, xcm_finish(*acc)) : -1;
        if (*acc && f1 == 0 && f2 == 0)
            return c;
        if (f1 < 0 && e1 != EAGAIN)
            break;
    }
    return c;
}

static struct xcm_attr_map *nb_map(int bytestream)
{
    struct xcm_attr_map *m = xcm_attr_map_create();
    xcm_attr_map_add_bool(m, "xcm.blocking", false);
    if (bytestream >= 0)
        xcm_attr_map_add_str(m, "xcm.service", bytestream ? "bytestream" : "messaging");
    return m;
}

static void mk_static_addr(const char *tp, int k, char *out, size_t n, const char *host)
{
    if (!strcmp(tp, "ux"))
        snprintf(out, n, "ux:eff-%d-%d", getpid(), k);
    else if (!strcmp(tp, "uxf"))
        snprintf(out, n, "uxf:/verif/build/run/eff-%d-%d", getpid(), k);
    else
        snprintf(out, n, "%s:%s:%d", tp, host, g_port + k);
}

static void static_service(void)
{
    static const char *TPS[] = { "ux", "uxf", "tcp", "tls", "utls", "btcp", "btls" };
    static const char *SV[] = { "messaging", "bytestream", "any", "junk", "" };
    char sig[200], addr[200];
    int k = 0;
    for (int t = 0; t < 7; t++) {
        int bs = !strncmp(TPS[t], "bt", 2);
        const char *actual = bs ? "bytestream" : "messaging";
        for (int v = 0; v < 5; v++) {
            int admissible = !strcmp(SV[v], "any") || !strcmp(SV[v], actual);
            for (int role = 0; role < 3; role++) {   /* 0 server, 1 connect, 2 accept */
                mk_static_addr(TPS[t], ++k, addr, sizeof addr, "127.0.0.1");
                struct xcm_attr_map *good = nb_map(bs), *m = xcm_attr_map_create();
                xcm_attr_map_add_bool(m, "xcm.blocking", false);
                xcm_attr_map_add_str(m, "xcm.service", SV[v]);
                struct xcm_socket *srv = NULL, *acc = NULL, *c = NULL, *sut;
                g_cells++;
                if (role == 0) {
                    sut = srv = API("xcm_server_a", 1, xcm_server_a(addr, m));
                } else {
                    c = establish_pair(addr, addr, good, role == 1 ? m : good, role == 2 ? m : good, &srv, &acc);
                    sut = role == 1 ? c : acc;
                }
                int created = sut != NULL;
                mc_observe("service %s %s role=%d -> %s", TPS[t], SV[v], role, created ? "created" : errname(errno));
                if (created != admissible) {
                    snprintf(sig, sizeof sig, "C11/service-%s/%s/role=%s/tp=%s", created ? "not-restricting" : "refused-admissible",
                             SV[v][0] ? SV[v] : "empty", role == 0 ? "server" : role == 1 ? "connect" : "accept", TPS[t]);
                    V(sig, "xcm.service=\"%s\" on a %s %s socket: %s (the transport provides %s)", SV[v], TPS[t],
                      role == 0 ? "server" : role == 1 ? "connect" : "accepted", created ? "created" : "refused", actual);
                }
                if (sut) {
                    struct val g;
                    if (get_val(sut, "xcm.service", &g) < 0 || strcmp(g.s, actual)) {
                        snprintf(sig, sizeof sig, "C11/service-misreported/tp=%s", TPS[t]);
                        V(sig, "xcm.service reads \"%s\" on a %s socket", g.s, TPS[t]);
                    }
                    /* after creation: no set may change it */
                    for (int w = 0; w < 4; w++) {
                        int rc = API("xcm_attr_set", 1, xcm_attr_set_str(sut, "xcm.service", SV[w]));
                        (void)rc;
                        if (get_val(sut, "xcm.service", &g) < 0 || strcmp(g.s, actual)) {
                            snprintf(sig, sizeof sig, "C11/creation-only-changed/xcm.service/at=after-creation/tp=%s", TPS[t]);
                            V(sig, "xcm.service reads \"%s\" after a later set to \"%s\"", g.s, SV[w]);
                        }
                    }
                }
                if (c) API("xcm_close", 1, xcm_close(c));
                if (acc) API("xcm_close", 1, xcm_close(acc));
                if (srv) API("xcm_close", 1, xcm_close(srv));
                xcm_attr_map_destroy(good);
                xcm_attr_map_destroy(m);
            }
        }
    }
}

static void static_blocking(void)
{
    static const char *TPS[] = { "ux", "uxf", "tcp", "tls", "utls", "btcp", "btls" };
    char sig[200], addr[200];
    for (int t = 0; t < 7; t++) {
        int bs = !strncmp(TPS[t], "bt", 2);
        mk_static_addr(TPS[t], 200 + t, addr, sizeof addr, "127.0.0.1");
        struct xcm_attr_map *m = nb_map(bs);
        struct xcm_socket *srv, *acc, *c = establish_pair(addr, addr, m, m, m, &srv, &acc);
        xcm_attr_map_destroy(m);
        if (!c || !acc) {
            snprintf(sig, sizeof sig, "internal/static-establish/tp=%s", TPS[t]);
            mc_violation(sig, "could not establish %s: %s", addr, errname(errno));
            continue;
        }
        struct xcm_socket *ss[3] = { c, acc, srv };
        for (int i = 0; i < 3; i++) {
            struct xcm_socket *s = ss[i];
            g_cells++;
            /* the map said non-blocking: both views agree, and a receive/accept with nothing there says EAGAIN */
            for (int round = 0; round < 4; round++) {
                bool want = round == 0 ? false : round == 1 ? true : round == 2 ? false : false;
                if (round == 1)
                    API("xcm_attr_set", 1, xcm_attr_set_bool(s, "xcm.blocking", true));
                if (round == 2)
                    API("xcm_set_blocking", 1, xcm_set_blocking(s, false));
                if (round == 3) {
                    API("xcm_set_blocking", 1, xcm_set_blocking(s, true));
                    API("xcm_attr_set", 1, xcm_attr_set_bool(s, "xcm.blocking", false));
                }
                struct val g;
                int ok = get_val(s, "xcm.blocking", &g) == 0 && g.type == TY_BOOL;
                if (!ok || g.b != want || xcm_is_blocking(s) != want) {
                    snprintf(sig, sizeof sig, "C11/blocking-views-disagree/round=%d/tp=%s", round, TPS[t]);
                    V(sig, "%s socket %d: expected blocking=%d, xcm.blocking reads %d, xcm_is_blocking says %d", TPS[t], i,
                      want, ok ? g.b : -1, xcm_is_blocking(s));
                }
                if (!want && i < 2) {
                    unsigned char b[8];
                    int rc = API("xcm_receive", 1, xcm_receive(s, b, sizeof b));
                    if (!(rc < 0 && errno == EAGAIN)) {
                        snprintf(sig, sizeof sig, "C11/nonblocking-receive/tp=%s", TPS[t]);
                        V(sig, "receive on an idle non-blocking %s connection returned %d/%s", TPS[t], rc, errname(errno));
                    }
                }
            }
        }
        /* a switch that FAILS: the peer closes, this end sees the end of the connection, and the switch to blocking
           mode - which has to finish outstanding work first - is attempted through both spellings.  Whatever the
           call answers, the two views agree with each other and with that answer: 0 = the socket is now blocking,
           -1 = refused, nothing changed */
        API("xcm_close", 1, xcm_close(acc));
        acc = NULL;
        {
            unsigned char b[8];
            for (int i = 0; i < 20; i++) {
                int rc = API("xcm_receive", 1, xcm_receive(c, b, sizeof b));
                if (rc == 0 || (rc < 0 && errno != EAGAIN))
                    break;
            }
            API("xcm_send", 1, xcm_send(c, b, 1));
            API("xcm_send", 1, xcm_send(c, b, 1));
            for (int sp = 0; sp < 2; sp++) {
                int rc = sp == 0 ? API("xcm_attr_set", 1, xcm_attr_set_bool(c, "xcm.blocking", true))
                                 : API("xcm_set_blocking", 1, xcm_set_blocking(c, true));
                int err = errno;
                bool want = rc == 0;
                struct val g;
                int ok = get_val(c, "xcm.blocking", &g) == 0 && g.type == TY_BOOL;
                g_cells++;
                if (!ok || g.b != want || xcm_is_blocking(c) != want) {
                    snprintf(sig, sizeof sig, "C11/blocking-switch-outcome-disagrees/%s/tp=%s", sp == 0 ? "xcm_attr_set" : "xcm_set_blocking", TPS[t]);
                    V(sig, "%s connection closed by its peer: %s(blocking=true) returned %d (%s), yet xcm.blocking reads %d and "
                      "xcm_is_blocking says %d", TPS[t], sp == 0 ? "xcm_attr_set" : "xcm_set_blocking", rc, rc < 0 ? errname(err) : "ok",
                      ok ? g.b : -1, xcm_is_blocking(c));
                }
                if (xcm_is_blocking(c))
                    xcm_set_blocking(c, false);
            }
        }
        API("xcm_close", 1, xcm_close(c));
        API("xcm_close", 1, xcm_close(srv));
        /* the accept-time override: xcm.blocking given in the xcm_accept_a map of a NON-blocking server socket is a value
           "accepted through the attribute map of xcm_accept_a": the accepted socket exists, both views report the
           map's value, and the server socket keeps its own mode */
        for (int ov = 0; ov < 2; ov++) {
            mk_static_addr(TPS[t], 230 + 2 * t + ov, addr, sizeof addr, "127.0.0.1");
            struct xcm_attr_map *nm = nb_map(bs), *am = nb_map(bs);
            xcm_attr_map_add_bool(am, "xcm.blocking", ov);
            srv = API("xcm_server_a", 1, xcm_server_a(addr, nm));
            c = srv ? API("xcm_connect_a", 1, xcm_connect_a(addr, nm)) : NULL;
            acc = NULL;
            int aerr = 0;
            for (int i = 0; c && i < 50 && !acc; i++) {
                acc = API("xcm_accept_a", 1, xcm_accept_a(srv, am));
                aerr = errno;
                if (!acc && aerr != EAGAIN)
                    break;
                if (!acc)
                    API("xcm_finish", 1, xcm_finish(c));
            }
            g_cells++;
            if (!srv || !c) {
                snprintf(sig, sizeof sig, "internal/static-establish/tp=%s", TPS[t]);
                mc_violation(sig, "could not set up %s: %s", addr, errname(errno));
            } else if (!acc) {
                snprintf(sig, sizeof sig, "C11/accept-map-refused/xcm.blocking=%d/tp=%s", ov, TPS[t]);
                V(sig, "xcm_accept_a on a non-blocking %s server with xcm.blocking=%d in the map: no socket (%s)", TPS[t], ov,
                  errname(aerr));
            } else {
                struct val g;
                int ok = get_val(acc, "xcm.blocking", &g) == 0 && g.type == TY_BOOL;
                if (!ok || g.b != (bool)ov || xcm_is_blocking(acc) != (bool)ov) {
                    snprintf(sig, sizeof sig, "C11/accept-override-ignored/xcm.blocking=%d/tp=%s", ov, TPS[t]);
                    V(sig, "non-blocking %s server, accept map xcm.blocking=%d: accepted socket reads %d, xcm_is_blocking says %d",
                      TPS[t], ov, ok ? g.b : -1, xcm_is_blocking(acc));
                }
                if (xcm_is_blocking(srv)) {
                    snprintf(sig, sizeof sig, "C11/accept-override-changed-server/xcm.blocking/tp=%s", TPS[t]);
                    V(sig, "the %s server socket became blocking through the map of xcm_accept_a", TPS[t]);
                }
            }
            if (c) API("xcm_close", 1, xcm_close(c));
            if (acc) API("xcm_close", 1, xcm_close(acc));
            if (srv) API("xcm_close", 1, xcm_close(srv));
            xcm_attr_map_destroy(nm);
            xcm_attr_map_destroy(am);
        }
    }
}

/* values the library's own range check admits but the kernel refuses (setsockopt -> EINVAL), offered on ESTABLISHED sockets:
   whatever the set answers, xcm_attr_get and the option in force on the descriptor agree with that answer
   (-1: refused, nothing changed - also when the same value is offered again; 0: accepted, reported and in force) */
static void static_kernel_refusal(void)
{
    static const char *TPS[] = { "tcp", "tls", "btcp", "btls" };
    static const struct { const char *name; int64_t v; int opt; } KR[] = {
        { "tcp.keepalive_count", 200, TCP_KEEPCNT }, { "tcp.keepalive_time", 100000, TCP_KEEPIDLE },
        { "tcp.keepalive_interval", 100000, TCP_KEEPINTVL } };
    char sig[200], addr[200];
    for (int t = 0; t < 4; t++) {
        int bs = !strncmp(TPS[t], "bt", 2);
        mk_static_addr(TPS[t], 260 + t, addr, sizeof addr, "127.0.0.1");
        struct xcm_attr_map *m = nb_map(bs);
        struct xcm_socket *srv, *acc, *c = establish_pair(addr, addr, m, m, m, &srv, &acc);
        xcm_attr_map_destroy(m);
        if (!c || !acc) {
            snprintf(sig, sizeof sig, "internal/static-establish/tp=%s", TPS[t]);
            mc_violation(sig, "could not establish %s: %s", addr, errname(errno));
            continue;
        }
        int cfd = -1, port;
        char ip[64];
        if (env_connect_log_count() > 0)
            env_connect_log_entry(env_connect_log_count() - 1, &cfd, ip, sizeof ip, &port);
        int fds[2] = { cfd, cfd >= 0 ? env_conn_fd_peer(cfd) : -1 };
        struct xcm_socket *ss[2] = { c, acc };
        for (int i = 0; i < 2; i++)
            for (int k = 0; k < 3; k++) {
                struct val before, after;
                g_cells++;
                if (get_val(ss[i], KR[k].name, &before) < 0)
                    continue;
                int inforce0 = 0, have0 = fds[i] >= 0 && env_sockopt_get(fds[i], SOL_TCP, KR[k].opt, &inforce0);
                for (int rep = 0; rep < 2; rep++) {
                    int rc = API("xcm_attr_set", 1, xcm_attr_set_int64(ss[i], KR[k].name, KR[k].v));
                    int err = errno;
                    if (get_val(ss[i], KR[k].name, &after) < 0)
                        break;
                    int inforce = 0, have = fds[i] >= 0 && env_sockopt_get(fds[i], SOL_TCP, KR[k].opt, &inforce);
                    int64_t want = rc == 0 ? KR[k].v : before.i;
                    if (after.i != want) {
                        snprintf(sig, sizeof sig, "C11/get-differs-from-accepted/%s/after-kernel-refusal/tp=%s", KR[k].name, TPS[t]);
                        V(sig, "%s %s socket: xcm_attr_set(%s=%lld) returned %d (%s)%s; xcm_attr_get reports %lld, the last accepted "
                          "value is %lld", TPS[t], i ? "accepted" : "connect-side", KR[k].name, (long long)KR[k].v, rc,
                          rc < 0 ? errname(err) : "ok", rep ? " when offered a second time" : "", (long long)after.i, (long long)want);
                    }
                    if (rc == 0 && have && inforce != KR[k].v) {
                        snprintf(sig, sizeof sig, "C11/accepted-but-not-in-force/%s/after-kernel-refusal/tp=%s", KR[k].name, TPS[t]);
                        V(sig, "%s %s socket: xcm_attr_set(%s=%lld) returned 0%s but the descriptor has %d", TPS[t],
                          i ? "accepted" : "connect-side", KR[k].name, (long long)KR[k].v, rep ? " when offered a second time" : "", inforce);
                    }
                    if (rc < 0 && have0 && have && inforce != inforce0) {
                        snprintf(sig, sizeof sig, "C11/refused-set-changed-descriptor/%s/tp=%s", KR[k].name, TPS[t]);
                        V(sig, "%s: a refused set of %s changed the option in force from %d to %d", TPS[t], KR[k].name, inforce0, inforce);
                    }
                }
            }
        API("xcm_close", 1, xcm_close(c));
        API("xcm_close", 1, xcm_close(acc));
        API("xcm_close", 1, xcm_close(srv));
    }
}

static void static_local_addr(void)
{
    static const char *TPS[] = { "tcp", "tls", "utls", "btcp", "btls" };
    char sig[200], addr[200], la[200];
    for (int t = 0; t < 5; t++) {
        int bs = !strncmp(TPS[t], "bt", 2);
        for (int fixed = 0; fixed < 2; fixed++) {
            int k = 300 + t * 2 + fixed;
            mk_static_addr(TPS[t], k, addr, sizeof addr, "127.0.0.1");
            int lport = fixed ? g_port + 900 + k : 0;
            const char *latp = TPS[t];   /* a utls socket takes a utls: local address */
            snprintf(la, sizeof la, "%s:127.0.0.2:%d", latp, lport);
            struct xcm_attr_map *m = nb_map(bs), *cm = nb_map(bs);
            xcm_attr_map_add_str(cm, "xcm.local_addr", la);
            int binds0 = env_bind_log_count();
            struct xcm_socket *srv, *acc, *c;
            const char *saddr = addr;
            char taddr[200];
            if (!strcmp(TPS[t], "utls")) {
                /* make the UX leg fail so that the TLS leg (the one xcm.local_addr is about) is used */
                snprintf(taddr, sizeof taddr, "tls:127.0.0.1:%d", g_port + k);
                saddr = taddr;
            }
            c = establish_pair(saddr, addr, m, cm, m, &srv, &acc);
            g_cells++;
            if (!c || !acc) {
                snprintf(sig, sizeof sig, "C11/local-addr-connect-failed/%s/tp=%s", fixed ? "fixed-port" : "port0", TPS[t]);
                V(sig, "connect with xcm.local_addr=%s failed: %s", la, errname(errno));
            } else {
                /* (1) the bind the kernel saw */
                int seen = 0;
                for (int i = binds0; i < env_bind_log_count(); i++) {
                    int fd, port;
                    char ip[64];
                    env_bind_log_entry(i, &fd, ip, sizeof ip, &port);
                    if (!strcmp(ip, "127.0.0.2") && port == lport)
                        seen = 1;
                }
                const char *l = xcm_local_addr(c), *r = xcm_remote_addr(acc);
                mc_observe("local_addr %s %s: bind seen=%d local=%s peer-sees=%s", TPS[t], la, seen, l ? l : "-", r ? r : "-");
                if (!seen || !l || !strstr(l, "127.0.0.2") || !r || !strstr(r, "127.0.0.2")) {
                    snprintf(sig, sizeof sig, "C11/local-addr-not-source/%s/tp=%s", fixed ? "fixed-port" : "port0", TPS[t]);
                    V(sig, "xcm.local_addr=%s: bind(127.0.0.2:%d) seen=%d, xcm_local_addr=%s, the peer sees %s", la, lport,
                      seen, l ? l : "NULL", r ? r : "NULL");
                }
                if (fixed && r) {
                    char want[32];
                    snprintf(want, sizeof want, ":%d", lport);
                    size_t rl = strlen(r), wl = strlen(want);
                    if (rl < wl || strcmp(r + rl - wl, want)) {
                        snprintf(sig, sizeof sig, "C11/local-port-not-source/tp=%s", TPS[t]);
                        V(sig, "xcm.local_addr=%s: the peer sees %s", la, r);
                    }
                }
                /* (2) creation-only afterwards */
                struct val before, after;
                int hb = get_val(c, "xcm.local_addr", &before);
                char la2[200];
                snprintf(la2, sizeof la2, "%s:127.0.0.3:0", latp);
                int rc = API("xcm_attr_set", 1, xcm_attr_set_str(c, "xcm.local_addr", la2));
                int err = errno;
                int ha = get_val(c, "xcm.local_addr", &after);
                if (rc == 0 || hb != ha || (hb == 0 && strcmp(before.s, after.s))) {
                    snprintf(sig, sizeof sig, "C11/creation-only-changed/xcm.local_addr/at=established/tp=%s", TPS[t]);
                    V(sig, "set xcm.local_addr on an established connection: rc=%d/%s, before=%s after=%s", rc, errname(err),
                      before.s, after.s);
                }
            }
            if (c) API("xcm_close", 1, xcm_close(c));
            if (acc) API("xcm_close", 1, xcm_close(acc));
            if (srv) API("xcm_close", 1, xcm_close(srv));
            xcm_attr_map_destroy(m);
            xcm_attr_map_destroy(cm);
        }
    }
}

/* creation-only attributes given in the creation map are what xcm_attr_get reports */
static void static_creation_map(void)
{
    static const char *TPS[] = { "tcp", "tls", "utls", "btcp", "btls" };
    char sig[200], addr[200];
    static const char *ips[] = { "127.0.0.1" };
    env_dns_set("static.verif.test", ips, 1, ENV_DNS_LATE);
    for (int t = 0; t < 5; t++) {
        int bs = !strncmp(TPS[t], "bt", 2);
        int tls = strcmp(TPS[t], "tcp") && strcmp(TPS[t], "btcp");
        for (int a = NTCP; a < NAS; a++) {
            if (AS[a].tls_only && !tls)
                continue;
            if (!strcmp(AS[a].name, "xcm.service") || !strcmp(AS[a].name, "xcm.local_addr") ||
                !strcmp(AS[a].name, "tls.cert_file") || !strcmp(AS[a].name, "tls.verify_peer_name"))
                continue;    /* covered by their own cells / need companions */
            for (int v = 0; v < AS[a].nvals; v++) {
                struct val val, g;
                spec_val(&AS[a], v, &val);
                struct xcm_attr_map *m = nb_map(bs);
                map_add(m, AS[a].name, &val);
                mk_static_addr(TPS[t], 400 + a, addr, sizeof addr, "static.verif.test");
                struct xcm_socket *c = API("xcm_connect_a", 1, xcm_connect_a(addr, m));
                g_cells++;
                char vs[160], gs[160];
                val_str(&val, vs, sizeof vs);
                if (!c) {
                    snprintf(sig, sizeof sig, "C11/creation-map-refused/%s/tp=%s", AS[a].name, TPS[t]);
                    V(sig, "xcm_connect_a with %s=%s in the map failed: %s", AS[a].name, vs, errname(errno));
                } else {
                    if (get_val(c, AS[a].name, &g) < 0 || !val_eq(&g, &val)) {
                        val_str(&g, gs, sizeof gs);
                        snprintf(sig, sizeof sig, "C11/get-differs-from-set/%s/at=%s/tp=%s", AS[a].name, LPN[LP_MAP], TPS[t]);
                        V(sig, "%s=%s given in the creation map reads %s", AS[a].name, vs, gs);
                    }
                    API("xcm_close", 1, xcm_close(c));
                }
                xcm_attr_map_destroy(m);
            }
        }
    }
}

/* server -> accepted inheritance, with and without override in xcm_accept_a */
static void static_inherit(void)
{
    static const char *TPS[] = { "tls", "utls", "btls" };
    static const char *BA[] = { "tls.auth", "tls.check_time", "tls.client" };
    char sig[200], addr[200], taddr[200];
    for (int t = 0; t < 3; t++) {
        int bs = !strncmp(TPS[t], "bt", 2);
        for (int a = 0; a < 3; a++)
            for (int sv = 0; sv < 2; sv++)          /* value on the server socket */
                for (int ov = 0; ov < 3; ov++) {    /* accept map: absent, false, true */
                    int k = 500 + ((t * 3 + a) * 2 + sv) * 3 + ov;
                    mk_static_addr(TPS[t], k, addr, sizeof addr, "127.0.0.1");
                    struct xcm_attr_map *sm = nb_map(bs), *am = nb_map(bs), *cm = nb_map(bs);
                    xcm_attr_map_add_bool(sm, BA[a], sv);
                    if (ov)
                        xcm_attr_map_add_bool(am, BA[a], ov == 2);
                    int want = ov ? ov == 2 : sv;
                    /* keep the handshake feasible whatever the server side is told */
                    if (!strcmp(BA[a], "tls.client"))
                        xcm_attr_map_add_bool(cm, "tls.client", !want);
                    struct xcm_socket *srv, *acc, *c;
                    const char *saddr = addr;
                    if (!strcmp(TPS[t], "utls")) {
                        snprintf(taddr, sizeof taddr, "tls:127.0.0.1:%d", g_port + k);
                        saddr = taddr;
                    }
                    c = establish_pair(saddr, addr, sm, cm, am, &srv, &acc);
                    g_cells++;
                    struct val g;
                    if (srv && (get_val(srv, BA[a], &g) < 0 || g.b != (bool)sv)) {
                        snprintf(sig, sizeof sig, "C11/get-differs-from-set/%s/at=server-map/tp=%s", BA[a], TPS[t]);
                        V(sig, "server created with %s=%d reads %d", BA[a], sv, g.b);
                    }
                    if (!acc) {
                        snprintf(sig, sizeof sig, "C11/inherit-accept-failed/%s/tp=%s", BA[a], TPS[t]);
                        V(sig, "server %s=%d, accept map %s: no accepted socket (%s)", BA[a], sv,
                          ov == 0 ? "absent" : ov == 1 ? "false" : "true", errname(errno));
                    } else if (get_val(acc, BA[a], &g) < 0 || g.b != (bool)want) {
                        snprintf(sig, sizeof sig, "C11/%s/%s/tp=%s", ov ? "accept-override-ignored" : "not-inherited", BA[a], TPS[t]);
                        V(sig, "server %s=%d, accept map %s: the accepted socket reads %d, expected %d", BA[a], sv,
                          ov == 0 ? "absent" : ov == 1 ? "false" : "true", g.b, want);
                    }
                    mc_observe("inherit %s %s srv=%d ov=%d -> acc=%s", TPS[t], BA[a], sv, ov, acc ? "ok" : "none");
                    if (c) API("xcm_close", 1, xcm_close(c));
                    if (acc) API("xcm_close", 1, xcm_close(acc));
                    if (srv) API("xcm_close", 1, xcm_close(srv));
                    xcm_attr_map_destroy(sm);
                    xcm_attr_map_destroy(am);
                    xcm_attr_map_destroy(cm);
                }
        /* file attributes: inherited paths */
        {
            char p1[300], p2[300];
            int k = 600 + t;
            mk_static_addr(TPS[t], k, addr, sizeof addr, "127.0.0.1");
            snprintf(p1, sizeof p1, "%s/cert.pem", g_certs);
            snprintf(p2, sizeof p2, "%s/../good_b/cert.pem", g_certs);
            for (int ov = 0; ov < 2; ov++) {
                mk_static_addr(TPS[t], k * 2 + ov, addr, sizeof addr, "127.0.0.1");
                struct xcm_attr_map *sm = nb_map(bs), *am = nb_map(bs), *cm = nb_map(bs);
                xcm_attr_map_add_str(sm, "tls.cert_file", p1);
                char k2[300];
                snprintf(k2, sizeof k2, "%s/../good_b/key.pem", g_certs);
                if (ov) {
                    xcm_attr_map_add_str(am, "tls.cert_file", p2);
                    xcm_attr_map_add_str(am, "tls.key_file", k2);
                }
                struct xcm_socket *srv, *acc, *c;
                const char *saddr = addr;
                if (!strcmp(TPS[t], "utls")) {
                    snprintf(taddr, sizeof taddr, "tls:127.0.0.1:%d", g_port + k * 2 + ov);
                    saddr = taddr;
                }
                c = establish_pair(saddr, addr, sm, cm, am, &srv, &acc);
                g_cells++;
                struct val g;
                const char *want = ov ? p2 : p1;
                if (!acc || get_val(acc, "tls.cert_file", &g) < 0 || strcmp(g.s, want)) {
                    snprintf(sig, sizeof sig, "C11/%s/tls.cert_file/tp=%s", ov ? "accept-override-ignored" : "not-inherited", TPS[t]);
                    V(sig, "server tls.cert_file=%s, accept map %s: accepted socket %s reads %s", p1, ov ? p2 : "absent",
                      acc ? "" : "(none)", acc ? g.s : errname(errno));
                }
                if (c) API("xcm_close", 1, xcm_close(c));
                if (acc) API("xcm_close", 1, xcm_close(acc));
                if (srv) API("xcm_close", 1, xcm_close(srv));
                xcm_attr_map_destroy(sm);
                xcm_attr_map_destroy(am);
                xcm_attr_map_destroy(cm);
            }
        }
    }
    /* ipv6.scope: a server on ::1 with scope 0; the accepted socket reports it; an opposite value in the accept map is refused */
    static const char *T6[] = { "tcp", "btcp", "tls" };
    for (int t = 0; t < 3; t++) {
        int bs = !strncmp(T6[t], "bt", 2);
        snprintf(addr, sizeof addr, "%s:[::1]:%d", T6[t], g_port + 700 + t);
        struct xcm_attr_map *sm = nb_map(bs), *m = nb_map(bs);
        xcm_attr_map_add_int64(sm, "ipv6.scope", 0);
        struct xcm_socket *srv, *acc, *c = establish_pair(addr, addr, sm, m, m, &srv, &acc);
        g_cells++;
        struct val g;
        if (!acc || get_val(acc, "ipv6.scope", &g) < 0 || g.i != 0) {
            snprintf(sig, sizeof sig, "C11/not-inherited/ipv6.scope/tp=%s", T6[t]);
            V(sig, "server on %s with ipv6.scope=0: accepted socket %s", addr, acc ? "reads another scope" : "missing");
        }
        if (acc) {
            int rc = API("xcm_attr_set", 1, xcm_attr_set_int64(acc, "ipv6.scope", 5));
            int err = errno;
            if (rc == 0 || get_val(acc, "ipv6.scope", &g) < 0 || g.i != 0) {
                snprintf(sig, sizeof sig, "C11/creation-only-changed/ipv6.scope/at=established/tp=%s", T6[t]);
                V(sig, "ipv6.scope set after creation: rc=%d/%s now reads %lld", rc, errname(err), (long long)g.i);
            }
        }
        if (c) API("xcm_close", 1, xcm_close(c));
        if (acc) API("xcm_close", 1, xcm_close(acc));
        if (srv) API("xcm_close", 1, xcm_close(srv));
        xcm_attr_map_destroy(sm);
        xcm_attr_map_destroy(m);
    }
}

static void task_static(void *arg)
{
    (void)arg;
    char part[24];
    param_get((const char *)arg, "part", part, sizeof part, "all");
    int all = !strcmp(part, "all");
    if (all || !strcmp(part, "service")) static_service();
    if (all || !strcmp(part, "blocking")) static_blocking();
    if (all || !strcmp(part, "kernel")) static_kernel_refusal();
    if (all || !strcmp(part, "local")) static_local_addr();
    if (all || !strcmp(part, "map")) static_creation_map();
    if (all || !strcmp(part, "inherit")) static_inherit();
    mc_count(3, g_cells);
}

/* ---- state digest ------------------------------------------------------------------------------------ */
static uint64_t state_digest(void)
{
    uint64_t h = 23;
    for (int i = 0; i < g_nops; i++)
        h = mc_hash_mix(h, g_ops[i].a * 100 + g_ops[i].v * 10 + g_ops[i].lp);
    for (int i = 0; i < g_nbops; i++)
        h = mc_hash_mix(h, 7000 + g_bops[i].a * 100 + g_bops[i].v * 10 + g_bops[i].lp);
    for (int i = 0; i < NTCP; i++) {
        h = mc_hash_mix(h, A.exp[i]);
        h = mc_hash_mix(h, B.exp[i]);
        int v = -1;
        if (A.tcp_fd >= 0)
            env_sockopt_get(A.tcp_fd, AS[i].level, AS[i].opt, &v);
        h = mc_hash_mix(h, v);
    }
    h = mc_hash_mix(h, (A.s != NULL) * 2 + (B.s != NULL));
    h = mc_hash_mix(h, env_pending_connects() * 16 + env_stalled_count());
    h = mc_hash_mix(h, env_now_ns());
    h = mc_hash_mix(h, env_data_calls());
    h = mc_hash_mix(h, mc_steps());
    return h;
}

static void scenario(const char *params)
{
    param_get(params, "tp", g_tp, sizeof g_tp, "tcp");
    param_get(params, "mode", g_mode, sizeof g_mode, "hist");
    param_get(params, "certs", g_certs, sizeof g_certs, "");
    g_depth = (int)param_int(params, "depth", 1);
    g_bytestream = !strcmp(g_tp, "btcp") || !strcmp(g_tp, "btls");
    g_tls = strcmp(g_tp, "tcp") && strcmp(g_tp, "btcp");
    g_port = 22000 + getpid() % 15000;
    setenv("XCM_CTL", "/nonexistent-ctl-dir", 1);
    if (g_certs[0])
        setenv("XCM_TLS_CERT", g_certs, 1);
    int is_static = !strcmp(g_mode, "static");
    struct env_cfg cfg = { .io_menu = (unsigned)param_int(params, "menu", is_static ? 0 : ENV_IO_CONNPEND),
                           .sleep_monitor = 1, .only_task = -1, .connpend_free = 1 };
    env_init(&cfg);
    env_register_events();
    det_rand_install(1);
    env_local_addr_add("127.0.0.2");
    env_local_addr_add("127.0.0.3");
    for (int i = 0; i < NTCP; i++) {
        A.exp[i] = B.exp[i] = TCP_DEFAULT[i];
        A.last_lp[i] = B.last_lp[i] = -1;
    }
    A.tcp_fd = B.tcp_fd = -1;
    if (is_static) {
        mc_task_create("static", task_static, (void *)params);
        enum mc_end end = mc_run(200000);
        if (end != MC_END_DONE)
            mc_violation("internal/static-not-finished", "static cells did not run to completion (end=%d)", end);
        mc_outcome("static cells=%d", g_cells);
        return;
    }
    mc_set_state_fn(state_digest);
    static const char *ips[] = { "127.0.0.1" };
    env_dns_set("eff.verif.test", ips, 1, ENV_DNS_LATE);
    if (!strcmp(g_mode, "ctmo")) {
        /* a silent destination: the only way out of the attempt is tcp.connect_timeout */
        g_ct_when = mc_choose_mask(2, MC_SCHED, "ctmo-when", 0);
        g_ct_val = mc_choose_mask(2, MC_SCHED, "ctmo-val", 0);
        env_policy_set("127.0.0.1", ENV_SILENT);
        snprintf(g_caddr, sizeof g_caddr, "%s:eff.verif.test:%d", !strcmp(g_tp, "utlstls") ? "utls" : g_tp, g_port);
        mc_task_create("A", task_ctmo, NULL);
        enum mc_end end = mc_run((int)param_int(params, "horizon", 4000));
        if (end != MC_END_DONE)
            mc_violation("C11/ctmo-never-resolved", "end=%d: the attempt to a silent address never ended (no ETIMEDOUT)", end);
        mc_outcome("ctmo when=%d val=%g end=%d", g_ct_when, CT_VALS[g_ct_val], end);
        return;
    }
    const char *wire_tp = !strcmp(g_tp, "utlstls") ? "tls" : g_tp;
    snprintf(g_addr, sizeof g_addr, "%s:127.0.0.1:%d", wire_tp, g_port);
    snprintf(g_caddr, sizeof g_caddr, "%s:eff.verif.test:%d", !strcmp(g_tp, "utlstls") ? "utls" : g_tp, g_port);
    snprintf(g_local, sizeof g_local, "%s:127.0.0.2:0", !strcmp(g_tp, "utlstls") ? "utls" : g_tp);
    /* the history */
    if (!strcmp(g_mode, "accept")) {
        /* server side: one or two ops, each either in the accept map or on the established accepted socket */
        for (int k = 0; k < g_depth; k++) {
            char lb[32];
            snprintf(lb, sizeof lb, "b-op%d-attr", k);
            int a = mc_choose_mask(NTCP + (k > 0), MC_SCHED, lb, 0);
            if (k > 0) {
                if (a == 0)
                    break;
                a--;
            }
            snprintf(lb, sizeof lb, "b-op%d-val", k);
            int v = mc_choose_mask(AS[a].nvals, MC_SCHED, lb, 0);
            snprintf(lb, sizeof lb, "b-op%d-when", k);
            int w = mc_choose_mask(2, MC_SCHED, lb, 0);
            if (k > 0 && g_bops[0].lp == LP_ESTABLISHED && w == 0) {
                mc_outcome("skipped: unordered history");
                mc_finish();
            }
            g_bops[g_nbops++] = (struct setop){ a, v, w ? LP_ESTABLISHED : LP_MAP };
        }
    } else
        choose_ops(g_ops, &g_nops, g_depth, 0, "a", (int)param_int(params, "tcponly", 0));
    /* the resolver is only in the picture when the history has something to do while resolving:
       otherwise the name would only multiply the event orders (answer vs. each timer) */
    int resolving = 0;
    for (int i = 0; i < g_nops; i++)
        resolving |= g_ops[i].lp == LP_RESOLVING;
    if (!resolving)
        snprintf(g_caddr, sizeof g_caddr, "%s:127.0.0.1:%d", !strcmp(g_tp, "utlstls") ? "utls" : g_tp, g_port);
    struct xcm_attr_map *sm = base_map();
    g_server = xcm_server_a(g_addr, sm);
    xcm_attr_map_destroy(sm);
    if (!g_server)
        mc_fail("internal/server-create", "xcm_server_a(%s): %s", g_addr, errname(errno));
    mc_task_create("A", task_a, NULL);
    mc_task_create("B", task_b, NULL);
    enum mc_end end = mc_run((int)param_int(params, "horizon", 4000));
    if (end != MC_END_DONE && env_now_ns() == 0)
        mc_violation("internal/hist-not-finished", "end=%d: the two tasks did not finish (A done=%d, B gone=%d)", end, g_a_done, g_b_gone);
    char hs[200] = "";
    for (int i = 0; i < g_nops; i++)
        snprintf(hs + strlen(hs), sizeof hs - strlen(hs), "%s#%d@%s ", AS[g_ops[i].a].name, g_ops[i].v, LPN[g_ops[i].lp]);
    for (int i = 0; i < g_nbops; i++)
        snprintf(hs + strlen(hs), sizeof hs - strlen(hs), "B:%s#%d@%s ", AS[g_bops[i].a].name, g_bops[i].v, LPN[g_bops[i].lp]);
    mc_outcome("end=%d pending=%d hist=%s", end, g_pending_seen, hs);
}

int main(int argc, char **argv)
{
    return mc_main(argc, argv, scenario, NULL);
}
