/* h_tls - C09: TLS never fails open.
 *
 * One execution = ONE cell of the configuration matrix: the cell is selected by zero-cost choice
 * points at the start of the scenario (so the explorer itself enumerates the matrix completely and
 * deals it to its workers), then one connection is run to completion: both ends finish the
 * handshake, send one message, receive one message, close.  Environment deviations (the usual
 * choice points of the shim) come after the cell selection; bound 0 = default environment.
 *
 * The `policy` oracle is a pure function of the cell.  It is written from the TLS section of
 * include/xcm.h (attribute inheritance, consistency rules, validity/CRL/name/EKU checks) and reads
 * what the certificate factory put INTO each certificate from <pki>/kinds.tsv; it never looks at
 * the certificates themselves nor at the implementation's state.
 *
 * params: tp=tls|btls|utls  part=core|strict|mixed|trust|trustdeep|crlv|invalid|full|x1|x2|cover|cover2|nocert|ovr
 *         pki=<dir of make.py --c09>  menu=<hex io menu, default 0>
 *
 * utls: the socket under test is always the utls one; its peer is a plain tls socket (a utls server
 * reached by a tls client, a utls client reaching a tls server - so the UX attempt is refused).
 */
#define _GNU_SOURCE
#include "hcommon.h"

#include <arpa/inet.h>
#include <fcntl.h>
#include <netinet/in.h>
#include <strings.h>
#include <sys/socket.h>
#include <sys/stat.h>

#include <openssl/err.h>
#include <openssl/ssl.h>

/* ---- the certificate table (from the generator) --------------------------------------------- */
#define MAXKINDS 40
struct kind {
    char name[40];
    char path[24];      /* issuing CAs from the leaf upwards: "R", "I>R", "U", "UI>U", "RI>R", "XI>R", "SELF" */
    char time[16];      /* ok | expired | notyet | inter-expired */
    char revoked[8];    /* no | leaf | inter (by the revoking CRL bundle) */
    char eku[8];        /* none | server | client | both | other */
    char names[160];    /* subject CN and DNS SANs, ':'-separated */
};
static struct kind g_kinds[MAXKINDS];
static int g_nkinds;
#define CRED_OWN (-2)    /* the valid credential "own" (issued by R, no EKU, always in its validity period) */
#define CRED_NONE (-3)   /* raw TLS client that presents no certificate */

enum { TC_ROOT = 0, TC_BOTH, TC_ROOT2, TC_INTER };
static const char *TC_FILE[] = { "tc_root.pem", "tc_both.pem", "tc_root2.pem", "tc_inter.pem" };
enum { CRL_REVOKING = 0, CRL_EMPTY };
static const char *CRL_FILE[] = { "crl_revoking.pem", "crl_empty.pem" };
enum { NM_MATCH = 1, NM_NOMATCH = 2, NM_EMPTY = 3, NM_HOST = 9 };   /* NM_EMPTY: tls.peer_names = "" ; NM_HOST: oracle only */
static const char *NAMES[] = { "", "decoy.verif.test:peer.verif.test", "decoy.verif.test:nomatch.verif.test", "" };
#define HOSTNAME "peer.verif.test"

/* ---- one attribute map = one conf ------------------------------------------------------------ */
struct conf {
    int auth, time, crl, verify, client;   /* -1 = attribute absent from the map, else 0/1 */
    int names;                             /* -1 absent, NM_MATCH, NM_NOMATCH, NM_EMPTY */
    int tc, tc_mode;                       /* -1 absent, else bundle; mode 0 = *_file, 1 = by value */
    int crl_b, crl_mode;
    int cred, cred_mode;                   /* 0 = none set here, else kind+1 / CRED_OWN */
    int has_cred;
};

static void conf_init(struct conf *c)
{
    c->auth = c->time = c->crl = c->verify = c->client = c->names = c->tc = c->crl_b = -1;
    c->tc_mode = c->crl_mode = c->cred_mode = 0;
    c->cred = 0;
    c->has_cred = 0;
}

static int conf_has_policy(const struct conf *c)
{
    return c->auth >= 0 || c->time >= 0 || c->crl >= 0 || c->verify >= 0 || c->client >= 0 || c->names >= 0 ||
           c->tc >= 0 || c->crl_b >= 0;
}

/* ---- the cell ---------------------------------------------------------------------------------- */
static char g_tp[12], g_part[16], g_pki[256];
static int g_bytestream, g_utls;
static struct conf CC, SC, AC;      /* connect map, server-socket map, accept map */
static int g_hostname;              /* the client names the server by DNS name */
static int g_raw_client;            /* client is a raw TLS client without certificate */
static char g_desc[700];            /* human-readable cell */
static char g_dims[400];

/* zero-cost choice among n alternatives (n may exceed 16) */
static int pick(int n, const char *label)
{
    int v;
    if (n <= 1)
        v = 0;
    else if (n <= 16)
        v = mc_choose_mask(n, MC_EVENT, label, 0);
    else {
        char lb[48];
        snprintf(lb, sizeof lb, "%s/hi", label);
        int hi = mc_choose_mask((n + 15) / 16, MC_EVENT, lb, 0);
        int rest = n - hi * 16;
        snprintf(lb, sizeof lb, "%s/lo", label);
        v = hi * 16 + mc_choose_mask(rest > 16 ? 16 : rest, MC_EVENT, lb, 0);
    }
    size_t l = strlen(g_dims);
    snprintf(g_dims + l, sizeof g_dims - l, "%s%s=%d", l ? " " : "", label, v);
    return v;
}

static int kind_by_name(const char *nm)
{
    for (int i = 0; i < g_nkinds; i++)
        if (!strcmp(g_kinds[i].name, nm))
            return i;
    mc_fail("internal/kind", "no certificate kind '%s' in %s/kinds.tsv", nm, g_pki);
}

static void load_kinds(void)
{
    char p[400], line[512];
    snprintf(p, sizeof p, "%s/kinds.tsv", g_pki);
    FILE *f = fopen(p, "r");
    if (!f)
        mc_fail("internal/pki", "cannot read %s", p);
    while (fgets(line, sizeof line, f) && g_nkinds < MAXKINDS) {
        if (line[0] == '#' || line[0] == '\n')
            continue;
        struct kind *k = &g_kinds[g_nkinds];
        if (sscanf(line, "%39s %23s %15s %7s %7s %159s", k->name, k->path, k->time, k->revoked, k->eku, k->names) == 6)
            g_nkinds++;
    }
    fclose(f);
    if (g_nkinds < 12)
        mc_fail("internal/pki", "only %d kinds in %s", g_nkinds, p);
}

/* the policy of the side under test as the matrix names it */
struct pol {
    int set;            /* 0 = no policy attribute given at all (the documented defaults apply) */
    int auth, time, crl;
    int nm;             /* 0 off, 1 on+matching names, 2 on+non-matching names, 3 on, no names, 4 on, hostname in the address,
                           5 on, tls.peer_names = "" (empty string), 6 the same with a hostname in the address */
};

static void sut_fill(struct conf *c, const struct pol *p, int tv, int cv, int smode)
{
    if (!p->set) {
        /* defaults: tls.auth=true needs trust anchors */
        c->tc = tv;
        c->tc_mode = smode;
        return;
    }
    c->auth = p->auth;
    c->time = p->time;
    c->crl = p->crl;
    c->verify = p->nm != 0;
    if (p->nm == 1 || p->nm == 2)
        c->names = p->nm;
    if (p->nm >= 5)
        c->names = NM_EMPTY;
    if (p->auth) {
        c->tc = tv;
        c->tc_mode = smode;
    }
    if (p->crl) {
        c->crl_b = cv;
        c->crl_mode = smode;
    }
}

static void peer_fill(struct conf *c, int kind, int pmode, int strict)
{
    c->cred = kind;
    c->has_cred = 1;
    c->cred_mode = pmode;
    if (strict) {
        c->tc = TC_ROOT;          /* all defaults: authenticate, check time */
        c->tc_mode = pmode;
    } else
        c->auth = 0;
}

/* the server-socket map of placement O: every policy attribute carries the opposite value (as far
   as a valid server configuration allows), trust anchors and CRLs are the wrong ones and supplied
   the other way (file <-> value); the accept map then overrides all of it */
static void opposite_fill(struct conf *s, const struct pol *p, int smode)
{
    /* authentication stays on when the real policy verifies names, so that the server socket can
       carry the opposite name settings; otherwise it is flipped like everything else */
    s->auth = (p->auth && p->nm != 0) ? 1 : !p->auth;
    s->time = !p->time;
    s->crl = s->auth ? !p->crl : 0;
    if (s->auth) {
        s->tc = TC_ROOT2;
        s->tc_mode = !smode;
        s->verify = 1;
        s->names = (p->nm == 2 || p->nm == 3 || p->nm >= 5) ? NM_MATCH : NM_NOMATCH;
    } else
        s->verify = 0;
    if (s->crl) {
        s->crl_b = CRL_EMPTY;
        s->crl_mode = !smode;
    }
}

static const char *PLC[] = { "connect", "server", "accept", "override" };
static const char *NMW[] = { "off", "on+matching-names", "on+non-matching-names", "on-without-names", "on+hostname-in-address",
                             "on+EMPTY-peer_names-string", "on+EMPTY-peer_names-string+hostname-in-address" };

/* placement: 0 = policy in the xcm_connect_a map (side under test = client), 1 = on the server
   socket (inherited), 2 = in the xcm_accept_a map, 3 = accept map overriding opposite server values */
static void place(int placement, const struct pol *p, int rev, int kind, int pmode, int smode, int strict,
                  int tv, int cv)
{
    conf_init(&CC);
    conf_init(&SC);
    conf_init(&AC);
    if (placement == 0) {
        sut_fill(&CC, p, tv, cv, smode);
        CC.cred = CRED_OWN;
        CC.has_cred = 1;
        CC.cred_mode = smode;
        peer_fill(&SC, kind, pmode, strict);
        if (rev) {
            CC.client = 0;
            SC.client = 1;
        }
        g_hostname = p->nm == 4 || p->nm == 6;
        return;
    }
    peer_fill(&CC, kind, pmode, strict);
    SC.cred = CRED_OWN;
    SC.has_cred = 1;
    SC.cred_mode = smode;
    if (rev)
        CC.client = 0;
    if (placement == 1) {
        sut_fill(&SC, p, tv, cv, smode);
        if (rev)
            SC.client = 1;
    } else if (placement == 2) {
        SC.tc = TC_ROOT;              /* the server socket itself: defaults */
        SC.tc_mode = smode;
        sut_fill(&AC, p, tv, cv, smode);
        if (p->auth && tv == TC_ROOT)
            AC.tc = -1;               /* inherited from the server socket */
        if (rev)
            AC.client = 1;
    } else {
        opposite_fill(&SC, p, smode);
        sut_fill(&AC, p, tv, cv, smode);
        SC.client = !rev;
        AC.client = rev;
    }
}

static struct pol POL8(int i, int nm)
{
    struct pol p = { .set = 1, .auth = (i >> 2) & 1, .time = (i >> 1) & 1, .crl = i & 1, .nm = nm };
    return p;
}

static void build_cell(void)
{
    int V = kind_by_name("valid");
    if (!strcmp(g_part, "core") || !strcmp(g_part, "full") || !strcmp(g_part, "strict") || !strcmp(g_part, "mixed") ||
        !strcmp(g_part, "trust") || !strcmp(g_part, "trustdeep") || !strcmp(g_part, "crlv")) {
        int full = !strcmp(g_part, "full"), core = !strcmp(g_part, "core");
        int placement = pick(4, "placement");
        int npol = (core || full) && placement <= 1 ? 9 : 8;
        int tv = 0, cv = 0, strict = 0, rev = 0, nm = 0, pmode, smode;
        int deep = !strcmp(g_part, "trustdeep");
        if (!strcmp(g_part, "trust") || deep)
            tv = 1 + pick(3, "trust");
        int pi;
        if (!strcmp(g_part, "crlv")) {
            pi = 5 + 2 * pick(2, "policy");        /* auth=1, crl=1, time 0/1 */
            cv = 1;
        } else if (!strcmp(g_part, "trust") || deep)
            pi = 4 + pick(4, "policy");            /* trust anchors only matter with tls.auth on */
        else
            pi = pick(npol, "policy");
        if (full && pi < 8 && (pi & 1))
            cv = pick(2, "crlset");
        struct pol p = POL8(pi == 8 ? 6 : pi, 0);
        if (pi == 8)
            p.set = 0;
        else if (core || full) {
            nm = pick(placement == 0 ? 7 : 5, "names");
            if (placement != 0 && nm == 4)
                nm = 5;
        }
        else if (!strcmp(g_part, "mixed"))
            nm = pick(2, "names");
        else if (deep)
            nm = pick(3, "names");
        p.nm = nm;
        if (core || full || deep || !strcmp(g_part, "strict") || !strcmp(g_part, "crlv"))
            rev = pick(2, "reversed");
        int kind;
        if ((p.set && !p.auth && !full) || nm >= 5) {
            /* with authentication off nothing is demanded of the peer: a few kinds suffice (all of them in `full`) */
            static const char *FEW[] = { "valid", "untrusted_root", "expired", "wrong_name" };
            kind = kind_by_name(FEW[pick(4, "kind")]);
        } else
            kind = pick(g_nkinds, "kind");
        if (core || deep || !strcmp(g_part, "trust") || !strcmp(g_part, "crlv"))
            pmode = smode = pick(2, "byvalue");
        else if (!strcmp(g_part, "mixed")) {
            pmode = pick(2, "peer-byvalue");
            smode = !pmode;
        } else if (full) {
            pmode = pick(2, "peer-byvalue");
            smode = pick(2, "own-byvalue");
        } else
            pmode = smode = 0;
        if (!strcmp(g_part, "strict"))
            strict = 1;
        else if (full)
            strict = pick(2, "peer-strict");
        place(placement, &p, rev, kind, pmode, smode, strict, tv, cv);
        snprintf(g_desc, sizeof g_desc, "policy %s in the %s map: %s auth=%d check_time=%d check_crl=%d verify_peer_name=%s; roles %s; "
                 "trust bundle %s, CRL bundle %s, own material by %s; peer credential '%s' by %s, peer %s",
                 p.set ? "set" : "left at defaults", PLC[placement], p.set ? "" : "(defaults)", p.auth, p.time, p.crl,
                 NMW[p.nm], rev ? "reversed" : "natural", TC_FILE[tv], CRL_FILE[cv], smode ? "value" : "file",
                 g_kinds[kind].name, pmode ? "value" : "file", strict ? "strict" : "permissive");
    } else if (!strcmp(g_part, "invalid")) {
        /* combinations the documentation forbids, each expressed in one map */
        int placement = pick(3, "placement");    /* connect, server, accept */
        int combo = pick(6, "combo");
        int mode = pick(2, "byvalue");
        struct pol p = POL8(6, 0);               /* auth, time, no crl */
        conf_init(&CC); conf_init(&SC); conf_init(&AC);
        struct conf *t = placement == 0 ? &CC : placement == 1 ? &SC : &AC;
        if (placement == 0) {
            CC.cred = CRED_OWN; CC.has_cred = 1; CC.cred_mode = mode;
            peer_fill(&SC, V, mode, 0);
        } else {
            peer_fill(&CC, V, mode, 0);
            SC.cred = CRED_OWN; SC.has_cred = 1; SC.cred_mode = mode;
            if (placement == 2) {
                SC.tc = TC_ROOT;
                SC.tc_mode = mode;
            }
        }
        sut_fill(t, &p, TC_ROOT, 0, mode);
        static const char *CN[] = { "tls.tc given with tls.auth=false", "tls.crl given with tls.check_crl=false",
                                    "tls.peer_names given with tls.verify_peer_name=false", "tls.check_crl=true with tls.auth=false",
                                    "tls.verify_peer_name=true without names (no hostname)", "tls.peer_names given, tls.verify_peer_name absent" };
        switch (combo) {
        case 0: t->auth = 0; t->tc = TC_ROOT; t->tc_mode = mode; break;
        case 1: t->crl = 0; t->crl_b = CRL_EMPTY; t->crl_mode = mode; break;
        case 2: t->verify = 0; t->names = NM_MATCH; break;
        case 3: t->auth = 0; t->tc = -1; t->crl = 1; t->crl_b = CRL_EMPTY; t->crl_mode = mode; break;
        case 4: t->verify = 1; t->names = -1; break;
        case 5: t->verify = -1; t->names = NM_MATCH; break;
        }
        snprintf(g_desc, sizeof g_desc, "invalid combination in the %s map: %s (material by %s)", PLC[placement], CN[combo],
                 mode ? "value" : "file");
    } else if (!strcmp(g_part, "x1")) {
        /* server-socket policy x partial override in the accept map */
        int sp = pick(8, "srv-policy");
        int snm = pick(4, "srv-names");
        struct pol p = POL8(sp, snm);
        conf_init(&CC); conf_init(&SC); conf_init(&AC);
        SC.cred = CRED_OWN; SC.has_cred = 1;
        sut_fill(&SC, &p, TC_ROOT, CRL_REVOKING, 0);
        int srv_invalid = (!p.auth && p.crl);
        if (!srv_invalid) {
            int a = pick(3, "acc-auth"), t = pick(3, "acc-time"), c = pick(3, "acc-crl"), n = pick(7, "acc-names");
            AC.auth = a - 1;
            AC.time = t - 1;
            AC.crl = c - 1;
            switch (n) {
            case 0: break;
            case 1: AC.verify = 0; break;
            case 2: AC.verify = 1; break;
            case 3: AC.verify = 1; AC.names = NM_MATCH; break;
            case 4: AC.verify = 1; AC.names = NM_NOMATCH; break;
            case 5: AC.names = NM_MATCH; break;
            case 6: AC.verify = 1; AC.names = NM_EMPTY; break;
            }
            /* material the accept map must bring for what it switches on */
            if (AC.auth == 1 && SC.tc < 0)
                AC.tc = TC_ROOT;
            if (AC.crl == 1 && SC.crl_b < 0)
                AC.crl_b = CRL_REVOKING;
        }
        static const char *XK[] = { "valid", "untrusted_root", "expired", "revoked", "wrong_name" };
        int kind = kind_by_name(XK[pick(5, "kind")]);
        peer_fill(&CC, kind, 0, 0);
        snprintf(g_desc, sizeof g_desc, "server socket auth=%d check_time=%d check_crl=%d verify_peer_name=%s; accept map auth=%d check_time=%d "
                 "check_crl=%d verify=%d names=%d (-1 = not in the map, names 1 = matching, 2 = non-matching, 3 = empty string); peer credential '%s'", p.auth, p.time, p.crl, NMW[p.nm], AC.auth,
                 AC.time, AC.crl, AC.verify, AC.names, g_kinds[kind].name);
    } else if (!strcmp(g_part, "x2")) {
        /* client policy x server policy, both ends carry the valid credential; both ends are judged */
        int placement = 1 + pick(2, "placement");
        int rev = pick(2, "reversed");
        int cp = pick(8, "cli-policy"), cn = pick(4, "cli-names"), sp = pick(8, "srv-policy"), sn = pick(4, "srv-names");
        struct pol pc = POL8(cp, cn), ps = POL8(sp, sn);
        conf_init(&CC); conf_init(&SC); conf_init(&AC);
        sut_fill(&CC, &pc, TC_ROOT, CRL_REVOKING, 0);
        CC.cred = V; CC.has_cred = 1;
        SC.cred = V; SC.has_cred = 1;
        if (placement == 1)
            sut_fill(&SC, &ps, TC_ROOT, CRL_REVOKING, 0);
        else {
            SC.tc = TC_ROOT;
            sut_fill(&AC, &ps, TC_ROOT, CRL_REVOKING, 0);
            if (ps.auth)
                AC.tc = -1;
        }
        if (rev) {
            CC.client = 0;
            if (placement == 1) SC.client = 1; else AC.client = 1;
        }
        snprintf(g_desc, sizeof g_desc, "client auth=%d check_time=%d check_crl=%d verify_peer_name=%s x server (%s map) auth=%d check_time=%d "
                 "check_crl=%d verify_peer_name=%s; roles %s; both present the valid credential", pc.auth, pc.time, pc.crl, NMW[pc.nm],
                 PLC[placement], ps.auth, ps.time, ps.crl, NMW[ps.nm], rev ? "reversed" : "natural");
    } else if (!strcmp(g_part, "cover")) {
        /* covering subset explored with environment deviations */
        static const int PI[] = { 6, 7, 5, 2 };
        int placement = pick(4, "placement");
        struct pol p = POL8(PI[pick(4, "policy")], 0);
        if (p.auth)
            p.nm = pick(3, "names");
        int kind = p.auth ? pick(g_nkinds, "kind") : pick(4, "kind");
        place(placement, &p, 0, kind, 0, 0, 0, TC_ROOT, CRL_REVOKING);
        snprintf(g_desc, sizeof g_desc, "policy in the %s map: auth=%d check_time=%d check_crl=%d verify_peer_name=%s; peer credential '%s'",
                 PLC[placement], p.auth, p.time, p.crl, NMW[p.nm], g_kinds[kind].name);
    } else if (!strcmp(g_part, "cover2")) {
        /* a small subset explored with every pair of deviations */
        static const char *XK[] = { "valid", "expired", "revoked" };
        int placement = pick(4, "placement");
        struct pol p = POL8(7, 0);
        int kind = kind_by_name(XK[pick(3, "kind")]);
        place(placement, &p, 0, kind, 0, 0, 0, TC_ROOT, CRL_REVOKING);
        snprintf(g_desc, sizeof g_desc, "policy in the %s map: auth=1 check_time=1 check_crl=1 verify_peer_name=off; peer credential '%s'",
                 PLC[placement], g_kinds[kind].name);
    } else if (!strcmp(g_part, "ovr")) {
        /* accept-time override of ONE policy input at a time, with a value whose verdict for the presented
           peer differs from the server socket's, in both directions (0: the server socket alone would permit,
           the override refuses; 1: the server socket alone would refuse, the override permits); the material
           of the server socket and of the accept map each by file and by value.  The oracle's verdict comes
           from the overriding value (eff_apply: server map, then accept map). */
        static const char *IN[] = { "tls.crl", "tls.tc", "tls.cert+tls.key", "tls.auth", "tls.check_crl", "tls.check_time",
                                    "tls.verify_peer_name", "tls.peer_names" };
        static const char *KS[8][3] = {
            { "revoked", "under_revoked_inter", "valid" }, { "untrusted_root", "via_untrusted_inter", "valid" },
            { "wrong_name", "untrusted_root", "expired" }, { "untrusted_root", "expired", "valid" },
            { "revoked", "under_revoked_inter", "valid" }, { "expired", "not_yet_valid", "valid" },
            { "valid", "wrong_name", "no_san" }, { "valid", "cn_wrong_san_right", "wrong_name" } };
        int in = pick(8, "input"), d = pick(2, "direction"), sm = pick(2, "srv-byvalue"), am = pick(2, "acc-byvalue");
        int kind = kind_by_name(KS[in][pick(3, "kind")]);
        conf_init(&CC); conf_init(&SC); conf_init(&AC);
        SC.cred = CRED_OWN; SC.has_cred = 1; SC.cred_mode = sm;
        SC.auth = 1; SC.time = 1; SC.tc = TC_ROOT; SC.tc_mode = sm;
        peer_fill(&CC, kind, sm, 0);
        SC.crl_mode = sm; AC.crl_mode = am; AC.tc_mode = am; AC.cred_mode = am;
        switch (in) {
        case 0: SC.crl = 1; SC.crl_b = d ? CRL_REVOKING : CRL_EMPTY; AC.crl_b = d ? CRL_EMPTY : CRL_REVOKING; break;
        case 1: SC.tc = d ? TC_ROOT : TC_BOTH; AC.tc = d ? TC_BOTH : TC_ROOT; break;
        case 2:
            /* the accepted connection presents another certificate: judged at the client, which authenticates
               the server and verifies its name */
            conf_init(&CC);
            CC.cred = CRED_OWN; CC.has_cred = 1; CC.cred_mode = sm;
            CC.auth = 1; CC.time = 1; CC.tc = TC_ROOT; CC.tc_mode = sm; CC.verify = 1; CC.names = NM_MATCH;
            SC.cred = d ? kind : V;
            AC.cred = d ? V : kind; AC.has_cred = 1;
            break;
        case 3: SC.auth = d; if (!SC.auth) SC.tc = -1; AC.auth = !d; if (AC.auth) AC.tc = TC_ROOT; break;
        case 4:
            SC.crl = d; if (d) SC.crl_b = CRL_REVOKING;
            AC.crl = !d; if (!d) AC.crl_b = CRL_REVOKING;
            break;
        case 5: SC.time = d ? 1 : 0; AC.time = d ? 0 : 1; break;
        case 6:
            if (d) { SC.verify = 1; SC.names = NM_NOMATCH; AC.verify = 0; }
            else { AC.verify = 1; AC.names = NM_NOMATCH; }
            break;
        case 7: SC.verify = 1; SC.names = d ? NM_NOMATCH : NM_MATCH; AC.names = d ? NM_MATCH : NM_NOMATCH; break;
        }
        snprintf(g_desc, sizeof g_desc, "xcm_accept_a overrides %s of the server socket (%s); server-socket material by %s, accept-map "
                 "material by %s; %s '%s'", IN[in], d ? "the server socket alone would refuse, the override permits"
                 : "the server socket alone would permit, the override refuses", sm ? "value" : "file", am ? "value" : "file",
                 in == 2 ? "the other certificate is" : "peer credential", g_kinds[kind].name);
    } else if (!strcmp(g_part, "nocert")) {
        /* a raw TLS client that presents no certificate at all */
        int placement = 1 + pick(3, "placement");
        struct pol p = POL8(pick(8, "policy"), 0);
        place(placement, &p, 0, V, 0, 0, 0, TC_ROOT, CRL_REVOKING);
        g_raw_client = 1;
        snprintf(g_desc, sizeof g_desc, "policy in the %s map: auth=%d check_time=%d check_crl=%d; the peer is a TLS client "
                 "that sends no certificate", PLC[placement], p.auth, p.time, p.crl);
    } else
        mc_fail("internal/part", "unknown part '%s'", g_part);
}

/* ================================================================================================ */
/* The oracle `policy` (documentation only)                                                         */
/* ================================================================================================ */
/* E_NAMEGATE: tls.verify_peer_name is on but either tls.auth is off or tls.peer_names is the empty string.
   Admissible: refused at creation (what the unchanged tree does, EINVAL), or a connection on which the
   name really is enforced; NOT admissible: usable with a peer none of whose names is expected. */
enum { E_SAT, E_UNSAT, E_EITHER, E_INVALID, E_NAMEGATE };

struct eff {                 /* effective configuration of a connection socket */
    int auth, time, crl, verify, tls_client;
    int names;               /* -1 none, NM_MATCH/NM_NOMATCH/NM_EMPTY, NM_HOST = hostname of the address */
    int tc, crl_b;
};

struct expect {
    int e;                   /* E_* for the connection socket */
    int srv_invalid;         /* the server-socket map itself is an invalid combination */
    const char *why;         /* unmet condition / broken rule */
    const char *note;
    const char *want;        /* E_NAMEGATE: the expected names ("" = none can match) */
    const char *tag;         /* E_NAMEGATE: auth=off | names=empty */
    struct eff eff;
};

/* consistency rules of one map applied on top of inherited values (xcm.h: "tls.peer_names may not be
   set unless tls.verify_peer_name is set to true", "CRL checking is only ... allowed when
   authentication is enabled", tls.tc*: "May not be set if authentication is disabled", tls.crl*: "May
   only be set if CRL checking is enabled") */
static const char *map_invalid(const struct conf *m, const struct eff *e)
{
    if (e->crl && !e->auth)
        return "crl-without-auth";
    if (m->tc >= 0 && !e->auth)
        return "tc-without-auth";
    if (m->crl_b >= 0 && !e->crl)
        return "crl-data-without-check";
    if (m->names >= 0 && !e->verify)
        return "names-without-verification";
    return NULL;
}

static void eff_apply(struct eff *e, const struct conf *m)
{
    if (m->auth >= 0) e->auth = m->auth;
    if (m->time >= 0) e->time = m->time;
    if (m->crl >= 0) e->crl = m->crl;
    if (m->verify >= 0) e->verify = m->verify;
    if (m->client >= 0) e->tls_client = m->client;
    if (m->names >= 0) e->names = m->names;
    if (m->tc >= 0) e->tc = m->tc;
    if (m->crl_b >= 0) e->crl_b = m->crl_b;
}

static int anchor_in(int tc, const char *ca)
{
    if (!strcmp(ca, "R")) return tc == TC_ROOT || tc == TC_BOTH;
    if (!strcmp(ca, "U")) return tc == TC_ROOT2 || tc == TC_BOTH;
    if (!strcmp(ca, "I")) return tc == TC_INTER;
    return 0;
}

static int names_overlap(const char *have, const char *want)
{
    char a[200], b[200];
    snprintf(a, sizeof a, "%s", have);
    for (char *x = strtok(a, ":"); x; x = strtok(NULL, ":")) {
        snprintf(b, sizeof b, "%s", want);
        char *sv;
        for (char *y = strtok_r(b, ":", &sv); y; y = strtok_r(NULL, ":", &sv))
            if (!strcasecmp(x, y))        /* exact, case-insensitive; wildcards are never expanded */
                return 1;
    }
    return 0;
}

/* does the chain presented with credential `cred` satisfy effective policy e?  (E_SAT/E_UNSAT/E_EITHER) */
static int satisfied(const struct eff *e, int cred, const char **why, const char **note)
{
    *why = "";
    if (!e->auth)
        return E_SAT;                   /* nothing is demanded of the peer */
    if (cred == CRED_NONE) {
        *why = "no-certificate";
        return E_UNSAT;
    }
    struct kind own = { "own", "R", "ok", "no", "none", "own.verif.test" };
    const struct kind *k = cred == CRED_OWN ? &own : &g_kinds[cred];
    /* chains to a configured trusted CA */
    char path[24];
    snprintf(path, sizeof path, "%s", k->path);
    int ok = 0, partial = 0, idx = 0;
    for (char *ca = strtok(path, ">"); ca; ca = strtok(NULL, ">"), idx++)
        if (anchor_in(e->tc, ca)) {
            ok = 1;
            partial = strcmp(ca, "R") && strcmp(ca, "U");     /* anchored at a non-root certificate */
            break;
        }
    if (!ok) {
        *why = "untrusted-chain";
        return E_UNSAT;
    }
    int res = E_SAT;
    if (partial && e->crl) {
        /* xcm.h: partial chains are not allowed when CRL checking is enabled */
        *note = "partial-chain-with-crl";
        res = E_EITHER;
    }
    if (e->time && strcmp(k->time, "ok")) {
        *why = !strcmp(k->time, "notyet") ? "not-yet-valid" : !strcmp(k->time, "expired") ? "expired" : "expired-intermediate";
        return E_UNSAT;
    }
    if (e->crl && e->crl_b == CRL_REVOKING && strcmp(k->revoked, "no")) {
        *why = !strcmp(k->revoked, "leaf") ? "revoked" : "revoked-intermediate";
        return E_UNSAT;
    }
    /* extended key usage: the peer of a TLS server is a TLS client and vice versa */
    const char *need = e->tls_client ? "server" : "client";
    if (strcmp(k->eku, "none") && strcmp(k->eku, "both") && strcmp(k->eku, need)) {
        *why = "key-usage";
        return E_UNSAT;
    }
    if (e->verify) {
        const char *want = e->names == NM_HOST ? HOSTNAME : e->names > 0 ? NAMES[e->names] : "";
        if (!names_overlap(k->names, want)) {
            *why = e->names < 0 ? "no-expected-names" : "name-mismatch";
            return E_UNSAT;
        }
    }
    return res;
}

static void expect_client(struct expect *x)
{
    memset(x, 0, sizeof *x);
    x->why = x->note = "";
    struct eff e = { .auth = 1, .time = 1, .crl = 0, .verify = 0, .tls_client = 1, .names = -1, .tc = -1, .crl_b = -1 };
    eff_apply(&e, &CC);
    /* no names (or, as the admissible reading of an empty string, none): the hostname of the address */
    if (e.verify && (e.names < 0 || e.names == NM_EMPTY) && g_hostname)
        e.names = NM_HOST;
    x->eff = e;
    const char *inv = map_invalid(&CC, &e);
    if (!inv && e.verify && e.auth && e.names < 0)
        inv = "verification-without-names";       /* no hostname to fall back to */
    if (inv) {
        x->e = E_INVALID;
        x->why = inv;
        return;
    }
    if (e.verify && (!e.auth || e.names == NM_EMPTY)) {
        x->e = E_NAMEGATE;
        x->note = !e.auth ? "verify-without-auth" : "empty-names";
        x->tag = !e.auth ? "auth=off" : "names=empty";
        x->want = e.names == NM_HOST ? HOSTNAME : e.names > 0 ? NAMES[e.names] : "";
        return;
    }
    /* the server end presents the certificate of the accept map when that carries one */
    x->e = satisfied(&e, AC.has_cred ? AC.cred : SC.cred, &x->why, &x->note);
}

static void expect_server(struct expect *x)
{
    memset(x, 0, sizeof *x);
    x->why = x->note = "";
    struct eff e = { .auth = 1, .time = 1, .crl = 0, .verify = 0, .tls_client = 0, .names = -1, .tc = -1, .crl_b = -1 };
    eff_apply(&e, &SC);
    const char *inv = map_invalid(&SC, &e);
    if (inv) {
        x->e = E_INVALID;
        x->srv_invalid = 1;
        x->why = inv;
        x->eff = e;
        return;
    }
    eff_apply(&e, &AC);
    x->eff = e;
    inv = map_invalid(&AC, &e);
    if (!inv && e.verify && e.auth && e.names < 0)
        inv = "verification-without-names";
    if (inv) {
        x->e = E_INVALID;
        x->why = inv;
        return;
    }
    if (e.verify && (!e.auth || e.names == NM_EMPTY)) {
        x->e = E_NAMEGATE;
        x->note = !e.auth ? "verify-without-auth" : "empty-names";
        x->tag = !e.auth ? "auth=off" : "names=empty";
        x->want = e.names > 0 ? NAMES[e.names] : "";
        return;
    }
    x->e = satisfied(&e, g_raw_client ? CRED_NONE : CC.cred, &x->why, &x->note);
}

/* ================================================================================================ */
/* Running the cell                                                                                 */
/* ================================================================================================ */
struct side {
    const char *name;
    int idx;
    struct xcm_socket *s;
    int fd0;
    int created, create_errno;
    int usable;               /* xcm_finish returned 0 */
    int sent;                 /* xcm_send accepted the message and the flush succeeded */
    int send_accepted;
    int got;                  /* bytes handed up by xcm_receive */
    int got_wrong;
    int eof;
    int err, closed, done;
    char err_call[16];
    int phase;
};
static struct side A = { .name = "client", .idx = 0 }, B = { .name = "server", .idx = 1 };
static struct xcm_socket *g_server;
static int g_server_errno;
static int g_void;            /* a utls connection went over UX (foreign process in the same abstract name space) */

/* C09 is about TLS connections.  The UX half of utls lives in the abstract AF_UNIX name space of the
   network namespace; should a foreign process own the same name, a utls socket may end up talking UX to
   it.  Such a cell says nothing about TLS: it is voided (counted, reported, never judged). */
static void check_transport(struct side *x)
{
    char tp[32] = "";
    if (!g_utls || !x->s)
        return;
    int rc = xcm_attr_get_str(x->s, "xcm.transport", tp, sizeof tp);
    mc_trace("%s: xcm.transport = %s", x->name, rc > 0 ? tp : "?");
    if (rc > 0 && !strcmp(tp, "ux")) {
        g_void = 1;
        mc_observe("%s: this utls connection runs over UX, not TLS - cell void", x->name);
    }
}
static char g_caddr[200], g_saddr[200];
static int g_port;
static int64_t g_t0;

#define MSGLEN 9

static char *slurp(const char *rel, size_t *len)
{
    char p[400];
    snprintf(p, sizeof p, "%s/%s", g_pki, rel);
    int fd = open(p, O_RDONLY);
    if (fd < 0)
        mc_fail("internal/pki", "cannot open %s", p);
    static char bufs[8][16384];
    static int nb;
    char *b = bufs[nb++ % 8];
    ssize_t n = read(fd, b, 16383);
    close(fd);
    if (n <= 0)
        mc_fail("internal/pki", "cannot read %s", p);
    b[n] = 0;
    *len = (size_t)n;
    return b;
}

static void add_item(struct xcm_attr_map *m, const char *attr, const char *rel, int by_value)
{
    char nm[40], p[400];
    if (by_value) {
        size_t len;
        char *d = slurp(rel, &len);
        snprintf(nm, sizeof nm, "tls.%s", attr);
        xcm_attr_map_add_bin(m, nm, d, len);
    } else {
        snprintf(nm, sizeof nm, "tls.%s_file", attr);
        snprintf(p, sizeof p, "%s/%s", g_pki, rel);
        xcm_attr_map_add_str(m, nm, p);
    }
}

static struct xcm_attr_map *mk_map(const struct conf *c, int with_service)
{
    struct xcm_attr_map *m = xcm_attr_map_create();
    char rel[96];
    xcm_attr_map_add_bool(m, "xcm.blocking", false);
    if (g_bytestream && with_service)
        xcm_attr_map_add_str(m, "xcm.service", "bytestream");
    if (c->has_cred) {
        const char *set = c->cred == CRED_OWN ? "own" : g_kinds[c->cred].name;
        snprintf(rel, sizeof rel, "%s/cert.pem", set);
        add_item(m, "cert", rel, c->cred_mode);
        snprintf(rel, sizeof rel, "%s/key.pem", set);
        add_item(m, "key", rel, c->cred_mode);
    }
    if (c->client >= 0) xcm_attr_map_add_bool(m, "tls.client", c->client);
    if (c->auth >= 0) xcm_attr_map_add_bool(m, "tls.auth", c->auth);
    if (c->time >= 0) xcm_attr_map_add_bool(m, "tls.check_time", c->time);
    if (c->crl >= 0) xcm_attr_map_add_bool(m, "tls.check_crl", c->crl);
    if (c->verify >= 0) xcm_attr_map_add_bool(m, "tls.verify_peer_name", c->verify);
    if (c->names >= 0) xcm_attr_map_add_str(m, "tls.peer_names", NAMES[c->names]);
    if (c->tc >= 0) add_item(m, "tc", TC_FILE[c->tc], c->tc_mode);
    if (c->crl_b >= 0) add_item(m, "crl", CRL_FILE[c->crl_b], c->crl_mode);
    return m;
}

static void fail_at(struct side *x, const char *call, int err)
{
    if (!x->err) {
        x->err = err;
        snprintf(x->err_call, sizeof x->err_call, "%s", call);
    }
}

static void side_close(struct side *x)
{
    if (x->s && !x->closed) {
        mc_sched_point("close");
        API("xcm_close", 1, xcm_close(x->s));
        mc_observe("%s close", x->name);
        x->closed = 1;
        x->s = NULL;
    }
}

static int wait_for(struct side *x, int cond, const char *why)
{
    if (API("xcm_await", 1, xcm_await(x->s, cond)) < 0) {
        fail_at(x, "await", errno);
        return -1;
    }
    mc_wait_readable(x->fd0, why);
    return 0;
}

static int op_finish(struct side *x, const char *what)
{
    for (;;) {
        mc_sched_point("finish");
        int rc = API("xcm_finish", 1, xcm_finish(x->s));
        int err = rc < 0 ? errno : 0;
        mc_observe("%s finish -> %d %s", x->name, rc, rc < 0 ? errname(err) : "");
        if (rc == 0) {
            mc_set_progress(1);
            return 0;
        }
        if (err != EAGAIN) {
            fail_at(x, what, err);
            return -1;
        }
        mc_set_progress(0);
        if (wait_for(x, 0, "finish-eagain") < 0)
            return -1;
    }
}

static void run_side(struct side *x)
{
    unsigned char out[MSGLEN], in[64];
    x->fd0 = xcm_fd(x->s);
    x->phase = 1;
    if (op_finish(x, "finish") < 0)
        goto out;
    x->usable = 1;
    x->phase = 2;
    pay_fill(out, 40 + x->idx, MSGLEN);
    int off = 0;
    while (off < MSGLEN) {
        mc_sched_point("send");
        int rc = API("xcm_send", 1, xcm_send(x->s, out + off, MSGLEN - off));
        int err = rc < 0 ? errno : 0;
        mc_observe("%s send -> %d %s", x->name, rc, rc < 0 ? errname(err) : "");
        if (rc >= 0) {
            mc_set_progress(1);
            off = g_bytestream ? off + rc : MSGLEN;
            continue;
        }
        if (err != EAGAIN) {
            fail_at(x, "send", err);
            goto out;
        }
        mc_set_progress(0);
        if (wait_for(x, XCM_SO_SENDABLE, "send-eagain") < 0)
            goto out;
    }
    x->send_accepted = 1;
    x->phase = 3;
    if (op_finish(x, "flush") < 0)
        goto out;
    x->sent = 1;
    x->phase = 4;
    while (x->got < MSGLEN) {
        mc_sched_point("recv");
        int rc = API("xcm_receive", 1, xcm_receive(x->s, in, sizeof in));
        int err = rc < 0 ? errno : 0;
        mc_observe("%s receive -> %d %s", x->name, rc, rc < 0 ? errname(err) : "");
        if (rc > 0) {
            mc_set_progress(1);
            for (int i = 0; i < rc && x->got + i < MSGLEN; i++)
                if (in[i] != pay_byte(40 + (1 - x->idx), x->got + i))
                    x->got_wrong = 1;
            x->got += rc;
            if (!g_bytestream)
                break;
            continue;
        }
        if (rc == 0) {
            x->eof = 1;
            mc_set_progress(1);
            goto out;
        }
        if (err != EAGAIN) {
            fail_at(x, "receive", err);
            goto out;
        }
        mc_set_progress(0);
        if (wait_for(x, XCM_SO_RECEIVABLE, "recv-eagain") < 0)
            goto out;
    }
    x->phase = 5;
    /* stay until the peer has had its message too (or has gone): an application that got what it
       wanted closes; the close must not race the peer's receive in this closed system */
out:
    side_close(x);
    x->done = 1;
}

/* ---- raw TLS client without a certificate ---------------------------------------------------- */
static void raw_client(struct side *x)
{
    SSL_CTX *ctx = SSL_CTX_new(TLS_client_method());
    SSL_CTX_set_verify(ctx, SSL_VERIFY_NONE, NULL);
    int fd = socket(AF_INET, SOCK_STREAM | SOCK_NONBLOCK, 0);
    env_set_raw(fd);
    struct sockaddr_in a = { .sin_family = AF_INET, .sin_port = htons(g_port) };
    inet_pton(AF_INET, "127.0.0.1", &a.sin_addr);
    if (connect(fd, (struct sockaddr *)&a, sizeof a) < 0 && errno != EINPROGRESS) {
        x->create_errno = errno;
        mc_observe("raw client: connect failed %s", errname(errno));
        SSL_CTX_free(ctx);
        x->done = 1;
        return;
    }
    x->created = 1;
    SSL *ssl = SSL_new(ctx);
    SSL_set_fd(ssl, fd);
    SSL_set_connect_state(ssl);
    unsigned char frame[4 + MSGLEN], in[64];
    int flen = 0;
    if (!g_bytestream) {
        uint32_t n = htonl(MSGLEN);
        memcpy(frame, &n, 4);
        flen = 4;
    }
    pay_fill(frame + flen, 40, MSGLEN);
    flen += MSGLEN;
    int stage = 0, spins = 0;
    while (spins++ < 400) {
        int rc;
        mc_sched_point("raw-step");
        ERR_clear_error();
        if (stage == 0)
            rc = SSL_do_handshake(ssl);
        else if (stage == 1)
            rc = SSL_write(ssl, frame, flen);
        else
            rc = SSL_read(ssl, in, sizeof in);
        if (rc > 0) {
            mc_set_progress(1);
            if (stage == 0) {
                x->usable = 1;
                mc_observe("raw client: handshake complete");
            } else if (stage == 1) {
                x->sent = x->send_accepted = 1;
                mc_observe("raw client: wrote a message");
            } else {
                /* anything but the framing header counts as application data */
                x->got += rc;
                mc_observe("raw client: read %d bytes of application data", rc);
                if (x->got >= MSGLEN)
                    break;
                continue;
            }
            stage++;
            continue;
        }
        int e = SSL_get_error(ssl, rc);
        if (e == SSL_ERROR_WANT_READ || e == SSL_ERROR_WANT_WRITE) {
            mc_set_progress(0);
            struct pollfd p = { .fd = fd, .events = e == SSL_ERROR_WANT_READ ? POLLIN : POLLOUT };
            if (poll(&p, 1, 0) <= 0) {
                /* wait until the descriptor reports something */
                if (e == SSL_ERROR_WANT_READ)
                    mc_wait_readable(fd, "raw-wait");
            }
            continue;
        }
        mc_observe("raw client: stage %d ended with SSL error %d", stage, e);
        fail_at(x, stage == 0 ? "finish" : stage == 1 ? "send" : "receive", e == SSL_ERROR_ZERO_RETURN ? EPIPE : EPROTO);
        if (e == SSL_ERROR_ZERO_RETURN)
            x->eof = 1;
        break;
    }
    SSL_free(ssl);
    SSL_CTX_free(ctx);
    close(fd);
    x->closed = 1;
    x->done = 1;
}

static void task_a(void *arg)
{
    (void)arg;
    struct side *x = &A;
    if (g_raw_client) {
        raw_client(x);
        return;
    }
    struct xcm_attr_map *m = mk_map(&CC, 1);
    mc_sched_point("connect");
    x->s = API("xcm_connect_a", 1, xcm_connect_a(g_caddr, m));
    x->create_errno = x->s ? 0 : errno;
    xcm_attr_map_destroy(m);
    mc_observe("client xcm_connect_a(%s:%s:<port>) -> %s", g_utls && strncmp(g_caddr, "utls", 4) ? "tls" : g_caddr[0] == 'u' ? "utls" : g_tp,
               g_hostname ? HOSTNAME : "127.0.0.1", x->s ? "socket" : errname(x->create_errno));
    if (!x->s) {
        x->done = 1;
        return;
    }
    x->created = 1;
    check_transport(x);
    run_side(x);
}

static void task_b(void *arg)
{
    (void)arg;
    struct side *x = &B;
    /* the client starts once the server task is under way: no (free) choice of who goes first */
    mc_task_create("client", task_a, NULL);
    struct xcm_attr_map *m = mk_map(&AC, 0);
    for (;;) {
        if (API("xcm_await", 1, xcm_await(g_server, XCM_SO_ACCEPTABLE)) < 0)
            break;
        mc_wait_readable(xcm_fd(g_server), "accept-wait");
        mc_sched_point("accept");
        x->s = API("xcm_accept_a", 1, xcm_accept_a(g_server, m));
        x->create_errno = x->s ? 0 : errno;
        if (x->s || x->create_errno != EAGAIN)
            break;
        mc_set_progress(0);
    }
    xcm_attr_map_destroy(m);
    mc_observe("server xcm_accept_a -> %s", x->s ? "socket" : errname(x->create_errno));
    if (x->s) {
        x->created = 1;
        check_transport(x);
        run_side(x);
    }
    /* nothing else will be accepted: a connection still queued is reset */
    mc_sched_point("close-server");
    API("xcm_close", 1, xcm_close(g_server));
    g_server = NULL;
    x->done = 1;
}

/* ---- verdicts ------------------------------------------------------------------------------------ */
static const char *where_of(struct side *x)
{
    if (x == &A)
        return "connect";
    if (!conf_has_policy(&AC))
        return "server";
    /* the server socket of placement `accept` carries only its credentials and trust anchors */
    return (SC.auth >= 0 || SC.time >= 0 || SC.crl >= 0 || SC.verify >= 0 || SC.names >= 0 || SC.crl_b >= 0)
           ? "override" : "accept";
}

static void judge(struct side *x, struct side *peer, struct expect *ex, struct expect *pex, int env_quiet)
{
    char sig[200];
    const char *where = where_of(x);
    mc_count(7, 1);
    if (ex->e == E_INVALID) {
        mc_count(2, 1);
        int created, err;
        if (x == &A) {
            created = x->created;
            err = x->create_errno;
        } else if (ex->srv_invalid) {
            created = g_server_errno == 0;
            err = g_server_errno;
        } else if (g_server_errno == EINVAL)
            return;      /* refused one step earlier, at xcm_server_a: accepted as "at creation" */
        else if (!x->created && !x->create_errno)
            return;      /* the accept was never reached (the client had gone): nothing to judge */
        else {
            created = x->created;
            err = x->create_errno;
        }
        if (created) {
            snprintf(sig, sizeof sig, "C09/invalid-combination-accepted/%s/at=%s/tp=%s", ex->why, where, g_tp);
            mc_violation(sig, "%s socket was created although its configuration is an invalid combination (%s); it then %s. Cell: %s",
                         x->name, ex->why, x->usable ? "became usable" : "did not become usable", g_desc);
        } else if (err != EINVAL) {
            snprintf(sig, sizeof sig, "C09/wrong-errno/invalid-combination/%s/got=%s/at=%s/tp=%s", ex->why, errname(err), where, g_tp);
            mc_violation(sig, "invalid combination (%s) refused with %s instead of EINVAL. Cell: %s", ex->why, errname(err), g_desc);
        }
        return;
    }
    if (x == &B && g_server_errno) {
        /* a valid server configuration was refused */
        mc_count(6, 1);
        snprintf(sig, sizeof sig, "stricter/server-socket-refused/%s/%s", errname(g_server_errno), g_tp);
        mc_info(sig, "xcm_server_a refused a configuration the documentation allows with %s. Cell: %.120s", errname(g_server_errno), g_desc);
        return;
    }
    if (ex->e == E_UNSAT) {
        const char *saw = x->usable ? "finish-succeeded" : x->got > 0 ? "data-delivered" : peer->got > 0 ? "data-transmitted" : NULL;
        if (saw) {
            snprintf(sig, sizeof sig, "C09/fail-open/%s/saw=%s/at=%s/tp=%s", ex->why, saw, where, g_tp);
            mc_violation(sig, "the %s side must refuse this peer (%s) but: xcm_finish %s, it was handed %d byte(s) of the peer's data, "
                         "its own message %s. Cell: %s", x->name, ex->why, x->usable ? "succeeded" : "did not succeed", x->got,
                         peer->got > 0 ? "reached the peer" : x->send_accepted ? "was accepted by xcm_send" : "was not sent", g_desc);
            return;
        }
        mc_count(3, 1);
        if (!x->created && x == &B && !x->create_errno)
            return;      /* never got a connection to refuse */
        int err = x->created ? x->err : x->create_errno;
        if (!x->created && err == EINVAL) {
            /* refused as a configuration, not as a peer: stricter than documented, but closed */
            mc_count(6, 1);
            snprintf(sig, sizeof sig, "stricter/creation-refused/EINVAL/%s/%s", where, g_tp);
            mc_info(sig, "a configuration the documentation allows was refused with EINVAL. Cell: %.140s", g_desc);
            return;
        }
        /* the errno is only owed when the refusal is this side's own: the peer was set up, had no
           reason to break off first, and the environment did not interfere */
        int peer_clean = peer->created && pex->e == E_SAT;
        if (!peer_clean || !env_quiet)
            return;
        if (err == 0) {
            snprintf(sig, sizeof sig, "C09/refusal-not-reported/%s/at=%s/tp=%s", ex->why, where, g_tp);
            mc_violation(sig, "the %s side must refuse this peer (%s); it did not become usable but never reported an error "
                         "(stuck in phase %d, eof=%d). Cell: %s", x->name, ex->why, x->phase, x->eof, g_desc);
        } else if (err != EPROTO) {
            snprintf(sig, sizeof sig, "C09/wrong-errno/%s/got=%s/in=%s/at=%s/tp=%s", ex->why, errname(err),
                     x->created ? x->err_call : "create", where, g_tp);
            mc_violation(sig, "the %s side refused the peer (%s) with %s from %s instead of EPROTO. Cell: %s", x->name, ex->why,
                         errname(err), x->created ? x->err_call : "socket creation", g_desc);
        }
        return;
    }
    if (ex->e == E_NAMEGATE) {
        mc_count(5, 1);
        int cred = x == &A ? (AC.has_cred ? AC.cred : SC.cred) : g_raw_client ? CRED_NONE : CC.cred;
        const char *have = cred == CRED_NONE ? "" : cred == CRED_OWN ? "own.verif.test" : g_kinds[cred].names;
        const char *saw = x->usable ? "finish-succeeded" : x->got > 0 ? "data-delivered" : peer->got > 0 ? "data-transmitted" : NULL;
        if (saw && !names_overlap(have, ex->want)) {
            snprintf(sig, sizeof sig, "C09/fail-open/name-mismatch/%s/saw=%s/at=%s/tp=%s", ex->tag, saw, where, g_tp);
            mc_violation(sig, "tls.verify_peer_name is on (%s) and the expected names are {%s}; the peer's names are {%s}, yet the %s side: "
                         "xcm_finish %s, was handed %d byte(s), its own message %s.  Admissible were EINVAL at creation or a refusal. Cell: %s",
                         ex->tag, ex->want, have, x->name, x->usable ? "succeeded" : "did not succeed", x->got,
                         peer->got > 0 ? "reached the peer" : "did not reach the peer", g_desc);
            return;
        }
        if (x->created || x->create_errno) {
            int err = x->created ? x->err : x->create_errno;
            snprintf(sig, sizeof sig, "either/%s/%s/%s", ex->note, x->usable ? "usable" : errname(err), g_tp);
            mc_info(sig, "%s: admissible are a refusal at creation or an enforced name; the %s side %s. Cell: %.120s", ex->note, x->name,
                    x->usable ? "became usable with a peer carrying an expected name" : "refused", g_desc);
        }
        return;
    }
    if (ex->e == E_EITHER) {
        mc_count(5, 1);
        if (x->created || x->create_errno) {
            int err = x->created ? x->err : x->create_errno;
            snprintf(sig, sizeof sig, "either/%s/%s/%s", ex->note, x->usable ? "usable" : errname(err), g_tp);
            mc_info(sig, "undocumented or documented-as-unsupported combination (%s): the %s side %s. Cell: %.120s", ex->note, x->name,
                    x->usable ? "became usable" : "refused", g_desc);
        }
        return;
    }
    /* E_SAT: being refused is stricter than documented, not a violation */
    int peer_ok = peer->created && (pex->e == E_SAT || ((pex->e == E_EITHER || pex->e == E_NAMEGATE) && peer->usable)) &&
                  !(peer == &B && g_server_errno);
    if (!peer_ok) {
        if (x == &A && !x->created && x->create_errno == EINVAL) {
            mc_count(6, 1);
            snprintf(sig, sizeof sig, "stricter/creation-refused/EINVAL/%s/%s", where, g_tp);
            mc_info(sig, "a configuration the documentation allows was refused with EINVAL. Cell: %.140s", g_desc);
        }
        return;
    }
    if (x->usable && x->sent && x->got >= MSGLEN && !x->got_wrong) {
        mc_count(4, 1);
        return;
    }
    if (!env_quiet)
        return;
    mc_count(6, 1);
    int err = x->created ? x->err : x->create_errno;
    snprintf(sig, sizeof sig, "stricter/%s/%s@%s/%s/%s", ex->note[0] ? ex->note : "policy-met", errname(err),
             x->created ? x->err_call : "create", where, g_tp);
    mc_info(sig, "%s side: policy met but connection not usable (usable=%d sent=%d got=%d). Cell: %.130s", x->name, x->usable,
            x->sent, x->got, g_desc);
}

static uint64_t state_digest(void)
{
    uint64_t h = mc_hash_bytes(29, g_dims, strlen(g_dims));
    for (struct side *x = &A; x; x = (x == &A ? &B : NULL)) {
        h = mc_hash_mix(h, x->phase * 64 + x->created * 32 + x->usable * 16 + x->sent * 8 + x->eof * 4 + x->closed * 2 + x->done);
        h = mc_hash_mix(h, (uint64_t)x->got * 1000 + x->err);
        if (x->s && !x->closed)
            h = mc_hash_mix(h, fd_readable_mask(x->fd0));
    }
    h = mc_hash_mix(h, env_pending_connects() * 16 + env_stalled_count());
    h = mc_hash_mix(h, env_data_calls());
    return h;
}

static void scenario(const char *params)
{
    param_get(params, "tp", g_tp, sizeof g_tp, "tls");
    param_get(params, "part", g_part, sizeof g_part, "core");
    param_get(params, "pki", g_pki, sizeof g_pki, "/verif/build/pki/c09");
    g_bytestream = !strcmp(g_tp, "btls");
    g_utls = !strcmp(g_tp, "utls");
    setenv("XCM_CTL", "/nonexistent-ctl-dir", 1);
    setenv("XCM_TLS_CERT", "/nonexistent-cert-dir", 1);
    load_kinds();
    mc_set_state_fn(state_digest);
    build_cell();

    struct env_cfg cfg = { .io_menu = (unsigned)param_int(params, "menu", 0), .sleep_monitor = 0, .only_task = -1 };
    env_init(&cfg);
    env_register_events();
    det_rand_install(1);
    static const char *ips[] = { "127.0.0.1" };
    env_dns_set(HOSTNAME, ips, 1, ENV_DNS_NOW);
    int client_is_sut = conf_has_policy(&CC) && CC.cred == CRED_OWN;
    const char *ctp = g_utls ? (client_is_sut ? "utls" : "tls") : g_tp;
    const char *stp = g_utls ? (client_is_sut ? "tls" : "utls") : g_tp;
    if (!strcmp(g_part, "x2") && g_utls)
        stp = "tls", ctp = "utls";
    mc_observe("cell: %s", g_desc);
    mc_observe("dims: %s", g_dims);

    struct expect ea, eb;
    expect_client(&ea);
    expect_server(&eb);
    static const char *EN[] = { "must-accept", "must-refuse", "either", "invalid", "refuse-or-enforce-name" };
    mc_observe("oracle: client %s%s%s, server %s%s%s", EN[ea.e], ea.why[0] ? " " : "", ea.why, EN[eb.e], eb.why[0] ? " " : "", eb.why);

    struct xcm_attr_map *sm = mk_map(&SC, 1);
    for (int attempt = 0; attempt < 40; attempt++) {
        /* the UX half of a utls server lives in the abstract AF_UNIX name space shared by every process
           of the network namespace: on a collision with some other process take the next port */
        g_port = 2000 + (int)(((long)getpid() * 7 + attempt * 7919L) % 60000);
        snprintf(g_saddr, sizeof g_saddr, "%s:127.0.0.1:%d", stp, g_port);
        g_server = API("xcm_server_a", 1, xcm_server_a(g_saddr, sm));
        g_server_errno = g_server ? 0 : errno;
        if (g_server || g_server_errno != EADDRINUSE)
            break;
    }
    snprintf(g_caddr, sizeof g_caddr, "%s:%s:%d", ctp, g_hostname ? HOSTNAME : "127.0.0.1", g_port);
    xcm_attr_map_destroy(sm);
    mc_observe("xcm_server_a(%s:127.0.0.1:<port>) -> %s", stp, g_server ? "socket" : errname(g_server_errno));
    if (!g_server && g_server_errno != EINVAL && !eb.srv_invalid)
        mc_fail("internal/server-create", "xcm_server_a(%s): %s [%s]", g_saddr, errname(g_server_errno), g_desc);
    mc_count(0, 1);
    enum mc_end end = MC_END_DONE;
    g_t0 = env_now_ns();
    if (g_server) {
        mc_task_create("server", task_b, NULL);
        end = mc_run((int)param_int(params, "horizon", 4000));
        if (A.created && B.created)
            mc_count(1, 1);
    }
    int env_quiet = env_now_ns() - g_t0 < 1000000000LL;
    mc_observe("end=%d", end);
    if (g_void) {
        mc_count(8, 1);
        mc_info("void/utls-over-ux", "a utls connection of this cell went over UX (name collision with a foreign process): not a TLS "
                "connection, not judged. Cell: %.120s", g_desc);
    } else {
        judge(&B, &A, &eb, &ea, env_quiet);
        if (g_server_errno == 0 && !g_raw_client)
            judge(&A, &B, &ea, &eb, env_quiet);
    }
    if (end != MC_END_DONE && A.created && B.created && env_quiet) {
        char k[96];
        snprintf(k, sizeof k, "hang/end=%d/tp=%s", end, g_tp);
        mc_info(k, "the cell did not run to completion (client phase %d, server phase %d). Cell: %.130s", A.phase, B.phase, g_desc);
    }
    mc_outcome("%s | cli:%s:%s cr=%d/%s us=%d snt=%d got=%d err=%s@%s | srv:%s:%s cr=%d/%s us=%d snt=%d got=%d err=%s@%s end=%d",
               g_dims, EN[ea.e], ea.why, A.created, errname(A.create_errno), A.usable, A.sent, A.got, errname(A.err), A.err_call,
               EN[eb.e], eb.why, B.created, errname(g_server_errno ? g_server_errno : B.create_errno), B.usable, B.sent, B.got,
               errname(B.err), B.err_call, end);
    char dump[256];
    param_get(params, "dump", dump, sizeof dump, "");
    if (dump[0]) {
        /* development aid: one line per execution (O_APPEND writes of one line are atomic) */
        char line[1200];
        int n = snprintf(line, sizeof line, "%s | cli:%s:%s cr=%d/%s us=%d snt=%d got=%d err=%s@%s | srv:%s:%s cr=%d/%s us=%d snt=%d got=%d err=%s@%s end=%d | %s\n",
               g_dims, EN[ea.e], ea.why, A.created, errname(A.create_errno), A.usable, A.sent, A.got, errname(A.err), A.err_call,
               EN[eb.e], eb.why, B.created, errname(g_server_errno ? g_server_errno : B.create_errno), B.usable, B.sent, B.got,
               errname(B.err), B.err_call, end, g_desc);
        int fd = open(dump, O_WRONLY | O_APPEND | O_CREAT, 0644);
        if (fd >= 0) {
            if (write(fd, line, n) < 0) {}
            close(fd);
        }
    }
}

/* Runs once in the explorer before any fork: one idle server socket per credential tuple keeps the
   process-wide SSL_CTX cache populated, so the forked executions take the cache-hit path (DESIGN 1.9;
   the contexts are still built by the code under test, once).  prime=0 switches it off. */
static void prime(const char *params)
{
    if (!param_int(params, "prime", 1))
        return;
    param_get(params, "pki", g_pki, sizeof g_pki, "/verif/build/pki/c09");
    setenv("XCM_CTL", "/nonexistent-ctl-dir", 1);
    setenv("XCM_TLS_CERT", "/nonexistent-cert-dir", 1);
    load_kinds();
    int port = 1000;
    for (int mode = 0; mode < 2; mode++)
        for (int cred = -1; cred < g_nkinds; cred++)
            for (int tc = -1; tc <= TC_INTER; tc++)
                for (int crl = -1; crl <= CRL_EMPTY; crl++) {
                    if (cred >= 0 && (tc > TC_ROOT || crl >= 0))
                        continue;          /* peers: permissive (no anchors) or strict (root) */
                    if (crl >= 0 && tc < 0)
                        continue;
                    struct conf c;
                    conf_init(&c);
                    c.cred = cred < 0 ? CRED_OWN : cred;
                    c.has_cred = 1;
                    c.cred_mode = c.tc_mode = c.crl_mode = mode;
                    c.auth = tc >= 0;
                    c.tc = tc;
                    c.crl = crl >= 0;
                    c.crl_b = crl;
                    struct xcm_attr_map *m = mk_map(&c, 0);
                    char addr[64];
                    snprintf(addr, sizeof addr, "tls:127.0.0.1:%d", port++);
                    if (!xcm_server_a(addr, m)) {
                        fprintf(stderr, "h_tls: priming %s failed: %s\n", addr, strerror(errno));
                        exit(2);
                    }
                    xcm_attr_map_destroy(m);
                }
    g_nkinds = 0;
}

int main(int argc, char **argv)
{
    return mc_main(argc, argv, scenario, prime);
}
