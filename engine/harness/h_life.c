/* h_life - C08: no resource leaks, stray closes or aborts on any lifecycle path.
 *
 * One exploration = one (transport, lifecycle scenario).  The explorer enumerates every resource-creating
 * system call the library makes during the scenario x every errno the shim offers for it (bound 1), and every
 * pair (bound 2).  No scheduler, no data-path deviations: the scenario runs straight in the forked child, on
 * non-blocking sockets, and is driven to completion by the harness itself.
 *
 * One execution:
 *   warm-up     the scenario body once with fault injection off (process-wide first-use allocations of libc,
 *               OpenSSL and libxcm happen here)
 *   baseline    descriptor table (/proc/self/fd, number -> target), bytes in use on the heap, the shim's
 *               ledger of library-created descriptors, content of the per-pid scratch directory
 *   measured    the body again, fault alternatives offered at every resource-creating call made inside an
 *               XCM API call (choices of the explorer)
 *   oracle      after every successfully created socket has been closed: descriptor table == baseline (leak /
 *               foreign descriptor closed or replaced), no close() on a descriptor the library did not create,
 *               scratch directory == baseline (UXF socket files, control files), every failed call reported
 *               NULL/-1 with errno != 0, no abort()/assert (abort is interposed and turned into a verdict that
 *               names the assertion), heap == baseline.  If the heap differs, the SAME faults are injected
 *               again, deterministically, in three further repetitions: a leak makes the heap grow in each of
 *               them, a first-use cache does not.  With two faults injected, each finding is re-derived with
 *               one of them alone (in the same process) so that its signature names the fault that causes it.
 *   fork        forkat=k: at the k-th API boundary the process forks; the child calls xcm_cleanup on every live
 *               socket (its descriptor table must be back at the baseline, the files must stay); the parent
 *               then goes on: nobody may have seen anything, the descriptors must still wake their owner, the
 *               files are still there.
 *
 * params: tp=<ux|uxf|tcp|tls|utls|btcp|btls> sc=<scenario> [ctl=on|off|notdir|unwritable] [forkat=k] [certs=<dir>] [hreps=n]
 */
#define _GNU_SOURCE
#include "hcommon.h"

#include <arpa/inet.h>
#include <dirent.h>
#include <fcntl.h>
#include <malloc.h>
#include <netinet/in.h>
#include <stdarg.h>
#include <sys/socket.h>
#include <sys/stat.h>
#include <sys/un.h>
#include <sys/wait.h>

#include "ctl_proto.h"

#include <openssl/crypto.h>
#include <openssl/err.h>
#include <openssl/ssl.h>

/* ---- parameters ------------------------------------------------------------------------------------ */
static char g_tp[16], g_sc[32], g_certs[256];
static char g_dir[128];            /* per-pid scratch directory */
static char g_ctldir[160];
static char g_ip[32];              /* a loopback address unique to this process */
static int g_bytestream, g_is_ux, g_is_uxf;
static int g_forkat;
static int g_rep;                  /* repetition counter (addresses differ between repetitions) */
static pid_t g_pid;

/* ---- fault bookkeeping (interposed between the shim and the explorer) ------------------------------------ */
enum { M_PASS = 0, M_RECORD, M_REPLAY };
struct frec {
    int inst;                      /* which call of that API function within the repetition */
    char sys[24];
    int alt;
    char api[28];
    int nth;                       /* which call of that system call within the API call */
};
#define MAX_FREC 8
static struct frec g_frec[MAX_FREC];
static int g_nfrec;
static int g_mode = M_PASS;
static int g_window = 1;           /* faults are offered only while this is set */
static int g_cur_inst;             /* instance number of the API call in progress */
static struct { char api[28]; int n; } g_apicnt[24];
static int g_napicnt;
static int g_call_faults;          /* faults injected during the current API call */
static int g_rep_faults;           /* faults injected during the current repetition */
static unsigned g_replay_mask = ~0u;
static int g_replay_anyinst;          /* blame runs: first call of that API function that gets there */
static int g_frec_used[MAX_FREC];
static struct { char sys[24]; int n; } g_percall[24];
static int g_npercall;
static char g_cur_api[32];
static char g_assert[120];
static int g_in_child;

int __real_mc_choose(int n, enum mc_kind kind, const char *label);

static int percall_nth(const char *sys)
{
    for (int i = 0; i < g_npercall; i++)
        if (!strcmp(g_percall[i].sys, sys))
            return ++g_percall[i].n;
    if (g_npercall < 24) {
        snprintf(g_percall[g_npercall].sys, sizeof g_percall[0].sys, "%s", sys);
        g_percall[g_npercall].n = 1;
        g_npercall++;
    }
    return 1;
}

int __wrap_mc_choose(int n, enum mc_kind kind, const char *label)
{
    if (kind != MC_FAULT)
        return __real_mc_choose(n, kind, label);
    const char *sys = strncmp(label, "fault:", 6) == 0 ? label + 6 : label;
    int nth = percall_nth(sys);
    if (g_mode == M_PASS || !g_window)
        return 0;
    if (g_mode == M_RECORD) {
        /* a point with no affordable alternative is the default: do not create it */
        if (mc_budget_left() <= 0 && !mc_replaying())
            return 0;
        char lb[48];
        snprintf(lb, sizeof lb, "%.14s#%d@%.22s", sys, nth, g_cur_api);
        int a = __real_mc_choose(n, kind, lb);
        if (a) {
            if (g_nfrec < MAX_FREC) {
                struct frec *f = &g_frec[g_nfrec++];
                f->inst = g_cur_inst;
                snprintf(f->sys, sizeof f->sys, "%s", sys);
                f->alt = a;
                snprintf(f->api, sizeof f->api, "%s", g_cur_api);
                f->nth = nth;
            }
            g_call_faults++;
            g_rep_faults++;
            mc_count(1, 1);
            mc_observe("FAULT %s#%d alt %d in %s", sys, nth, a, g_cur_api);
        }
        return a;
    }
    /* M_REPLAY: faults of the measured repetition again, without the explorer: same API function, same call
       instance, same system call, same occurrence */
    for (int i = 0; i < g_nfrec; i++) {
        if (!(g_replay_mask & (1u << i)) || g_frec_used[i])
            continue;
        if (g_frec[i].nth != nth || (!g_replay_anyinst && g_frec[i].inst != g_cur_inst) || strcmp(g_frec[i].sys, sys) != 0 ||
            strcmp(g_frec[i].api, g_cur_api) != 0 || g_frec[i].alt >= n)
            continue;
        g_frec_used[i] = 1;
        g_call_faults++;
        g_rep_faults++;
        return g_frec[i].alt;
    }
    return 0;
}

static int api_instance(const char *api)
{
    for (int i = 0; i < g_napicnt; i++)
        if (!strcmp(g_apicnt[i].api, api))
            return ++g_apicnt[i].n;
    if (g_napicnt < 24) {
        snprintf(g_apicnt[g_napicnt].api, sizeof g_apicnt[0].api, "%s", api);
        g_apicnt[g_napicnt].n = 1;
        g_napicnt++;
    }
    return 1;
}

static void rep_begin(int mode, unsigned mask, int rep)
{
    g_mode = mode;
    g_replay_mask = mask;
    memset(g_frec_used, 0, sizeof g_frec_used);
    g_napicnt = 0;
    g_rep_faults = 0;
    g_rep = rep;
}

/* description of the faults selected by mask */
static const char *faults_descr_mask(unsigned mask)
{
    static char bufs[4][200];
    static int rot;
    char *b = bufs[rot++ & 3];
    size_t o = 0;
    b[0] = 0;
    for (int i = 0; i < g_nfrec && o + 48 < 200; i++)
        if (mask & (1u << i))
            o += snprintf(b + o, 200 - o, "%s%s#%d@%s", o ? "+" : "", g_frec[i].sys, g_frec[i].nth, g_frec[i].api);
    if (!o)
        snprintf(b, 200, "none");
    return b;
}

static const char *faults_descr(void)
{
    return faults_descr_mask(~0u);
}

/* ---- abort()/assert inside the library ------------------------------------------------------------------- */
void __real___log_event(int type, const char *file, int line, const char *function, struct xcm_socket *s,
                        const char *format, ...) __attribute__((weak));

void __wrap___log_event(int type, const char *file, int line, const char *function, struct xcm_socket *s,
                        const char *format, ...)
{
    char buf[600];
    va_list ap;
    va_start(ap, format);
    vsnprintf(buf, sizeof buf, format, ap);
    va_end(ap);
    if (strncmp(buf, "Assertion", 9) == 0) {
        /* Assertion "<expr>" failed. */
        const char *q1 = strchr(buf, '"');
        const char *q2 = q1 ? strrchr(buf, '"') : NULL;
        char expr[80] = "?";
        if (q1 && q2 && q2 > q1 + 1) {
            size_t l = (size_t)(q2 - q1 - 1);
            if (l >= sizeof expr)
                l = sizeof expr - 1;
            memcpy(expr, q1 + 1, l);
            expr[l] = 0;
        }
        for (char *p = expr; *p; p++)
            if (*p == ' ' || *p == '/' || *p == '\n' || *p == '\t')
                *p = '_';
        snprintf(g_assert, sizeof g_assert, "%s@%s", expr, function ? function : "?");
    }
    if (__real___log_event)
        __real___log_event(type, file, line, function, s, "%s", buf);
}

static void rm_rf_scratch(void);

void __wrap_abort(void)
{
    char sig[200];
    if (!g_in_child)
        rm_rf_scratch();
    const char *api = mc_cur_api();
    snprintf(sig, sizeof sig, "C08/abort/%s/in=%s%s/tp=%s", g_assert[0] ? g_assert : "abort()",
             api[0] ? api : "harness", g_in_child ? "(forked-child)" : "", g_tp);
    mc_fail(sig, "the library terminated the process (abort) instead of reporting the failure: %s during %s, "
                 "scenario %s, injected fault(s): %s",
            g_assert[0] ? g_assert : "abort() without assertion text", api[0] ? api : "(no API call)", g_sc,
            faults_descr());
}

/* SSL_CTX objects created through the library (ctx_store.c is the only caller in the link) and not yet released by
   it.  The counter is inherited across fork(): a child starts with its parent's number of live contexts, and once it
   has cleaned up / closed every socket it holds, ITS count must be zero - each process owns its references. */
static int g_live_ctx;
SSL_CTX *__real_SSL_CTX_new(const SSL_METHOD *m);
void __real_SSL_CTX_free(SSL_CTX *c);
SSL_CTX *__wrap_SSL_CTX_new(const SSL_METHOD *m)
{
    SSL_CTX *c = __real_SSL_CTX_new(m);
    if (c)
        g_live_ctx++;
    return c;
}
void __wrap_SSL_CTX_free(SSL_CTX *c)
{
    if (c)
        g_live_ctx--;
    __real_SSL_CTX_free(c);
}

static int g_parent_cleanups;      /* xcm_cleanup calls made by the scenario process itself (hand-over) */
static char g_tp_fwd[16];

static void check_ctx_released(const char *who)
{
    if (g_live_ctx != 0) {
        char sig[200];
        snprintf(sig, sizeof sig, "C08/cleanup-keeps-process-resource/ssl-ctx-reference/in=%s/tp=%s", who, g_tp_fwd);
        mc_violation(sig, "the %s process has cleaned up / closed every socket it held, but %d SSL_CTX object(s) created by "
                          "the library (certificate, private key, trust store) are still alive in it: xcm_cleanup did not "
                          "drop this process's own reference in the context cache", who, g_live_ctx);
    }
}

/* ---- heap ledger: blocks the library's objects allocate (malloc family interposed in this link) while an XCM API
   call is in progress, and that are still allocated.  libc- and OpenSSL-internal allocations are not seen here (the
   mallinfo2 figure covers those); the ledger tells WHAT is left when the steady-state oracle says the heap grows:
   size, and the API call inside which it was allocated. */
void *__real_malloc(size_t n);
void *__real_calloc(size_t a, size_t b);
void *__real_realloc(void *p, size_t n);
void __real_free(void *p);

#define LG_BITS 16
#define LG_SIZE (1u << LG_BITS)
#define LG_TOMB ((void *)1)
struct lg_ent {
    void *p;
    uint32_t size;
    uint16_t rep;
    uint16_t api;
};
static struct lg_ent g_lg[LG_SIZE];
static int g_lg_live, g_lg_used;
static long g_lg_bytes;
static char g_lg_api[32][28];
static int g_lg_napi;

static unsigned lg_hash(void *p)
{
    return (unsigned)((((uintptr_t)p >> 4) * 0x9e3779b97f4a7c15ULL) >> (64 - LG_BITS));
}

static int lg_api_idx(const char *api)
{
    for (int i = 0; i < g_lg_napi; i++)
        if (!strcmp(g_lg_api[i], api))
            return i;
    if (g_lg_napi < 32) {
        snprintf(g_lg_api[g_lg_napi], sizeof g_lg_api[0], "%s", api);
        return g_lg_napi++;
    }
    return 0;
}

static void lg_add(void *p, size_t n)
{
    const char *api = mc_cur_api();
    if (!p || !api[0] || g_lg_used > (int)(LG_SIZE * 3 / 4))
        return;
    unsigned i = lg_hash(p);
    while (g_lg[i].p && g_lg[i].p != LG_TOMB)
        i = (i + 1) & (LG_SIZE - 1);
    if (!g_lg[i].p)
        g_lg_used++;
    g_lg[i].p = p;
    g_lg[i].size = (uint32_t)n;
    g_lg[i].rep = (uint16_t)g_rep;
    g_lg[i].api = (uint16_t)lg_api_idx(api);
    g_lg_live++;
    g_lg_bytes += (long)n;
}

static void lg_del(void *p)
{
    if (!p || !g_lg_live)
        return;
    unsigned i = lg_hash(p);
    while (g_lg[i].p) {
        if (g_lg[i].p == p) {
            g_lg[i].p = LG_TOMB;
            g_lg_live--;
            g_lg_bytes -= g_lg[i].size;
            return;
        }
        i = (i + 1) & (LG_SIZE - 1);
    }
}

void *__wrap_malloc(size_t n)
{
    void *p = __real_malloc(n);
    lg_add(p, n);
    return p;
}
void *__wrap_calloc(size_t a, size_t b)
{
    void *p = __real_calloc(a, b);
    lg_add(p, a * b);
    return p;
}
void *__wrap_realloc(void *o, size_t n)
{
    void *p = __real_realloc(o, n);
    if (p || n == 0) {
        lg_del(o);
        lg_add(p, n);
    }
    return p;
}
void __wrap_free(void *p)
{
    lg_del(p);
    __real_free(p);
}

/* the blocks allocated during repetition `rep` that are still there: "37904 B in xcm_accept_a x3, ..." */
static const char *lg_describe(int rep)
{
    static char b[300];
    struct { uint32_t size; uint16_t api; int n; } agg[6];
    int na = 0, more = 0;
    for (unsigned i = 0; i < LG_SIZE; i++) {
        if (!g_lg[i].p || g_lg[i].p == LG_TOMB || g_lg[i].rep != rep)
            continue;
        int k;
        for (k = 0; k < na; k++)
            if (agg[k].size == g_lg[i].size && agg[k].api == g_lg[i].api)
                break;
        if (k < na)
            agg[k].n++;
        else if (na < 6) {
            agg[na].size = g_lg[i].size;
            agg[na].api = g_lg[i].api;
            agg[na++].n = 1;
        } else
            more++;
    }
    size_t o = 0;
    b[0] = 0;
    for (int k = 0; k < na && o + 60 < sizeof b; k++)
        o += (size_t)snprintf(b + o, sizeof b - o, "%s%u B in %s x%d", k ? ", " : "", agg[k].size, g_lg_api[agg[k].api], agg[k].n);
    if (more && o + 20 < sizeof b)
        snprintf(b + o, sizeof b - o, ", +%d more", more);
    if (!na)
        snprintf(b, sizeof b, "none (the growth is in libc/OpenSSL-internal allocations)");
    return b;
}

/* shutdown() is not interposed by the shim: a forked child that shuts down an inherited socket alters the owner's */
int __real_shutdown(int fd, int how);
int __wrap_shutdown(int fd, int how)
{
    env_note_child_call("shutdown", fd);
    return __real_shutdown(fd, how);
}

/* ---- API call wrapper ---------------------------------------------------------------------------------------- */
#define LAPI(name, call) ({                                  \
    snprintf(g_cur_api, sizeof g_cur_api, "%s", name);       \
    g_cur_inst = api_instance(name);                         \
    g_call_faults = 0;                                       \
    g_npercall = 0;                                          \
    mc_count(0, 1);                                          \
    errno = 0;                                               \
    __typeof__(call) _lr = API(name, 1, call);               \
    _lr; })

#define VIOL(sig, ...) mc_violation(sig, __VA_ARGS__)

static int g_failed_steps;         /* steps of the flow that did not work (judged only without faults) */

/* in the fault-free warm-up every essential step of a scenario has to work, or the harness is wrong */
#define MUST(cond, what) do { if (!(cond) && g_mode == M_PASS && !g_forked) \
        mc_fail("internal/warm-up-step-failed", "scenario %s tp %s: %s did not work without any fault (%s)", g_sc, g_tp, \
                what, errname(errno)); } while (0)

static void check_errno_on_failure(const char *api, int err)
{
    if (err == 0) {
        char sig[160];
        snprintf(sig, sizeof sig, "C08/failure-without-errno/in=%s/after=%s/tp=%s", api, faults_descr(), g_tp);
        VIOL(sig, "%s failed (NULL/-1) but left errno at 0; scenario %s", api, g_sc);
    }
}

/* ---- live sockets ------------------------------------------------------------------------------------------------ */
#define MAX_SOCKS 256
static struct xcm_socket *g_socks[MAX_SOCKS];
static int g_nsocks;

static struct xcm_socket *sreg(struct xcm_socket *s)
{
    if (s && g_nsocks < MAX_SOCKS)
        g_socks[g_nsocks++] = s;
    return s;
}

static void sforget(struct xcm_socket *s)
{
    for (int i = 0; i < g_nsocks; i++)
        if (g_socks[i] == s) {
            memmove(&g_socks[i], &g_socks[i + 1], (size_t)(g_nsocks - i - 1) * sizeof g_socks[0]);
            g_nsocks--;
            break;
        }
}

static void sclose(struct xcm_socket **ps)
{
    struct xcm_socket *s = *ps;
    if (!s)
        return;
    for (int i = 0; i < g_nsocks; i++)
        if (g_socks[i] == s) {
            memmove(&g_socks[i], &g_socks[i + 1], (size_t)(g_nsocks - i - 1) * sizeof g_socks[0]);
            g_nsocks--;
            break;
        }
    int rc = LAPI("xcm_close", xcm_close(s));
    mc_observe("xcm_close -> %d", rc);
    *ps = NULL;
}

static void close_all(void)
{
    while (g_nsocks > 0) {
        struct xcm_socket *s = g_socks[g_nsocks - 1];
        sclose(&s);
    }
}

/* harness-owned raw descriptors */
static int g_raw[16], g_nraw;
static void raw_add(int fd)
{
    env_set_raw(fd);
    if (g_nraw < 16)
        g_raw[g_nraw++] = fd;
}
static void raw_close(int *fd)
{
    if (*fd < 0)
        return;
    for (int i = 0; i < g_nraw; i++)
        if (g_raw[i] == *fd) {
            g_raw[i] = g_raw[--g_nraw];
            break;
        }
    close(*fd);
    *fd = -1;
}
static int is_raw(int fd)
{
    for (int i = 0; i < g_nraw; i++)
        if (g_raw[i] == fd)
            return 1;
    return 0;
}

/* ---- snapshots: descriptor table, scratch directory, heap ---------------------------------------------------------- */
struct fdsnap {
    int n;
    int fd[512];
    char tgt[512][48];
};
static struct fdsnap g_base_fds;
static int g_base_stray;

static void fd_snapshot(struct fdsnap *s)
{
    s->n = 0;
    DIR *d = opendir("/proc/self/fd");
    if (!d)
        mc_fail("internal/procfd", "cannot read /proc/self/fd");
    int dfd = dirfd(d);
    struct dirent *de;
    while ((de = readdir(d)) != NULL) {
        if (de->d_name[0] == '.')
            continue;
        int fd = atoi(de->d_name);
        if (fd == dfd || s->n >= 512)
            continue;
        char p[64];
        snprintf(p, sizeof p, "/proc/self/fd/%d", fd);
        ssize_t l = readlink(p, s->tgt[s->n], sizeof s->tgt[0] - 1);
        if (l < 0)
            l = 0;
        s->tgt[s->n][l] = 0;
        s->fd[s->n++] = fd;
    }
    closedir(d);
}

static const char *fd_kind(int fd, const char *tgt)
{
    if (strncmp(tgt, "socket:", 7) == 0) {
        int v = 0, ty = 0;
        socklen_t l = sizeof v;
        getsockopt(fd, SOL_SOCKET, SO_ACCEPTCONN, &v, &l);
        l = sizeof ty;
        getsockopt(fd, SOL_SOCKET, SO_TYPE, &ty, &l);
        if (v)
            return ty == SOCK_SEQPACKET ? "listening-seqpacket-socket" : "listening-stream-socket";
        return ty == SOCK_SEQPACKET ? "seqpacket-socket" : "stream-socket";
    }
    if (strstr(tgt, "eventpoll"))
        return "epoll";
    if (strstr(tgt, "eventfd"))
        return "eventfd";
    if (strstr(tgt, "timerfd"))
        return "timerfd";
    if (tgt[0] == '/')
        return "file";
    return "other";
}

static void kinds_add(char *kinds, size_t cap, const char *k)
{
    if (strstr(kinds, k))
        return;
    size_t o = strlen(kinds);
    snprintf(kinds + o, cap - o, "%s%s", o ? "+" : "", k);
}

/* what the oracles found after a repetition */
struct verd {
    int nleak, nlost, nfiles, stray;
    char leaked[160], lost[160], files[160], detail[400];
};

/* compares the current table with a baseline */
static void check_fds(const struct fdsnap *base, struct verd *v)
{
    struct fdsnap now;
    fd_snapshot(&now);
    mc_count(3, 1);
    size_t doff = 0;
    for (int i = 0; i < now.n; i++) {
        if (is_raw(now.fd[i]))
            continue;
        int j;
        for (j = 0; j < base->n; j++)
            if (base->fd[j] == now.fd[i])
                break;
        if (j == base->n) {
            v->nleak++;
            kinds_add(v->leaked, sizeof v->leaked, fd_kind(now.fd[i], now.tgt[i]));
            if (doff + 70 < sizeof v->detail)
                doff += snprintf(v->detail + doff, sizeof v->detail - doff, " fd %d=%s", now.fd[i], now.tgt[i]);
        } else if (strcmp(base->tgt[j], now.tgt[i]) != 0) {
            v->nlost++;
            kinds_add(v->lost, sizeof v->lost, "replaced");
        }
    }
    for (int j = 0; j < base->n; j++) {
        int i;
        for (i = 0; i < now.n; i++)
            if (now.fd[i] == base->fd[j])
                break;
        if (i == now.n) {
            v->nlost++;
            kinds_add(v->lost, sizeof v->lost, "closed");
        }
    }
}

#define DIRSNAP_MAX 160
struct dirsnap {
    int n;
    char name[DIRSNAP_MAX][64];
};

static void dir_list(const char *dir, const char *prefix, struct dirsnap *s)
{
    DIR *d = opendir(dir);
    if (!d)
        return;
    struct dirent *de;
    while ((de = readdir(d)) != NULL) {
        if (!strcmp(de->d_name, ".") || !strcmp(de->d_name, ".."))
            continue;
        if (s->n < DIRSNAP_MAX)
            snprintf(s->name[s->n++], 64, "%s%s", prefix, de->d_name);
    }
    closedir(d);
}

static void files_snapshot(struct dirsnap *s)
{
    s->n = 0;
    dir_list(g_dir, "", s);
    dir_list(g_ctldir, "ctl/", s);
}

static int snap_has(const struct dirsnap *s, const char *name)
{
    for (int i = 0; i < s->n; i++)
        if (!strcmp(s->name[i], name))
            return 1;
    return 0;
}

static const char *file_class(const char *name)
{
    if (!strncmp(name, "ctl/", 4))
        return "control-file";
    if (name[0] == 's')
        return "uxf-socket-file";
    return "other-file";
}

static struct dirsnap g_base_files;

static void check_files_gone(const struct dirsnap *base, struct verd *v)
{
    struct dirsnap now;
    files_snapshot(&now);
    for (int i = 0; i < now.n; i++)
        if (!snap_has(base, now.name[i])) {
            v->nfiles++;
            kinds_add(v->files, sizeof v->files, file_class(now.name[i]));
        }
}

/* files that exist now must still exist later (fork + cleanup, failed second server) */
static void check_files_kept(const struct dirsnap *before, const char *why)
{
    struct dirsnap now;
    files_snapshot(&now);
    for (int i = 0; i < before->n; i++)
        if (!snap_has(&now, before->name[i])) {
            char sig[256];
            /* what a forked child's xcm_cleanup removes does not depend on the faults injected before the fork */
            if (!strcmp(why, "cleanup-in-forked-child"))
                snprintf(sig, sizeof sig, "C08/file-removed/%s/by=%s/tp=%s", file_class(before->name[i]), why, g_tp);
            else
                snprintf(sig, sizeof sig, "C08/file-removed/%s/by=%s/after=%s/tp=%s", file_class(before->name[i]), why,
                         faults_descr(), g_tp);
            VIOL(sig, "%s of a live socket disappeared (%s); scenario %s, injected fault(s): %s",
                 file_class(before->name[i]), why, g_sc, faults_descr());
        }
}

size_t __sanitizer_get_current_allocated_bytes(void) __attribute__((weak));
int __lsan_do_recoverable_leak_check(void) __attribute__((weak));

static long heap_now(void)
{
    /* per-thread state of OpenSSL (error queue ring with retained strings, ...) is a cache whose content depends on
       history: drop it, as an application may at any time */
    ERR_clear_error();
    OPENSSL_thread_stop();
    if (__sanitizer_get_current_allocated_bytes)
        return (long)__sanitizer_get_current_allocated_bytes();
    struct mallinfo2 m = mallinfo2();
    return (long)(m.uordblks + m.hblkhd);
}

/* ---- addresses, attributes ---------------------------------------------------------------------------------------------- */
static void mkaddr(char *out, size_t n, int k, const char *host)
{
    if (g_is_ux)
        snprintf(out, n, "ux:life-%d-%d-%d", (int)g_pid, g_rep, k);
    else if (g_is_uxf)
        snprintf(out, n, "uxf:%s/s%d-%d", g_dir, g_rep, k);
    else
        snprintf(out, n, "%s:%s:%d", g_tp, host ? host : g_ip, 5000 + 200 * g_rep + k);
}

static int g_blocking;

static struct xcm_attr_map *nb_attrs(void)
{
    struct xcm_attr_map *m = xcm_attr_map_create();
    xcm_attr_map_add_bool(m, "xcm.blocking", g_blocking ? true : false);
    if (g_bytestream)
        xcm_attr_map_add_str(m, "xcm.service", "bytestream");
    return m;
}

enum bad { BAD_NONE = 0, BAD_NAME, BAD_VALUE, BAD_TYPE, BAD_CERT };

static struct xcm_attr_map *mk_attrs(enum bad bad)
{
    struct xcm_attr_map *m = nb_attrs();
    switch (bad) {
    case BAD_NAME: xcm_attr_map_add_int64(m, "zz.no_such_attribute", 17); break;
    case BAD_VALUE: xcm_attr_map_add_str(m, "xcm.service", "carrier-pigeon"); break;
    case BAD_TYPE: xcm_attr_map_add_str(m, "xcm.blocking", "false"); break;
    case BAD_CERT: xcm_attr_map_add_str(m, "tls.cert_file", "/nonexistent/verif/cert.pem"); break;
    default: break;
    }
    return m;
}

/* ---- creation calls (one retry when the failure was an injected fault) ------------------------------------------------- */
static struct xcm_socket *do_server(const char *addr, enum bad bad)
{
    for (int t = 0; t < 2; t++) {
        struct xcm_attr_map *a = mk_attrs(bad);
        struct xcm_socket *s = LAPI("xcm_server_a", xcm_server_a(addr, a));
        int e = errno;
        xcm_attr_map_destroy(a);
        mc_observe("xcm_server_a -> %s", s ? "socket" : errname(e));
        if (s)
            return sreg(s);
        check_errno_on_failure("xcm_server_a", e);
        if (!g_call_faults)
            break;
    }
    return NULL;
}

static const char *g_local_addr;       /* xcm.local_addr for the next connects, or NULL */

static struct xcm_socket *do_connect(const char *addr, enum bad bad)
{
    for (int t = 0; t < 2; t++) {
        struct xcm_attr_map *a = mk_attrs(bad);
        if (g_local_addr)
            xcm_attr_map_add_str(a, "xcm.local_addr", g_local_addr);
        struct xcm_socket *s = LAPI("xcm_connect_a", xcm_connect_a(addr, a));
        int e = errno;
        xcm_attr_map_destroy(a);
        mc_observe("xcm_connect_a -> %s", s ? "socket" : errname(e));
        if (s)
            return sreg(s);
        check_errno_on_failure("xcm_connect_a", e);
        if (!g_call_faults)
            break;
    }
    return NULL;
}

/* accept: EAGAIN is retried a few times (a TLS/TCP connection may need the client's finish first) */
static struct xcm_socket *do_accept(struct xcm_socket *server, enum bad bad, struct xcm_socket *client)
{
    int fault_retries = 0;
    for (int t = 0; t < 12; t++) {
        struct xcm_attr_map *a = mk_attrs(bad);
        struct xcm_socket *s = LAPI("xcm_accept_a", xcm_accept_a(server, a));
        int e = errno;
        xcm_attr_map_destroy(a);
        mc_observe("xcm_accept_a -> %s", s ? "socket" : errname(e));
        if (s)
            return sreg(s);
        check_errno_on_failure("xcm_accept_a", e);
        if (g_call_faults) {
            /* a blocking accept is not repeated: the failed call may have consumed the connection request and the
               single-threaded driver would wait for ever */
            if (fault_retries++ >= 1 || g_blocking)
                break;
            continue;
        }
        if (e != EAGAIN)
            break;
        if (client)
            LAPI("xcm_finish", xcm_finish(client));
        else
            break;
    }
    return NULL;
}

static int do_finish(struct xcm_socket *s)
{
    int rc = LAPI("xcm_finish", xcm_finish(s));
    int e = errno;
    if (rc < 0)
        check_errno_on_failure("xcm_finish", e);
    errno = e;
    return rc;
}

/* 0 = both ends ready, -1 = one of them failed */
static int establish(struct xcm_socket *c, struct xcm_socket *p)
{
    for (int i = 0; i < 200; i++) {
        int f1 = do_finish(c), e1 = errno;
        int f2 = do_finish(p), e2 = errno;
        if (f1 == 0 && f2 == 0) {
            mc_observe("established");
            return 0;
        }
        if ((f1 < 0 && e1 != EAGAIN) || (f2 < 0 && e2 != EAGAIN)) {
            mc_observe("establish failed: %s / %s", f1 < 0 ? errname(e1) : "0", f2 < 0 ? errname(e2) : "0");
            return -1;
        }
    }
    mc_observe("establish: no progress");
    return -1;
}

static int g_forked;

static int xfd_readable(struct xcm_socket *s)
{
    int fd = LAPI("xcm_fd", xcm_fd(s));
    struct pollfd p = { .fd = fd, .events = POLLIN };
    return poll(&p, 1, 0) > 0 && (p.revents & POLLIN);
}

/* one message (or 5 bytes) from tx to rx; 0 = delivered */
static int pass_one(struct xcm_socket *tx, struct xcm_socket *rx, int m)
{
    unsigned char out[8], in[64];
    pay_fill(out, m, 5);
    /* rx goes to sleep first, as an event-loop application would */
    LAPI("xcm_await", xcm_await(rx, XCM_SO_RECEIVABLE));
    for (int i = 0; i < 8; i++) {
        if (!xfd_readable(rx))
            break;
        int rc = LAPI("xcm_receive", xcm_receive(rx, in, sizeof in));
        if (rc >= 0 || errno != EAGAIN) {
            mc_observe("unexpected receive before send: %d %s", rc, rc < 0 ? errname(errno) : "");
            return -1;
        }
    }
    int sent = 0;
    for (int i = 0; i < 50 && !sent; i++) {
        int rc = LAPI("xcm_send", xcm_send(tx, out, 5));
        if (rc >= 0)
            sent = 1;
        else if (errno != EAGAIN) {
            check_errno_on_failure("xcm_send", errno);
            mc_observe("send failed: %s", errname(errno));
            return -1;
        }
    }
    if (!sent)
        return -1;
    for (int i = 0; i < 50; i++) {
        int rc = do_finish(tx);
        if (rc == 0)
            break;
        if (errno != EAGAIN)
            return -1;
    }
    /* the bytes are with rx's kernel socket now: its descriptor must say so */
    int woke = xfd_readable(rx);
    if (!woke && g_forked && !g_nfrec) {
        char sig[200];
        snprintf(sig, sizeof sig, "C08/cleanup-altered-owner/no-wakeup/tp=%s", g_tp);
        VIOL(sig, "after fork + xcm_cleanup in the child the owner's socket is no longer woken by arriving data "
                  "(xcm_fd not readable with a message queued); scenario %s forkat=%d", g_sc, g_forkat);
    }
    int got = 0;
    for (int i = 0; i < 100 && got < 5; i++) {
        int rc = LAPI("xcm_receive", xcm_receive(rx, in + got, sizeof in - (size_t)got));
        if (rc > 0)
            got += rc;
        else if (rc == 0) {
            mc_observe("receive: EOF");
            return -1;
        } else if (errno != EAGAIN) {
            mc_observe("receive failed: %s", errname(errno));
            return -1;
        } else
            do_finish(tx);
    }
    if (got != 5 || pay_diff(in, m, 5) >= 0) {
        mc_observe("receive: wrong data (%d bytes)", got);
        return -1;
    }
    mc_observe("message %d delivered", m);
    return 0;
}

/* ---- fork + xcm_cleanup ------------------------------------------------------------------------------------------------- */
static int g_boundary;
static struct xcm_socket *g_fc, *g_fp;   /* established pair at fork time, if any */

static void quiet_check(struct xcm_socket *s, const char *who)
{
    unsigned char b[64];
    int rc = LAPI("xcm_receive", xcm_receive(s, b, sizeof b));
    if (!(rc < 0 && errno == EAGAIN) && !g_nfrec) {
        char sig[200];
        snprintf(sig, sizeof sig, "C08/cleanup-disturbed-connection/%s-saw-%s/tp=%s", who,
                 rc == 0 ? "EOF" : (rc > 0 ? "data" : errname(errno)), g_tp);
        VIOL(sig, "after fork + xcm_cleanup in the child, xcm_receive on the %s end of the owner's connection "
                  "returned %d %s instead of EAGAIN; scenario %s forkat=%d", who, rc, rc < 0 ? errname(errno) : "",
             g_sc, g_forkat);
    }
}

static void do_fork(void)
{
    struct dirsnap before;
    files_snapshot(&before);
    mc_count(5, 1);
    mc_observe("fork at boundary %d with %d live socket(s)", g_boundary, g_nsocks);
    pid_t p = fork();
    if (p < 0)
        mc_fail("internal/fork", "fork: %s", errname(errno));
    if (p == 0) {
        g_in_child = 1;
        for (int i = g_nsocks - 1; i >= 0; i--)
            LAPI("xcm_cleanup", (xcm_cleanup(g_socks[i]), 0));
        /* what the child did to kernel objects it shares with its parent (recorded by the shim call by call) */
        char what[64];
        int nalt = env_child_alterations(what, sizeof what);
        if (nalt > 0) {
            char sig[200];
            snprintf(sig, sizeof sig, "C08/cleanup-altered-owner/%s/in-forked-child/tp=%s", what, g_tp);
            VIOL(sig, "xcm_cleanup in the forked child issued %d call(s) that alter a kernel object shared with the owner "
                      "through an inherited descriptor (first: %s); the owner's epoll set / timer / socket is changed "
                      "behind its back; scenario %s forkat=%d, injected fault(s): %s", nalt, what, g_sc, g_forkat,
                 faults_descr());
        }
        check_ctx_released("child");
        /* judged in the measured repetition, and only if no fault before the fork has already left something
           behind in the parent (that is reported at the end, once) */
        if (g_rep != 1 || g_rep_faults > 0)
            _exit(0);
        struct verd cv;
        memset(&cv, 0, sizeof cv);
        check_fds(&g_base_fds, &cv);
        if (cv.nleak) {
            char sig[256];
            snprintf(sig, sizeof sig, "C08/fd-leak/%s/at=forked-child/after=%s/tp=%s", cv.leaked, faults_descr(), g_tp);
            VIOL(sig, "%d descriptor(s) still open in the forked child after xcm_cleanup of every socket:%s; scenario %s "
                      "forkat=%d, injected fault(s): %s", cv.nleak, cv.detail, g_sc, g_forkat, faults_descr());
        }
        if (cv.nlost) {
            char sig[256];
            snprintf(sig, sizeof sig, "C08/foreign-descriptor-%s/at=forked-child/after=%s/tp=%s", cv.lost, faults_descr(), g_tp);
            VIOL(sig, "xcm_cleanup in the forked child closed or replaced %d descriptor(s) the library did not create; "
                      "scenario %s forkat=%d", cv.nlost, g_sc, g_forkat);
        }
        if (env_stray_closes() > g_base_stray) {
            char sig[200];
            snprintf(sig, sizeof sig, "C08/stray-close/at=forked-child/after=%s/tp=%s", faults_descr(), g_tp);
            VIOL(sig, "xcm_cleanup closed a descriptor the library did not create (%d time(s))",
                 env_stray_closes() - g_base_stray);
        }
        _exit(0);
    }
    int st = 0;
    while (waitpid(p, &st, 0) < 0 && errno == EINTR)
        ;
    if (!(WIFEXITED(st) && WEXITSTATUS(st) == 0)) {
        char sig[200];
        snprintf(sig, sizeof sig, "C08/crash-in-forked-child/status=0x%x/tp=%s", st, g_tp);
        VIOL(sig, "the forked child died while calling xcm_cleanup on %d socket(s) (wait status 0x%x); scenario %s "
                  "forkat=%d", g_nsocks, st, g_sc, g_forkat);
    }
    g_forked = 1;
    check_files_kept(&before, "cleanup-in-forked-child");
    if (g_fc && g_fp) {
        quiet_check(g_fp, "peer");
        quiet_check(g_fc, "owner");
    }
}

static void boundary(void)
{
    g_boundary++;
    if (g_forkat && g_boundary == g_forkat && !g_forked)
        do_fork();
}

static void step_failed(const char *what)
{
    g_failed_steps++;
    mc_observe("step failed: %s", what);
    if (g_forked && !g_nfrec) {
        char sig[200];
        snprintf(sig, sizeof sig, "C08/cleanup-disturbed-connection/step=%s/tp=%s", what, g_tp);
        VIOL(sig, "after fork + xcm_cleanup in the child the owner's sockets no longer work: %s failed; scenario %s "
                  "forkat=%d", what, g_sc, g_forkat);
    }
}

/* ---- control interface client (raw) ---------------------------------------------------------------------------------------- */
static int ctl_client_connect(void)
{
    /* the (single) control socket in the control directory */
    struct dirsnap s = { 0 };
    dir_list(g_ctldir, "", &s);
    if (s.n < 1)
        return -1;
    int fd = socket(AF_UNIX, SOCK_SEQPACKET | SOCK_NONBLOCK, 0);
    if (fd < 0)
        return -1;
    raw_add(fd);
    struct sockaddr_un a = { .sun_family = AF_UNIX };
    snprintf(a.sun_path, sizeof a.sun_path, "%s/%s", g_ctldir, s.name[0]);
    if (connect(fd, (struct sockaddr *)&a, sizeof a) < 0) {
        raw_close(&fd);
        return -1;
    }
    return fd;
}

/* makes the library look at its control interface: a few would-block accepts */
static void poke_ctl(struct xcm_socket *server)
{
    for (int i = 0; i < 6; i++) {
        struct xcm_socket *s = do_accept(server, BAD_NONE, NULL);
        if (s)
            sclose(&s);
    }
}

static int ctl_roundtrip(struct xcm_socket *server, int cfd, int expect_wakeup)
{
    static struct ctl_proto_msg req, rsp;
    memset(&req, 0, sizeof req);
    req.type = ctl_proto_type_get_attr_req;
    snprintf(req.get_attr_req.attr_name, sizeof req.get_attr_req.attr_name, "xcm.type");
    LAPI("xcm_await", xcm_await(server, XCM_SO_ACCEPTABLE));
    for (int i = 0; i < 4 && xfd_readable(server); i++)
        poke_ctl(server);
    if (send(cfd, &req, sizeof req, MSG_NOSIGNAL) != (ssize_t)sizeof req)
        return -1;
    int woke = xfd_readable(server);
    if (expect_wakeup && !woke) {
        char sig[200];
        snprintf(sig, sizeof sig, "C08/cleanup-altered-owner/ctl-client-unregistered/tp=%s", g_tp);
        if (!g_nfrec)
            VIOL(sig, "after fork + xcm_cleanup in the child a request of an attached control client no longer wakes the "
                  "owner's socket: the child removed the client's descriptor from the epoll instance it shares with "
                  "its parent; scenario %s", g_sc);
        return -2;      /* what follows (the owner meets ENOENT from epoll_ctl and aborts) is a consequence */
    }
    for (int i = 0; i < 4; i++) {
        poke_ctl(server);
        ssize_t rc = recv(cfd, &rsp, sizeof rsp, 0);
        if (rc > 0) {
            mc_observe("control reply type %d", (int)rsp.type);
            return rsp.type == ctl_proto_type_get_attr_cfm ? 0 : -1;
        }
    }
    return -1;
}

/* ---- the scenarios ------------------------------------------------------------------------------------------------------------ */
/* close orders: 0 = client, peer, server   1 = server, peer, client   2 = peer, client, server */
static void flow_conn(int order, int traffic)
{
    char addr[200];
    struct xcm_socket *srv = NULL, *c = NULL, *p = NULL;
    mkaddr(addr, sizeof addr, 1, NULL);
    srv = do_server(addr, BAD_NONE);
    MUST(srv, "server");
    if (!srv) {
        step_failed("server");
        goto out;
    }
    boundary();                                    /* 1: server alone */
    c = do_connect(addr, BAD_NONE);
    MUST(c, "connect");
    if (!c) {
        step_failed("connect");
        goto out;
    }
    boundary();                                    /* 2: connection requested, not accepted */
    p = do_accept(srv, BAD_NONE, c);
    MUST(p, "accept");
    if (!p) {
        step_failed("accept");
        goto out;
    }
    boundary();                                    /* 3: accepted, (TLS: handshake under way) */
    int est = establish(c, p);
    MUST(est == 0, "establish");
    if (est < 0) {
        step_failed("establish");
        goto out;
    }
    g_fc = c;
    g_fp = p;
    boundary();                                    /* 4: established */
    if (traffic) {
        int tr = pass_one(c, p, 1) < 0 || pass_one(p, c, 2) < 0;
        MUST(!tr, "traffic");
        if (tr) {
            step_failed("traffic");
            goto out;
        }
        boundary();                                /* 5: after traffic */
        if (g_forked && (pass_one(c, p, 3) < 0 || pass_one(p, c, 4) < 0))
            step_failed("traffic-after-fork");
    }
out:
    g_fc = g_fp = NULL;
    switch (order) {
    case 0: sclose(&c); boundary(); sclose(&p); sclose(&srv); break;      /* 6: one end closed */
    case 1: sclose(&srv); boundary(); sclose(&p); sclose(&c); break;
    default: sclose(&p); boundary(); sclose(&c); sclose(&srv); break;
    }
}

static void sc_server(void)
{
    char addr[200];
    mkaddr(addr, sizeof addr, 1, NULL);
    struct xcm_socket *s = do_server(addr, BAD_NONE);
    MUST(s, "server");
    if (s) {
        boundary();
        /* a server with nothing pending: accept must leave nothing behind */
        struct xcm_socket *n = do_accept(s, BAD_NONE, NULL);
        sclose(&n);
        if (g_forked) {
            /* the owner's server must still accept */
            struct xcm_socket *c = do_connect(addr, BAD_NONE);
            struct xcm_socket *p = c ? do_accept(s, BAD_NONE, c) : NULL;
            if (!c || !p || establish(c, p) < 0 || pass_one(c, p, 1) < 0)
                step_failed("server-after-fork");
            sclose(&c);
            sclose(&p);
        }
    } else
        step_failed("server");
    sclose(&s);
}

static void sc_refused(void)
{
    char addr[200];
    mkaddr(addr, sizeof addr, 2, NULL);        /* nobody listens there */
    struct xcm_socket *c = do_connect(addr, BAD_NONE);
    if (c) {
        for (int i = 0; i < 50; i++)
            if (do_finish(c) == 0 || errno != EAGAIN)
                break;
        mc_observe("refused: finish -> %s", errname(errno));
    }
    sclose(&c);
}

static void sc_inuse(void)
{
    char addr[200];
    mkaddr(addr, sizeof addr, 1, NULL);
    struct xcm_socket *s1 = do_server(addr, BAD_NONE);
    MUST(s1, "first server");
    if (!s1)
        return;
    struct dirsnap before;
    files_snapshot(&before);
    struct xcm_socket *s2 = do_server(addr, BAD_NONE);
    mc_observe("second server -> %s", s2 ? "socket" : "NULL");
    MUST(!s2, "refusal of a second server on the same address");
    check_files_kept(&before, "failed-second-server");
    sclose(&s2);
    /* the first one is still in business */
    struct xcm_socket *c = do_connect(addr, BAD_NONE);
    struct xcm_socket *p = c ? do_accept(s1, BAD_NONE, c) : NULL;
    int ok = c && p && establish(c, p) == 0 && pass_one(c, p, 1) == 0;
    MUST(ok, "traffic on the first server");
    sclose(&c);
    sclose(&p);
    sclose(&s1);
}

static void sc_badattr_server(void)
{
    char addr[200];
    static const enum bad bads[] = { BAD_NAME, BAD_VALUE, BAD_TYPE };
    for (int i = 0; i < 3; i++) {
        mkaddr(addr, sizeof addr, 1 + i, NULL);
        struct xcm_socket *s = do_server(addr, bads[i]);
        mc_observe("server with bad attribute %d -> %s", i, s ? "socket" : "NULL");
        MUST(!s, "refusal of an invalid attribute (server)");
        sclose(&s);
    }
}

static void sc_badattr_connect(void)
{
    char addr[200];
    mkaddr(addr, sizeof addr, 1, NULL);
    struct xcm_socket *srv = do_server(addr, BAD_NONE);
    MUST(srv, "server");
    static const enum bad bads[] = { BAD_NAME, BAD_VALUE, BAD_TYPE };
    for (int i = 0; i < 3; i++) {
        struct xcm_socket *c = do_connect(addr, bads[i]);
        mc_observe("connect with bad attribute %d -> %s", i, c ? "socket" : "NULL");
        MUST(!c, "refusal of an invalid attribute (connect)");
        sclose(&c);
    }
    sclose(&srv);
}

/* credentials that cannot be opened (TLS class) */
static void sc_badcert(void)
{
    char addr[200];
    mkaddr(addr, sizeof addr, 1, NULL);
    struct xcm_socket *bs = do_server(addr, BAD_CERT);
    mc_observe("server with unreadable certificate -> %s", bs ? "socket" : "NULL");
    struct xcm_socket *srv = bs ? bs : do_server(addr, BAD_NONE);
    struct xcm_socket *c = do_connect(addr, BAD_CERT);
    mc_observe("connect with unreadable certificate -> %s", c ? "socket" : "NULL");
    if (c && srv) {
        struct xcm_socket *p = do_accept(srv, BAD_NONE, c);
        if (p)
            establish(c, p);
        sclose(&p);
    }
    sclose(&c);
    sclose(&srv);
}

static void sc_accept_badattr(void)
{
    char addr[200];
    mkaddr(addr, sizeof addr, 1, NULL);
    struct xcm_socket *srv = do_server(addr, BAD_NONE);
    if (!srv)
        return;
    struct xcm_socket *c = do_connect(addr, BAD_NONE);
    static const enum bad bads[] = { BAD_NAME, BAD_VALUE, BAD_TYPE };
    for (int i = 0; i < 3 && c; i++) {
        struct xcm_socket *p = do_accept(srv, bads[i], NULL);
        mc_observe("accept with bad attribute %d -> %s", i, p ? "socket" : "NULL");
        MUST(!p, "refusal of an invalid attribute (accept)");
        sclose(&p);
    }
    /* the connection request is still there (or was consumed: both are fine) */
    struct xcm_socket *p = c ? do_accept(srv, BAD_NONE, c) : NULL;
    int ok = p && establish(c, p) == 0 && pass_one(c, p, 1) == 0;
    MUST(ok, "accept and traffic after the refused accepts");
    sclose(&p);
    sclose(&c);
    sclose(&srv);
}

static int raw_listener(int port)
{
    int fd = socket(AF_INET, SOCK_STREAM | SOCK_NONBLOCK, 0);
    if (fd < 0)
        mc_fail("internal/raw-socket", "raw listener socket: %s", errname(errno));
    raw_add(fd);
    struct sockaddr_in a = { .sin_family = AF_INET, .sin_port = htons(port) };
    inet_pton(AF_INET, g_ip, &a.sin_addr);
    if (bind(fd, (struct sockaddr *)&a, sizeof a) < 0 || listen(fd, 8) < 0)
        mc_fail("internal/raw-listen", "raw listener: %s", errname(errno));
    return fd;
}

/* a non-blocking connect given up in each phase */
static void sc_abandon(const char *phase)
{
    char addr[200];
    int rl = -1, rc = -1;
    if (!strcmp(phase, "resolving"))
        mkaddr(addr, sizeof addr, 1, "silent.verif.test");
    else if (!strcmp(phase, "connecting")) {
        env_policy_set(g_ip, ENV_SILENT);
        mkaddr(addr, sizeof addr, 1, NULL);
    } else {
        rl = raw_listener(5000 + 200 * g_rep + 1);
        mkaddr(addr, sizeof addr, 1, NULL);
    }
    struct xcm_socket *c = do_connect(addr, BAD_NONE);
    MUST(c, "non-blocking connect");
    if (c) {
        if (rl >= 0) {
            rc = accept4(rl, NULL, NULL, SOCK_NONBLOCK);
            if (rc >= 0)
                raw_add(rc);
        }
        do_finish(c);
        boundary();                                /* 1: attempt in progress (fork scenarios) */
        for (int i = 0; i < 3; i++)
            do_finish(c);
        mc_observe("abandoned in phase %s (finish -> %s)", phase, errname(errno));
    }
    sclose(&c);
    raw_close(&rc);
    raw_close(&rl);
    if (!strcmp(phase, "connecting"))
        env_policy_set(g_ip, ENV_AUTO);
}

/* accepted connection dropped by the server side before anything else happened; the client notices */
static void sc_drop_accepted(void)
{
    char addr[200];
    mkaddr(addr, sizeof addr, 1, NULL);
    struct xcm_socket *srv = do_server(addr, BAD_NONE);
    struct xcm_socket *c = srv ? do_connect(addr, BAD_NONE) : NULL;
    struct xcm_socket *p = c ? do_accept(srv, BAD_NONE, c) : NULL;
    sclose(&p);
    if (c) {
        unsigned char b[16];
        for (int i = 0; i < 20; i++) {
            int rc = LAPI("xcm_receive", xcm_receive(c, b, sizeof b));
            if (rc == 0 || (rc < 0 && errno != EAGAIN))
                break;
        }
        b[0] = 1;
        LAPI("xcm_send", xcm_send(c, b, 1));
        do_finish(c);
    }
    sclose(&c);
    sclose(&srv);
}

/* server closed while a connection request is still queued */
static void sc_close_pending(void)
{
    char addr[200];
    mkaddr(addr, sizeof addr, 1, NULL);
    struct xcm_socket *srv = do_server(addr, BAD_NONE);
    struct xcm_socket *c = srv ? do_connect(addr, BAD_NONE) : NULL;
    sclose(&srv);
    if (c)
        for (int i = 0; i < 20; i++)
            if (do_finish(c) < 0 && errno != EAGAIN)
                break;
    sclose(&c);
}

/* two connections on one server, closed crosswise */
static void sc_two(void)
{
    char addr[200];
    mkaddr(addr, sizeof addr, 1, NULL);
    struct xcm_socket *srv = do_server(addr, BAD_NONE);
    if (!srv)
        return;
    struct xcm_socket *c1 = do_connect(addr, BAD_NONE), *p1 = c1 ? do_accept(srv, BAD_NONE, c1) : NULL;
    struct xcm_socket *c2 = do_connect(addr, BAD_NONE), *p2 = c2 ? do_accept(srv, BAD_NONE, c2) : NULL;
    int ok1 = c1 && p1 && establish(c1, p1) == 0 && pass_one(c1, p1, 1) == 0;
    int ok2 = c2 && p2 && establish(c2, p2) == 0 && pass_one(p2, c2, 2) == 0;
    MUST(ok1 && ok2, "two connections");
    sclose(&p1);
    sclose(&c2);
    sclose(&srv);
    sclose(&c1);
    sclose(&p2);
}

/* 101 sockets alive at once: the pool of always-readable eventfds (100 users each) rolls over.  Faults are
   offered while the last three sockets are created and from then on. */
static void sc_pool(void)
{
    char addr[200];
    struct xcm_socket *srv[101];
    int n = 0;
    g_window = 0;
    for (int i = 0; i < 101; i++) {
        if (i == 98)
            g_window = 1;
        mkaddr(addr, sizeof addr, 10 + i, NULL);
        srv[n] = do_server(addr, BAD_NONE);
        if (srv[n])
            n++;
    }
    mc_observe("%d servers alive", n);
    MUST(n == 101, "101 servers");
    /* close in an order that empties the second eventfd first, then the first */
    for (int i = n - 1; i >= 0; i--)
        sclose(&srv[i]);
    g_window = 1;
}

/* 101 sockets of which 50 are connection pairs (thorough tier) */
static void sc_poolconn(void)
{
    char addr[200];
    struct xcm_socket *srv, *c[50], *p[50];
    int n = 0;
    g_window = 0;
    mkaddr(addr, sizeof addr, 1, NULL);
    srv = do_server(addr, BAD_NONE);
    if (!srv) {
        g_window = 1;
        return;
    }
    for (int i = 0; i < 50; i++) {
        if (i == 49)
            g_window = 1;
        c[n] = do_connect(addr, BAD_NONE);
        p[n] = c[n] ? do_accept(srv, BAD_NONE, c[n]) : NULL;
        if (c[n] && p[n]) {
            establish(c[n], p[n]);
            n++;
        } else {
            sclose(&c[n]);
            sclose(&p[n]);
        }
    }
    mc_observe("%d pairs alive", n);
    MUST(n == 50, "50 connection pairs");
    for (int i = 0; i < n; i++) {
        sclose(&c[i]);
        sclose(&p[i]);
    }
    sclose(&srv);
    g_window = 1;
}

/* control client attached when the socket is closed / when the process forks */
static void sc_ctlclient(int with_fork)
{
    char addr[200];
    mkaddr(addr, sizeof addr, 1, NULL);
    struct xcm_socket *srv = do_server(addr, BAD_NONE);
    if (!srv)
        return;
    int cfd = ctl_client_connect();
    mc_observe("control client %s", cfd >= 0 ? "connected" : "not connected");
    MUST(cfd >= 0, "control client connect");
    if (cfd >= 0) {
        poke_ctl(srv);                      /* the library accepts the client */
        int r1 = ctl_roundtrip(srv, cfd, 0);
        mc_observe("control round trip -> %d", r1);
        MUST(r1 == 0, "control round trip");
        if (with_fork && r1 == 0) {
            g_boundary = g_forkat - 1;
            boundary();
            int r2 = ctl_roundtrip(srv, cfd, 1);
            mc_observe("control round trip after fork -> %d", r2);
            if (r2 == -1)
                step_failed("control-roundtrip-after-fork");
        }
    }
    sclose(&srv);                           /* with the client still attached */
    raw_close(&cfd);
}

/* blocking sockets: the failure paths behind socket_finish() inside xcm_connect_a / xcm_accept_a */
static void sc_refused_blocking(void)
{
    char addr[200];
    mkaddr(addr, sizeof addr, 2, NULL);
    g_blocking = 1;
    struct xcm_socket *c = do_connect(addr, BAD_NONE);
    g_blocking = 0;
    mc_observe("blocking connect to nobody -> %s", c ? "socket" : "NULL");
    MUST(!c, "refusal of a blocking connect");
    sclose(&c);
}

static void sc_conn_blocking(void)
{
    char addr[200];
    unsigned char out[8], in[16];
    mkaddr(addr, sizeof addr, 1, NULL);
    g_blocking = 1;
    struct xcm_socket *srv = do_server(addr, BAD_NONE);
    struct xcm_socket *c = srv ? do_connect(addr, BAD_NONE) : NULL;
    struct xcm_socket *p = c ? do_accept(srv, BAD_NONE, NULL) : NULL;
    g_blocking = 0;
    if (c && p) {
        pay_fill(out, 1, 5);
        int rc = LAPI("xcm_send", xcm_send(c, out, 5));
        if (rc >= 0) {
            rc = LAPI("xcm_receive", xcm_receive(p, in, sizeof in));
            mc_observe("blocking receive -> %d", rc);
        }
        MUST(rc == 5, "blocking traffic");
    } else
        MUST(0, "blocking connect and accept");
    sclose(&c);
    sclose(&p);
    sclose(&srv);
}

/* connect from a chosen local address (bind on the client side), to a name, to a name that does not resolve */
static void sc_conn_variant(const char *what)
{
    char addr[200], caddr[200], la[80];
    mkaddr(addr, sizeof addr, 1, NULL);
    snprintf(caddr, sizeof caddr, "%s", addr);
    if (!strcmp(what, "local")) {
        snprintf(la, sizeof la, "%s:%s:0", g_tp, g_ip);
        g_local_addr = la;
    } else if (!strcmp(what, "dns"))
        mkaddr(caddr, sizeof caddr, 1, "now.verif.test");
    else
        mkaddr(caddr, sizeof caddr, 1, "fail.verif.test");
    struct xcm_socket *srv = do_server(addr, BAD_NONE);
    struct xcm_socket *c = srv ? do_connect(caddr, BAD_NONE) : NULL;
    g_local_addr = NULL;
    struct xcm_socket *p = c ? do_accept(srv, BAD_NONE, c) : NULL;
    if (c && p && establish(c, p) == 0) {
        int rc = pass_one(c, p, 1);
        MUST(rc == 0, "traffic");
    } else {
        MUST(!strcmp(what, "fail"), "connect variant");
        if (c)
            for (int i = 0; i < 5; i++)
                do_finish(c);
    }
    sclose(&c);
    sclose(&p);
    sclose(&srv);
}

/* a control client that sends what libxcmctl never sends.  Every datagram is followed by enough API calls for the
   library to read it; after a malformed one the library drops the client, which then reconnects. */
static void sc_ctlbad(void)
{
    char addr[200];
    static struct ctl_proto_msg req;
    static unsigned char big[sizeof(struct ctl_proto_msg) + 64];
    mkaddr(addr, sizeof addr, 1, NULL);
    struct xcm_socket *srv = do_server(addr, BAD_NONE);
    MUST(srv, "server");
    if (!srv)
        return;
    /* this scenario is about what the client sends; faults at the control accepts are scenario ctlclient's business */
    g_window = 0;
    /* (a) well-formed: get-attr, get-all */
    int cfd = ctl_client_connect();
    MUST(cfd >= 0, "control client connect");
    if (cfd >= 0) {
        poke_ctl(srv);
        int r1 = ctl_roundtrip(srv, cfd, 0);
        MUST(r1 == 0, "control round trip");
        memset(&req, 0, sizeof req);
        req.type = ctl_proto_type_get_all_attr_req;
        if (send(cfd, &req, sizeof req, MSG_NOSIGNAL) == (ssize_t)sizeof req) {
            static struct ctl_proto_msg rsp;
            for (int i = 0; i < 4; i++) {
                poke_ctl(srv);
                if (recv(cfd, &rsp, sizeof rsp, 0) > 0)
                    break;
            }
        }
        raw_close(&cfd);
        poke_ctl(srv);
    }
    /* (b) right size, attribute name without terminator  (c) right size, unknown type
       (d) wrong sizes: 1 byte, one short, one long, empty */
    for (int k = 0; k < 6; k++) {
        cfd = ctl_client_connect();
        if (cfd < 0)
            break;
        poke_ctl(srv);
        size_t len = sizeof req;
        const void *buf = &req;
        memset(&req, 0, sizeof req);
        memset(big, 0x5a, sizeof big);
        switch (k) {
        case 0:
            req.type = ctl_proto_type_get_attr_req;
            memset(req.get_attr_req.attr_name, 'a', sizeof req.get_attr_req.attr_name);
            break;
        case 1: req.type = (enum ctl_proto_type)77; break;
        case 2: buf = big; len = 1; break;
        case 3: buf = big; len = sizeof req - 1; break;
        case 4: buf = big; len = sizeof req + 1; break;
        default: buf = big; len = 0; break;
        }
        ssize_t rc = send(cfd, buf, len, MSG_NOSIGNAL);
        mc_observe("malformed control request %d -> %s", k, rc == (ssize_t)len ? "sent" : errname(errno));
        poke_ctl(srv);
        poke_ctl(srv);
        if (k % 2 == 0)
            raw_close(&cfd);        /* sometimes the client goes first, sometimes the socket (below) */
        poke_ctl(srv);
        if (cfd >= 0 && k != 5)
            raw_close(&cfd);
    }
    sclose(&srv);                   /* with the last client still attached */
    raw_close(&cfd);
    g_window = 1;
}

/* hand-over: the parent accepts a connection, forks a worker for it and xcm_cleanup()s its own copy (it keeps the
   server); the worker xcm_cleanup()s the server and the client end it inherited, serves and closes the connection */
static void sc_handover(void)
{
    char addr[200];
    mkaddr(addr, sizeof addr, 1, NULL);
    struct xcm_socket *srv = do_server(addr, BAD_NONE);
    struct xcm_socket *c = srv ? do_connect(addr, BAD_NONE) : NULL;
    struct xcm_socket *p = c ? do_accept(srv, BAD_NONE, c) : NULL;
    int ok = p && establish(c, p) == 0 && pass_one(c, p, 1) == 0;
    MUST(ok, "connection to hand over");
    if (ok) {
        mc_count(5, 1);
        pid_t pid = fork();
        if (pid < 0)
            mc_fail("internal/fork", "fork: %s", errname(errno));
        if (pid == 0) {
            g_in_child = 1;
            LAPI("xcm_cleanup", (xcm_cleanup(srv), 0));
            LAPI("xcm_cleanup", (xcm_cleanup(c), 0));
            char what[64];
            int nalt = env_child_alterations(what, sizeof what);
            if (nalt > 0) {
                char sig[200];
                snprintf(sig, sizeof sig, "C08/cleanup-altered-owner/%s/in-forked-child/tp=%s", what, g_tp);
                VIOL(sig, "xcm_cleanup in the worker issued %d call(s) that alter a kernel object shared with its parent "
                          "(first: %s); scenario handover", nalt, what);
            }
            LAPI("xcm_close", xcm_close(p));          /* the worker owns the connection now */
            check_ctx_released("child");
            _exit(0);
        }
        int st = 0;
        while (waitpid(pid, &st, 0) < 0 && errno == EINTR)
            ;
        if (!(WIFEXITED(st) && WEXITSTATUS(st) == 0)) {
            char sig[200];
            snprintf(sig, sizeof sig, "C08/crash-in-forked-child/status=0x%x/tp=%s", st, g_tp);
            VIOL(sig, "the worker died (wait status 0x%x); scenario handover", st);
        }
        LAPI("xcm_cleanup", (xcm_cleanup(p), 0));     /* the parent's copy of the handed-over connection */
        sforget(p);
        p = NULL;
        g_parent_cleanups++;
        /* the parent's server is still in business */
        struct xcm_socket *c2 = do_connect(addr, BAD_NONE);
        struct xcm_socket *p2 = c2 ? do_accept(srv, BAD_NONE, c2) : NULL;
        int ok2 = p2 && establish(c2, p2) == 0 && pass_one(c2, p2, 2) == 0;
        MUST(ok2, "second connection after the hand-over");
        if (!ok2 && !g_nfrec) {
            char sig[200];
            snprintf(sig, sizeof sig, "C08/cleanup-disturbed-connection/step=server-after-handover/tp=%s", g_tp);
            VIOL(sig, "after handing a connection over (fork, xcm_cleanup in both processes) the parent's server no longer "
                      "accepts; scenario handover");
        }
        sclose(&c2);
        sclose(&p2);
    }
    sclose(&c);
    sclose(&p);
    sclose(&srv);
}

/* what a process that only cleans up keeps must not grow with the number of sockets it cleaned up: the same fork +
   xcm_cleanup of everything with 1 and with 3 connections, the child reports its heap in use */
static void sc_forkn(void)
{
    long heap[2] = { 0, 0 };
    static const int ks[2] = { 1, 3 };
    for (int r = 0; r < 2; r++) {
        char addr[200];
        mkaddr(addr, sizeof addr, 1 + r, NULL);
        struct xcm_socket *srv = do_server(addr, BAD_NONE);
        int n = 0;
        for (int i = 0; srv && i < ks[r]; i++) {
            struct xcm_socket *c = do_connect(addr, BAD_NONE);
            struct xcm_socket *p = c ? do_accept(srv, BAD_NONE, c) : NULL;
            if (c && p && establish(c, p) == 0)
                n++;
        }
        MUST(n == ks[r], "connections before the fork");
        int pfd[2];
        if (n == ks[r] && pipe(pfd) == 0) {
            mc_count(5, 1);
            pid_t pid = fork();
            if (pid < 0)
                mc_fail("internal/fork", "fork: %s", errname(errno));
            if (pid == 0) {
                g_in_child = 1;
                for (int i = g_nsocks - 1; i >= 0; i--)
                    LAPI("xcm_cleanup", (xcm_cleanup(g_socks[i]), 0));
                check_ctx_released("child");
                long h = heap_now();
                if (write(pfd[1], &h, sizeof h) < 0) {
                }
                _exit(0);
            }
            int st = 0;
            while (waitpid(pid, &st, 0) < 0 && errno == EINTR)
                ;
            long h = 0;
            if (WIFEXITED(st) && WEXITSTATUS(st) == 0 && read(pfd[0], &h, sizeof h) == (ssize_t)sizeof h)
                heap[r] = h;
            close(pfd[0]);
            close(pfd[1]);
        }
        close_all();
    }
    mc_observe("heap of the cleaning child: %ld with 1 connection, %ld with 3", heap[0], heap[1]);
    if (heap[0] && heap[1] && heap[1] > heap[0] + 256 && !g_nfrec) {
        char sig[200];
        snprintf(sig, sizeof sig, "C08/cleanup-keeps-process-resource/heap-grows-with-sockets/in=child/tp=%s", g_tp);
        VIOL(sig, "after xcm_cleanup of every socket the forked child holds %ld bytes with one connection cleaned up and "
                  "%ld with three: what cleanup leaves behind grows with the number of sockets", heap[0], heap[1]);
    }
}

static void body(void)
{
    g_boundary = 0;
    g_forked = 0;
    g_failed_steps = 0;
    if (!strcmp(g_sc, "server")) sc_server();
    else if (!strcmp(g_sc, "conn-cps")) flow_conn(0, 1);
    else if (!strcmp(g_sc, "conn-spc")) flow_conn(1, 1);
    else if (!strcmp(g_sc, "conn-pcs")) flow_conn(2, 1);
    else if (!strcmp(g_sc, "conn-idle")) flow_conn(0, 0);
    else if (!strcmp(g_sc, "refused")) sc_refused();
    else if (!strcmp(g_sc, "inuse")) sc_inuse();
    else if (!strcmp(g_sc, "badattr-server")) sc_badattr_server();
    else if (!strcmp(g_sc, "badattr-connect")) sc_badattr_connect();
    else if (!strcmp(g_sc, "badcert")) sc_badcert();
    else if (!strcmp(g_sc, "accept-badattr")) sc_accept_badattr();
    else if (!strcmp(g_sc, "abandon-resolving")) sc_abandon("resolving");
    else if (!strcmp(g_sc, "abandon-connecting")) sc_abandon("connecting");
    else if (!strcmp(g_sc, "abandon-handshaking")) sc_abandon("handshaking");
    else if (!strcmp(g_sc, "drop-accepted")) sc_drop_accepted();
    else if (!strcmp(g_sc, "close-pending")) sc_close_pending();
    else if (!strcmp(g_sc, "two")) sc_two();
    else if (!strcmp(g_sc, "pool101")) sc_pool();
    else if (!strcmp(g_sc, "pool101conn")) sc_poolconn();
    else if (!strcmp(g_sc, "refused-b")) sc_refused_blocking();
    else if (!strcmp(g_sc, "conn-b")) sc_conn_blocking();
    else if (!strcmp(g_sc, "conn-local")) sc_conn_variant("local");
    else if (!strcmp(g_sc, "conn-dns")) sc_conn_variant("dns");
    else if (!strcmp(g_sc, "dns-fail")) sc_conn_variant("fail");
    else if (!strcmp(g_sc, "ctlbad")) sc_ctlbad();
    else if (!strcmp(g_sc, "handover")) sc_handover();
    else if (!strcmp(g_sc, "forkn")) sc_forkn();
    else if (!strcmp(g_sc, "ctlclient")) sc_ctlclient(0);
    else if (!strcmp(g_sc, "ctlfork")) sc_ctlclient(1);
    else
        mc_fail("internal/scenario", "unknown scenario %s", g_sc);
    close_all();
    while (g_nraw > 0) {
        int fd = g_raw[0];
        raw_close(&fd);
    }
}

static void rm_dir_content(const char *dir)
{
    DIR *d = opendir(dir);
    if (!d)
        return;
    struct dirent *de;
    while ((de = readdir(d)) != NULL) {
        if (!strcmp(de->d_name, ".") || !strcmp(de->d_name, ".."))
            continue;
        char p[400];
        snprintf(p, sizeof p, "%s/%s", dir, de->d_name);
        if (unlink(p) < 0)
            rmdir(p);
    }
    closedir(d);
}

static void rm_rf_scratch(void)
{
    if (!g_dir[0])
        return;
    rm_dir_content(g_ctldir);
    rm_dir_content(g_dir);
    rmdir(g_dir);
}

static void scenario(const char *params)
{
    char ctl[24];
    param_get(params, "tp", g_tp, sizeof g_tp, "tcp");
    snprintf(g_tp_fwd, sizeof g_tp_fwd, "%s", g_tp);
    param_get(params, "sc", g_sc, sizeof g_sc, "server");
    param_get(params, "certs", g_certs, sizeof g_certs, "");
    param_get(params, "ctl", ctl, sizeof ctl, "off");
    g_forkat = (int)param_int(params, "forkat", 0);
    g_is_ux = !strcmp(g_tp, "ux");
    g_is_uxf = !strcmp(g_tp, "uxf");
    g_bytestream = !strcmp(g_tp, "btcp") || !strcmp(g_tp, "btls");
    g_pid = getpid();
    snprintf(g_ip, sizeof g_ip, "127.%d.%d.1", 64 + ((g_pid >> 8) & 0x7f), g_pid & 0xff);
    snprintf(g_dir, sizeof g_dir, "/verif/build/run/life-%d", (int)g_pid);
    snprintf(g_ctldir, sizeof g_ctldir, "%s/ctl", g_dir);
    mkdir("/verif/build/run", 0755);
    rm_rf_scratch();                 /* a crashed execution with the same (recycled) pid may have left files */
    mkdir(g_dir, 0755);
    mkdir(g_ctldir, 0755);
    if (!strcmp(ctl, "on"))
        setenv("XCM_CTL", g_ctldir, 1);
    else if (!strcmp(ctl, "notdir")) {
        char p[200];
        snprintf(p, sizeof p, "%s/notdir", g_dir);
        int fd = open(p, O_CREAT | O_WRONLY, 0644);
        if (fd >= 0)
            close(fd);
        setenv("XCM_CTL", p, 1);
    } else if (!strcmp(ctl, "unwritable"))
        setenv("XCM_CTL", "/sys", 1);              /* a directory in which bind() fails (EPERM), even for root */
    else
        setenv("XCM_CTL", "/nonexistent-ctl-dir", 1);
    if (g_certs[0])
        setenv("XCM_TLS_CERT", g_certs, 1);

    struct env_cfg cfg = { .io_menu = 0, .fault_resource = 1, .sleep_monitor = 0, .only_task = -1 };
    env_init(&cfg);
    det_rand_install(1);
    static const char *ips[1];
    ips[0] = g_ip;
    env_dns_set("silent.verif.test", ips, 1, ENV_DNS_SILENT);
    env_dns_set("now.verif.test", ips, 1, ENV_DNS_NOW);
    env_dns_set("fail.verif.test", ips, 0, ENV_DNS_FAIL);

    /* warm-up: no faults */
    rep_begin(M_PASS, 0, 0);
    body();
    mc_count(2, 1);
    int warm_failed = g_failed_steps;
    if (g_parent_cleanups)
        check_ctx_released("parent");
    files_snapshot(&g_base_files);
    fd_snapshot(&g_base_fds);
    g_base_stray = env_stray_closes();
    long h0 = heap_now();
    if (env_lib_fds_open() != 0 || g_base_stray != 0)
        mc_observe("warm-up: %d library descriptor(s) open, %d stray close(s)", env_lib_fds_open(), g_base_stray);

    /* measured repetition: the explorer decides the faults */
    rep_begin(M_RECORD, 0, 1);
    body();
    mc_count(2, 1);
    g_mode = M_PASS;
    long h1 = heap_now();
    struct verd full;
    memset(&full, 0, sizeof full);
    check_fds(&g_base_fds, &full);
    check_files_gone(&g_base_files, &full);
    full.stray = env_stray_closes() - g_base_stray;
    int lib_now = env_lib_fds_open();
    if (!g_nfrec && !g_forkat && g_failed_steps != warm_failed)
        mc_fail("internal/nondeterministic-body", "the fault-free repetition behaved differently from the warm-up");
    int failed_steps = g_failed_steps;

    /* every socket is closed (or, hand-over, cleaned up): no context may be left in this process */
    if (g_live_ctx != 0) {
        if (g_parent_cleanups)
            check_ctx_released("parent");
        else {
            char csig[256];
            snprintf(csig, sizeof csig, "C08/heap-leak/ssl-ctx/after=%s/tp=%s", faults_descr(), g_tp);
            VIOL(csig, "%d SSL_CTX object(s) created by the library are still alive after every socket was closed; scenario "
                       "%s, injected fault(s): %s", g_live_ctx, g_sc, faults_descr());
        }
    }

    /* heap: the same faults again, several times: a leak repeats with the same amount every time, a first-use
       allocation (libc, OpenSSL, resolver stub caches) does not */
    long hs[12];
    int nh = 0, heap_leak = 0;
    long h2 = h1, h3 = h1;
    hs[nh++] = h0;
    hs[nh++] = h1;
    if (h1 != h0) {
        mc_count(4, 1);
        int reps = (int)param_int(params, "hreps", 3);
        if (reps > 10)
            reps = 10;
        for (int r = 0; r < reps; r++) {
            rep_begin(M_REPLAY, ~0u, 2 + r);
            body();
            hs[nh++] = heap_now();
            mc_count(2, 1);
        }
        g_mode = M_PASS;
        h2 = hs[nh - 2];
        h3 = hs[nh - 1];
        /* steady growth: every re-injection added to the heap */
        heap_leak = reps >= 2;
        for (int i = 2; i < nh; i++)
            if (hs[i] <= hs[i - 1])
                heap_leak = 0;
    }
    char heaptxt[260];
    {
        size_t o = (size_t)snprintf(heaptxt, sizeof heaptxt, "bytes in use after warm-up and after each repetition with the same fault(s):");
        for (int i = 0; i < nh && o + 14 < sizeof heaptxt; i++)
            o += (size_t)snprintf(heaptxt + o, sizeof heaptxt - o, " %ld", hs[i]);
    }

    /* blame: with several faults injected, does one of them alone produce the same finding? */
    unsigned explained_leak = 0, explained_lost = 0, explained_files = 0, explained_stray = 0;
    if (g_nfrec >= 2 && (full.nleak || full.nlost || full.nfiles || full.stray)) {
        char kinds_union[160] = "";
        for (int i = 0; i < g_nfrec; i++) {
            struct fdsnap b_fds;
            struct dirsnap b_files;
            fd_snapshot(&b_fds);
            files_snapshot(&b_files);
            int b_stray = env_stray_closes();
            rep_begin(M_REPLAY, 1u << i, 14 + i);
            g_replay_anyinst = 1;
            body();
            g_replay_anyinst = 0;
            g_mode = M_PASS;
            mc_count(2, 1);
            struct verd one;
            memset(&one, 0, sizeof one);
            check_fds(&b_fds, &one);
            check_files_gone(&b_files, &one);
            one.stray = env_stray_closes() - b_stray;
            const char *after = faults_descr_mask(1u << i);
            char sig[256];
            if (one.nleak && full.nleak) {
                snprintf(sig, sizeof sig, "C08/fd-leak/%s/at=end/after=%s/tp=%s", one.leaked, after, g_tp);
                VIOL(sig, "%d descriptor(s) still open after every successfully created socket was closed:%s; scenario %s; "
                          "found with fault(s) %s injected, reproduced in the same process with %s alone", one.nleak,
                     one.detail, g_sc, faults_descr(), after);
                char tmp[160];
                snprintf(tmp, sizeof tmp, "%s", one.leaked);
                for (char *t = strtok(tmp, "+"); t; t = strtok(NULL, "+"))
                    kinds_add(kinds_union, sizeof kinds_union, t);
            }
            if (one.nlost && full.nlost && !strcmp(one.lost, full.lost)) {
                explained_lost = 1;
                snprintf(sig, sizeof sig, "C08/foreign-descriptor-%s/at=end/after=%s/tp=%s", one.lost, after, g_tp);
                VIOL(sig, "%d descriptor(s) not created by the library are gone or point elsewhere; scenario %s, fault(s) %s",
                     one.nlost, g_sc, after);
            }
            if (one.nfiles && full.nfiles && !strcmp(one.files, full.files)) {
                explained_files = 1;
                snprintf(sig, sizeof sig, "C08/file-left/%s/after=%s/tp=%s", one.files, after, g_tp);
                VIOL(sig, "%s still in the file system after every socket was closed; scenario %s, fault(s) %s", one.files,
                     g_sc, after);
            }
            if (one.stray && full.stray) {
                explained_stray = 1;
                snprintf(sig, sizeof sig, "C08/stray-close/at=end/after=%s/tp=%s", after, g_tp);
                VIOL(sig, "the library called close() on %d descriptor(s) it had not created (or had closed already); "
                          "scenario %s, fault(s) %s", one.stray, g_sc, after);
            }
        }
        /* every kind of leaked descriptor of the full run is accounted for by a single fault? */
        if (full.nleak) {
            explained_leak = 1;
            char tmp[160];
            snprintf(tmp, sizeof tmp, "%s", full.leaked);
            for (char *t = strtok(tmp, "+"); t; t = strtok(NULL, "+"))
                if (!strstr(kinds_union, t))
                    explained_leak = 0;
        }
    }
    char sig[256];
    if (full.nleak && !explained_leak) {
        snprintf(sig, sizeof sig, "C08/fd-leak/%s/at=end/after=%s/tp=%s", full.leaked, faults_descr(), g_tp);
        VIOL(sig, "%d descriptor(s) still open after every successfully created socket was closed (baseline %d "
                  "descriptors):%s; %s; scenario %s, injected fault(s): %s", full.nleak, g_base_fds.n, full.detail, heaptxt,
             g_sc, faults_descr());
    }
    if (full.nlost && !explained_lost) {
        snprintf(sig, sizeof sig, "C08/foreign-descriptor-%s/at=end/after=%s/tp=%s", full.lost, faults_descr(), g_tp);
        VIOL(sig, "%d descriptor(s) that were open before the scenario and were not created by the library are gone or "
                  "point elsewhere; scenario %s, injected fault(s): %s", full.nlost, g_sc, faults_descr());
    }
    if (full.nfiles && !explained_files) {
        snprintf(sig, sizeof sig, "C08/file-left/%s/after=%s/tp=%s", full.files, faults_descr(), g_tp);
        VIOL(sig, "%s still in the file system after every socket was closed; scenario %s, injected fault(s): %s",
             full.files, g_sc, faults_descr());
    }
    if (full.stray && !explained_stray) {
        snprintf(sig, sizeof sig, "C08/stray-close/at=end/after=%s/tp=%s", faults_descr(), g_tp);
        VIOL(sig, "the library called close() on %d descriptor(s) it had not created (or had closed already); scenario %s, "
                  "injected fault(s): %s", full.stray, g_sc, faults_descr());
    }
    if (heap_leak && !full.nleak) {
        /* blame: does the heap grow in the same way without any fault?  Then the faults are not the cause. */
        const char *after = faults_descr();
        if (g_nfrec > 0) {
            long b0 = heap_now(), b1, b2;
            rep_begin(M_REPLAY, 0, 30);
            body();
            b1 = heap_now();
            rep_begin(M_REPLAY, 0, 31);
            body();
            b2 = heap_now();
            g_mode = M_PASS;
            mc_count(2, 2);
            if (b1 > b0 && b2 > b1)
                after = "none";
        }
        snprintf(sig, sizeof sig, "C08/heap-leak/after=%s/tp=%s", after, g_tp);
        VIOL(sig, "the heap does not return to its steady state although no descriptor is left: %s (+%ld per repetition); "
                  "blocks allocated by the library during the last repetition and never freed: %s; scenario %s, injected "
                  "fault(s): %s", heaptxt, h3 - h2, lg_describe(g_rep), g_sc, faults_descr());
    }
    /* sanitizer build with leak detection enabled: blocks that nothing points to any more (one-off leaks included) */
    if (__lsan_do_recoverable_leak_check && param_int(params, "lsan", 0)) {
        mc_count(6, 1);
        if (__lsan_do_recoverable_leak_check() != 0 && !heap_leak && !full.nleak) {
            snprintf(sig, sizeof sig, "C08/heap-leak-unreachable/after=%s/tp=%s", faults_descr(), g_tp);
            VIOL(sig, "LeakSanitizer: heap blocks allocated during the scenario are unreachable after every socket was "
                      "closed (report on stderr); scenario %s, injected fault(s): %s", g_sc, faults_descr());
        }
    }
    mc_observe("end: faults=%s lib_fds=%d leak=%d %s", faults_descr(), lib_now, heap_leak, heaptxt);
    mc_outcome("sc=%s tp=%s faults=%s failed_steps=%d lib_fds=%d fdleak=%s heapdelta=%ld leak=%d", g_sc, g_tp, faults_descr(),
               failed_steps, lib_now, full.leaked, h1 - h0, heap_leak);
    rm_rf_scratch();
}

int main(int argc, char **argv)
{
    /* exact heap accounting through mallinfo2: no per-thread caches, one arena */
    if (!getenv("GLIBC_TUNABLES")) {
        setenv("GLIBC_TUNABLES", "glibc.malloc.tcache_count=0:glibc.malloc.arena_max=1", 1);
        execv("/proc/self/exe", argv);
    }
    return mc_main(argc, argv, scenario, NULL);
}
