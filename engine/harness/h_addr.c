/*
 * h_addr.c -- property C12: xcm_addr_make_* / xcm_addr_parse_* / xcm_addr_is_valid.
 *
 * Technique: exhaustive in-process enumeration of a bounded input space; every library call is
 * compared with an independent reference codec ("oracle addr") written from the "Address
 * Syntax" section of xcm.h, NOT from xcm_addr.c.  No sampling, no randomness.
 *
 * What is enumerated (the work is cut into numbered batches, one process per batch):
 *   make-all    8 transports + the xcm_addr_compat.c wrappers x all 65536 ports x all capacities
 *               0..len+2 for one IPv4, one IPv6 and one DNS-name host
 *   make-bnd    port-width boundary set x all capacities x every host of the host table
 *   make-ux     UX/UXF names of length 0,1,2,106,107,108,109 x all capacities
 *   (i)         every complete string produced by make is parsed back (round trip)
 *   short       (ii) every string of length <= L over the alphabet "tcp:[]*.-+019a " after each
 *               transport prefix and with no prefix (L = --ltcp for "tcp:", --lother for the rest;
 *               C12.py: quick 6/5 plain + 5/4 sanitizer, thorough 7/6 plain + 6/5 sanitizer)
 *   v6long      full 8-group and full mixed-notation IPv6 spellings (37..45 characters) in brackets x
 *               every suffix of length 1..3 over "0159afg.:%/][*-" and named suffixes; every IPv6
 *               host form x boundary ports x every transport (legacy IPv4-only entry points must
 *               refuse them: EINVAL, outputs untouched)
 *   ports/misc  (iii) structured families around every limit: port field over [-2,70000] and
 *               2^31-1..20 digits, empty/signed/leading-zero/junk ports, host lengths 0..513,
 *               total lengths 577..4096, proto lengths 0..600, every byte value 1..255 in every
 *               field, IPv4/IPv6 corner syntax, parse capacities
 *
 * Memory discipline: every parser input is a heap block of exactly strlen+1 bytes; in the
 * sanitizer build every output buffer ENDS exactly at the end of a heap block (ASan traps the
 * first byte beyond `capacity`), in the plain build 64 canary bytes follow it; the bytes in front
 * of it carry a canary too; canaries are verified after every call.
 *
 * What the oracle demands:
 *   make   rc 0 and the complete NUL-terminated address inside `capacity`, or rc -1 with
 *          ENAMETOOLONG/EINVAL; success whenever the address fits; never a prefix as success.
 *   parse  three-valued reference recogniser: must-accept / must-reject / either.  An address is
 *          a single token: space \t \n \v \f \r anywhere in it is must-reject for every entry point
 *          and for xcm_addr_is_valid.  must-accept
 *          results must carry exactly the model's components.  xcm_addr_is_valid must agree with
 *          the typed parsers; the compat parsers must agree with the primary ones.
 *
 * Output: JSON lines on stdout (finding / sample / info / crash / stats / done), read by
 * checks/C12.py.  `--one ...` re-runs one case verbosely (exit 1 if it violates the oracle).
 */
#ifndef _GNU_SOURCE
#define _GNU_SOURCE
#endif
#include <errno.h>
#include <netinet/in.h>
#include <signal.h>
#include <stdarg.h>
#include <stdbool.h>
#include <stdint.h>
#include <stdio.h>
#include <stdlib.h>
#include <string.h>
#include <strings.h>
#include <sys/socket.h>
#include <sys/time.h>
#include <unistd.h>

#include <xcm_addr.h>

#if defined(__has_feature)
#if __has_feature(address_sanitizer)
#define HAVE_ASAN 1
#endif
#endif
#ifdef HAVE_ASAN
void __sanitizer_set_death_callback(void (*cb)(void));
#endif

/* ====================================================================================== */
/* output layer: own buffer + write(2), usable from the sanitizer death callback          */
/* ====================================================================================== */

static char obuf[1 << 16];
static size_t olen;
static int verbose;             /* --one: human readable trace */

static void out_flush(void)
{
    size_t off = 0;
    while (off < olen) {
        ssize_t w = write(1, obuf + off, olen - off);
        if (w <= 0)
            break;
        off += (size_t)w;
    }
    olen = 0;
}

static void out_raw(const char *p, size_t n)
{
    while (n > 0) {
        if (olen == sizeof obuf)
            out_flush();
        size_t k = sizeof obuf - olen;
        if (k > n)
            k = n;
        memcpy(obuf + olen, p, k);
        olen += k;
        p += k;
        n -= k;
    }
}

static void out_f(const char *fmt, ...) __attribute__((format(printf, 1, 2)));
static void out_f(const char *fmt, ...)
{
    char tmp[1024];
    va_list ap;
    va_start(ap, fmt);
    int n = vsnprintf(tmp, sizeof tmp, fmt, ap);
    va_end(ap);
    if (n < 0)
        return;
    if ((size_t)n >= sizeof tmp)
        n = sizeof tmp - 1;
    out_raw(tmp, (size_t)n);
}

/* a growable text buffer used to compose messages (may hold arbitrary bytes of test inputs) */
struct tb { char *p; size_t n, cap; };

static void tb_raw(struct tb *b, const char *s, size_t n)
{
    if (b->n + n + 1 > b->cap) {
        b->cap = (b->n + n + 1) * 2 + 64;
        b->p = realloc(b->p, b->cap);
        if (!b->p)
            _exit(9);
    }
    memcpy(b->p + b->n, s, n);
    b->n += n;
    b->p[b->n] = 0;
}

static void tb_f(struct tb *b, const char *fmt, ...) __attribute__((format(printf, 2, 3)));
static void tb_f(struct tb *b, const char *fmt, ...)
{
    char tmp[1024];
    va_list ap;
    va_start(ap, fmt);
    int n = vsnprintf(tmp, sizeof tmp, fmt, ap);
    va_end(ap);
    if (n < 0)
        return;
    if ((size_t)n >= sizeof tmp)
        n = sizeof tmp - 1;
    tb_raw(b, tmp, (size_t)n);
}

/* C-like rendering of a byte string for human readable texts: \xNN for non-printables */
static void tb_cstr(struct tb *b, const char *s, size_t n)
{
    tb_raw(b, "\"", 1);
    for (size_t i = 0; i < n; i++) {
        unsigned char c = (unsigned char)s[i];
        if (c == '"' || c == '\\')
            tb_f(b, "\\%c", c);
        else if (c >= 0x20 && c < 0x7f)
            tb_raw(b, (const char *)&c, 1);
        else
            tb_f(b, "\\x%02x", c);
    }
    tb_raw(b, "\"", 1);
}

/* percent-encoding used for harness arguments (replay commands): shell-safe, byte exact */
static void tb_pct(struct tb *b, const char *s, size_t n)
{
    if (n == 0) {
        tb_raw(b, "%", 1);      /* a lone '%' denotes the empty string */
        return;
    }
    for (size_t i = 0; i < n; i++) {
        unsigned char c = (unsigned char)s[i];
        if ((c >= 'a' && c <= 'z') || (c >= 'A' && c <= 'Z') || (c >= '0' && c <= '9') ||
            c == '.' || c == ':' || c == '-' || c == '_' || c == '/')
            tb_raw(b, (const char *)&c, 1);
        else
            tb_f(b, "%%%02X", c);
    }
}

static char *pct_decode(const char *a, size_t *n_out)
{
    size_t n = strlen(a);
    char *r = malloc(n + 1);
    size_t k = 0;
    if (strcmp(a, "%") == 0) {
        r[0] = 0;
        *n_out = 0;
        return r;
    }
    for (size_t i = 0; i < n; i++) {
        if (a[i] == '%' && i + 2 < n) {
            char h[3] = { a[i + 1], a[i + 2], 0 };
            r[k++] = (char)strtol(h, NULL, 16);
            i += 2;
        } else
            r[k++] = a[i];
    }
    r[k] = 0;
    *n_out = k;
    return r;
}

/* JSON string literal; bytes outside printable ASCII become \u00XX (latin-1 view of the byte) */
static void out_jstr(const char *s, size_t n)
{
    out_raw("\"", 1);
    for (size_t i = 0; i < n; i++) {
        unsigned char c = (unsigned char)s[i];
        if (c == '"' || c == '\\') {
            char e[2] = { '\\', (char)c };
            out_raw(e, 2);
        } else if (c >= 0x20 && c < 0x7f)
            out_raw((const char *)&c, 1);
        else
            out_f("\\u%04x", c);
    }
    out_raw("\"", 1);
}

static const char *ename(int e)
{
    static char b[16];
    switch (e) {
    case 0: return "0";
    case EINVAL: return "EINVAL";
    case ENAMETOOLONG: return "ENAMETOOLONG";
    case ENOSPC: return "ENOSPC";
    case EAFNOSUPPORT: return "EAFNOSUPPORT";
    case ENOMEM: return "ENOMEM";
    case ERANGE: return "ERANGE";
    default:
        snprintf(b, sizeof b, "E%d", e);
        return b;
    }
}

/* ====================================================================================== */
/* the functions under test                                                               */
/* ====================================================================================== */

enum { T_TCP, T_TLS, T_UTLS, T_SCTP, T_BTCP, T_BTLS, T_UX, T_UXF, NT };
#define NHP 6                   /* the first six transports use host:port addresses */
static const char *const tp_name[NT] = { "tcp", "tls", "utls", "sctp", "btcp", "btls", "ux", "uxf" };

typedef int (*hp_parse_fn)(const char *, struct xcm_addr_host *, uint16_t *);
typedef int (*hp_make_fn)(const struct xcm_addr_host *, unsigned short, char *, size_t);
typedef int (*ux_parse_fn)(const char *, char *, size_t);
typedef int (*ux_make_fn)(const char *, char *, size_t);
typedef int (*ip6_parse_fn)(const char *, struct xcm_addr_ip *, uint16_t *);
typedef int (*ip6_make_fn)(const struct xcm_addr_ip *, unsigned short, char *, size_t);
typedef int (*ip4_parse_fn)(const char *, in_addr_t *, uint16_t *);
typedef int (*ip4_make_fn)(in_addr_t, unsigned short, char *, size_t);

enum fkind { FK_HP_PARSE, FK_UX_PARSE, FK_IP6_PARSE, FK_IP4_PARSE, FK_UXC_PARSE,
             FK_PROTO, FK_VALID, FK_SUPPORTED,
             FK_HP_MAKE, FK_UX_MAKE, FK_IP6_MAKE, FK_IP4_MAKE, FK_UXC_MAKE };

struct fdesc {
    const char *name;
    enum fkind kind;
    int tp;
    union {
        hp_parse_fn hp_parse; hp_make_fn hp_make; ux_parse_fn ux_parse; ux_make_fn ux_make;
        ip6_parse_fn ip6_parse; ip6_make_fn ip6_make; ip4_parse_fn ip4_parse; ip4_make_fn ip4_make;
        void *any;
    } u;
};

static const struct fdesc F_HP_PARSE[NHP] = {
    { "xcm_addr_parse_tcp", FK_HP_PARSE, T_TCP, { .hp_parse = xcm_addr_parse_tcp } },
    { "xcm_addr_parse_tls", FK_HP_PARSE, T_TLS, { .hp_parse = xcm_addr_parse_tls } },
    { "xcm_addr_parse_utls", FK_HP_PARSE, T_UTLS, { .hp_parse = xcm_addr_parse_utls } },
    { "xcm_addr_parse_sctp", FK_HP_PARSE, T_SCTP, { .hp_parse = xcm_addr_parse_sctp } },
    { "xcm_addr_parse_btcp", FK_HP_PARSE, T_BTCP, { .hp_parse = xcm_addr_parse_btcp } },
    { "xcm_addr_parse_btls", FK_HP_PARSE, T_BTLS, { .hp_parse = xcm_addr_parse_btls } },
};
static const struct fdesc F_UX_PARSE[2] = {
    { "xcm_addr_parse_ux", FK_UX_PARSE, T_UX, { .ux_parse = xcm_addr_parse_ux } },
    { "xcm_addr_parse_uxf", FK_UX_PARSE, T_UXF, { .ux_parse = xcm_addr_parse_uxf } },
};
static const struct fdesc F_IP6_PARSE[4] = {
    { "xcm_addr_tcp6_parse", FK_IP6_PARSE, T_TCP, { .ip6_parse = xcm_addr_tcp6_parse } },
    { "xcm_addr_tls6_parse", FK_IP6_PARSE, T_TLS, { .ip6_parse = xcm_addr_tls6_parse } },
    { "xcm_addr_utls6_parse", FK_IP6_PARSE, T_UTLS, { .ip6_parse = xcm_addr_utls6_parse } },
    { "xcm_addr_sctp6_parse", FK_IP6_PARSE, T_SCTP, { .ip6_parse = xcm_addr_sctp6_parse } },
};
static const struct fdesc F_IP4_PARSE[3] = {
    { "xcm_addr_tcp_parse", FK_IP4_PARSE, T_TCP, { .ip4_parse = xcm_addr_tcp_parse } },
    { "xcm_addr_tls_parse", FK_IP4_PARSE, T_TLS, { .ip4_parse = xcm_addr_tls_parse } },
    { "xcm_addr_utls_parse", FK_IP4_PARSE, T_UTLS, { .ip4_parse = xcm_addr_utls_parse } },
};
static const struct fdesc F_UXC_PARSE = { "xcm_addr_ux_parse", FK_UXC_PARSE, T_UX, { .ux_parse = xcm_addr_ux_parse } };
static const struct fdesc F_PROTO = { "xcm_addr_parse_proto", FK_PROTO, -1, { .any = NULL } };
static const struct fdesc F_VALID = { "xcm_addr_is_valid", FK_VALID, -1, { .any = NULL } };
static const struct fdesc F_SUPPORTED = { "xcm_addr_is_supported", FK_SUPPORTED, -1, { .any = NULL } };

/* all make functions, in one table (index = "make function number" of the batch table) */
static const struct fdesc F_MAKE[] = {
    { "xcm_addr_make_tcp", FK_HP_MAKE, T_TCP, { .hp_make = xcm_addr_make_tcp } },
    { "xcm_addr_make_tls", FK_HP_MAKE, T_TLS, { .hp_make = xcm_addr_make_tls } },
    { "xcm_addr_make_utls", FK_HP_MAKE, T_UTLS, { .hp_make = xcm_addr_make_utls } },
    { "xcm_addr_make_sctp", FK_HP_MAKE, T_SCTP, { .hp_make = xcm_addr_make_sctp } },
    { "xcm_addr_make_btcp", FK_HP_MAKE, T_BTCP, { .hp_make = xcm_addr_make_btcp } },
    { "xcm_addr_make_btls", FK_HP_MAKE, T_BTLS, { .hp_make = xcm_addr_make_btls } },
    { "xcm_addr_tcp6_make", FK_IP6_MAKE, T_TCP, { .ip6_make = xcm_addr_tcp6_make } },
    { "xcm_addr_tls6_make", FK_IP6_MAKE, T_TLS, { .ip6_make = xcm_addr_tls6_make } },
    { "xcm_addr_utls6_make", FK_IP6_MAKE, T_UTLS, { .ip6_make = xcm_addr_utls6_make } },
    { "xcm_addr_sctp6_make", FK_IP6_MAKE, T_SCTP, { .ip6_make = xcm_addr_sctp6_make } },
    { "xcm_addr_tcp_make", FK_IP4_MAKE, T_TCP, { .ip4_make = xcm_addr_tcp_make } },
    { "xcm_addr_tls_make", FK_IP4_MAKE, T_TLS, { .ip4_make = xcm_addr_tls_make } },
    { "xcm_addr_utls_make", FK_IP4_MAKE, T_UTLS, { .ip4_make = xcm_addr_utls_make } },
    { "xcm_addr_make_ux", FK_UX_MAKE, T_UX, { .ux_make = xcm_addr_make_ux } },
    { "xcm_addr_make_uxf", FK_UX_MAKE, T_UXF, { .ux_make = xcm_addr_make_uxf } },
    { "xcm_addr_ux_make", FK_UXC_MAKE, T_UX, { .ux_make = xcm_addr_ux_make } },
};
#define N_MAKE ((int)(sizeof F_MAKE / sizeof F_MAKE[0]))
#define N_HOSTMAKE 13           /* the first 13 take a host/ip argument */

static const struct fdesc *make_by_name(const char *nm)
{
    for (int i = 0; i < N_MAKE; i++)
        if (strcmp(nm, F_MAKE[i].name) == 0 || strcmp(nm, F_MAKE[i].name + strlen("xcm_addr_")) == 0)
            return &F_MAKE[i];
    return NULL;
}

/* ====================================================================================== */
/* reference model ("oracle addr"): written from xcm.h's Address Syntax, three-valued      */
/* ====================================================================================== */

#define M_DNS_MAX 253           /* xcm_addr.h: "Max DNS name length is 253 characters" */
#define M_LABEL_MAX 63
#define M_UX_MAX 107            /* sun_path minus the NUL / the leading NUL of abstract names */
#define M_PORT_MAX 65535

enum verdict { V_REJECT = 0, V_ACCEPT = 1, V_EITHER = 2 };
static const char *const vname[3] = { "must-reject", "must-accept", "either" };

enum hkind { H_NONE, H_IP4, H_IP6, H_NAME };

struct mhost {
    enum hkind kind;
    uint8_t ip[16];             /* H_IP4: first four bytes, network order */
    const char *name;           /* H_NAME (not NUL terminated, name_len bytes) */
    size_t name_len;
};

struct mres {
    enum verdict v;
    const char *tag;            /* V_REJECT: the violated rule; V_EITHER: why there is no verdict */
    bool hp;                    /* host:port transport (else ux/uxf) */
    struct mhost host;          /* V_ACCEPT, or V_EITHER: the interpretation allowed if accepted */
    bool alt_name;              /* V_EITHER: "a DNS name equal to the text" is allowed as well */
    bool host_free;             /* V_EITHER: no constraint on the host at all */
    unsigned char oddc;         /* tag dns-name-odd-char: the (last) byte outside the host-name alphabet */
    long port;                  /* decimal value of the port field, -1 unknown */
    const char *pf;             /* port field */
    size_t pf_len;
    const char *ux;             /* ux/uxf name */
    size_t ux_len;
};

static bool is_digit(char c) { return c >= '0' && c <= '9'; }
static bool is_ws(char c) { return c == ' ' || (c >= '\t' && c <= '\r'); }

static int hexval(char c)
{
    if (c >= '0' && c <= '9') return c - '0';
    if (c >= 'a' && c <= 'f') return c - 'a' + 10;
    if (c >= 'A' && c <= 'F') return c - 'A' + 10;
    return -1;
}

/* dotted decimal, exactly four fields of 1+ digits with value <= 255; *lz: some field has a
 * leading zero (the documentation does not say whether "010.1.1.1" is an address) */
static bool m_ipv4(const char *s, size_t n, uint8_t out[4], bool *lz)
{
    size_t i = 0;
    *lz = false;
    for (int f = 0; f < 4; f++) {
        size_t start = i;
        unsigned v = 0;
        while (i < n && is_digit(s[i])) {
            v = v * 10 + (unsigned)(s[i] - '0');
            if (v > 255)
                return false;
            i++;
        }
        if (i == start)
            return false;
        if (i - start > 1 && s[start] == '0')
            *lz = true;
        out[f] = (uint8_t)v;
        if (f < 3) {
            if (i >= n || s[i] != '.')
                return false;
            i++;
        }
    }
    return i == n;
}

/* RFC 4291 section 2.2 text forms: x:x:x:x:x:x:x:x, one "::", optional dotted IPv4 tail */
static enum verdict m_ipv6(const char *s, size_t n, uint8_t out[16])
{
    uint16_t g[8];
    int ng = 0, comp = -1;
    size_t i = 0;
    bool lz4 = false;

    if (n >= 2 && s[0] == ':' && s[1] == ':') {
        comp = 0;
        i = 2;
    } else if (n >= 1 && s[0] == ':')
        return V_REJECT;
    while (i < n) {
        size_t j = i;
        while (j < n && s[j] != ':')
            j++;
        size_t tl = j - i;
        if (tl == 0)
            return V_REJECT;
        if (memchr(s + i, '.', tl)) {
            uint8_t q[4];
            bool lz;
            if (j != n || ng > 6 || !m_ipv4(s + i, tl, q, &lz))
                return V_REJECT;
            g[ng++] = (uint16_t)(q[0] << 8 | q[1]);
            g[ng++] = (uint16_t)(q[2] << 8 | q[3]);
            lz4 = lz;
            i = j;
            break;
        }
        if (tl > 4 || ng >= 8)
            return V_REJECT;
        unsigned v = 0;
        for (size_t k = i; k < j; k++) {
            int h = hexval(s[k]);
            if (h < 0)
                return V_REJECT;
            v = v << 4 | (unsigned)h;
        }
        g[ng++] = (uint16_t)v;
        i = j;
        if (i == n)
            break;
        if (i + 1 < n && s[i + 1] == ':') {
            if (comp >= 0)
                return V_REJECT;
            comp = ng;
            i += 2;
        } else {
            i += 1;
            if (i == n)
                return V_REJECT;        /* single trailing ':' */
        }
    }
    if (comp < 0 ? ng != 8 : ng > 7)
        return V_REJECT;
    uint16_t full[8] = { 0 };
    if (comp < 0)
        comp = ng;
    for (int k = 0; k < comp; k++)
        full[k] = g[k];
    for (int k = comp; k < ng; k++)
        full[8 - ng + k] = g[k];
    for (int k = 0; k < 8; k++) {
        out[2 * k] = (uint8_t)(full[k] >> 8);
        out[2 * k + 1] = (uint8_t)(full[k] & 0xff);
    }
    return lz4 ? V_EITHER : V_ACCEPT;
}

/* port field: a decimal number 0..65535 and nothing else */
static enum verdict m_port(const char *s, size_t n, long *port, const char **tag)
{
    *port = -1;
    if (n == 0) { *tag = "port=empty"; return V_REJECT; }
    for (size_t i = 0; i < n; i++)
        if (is_ws(s[i])) { *tag = "port=whitespace"; return V_REJECT; }
    if (s[0] == '+' || s[0] == '-') { *tag = "port=signed"; return V_REJECT; }
    for (size_t i = 0; i < n; i++)
        if (!is_digit(s[i])) { *tag = "port=junk"; return V_REJECT; }
    size_t z = 0;
    while (z < n - 1 && s[z] == '0')
        z++;
    if (n - z > 5) { *tag = "port=out-of-range"; return V_REJECT; }
    long v = 0;
    for (size_t i = z; i < n; i++)
        v = v * 10 + (s[i] - '0');
    if (v > M_PORT_MAX) { *tag = "port=out-of-range"; return V_REJECT; }
    *port = v;
    if (z > 0) { *tag = "port=leading-zeros"; return V_EITHER; }
    return V_ACCEPT;
}

/* value of an all-digit field modulo 2^32 (to recognise an accepted port as a wrapped int) */
static uint32_t dec_mod32(const char *s, size_t n)
{
    uint32_t v = 0;
    for (size_t i = 0; i < n; i++)
        if (is_digit(s[i]))
            v = v * 10u + (uint32_t)(s[i] - '0');
    return v;
}

/* host field: <DNS domain name> | <IPv4 address> | [<IPv6 address>] | [*] | *  */
static enum verdict m_host(const char *s, size_t n, struct mres *r)
{
    struct mhost *h = &r->host;
    h->kind = H_NONE;
    r->alt_name = r->host_free = false;
    if (n == 0) { r->tag = "host=empty"; return V_REJECT; }
    if (s[0] == '[') {
        if (n < 2 || s[n - 1] != ']') { r->tag = "host=unbalanced-bracket"; return V_REJECT; }
        h->kind = H_IP6;
        if (n == 3 && s[1] == '*') {
            memset(h->ip, 0, 16);
            return V_ACCEPT;
        }
        enum verdict v = m_ipv6(s + 1, n - 2, h->ip);
        if (v == V_REJECT)
            r->tag = "host=bad-ipv6";
        else if (v == V_EITHER)
            r->tag = "ipv6-v4tail-leading-zeros";
        return v;
    }
    if (n == 1 && s[0] == '*') {
        h->kind = H_IP4;
        memset(h->ip, 0, 16);
        return V_ACCEPT;
    }
    if (n > M_DNS_MAX) { r->tag = "host=too-long"; return V_REJECT; }
    /* Characters.  Letters, digits, hyphen and dot are the host-name alphabet.  Must-reject is
     * kept to what the documented grammar itself excludes: blanks and control characters (no
     * documented component contains any), brackets (they delimit the IPv6 forms and must pair up
     * around the whole host) and ':' outside brackets (the port separator; IPv6 text must be
     * bracketed).  Whether any OTHER byte ('_', '*' inside a name, '\\', '+', 8-bit, ...) may occur
     * in a "<DNS domain name>" is not said in xcm.h (RFC 2181 section 11 allows any octet in a DNS
     * label, the host-name rules of RFC 952/1123 do not): no verdict, but if accepted then only
     * as a name equal to the text. */
    bool numeric = true, oddchar = false;
    for (size_t i = 0; i < n; i++) {
        unsigned char c = (unsigned char)s[i];
        if (is_digit((char)c) || c == '.')
            continue;
        numeric = false;
        if ((c >= 'a' && c <= 'z') || (c >= 'A' && c <= 'Z') || c == '-')
            continue;
        if (c <= 0x20 || c == 0x7f) { r->tag = "host=blank-or-control-char"; return V_REJECT; }
        if (c == '[' || c == ']') { r->tag = "host=unbalanced-bracket"; return V_REJECT; }
        if (c == ':') { r->tag = "host=colon-outside-brackets"; return V_REJECT; }
        oddchar = true;
        r->oddc = c;
    }
    if (numeric) {
        bool lz;
        memset(h->ip, 0, 16);
        if (m_ipv4(s, n, h->ip, &lz)) {
            h->kind = H_IP4;
            if (!lz)
                return V_ACCEPT;
            /* "01.2.3.4": an address with decimal fields, or a name; xcm.h is silent */
            r->alt_name = true;
            r->tag = "ipv4-leading-zeros";
            return V_EITHER;
        }
        /* digits and dots but not a complete dotted quad ("1.2.3", "256.1.1.1", "7"): xcm.h
         * rules out the classful forms as ADDRESSES; whether they are names is label-level DNS
         * syntax.  If accepted, only as a name. */
        h->kind = H_NAME;
        h->name = s;
        h->name_len = n;
        r->tag = "numeric-not-ipv4";
        return V_EITHER;
    }
    h->kind = H_NAME;
    h->name = s;
    h->name_len = n;
    if (oddchar) { r->tag = "dns-name-odd-char"; return V_EITHER; }
    bool odd = false;
    size_t ls = 0;
    for (size_t i = 0; i <= n; i++) {
        if (i == n || s[i] == '.') {
            size_t ll = i - ls;
            if (ll == 0 || ll > M_LABEL_MAX || s[ls] == '-' || s[i - 1] == '-')
                odd = true;
            ls = i + 1;
        }
    }
    if (odd) { r->tag = "dns-label-syntax"; return V_EITHER; }
    return V_ACCEPT;
}

static int tp_by_name(const char *s, size_t n, bool *case_variant)
{
    if (case_variant)
        *case_variant = false;
    for (int t = 0; t < NT; t++)
        if (strlen(tp_name[t]) == n && memcmp(tp_name[t], s, n) == 0)
            return t;
    if (case_variant)
        for (int t = 0; t < NT; t++)
            if (strlen(tp_name[t]) == n && strncasecmp(tp_name[t], s, n) == 0) {
                *case_variant = true;
                return t;
            }
    return -1;
}

/* White space.  An address string is a single token: xcm.h's "Address Syntax" gives every form as
 * an unbroken token and none of them contains a blank or a line break, so the six ASCII
 * white-space characters (space \t \n \v \f \r) ANYWHERE in the string -- transport name, host,
 * port, UX/UXF name -- put it outside every documented form: must-reject for every parser entry
 * point and for xcm_addr_is_valid.  Returns NULL if there is none, else the tag
 * "whitespace=<which>/field=<where>" of the first one; tp: the transport whose syntax names the
 * field (< 0: only "proto" / "address" are told apart). */
static const char *m_whitespace(int tp, const char *s, size_t n)
{
    static const char WS[] = " \t\n\v\f\r";
    static const char *const WSN[6] = { "space", "tab", "lf", "vt", "ff", "cr" };
    static const char *const FLD[5] = { "proto", "address", "host", "port", "ux-name" };
    static char tags[6][5][48];
    for (size_t i = 0; i < n; i++) {
        const char *w = s[i] ? memchr(WS, s[i], 6) : NULL;
        if (!w)
            continue;
        const char *c = memchr(s, ':', n);
        int fld;
        if (!c || i < (size_t)(c - s))
            fld = 0;
        else if (tp < 0)
            fld = 1;
        else if (tp >= NHP)
            fld = 4;
        else {
            size_t last = n;
            for (size_t k = n; k > (size_t)(c - s) + 1; k--)
                if (s[k - 1] == ':') { last = k - 1; break; }
            fld = (last < n && i > last) ? 3 : 2;
        }
        char *t = tags[w - WS][fld];
        if (!t[0])
            snprintf(t, sizeof tags[0][0], "whitespace=%s/field=%s", WSN[w - WS], FLD[fld]);
        return t;
    }
    return NULL;
}

/* the verdict on "s is an address of transport tp" */
static void m_parse(int tp, const char *s, size_t n, struct mres *r)
{
    memset(r, 0, sizeof *r);
    r->port = -1;
    r->hp = tp < NHP;
    const char *wst = m_whitespace(tp, s, n);
    if (wst) { r->v = V_REJECT; r->tag = wst; return; }
    const char *c = memchr(s, ':', n);
    if (!c) { r->v = V_REJECT; r->tag = "proto=missing"; return; }
    size_t pl = (size_t)(c - s);
    if (pl != strlen(tp_name[tp]) || memcmp(s, tp_name[tp], pl) != 0) {
        if (pl == strlen(tp_name[tp]) && strncasecmp(s, tp_name[tp], pl) == 0) {
            /* "TCP:": xcm.h spells the names in lower case and says nothing about case */
            r->v = V_EITHER; r->tag = "proto=case"; r->host_free = true;
            return;
        }
        r->v = V_REJECT; r->tag = "proto=other";
        return;
    }
    const char *rest = c + 1;
    size_t rn = n - pl - 1;
    if (!r->hp) {
        r->ux = rest;
        r->ux_len = rn;
        if (rn > M_UX_MAX) { r->v = V_REJECT; r->tag = "ux-name=too-long"; return; }
        if (rn == 0) { r->v = V_EITHER; r->tag = "ux-name=empty"; return; }
        for (size_t i = 0; i < rn; i++)
            if ((unsigned char)rest[i] <= 0x20 || (unsigned char)rest[i] >= 0x7f) {
                /* blanks, control and 8-bit bytes in socket names: not covered by xcm.h */
                r->v = V_EITHER; r->tag = "ux-name=odd-bytes";
                return;
            }
        r->v = V_ACCEPT;
        return;
    }
    const char *ps = NULL;
    for (size_t i = rn; i > 0; i--)
        if (rest[i - 1] == ':') { ps = rest + i - 1; break; }
    if (!ps) { r->v = V_REJECT; r->tag = "port=missing"; return; }
    r->pf = ps + 1;
    r->pf_len = (size_t)(rest + rn - r->pf);
    const char *ptag = NULL;
    enum verdict vp = m_port(r->pf, r->pf_len, &r->port, &ptag);
    enum verdict vh = m_host(rest, (size_t)(ps - rest), r);
    if (vp == V_REJECT) { r->v = V_REJECT; r->tag = ptag; return; }
    if (vh == V_REJECT) { r->v = V_REJECT; return; }
    if (vp == V_ACCEPT && vh == V_ACCEPT) { r->v = V_ACCEPT; r->tag = NULL; return; }
    r->v = V_EITHER;
    if (vh == V_ACCEPT)
        r->tag = ptag;
}

/* RFC 5952 text of an IPv6 address (mixed notation only for ::ffff:0:0/96); used to report, as
 * an INFO line only, when the library's text is not the canonical one */
static size_t f_ipv6(const uint8_t ip[16], char *buf)
{
    uint16_t w[8];
    for (int k = 0; k < 8; k++)
        w[k] = (uint16_t)(ip[2 * k] << 8 | ip[2 * k + 1]);
    int bs = -1, bl = 0;
    for (int k = 0; k < 8;) {
        if (w[k] != 0) { k++; continue; }
        int e = k;
        while (e < 8 && w[e] == 0)
            e++;
        if (e - k > bl && e - k >= 2) { bs = k; bl = e - k; }
        k = e;
    }
    bool mapped = bs == 0 && bl == 5 && w[5] == 0xffff;
    int lim = mapped ? 6 : 8;
    char *p = buf;
    for (int k = 0; k < lim; k++) {
        if (k == bs) {
            *p++ = ':';
            *p++ = ':';
            k += bl - 1;
            continue;
        }
        if (k > 0 && p[-1] != ':')
            *p++ = ':';
        p += sprintf(p, "%x", w[k]);
    }
    if (mapped) {
        if (p[-1] != ':')
            *p++ = ':';
        p += sprintf(p, "%u.%u.%u.%u", ip[12], ip[13], ip[14], ip[15]);
    }
    *p = 0;
    return (size_t)(p - buf);
}

/* the model's formatter: the address text of (tp, host, port); deterministic for IPv4 hosts,
 * names and ux; for IPv6 the canonical text (any RFC 4291 text of the same bytes is accepted
 * from the library, see check_make) */
static void f_addr(struct tb *b, int tp, const struct mhost *h, const char *ux, size_t ux_len,
                   unsigned port)
{
    b->n = 0;
    tb_f(b, "%s:", tp_name[tp]);
    if (tp >= NHP) {
        tb_raw(b, ux, ux_len);
        return;
    }
    if (h->kind == H_IP4)
        tb_f(b, "%u.%u.%u.%u", h->ip[0], h->ip[1], h->ip[2], h->ip[3]);
    else if (h->kind == H_IP6) {
        char t[64];
        f_ipv6(h->ip, t);
        tb_f(b, "[%s]", t);
    } else
        tb_raw(b, h->name, h->name_len);
    tb_f(b, ":%u", port);
}

static void tb_host(struct tb *b, const struct mhost *h)
{
    char t[64];
    switch (h->kind) {
    case H_IP4: tb_f(b, "ipv4 %u.%u.%u.%u", h->ip[0], h->ip[1], h->ip[2], h->ip[3]); break;
    case H_IP6: f_ipv6(h->ip, t); tb_f(b, "ipv6 %s", t); break;
    case H_NAME: tb_raw(b, "name ", 5); tb_cstr(b, h->name, h->name_len); break;
    default: tb_raw(b, "(none)", 6);
    }
}

/* host argument syntax of `--one make_*`: 4/<dotted quad>  6/<ipv6 text>  n/<pct name> */
static void tb_hostspec(struct tb *b, const struct mhost *h)
{
    char t[64];
    switch (h->kind) {
    case H_IP4: tb_f(b, "4/%u.%u.%u.%u", h->ip[0], h->ip[1], h->ip[2], h->ip[3]); break;
    case H_IP6: f_ipv6(h->ip, t); tb_f(b, "6/%s", t); break;
    default: tb_raw(b, "n/", 2); tb_pct(b, h->name, h->name_len);
    }
}

/* ====================================================================================== */
/* statistics, findings, samples, crash context                                           */
/* ====================================================================================== */

static struct {
    uint64_t states;            /* distinct (function, arguments) evaluated */
    uint64_t calls;             /* library calls made */
    uint64_t validated;         /* calls whose result was compared with the model (definite model
                                 * verdict) or, for is_valid/compat, with the primary parsers */
    uint64_t either;            /* parse calls on which the model gives no verdict */
    uint64_t nontrivial;        /* distinct inputs that got past the trivial stage (see C12.py) */
    uint64_t dup_calls;         /* calls repeating an input already counted elsewhere */
    uint64_t cell[3][2];        /* typed parse calls: model verdict x library accepted */
    uint64_t make_ok, make_fail;
    uint64_t strings;           /* parser input strings */
    uint64_t make_tuples;       /* (function, host, port) tuples swept over all capacities */
    uint64_t roundtrips;        /* strings produced by make and parsed back */
    uint64_t findings;
    uint64_t cases;             /* top-level cases executed in this process */
} st;

static uint64_t case_idx;       /* index of the current top-level case inside the batch */
static uint64_t from_idx;       /* --from: skip cases below this index (resume after a crash) */
static int batch_id = -1;

/* what the library is being asked right now (printed by the death callback) */
static struct {
    const char *fn;
    const char *s; size_t n;            /* parser input */
    const struct mhost *host;           /* make input */
    const char *ux; size_t ux_len;
    unsigned port; size_t cap;
    bool is_make;
} cur;

static int any_violation;       /* --one: exit status */
static long one_pcap = -1;      /* >= 0 while a capacity case runs: the capacity belongs to the replay */

#define MAX_SIGS 64
static struct { char sig[160]; uint64_t n; } sigtab[MAX_SIGS];
static int nsigs;

/* count a finding; only the first two occurrences of a signature per process are written out
 * in full (return value: the text is wanted), the rest is counted (the driver sums the counts) */
static bool finding_count(const char *sig)
{
    st.findings++;
    any_violation = 1;
    int k;
    for (k = 0; k < nsigs; k++)
        if (strcmp(sigtab[k].sig, sig) == 0)
            break;
    if (k == nsigs) {
        if (nsigs == MAX_SIGS)
            k = MAX_SIGS - 1;
        else {
            snprintf(sigtab[k].sig, sizeof sigtab[k].sig, "%s", sig);
            nsigs++;
        }
    }
    sigtab[k].n++;
    return verbose || sigtab[k].n <= 2;
}

static void finding_emit(const char *sig, const struct tb *text, const struct tb *one)
{
    if (verbose) {
        out_f("VIOLATION %s\n  %s\n", sig, text->p);
        return;
    }
    out_f("{\"t\":\"finding\",\"sig\":");
    out_jstr(sig, strlen(sig));
    out_f(",\"batch\":%d,\"case\":%llu,\"text\":", batch_id, (unsigned long long)case_idx);
    out_jstr(text->p, text->n);
    out_f(",\"one\":");
    out_jstr(one->p, one->n);
    out_f("}\n");
}

static void finding(const char *sig, const struct tb *text, const struct tb *one)
{
    if (finding_count(sig))
        finding_emit(sig, text, one);
}

static void info(const char *key, const struct tb *text)
{
    static char seen[300][64];
    static int nseen;
    if (verbose) {
        out_f("INFO %s: %s\n", key, text->p);
        return;
    }
    for (int i = 0; i < nseen; i++)
        if (strcmp(seen[i], key) == 0)
            return;
    if (nseen < 300)
        snprintf(seen[nseen++], 64, "%s", key);
    else
        return;
    out_f("{\"t\":\"info\",\"key\":");
    out_jstr(key, strlen(key));
    out_f(",\"text\":");
    out_jstr(text->p, text->n);
    out_f("}\n");
}

/* one sample per (kind, model verdict, library outcome) cell per process */
static bool sample_wanted(int kind, int mv, int impl)
{
    static uint8_t seen[5][3][2];
    if (verbose || seen[kind][mv][impl])
        return false;
    seen[kind][mv][impl] = 1;
    return true;
}

static void sample(const char *cell, const struct tb *call, const char *model, const struct tb *impl)
{
    out_f("{\"t\":\"sample\",\"cell\":\"%s\",\"call\":", cell);
    out_jstr(call->p, call->n);
    out_f(",\"model\":");
    out_jstr(model, strlen(model));
    out_f(",\"impl\":");
    out_jstr(impl->p, impl->n);
    out_f("}\n");
}

static void print_stats(void)
{
    out_f("{\"t\":\"stats\",\"batch\":%d,\"states\":%llu,\"calls\":%llu,\"validated\":%llu,"
          "\"either\":%llu,\"nontrivial\":%llu,\"dup_calls\":%llu,\"strings\":%llu,"
          "\"make_tuples\":%llu,\"roundtrips\":%llu,\"make_ok\":%llu,\"make_fail\":%llu,"
          "\"findings\":%llu,\"cases\":%llu,\"next_case\":%llu,"
          "\"cells\":{\"reject_rejected\":%llu,\"reject_accepted\":%llu,\"accept_rejected\":%llu,"
          "\"accept_accepted\":%llu,\"either_rejected\":%llu,\"either_accepted\":%llu},\"sigs\":{",
          batch_id, (unsigned long long)st.states, (unsigned long long)st.calls,
          (unsigned long long)st.validated, (unsigned long long)st.either,
          (unsigned long long)st.nontrivial, (unsigned long long)st.dup_calls,
          (unsigned long long)st.strings, (unsigned long long)st.make_tuples,
          (unsigned long long)st.roundtrips, (unsigned long long)st.make_ok,
          (unsigned long long)st.make_fail, (unsigned long long)st.findings,
          (unsigned long long)st.cases, (unsigned long long)case_idx,
          (unsigned long long)st.cell[0][0], (unsigned long long)st.cell[0][1],
          (unsigned long long)st.cell[1][0], (unsigned long long)st.cell[1][1],
          (unsigned long long)st.cell[2][0], (unsigned long long)st.cell[2][1]);
    for (int k = 0; k < nsigs; k++) {
        if (k)
            out_raw(",", 1);
        out_jstr(sigtab[k].sig, strlen(sigtab[k].sig));
        out_f(":%llu", (unsigned long long)sigtab[k].n);
    }
    out_f("}}\n");
}

static void tb_one_make(struct tb *b, const struct fdesc *f, const struct mhost *h, const char *ux,
                        size_t ux_len, unsigned port, size_t cap);

/* sanitizer abort, library abort() or watchdog: say which call was running, then the counters */
static volatile sig_atomic_t dying;
static void report_death(const char *kind)
{
    if (dying)
        return;
    dying = 1;
    struct tb one = { 0 };
    if (cur.is_make) {
        for (int i = 0; i < N_MAKE; i++)
            if (cur.fn && strcmp(F_MAKE[i].name, cur.fn) == 0)
                tb_one_make(&one, &F_MAKE[i], cur.host, cur.ux, cur.ux_len, cur.port, cur.cap);
    } else if (cur.s) {
        tb_f(&one, "parse ");
        tb_pct(&one, cur.s, cur.n);
        if (one_pcap >= 0)
            tb_f(&one, " %ld", one_pcap);
    }
    out_f("{\"t\":\"crash\",\"kind\":\"%s\",\"batch\":%d,\"case\":%llu,\"fn\":\"%s\",\"one\":", kind,
          batch_id, (unsigned long long)case_idx, cur.fn ? cur.fn : "?");
    out_jstr(one.p ? one.p : "", one.n);
    out_f("}\n");
    print_stats();
    out_flush();
}

static void death_cb(void) { report_death("sanitizer"); }
static void on_abort(int sig) { (void)sig; report_death("abort"); signal(SIGABRT, SIG_DFL); }

/* watchdog: "the parsers terminate".  A case takes microseconds; no progress during a whole
 * period of 5 s of this process's own CPU time (ITIMER_PROF: a starved or stopped process does
 * not age, so machine load cannot fake a hang) means the current call does not return. */
static uint64_t wd_last = (uint64_t)-1;
static void on_alarm(int sig)
{
    (void)sig;
    if (wd_last == st.calls && cur.fn) {
        report_death("hang");
        _exit(3);
    }
    wd_last = st.calls;
}

/* ====================================================================================== */
/* heap buffers with exact ends                                                           */
/* ====================================================================================== */

/* parser input: a heap block of exactly n+1 bytes (cached per size: blocks are reused, so the
 * 10^7 short strings cost no allocation) */
static char *in_block(const char *s, size_t n)
{
    static char *cache[1024];
    char *b;
    if (n + 1 < 1024) {
        if (!cache[n + 1])
            cache[n + 1] = malloc(n + 1);
        b = cache[n + 1];
    } else
        b = malloc(n + 1);
    memcpy(b, s, n);
    b[n] = 0;
    return b;
}

static void in_release(char *b, size_t n)
{
    if (n + 1 >= 1024)
        free(b);
}

/* output buffer of `cap` bytes ending exactly at the end of a heap block of OUT_BLK bytes; the
 * OUT_BLK-cap bytes in front of it and the buffer itself are filled with the canary */
#define OUT_BLK 1024
#define CANARY 0xA5
static char *out_blk;

/* Sanitizer build: the buffer ends exactly at the end of the heap block (the first byte beyond
 * `capacity` traps).  Plain build: OUT_REAR canary bytes follow the buffer and are verified. */
#ifdef HAVE_ASAN
#define OUT_REAR 0
#else
#define OUT_REAR 64
#endif
static size_t out_prev = OUT_BLK;       /* length of the region that may differ from the canary */

static char *out_buf(size_t cap)
{
    if (!out_blk) {
        out_blk = malloc(OUT_BLK);
        out_prev = OUT_BLK;
    }
    if (out_prev == OUT_BLK)
        memset(out_blk, CANARY, OUT_BLK);
    else
        memset(out_blk + OUT_BLK - OUT_REAR - out_prev, CANARY, out_prev);  /* whole block = canary again */
    out_prev = cap;
    return out_blk + OUT_BLK - OUT_REAR - cap;
}

/* 1: a byte in front of the buffer was modified; 2: a byte behind it (plain build) */
static int out_damage(size_t cap)
{
    static char ref[OUT_BLK];
    if ((unsigned char)ref[0] != CANARY)
        memset(ref, CANARY, sizeof ref);
    int bad = memcmp(out_blk, ref, OUT_BLK - OUT_REAR - cap) != 0 ? 1 : 0;
    if (OUT_REAR && memcmp(out_blk + OUT_BLK - OUT_REAR, ref, OUT_REAR) != 0)
        bad |= 2;
    if (bad)
        out_prev = OUT_BLK;
    return bad;
}

/* fixed-size output objects, each its own exact heap block */
static struct xcm_addr_host *g_host;
static struct xcm_addr_ip *g_ip;
static in_addr_t *g_ip4;
static uint16_t *g_port;

static void outputs_init(void)
{
    g_host = malloc(sizeof *g_host);
    g_ip = malloc(sizeof *g_ip);
    g_ip4 = malloc(sizeof *g_ip4);
    g_port = malloc(sizeof *g_port);
}

/* ====================================================================================== */
/* calling the parsers                                                                    */
/* ====================================================================================== */

struct pres {                   /* what a parser returned */
    int rc, err;
    enum hkind kind;            /* host:port parsers */
    int family;
    uint8_t ip[16];
    char name[256];
    bool name_term;
    unsigned port;              /* host order */
    char ux[OUT_BLK + 1];       /* ux parsers / parse_proto */
    bool ux_term;
    bool underflow, overflow;
    bool touched;               /* legacy IPv4 parsers: *ip or *port differ from what they held before the call */
};

static void decode_ip(struct pres *p, const struct xcm_addr_ip *ip)
{
    p->family = ip->family;
    memset(p->ip, 0, 16);
    if (ip->family == AF_INET) {
        p->kind = H_IP4;
        memcpy(p->ip, &ip->addr.ip4, 4);
    } else if (ip->family == AF_INET6) {
        p->kind = H_IP6;
        memcpy(p->ip, ip->addr.ip6, 16);
    } else
        p->kind = H_NONE;
}

static void pres_reset(struct pres *p)
{
    p->rc = -2;
    p->err = 0;
    p->kind = H_NONE;
    p->family = 0;
    p->port = 0;
    p->name[0] = 0;
    p->ux[0] = 0;
    p->name_term = p->ux_term = p->underflow = p->overflow = p->touched = false;
}

static void call_begin(const struct fdesc *f, const char *in, size_t n, bool dup)
{
    cur.fn = f->name;
    cur.s = in;
    cur.n = n;
    cur.is_make = false;
    st.calls++;
    if (dup)
        st.dup_calls++;
    else
        st.states++;
    errno = 0;
}

static void call_hp_parse(const struct fdesc *f, const char *in, size_t n, bool dup, struct pres *p)
{
    pres_reset(p);
    memset(g_host, CANARY, sizeof *g_host);
    *g_port = 0xA5A5;
    call_begin(f, in, n, dup);
    p->rc = f->u.hp_parse(in, g_host, g_port);
    p->err = errno;
    p->kind = H_NONE;
    if (p->rc != 0)
        return;
    p->port = (unsigned)(((const uint8_t *)g_port)[0] << 8 | ((const uint8_t *)g_port)[1]);
    if (g_host->type == xcm_addr_type_ip)
        decode_ip(p, &g_host->ip);
    else if (g_host->type == xcm_addr_type_name) {
        p->kind = H_NAME;
        const char *z = memchr(g_host->name, 0, sizeof g_host->name);
        p->name_term = z != NULL;
        size_t l = z ? (size_t)(z - g_host->name) : sizeof g_host->name;
        memcpy(p->name, g_host->name, l);
        p->name[l] = 0;
    }
}

static void call_ip6_parse(const struct fdesc *f, const char *in, size_t n, bool dup, struct pres *p)
{
    pres_reset(p);
    memset(g_ip, CANARY, sizeof *g_ip);
    *g_port = 0xA5A5;
    call_begin(f, in, n, dup);
    p->rc = f->u.ip6_parse(in, g_ip, g_port);
    p->err = errno;
    p->kind = H_NONE;
    if (p->rc != 0)
        return;
    p->port = (unsigned)(((const uint8_t *)g_port)[0] << 8 | ((const uint8_t *)g_port)[1]);
    decode_ip(p, g_ip);
}

static void call_ip4_parse(const struct fdesc *f, const char *in, size_t n, bool dup, struct pres *p)
{
    pres_reset(p);
    *g_ip4 = 0xA5A5A5A5;
    *g_port = 0xA5A5;
    call_begin(f, in, n, dup);
    p->rc = f->u.ip4_parse(in, g_ip4, g_port);
    p->err = errno;
    p->kind = H_NONE;
    p->touched = *g_ip4 != 0xA5A5A5A5 || *g_port != 0xA5A5;
    if (p->rc != 0)
        return;
    p->port = (unsigned)(((const uint8_t *)g_port)[0] << 8 | ((const uint8_t *)g_port)[1]);
    p->kind = H_IP4;
    p->family = AF_INET;
    memset(p->ip, 0, 16);
    memcpy(p->ip, g_ip4, 4);
}

/* ux/uxf parsers and xcm_addr_parse_proto: string output with a capacity */
static void call_str_parse(const struct fdesc *f, const char *in, size_t n, size_t cap, bool dup,
                           struct pres *p)
{
    pres_reset(p);
    char *o = out_buf(cap);
    call_begin(f, in, n, dup);
    cur.cap = cap;
    if (f->kind == FK_PROTO)
        p->rc = xcm_addr_parse_proto(in, o, cap);
    else
        p->rc = f->u.ux_parse(in, o, cap);
    p->err = errno;
    int dmg = out_damage(cap);
    p->underflow = dmg & 1;
    p->overflow = dmg & 2;
    p->ux_term = false;
    p->ux[0] = 0;
    if (p->rc != 0)
        return;
    const char *z = cap ? memchr(o, 0, cap) : NULL;
    p->ux_term = z != NULL;
    size_t l = z ? (size_t)(z - o) : cap;
    memcpy(p->ux, o, l);
    p->ux[l] = 0;
}

static void tb_pres(struct tb *b, const struct fdesc *f, const struct pres *p)
{
    if (p->rc != 0) {
        tb_f(b, "%d/%s", p->rc, ename(p->err));
        return;
    }
    tb_f(b, "0 ");
    if (f->kind == FK_UX_PARSE || f->kind == FK_UXC_PARSE || f->kind == FK_PROTO) {
        tb_cstr(b, p->ux, strlen(p->ux));
        return;
    }
    struct mhost h = { .kind = p->kind, .name = p->name, .name_len = strlen(p->name) };
    memcpy(h.ip, p->ip, 16);
    tb_host(b, &h);
    tb_f(b, " port %u", p->port);
}

static bool host_equal(const struct mhost *m, const struct pres *p)
{
    if (m->kind != p->kind)
        return false;
    if (m->kind == H_IP4)
        return memcmp(m->ip, p->ip, 4) == 0;
    if (m->kind == H_IP6)
        return memcmp(m->ip, p->ip, 16) == 0;
    return p->name_term && strlen(p->name) == m->name_len &&
        strncasecmp(p->name, m->name, m->name_len) == 0;
}

/* ====================================================================================== */
/* judging one parser input string: 19 library calls                                      */
/* ====================================================================================== */

/* components handed to make, for the round-trip clause (NULL for plain parser inputs) */
struct origin {
    const struct fdesc *made_by;
    int tp;
    const struct mhost *host;   /* host:port transports */
    bool canonical;             /* the host is one the documentation lets parse return as is */
    unsigned port;
    const char *ux; size_t ux_len;
};

static int short_len_tcp = 5, short_len_other = 4;      /* tier: L of the short-string family */
static int dd_len_tcp = -1, dd_len_other = -1;          /* L of the family as run by ANY pass of the
                                                         * check (for counting distinct states) */
static const char ALPHABET[] = "tcp:[]*.-+019a ";
#define NALPHA 15

/* is s a member of the exhaustive short-string family (ii) of this tier?  Used so that the
 * same (function, string) pair reached through another family is not counted twice. */
static bool in_short_family(const char *s, size_t n)
{
    int ltcp = dd_len_tcp > short_len_tcp ? dd_len_tcp : short_len_tcp;
    int loth = dd_len_other > short_len_other ? dd_len_other : short_len_other;
    size_t off = 0, lim = (size_t)loth;
    for (int t = 0; t < NT; t++) {
        size_t pl = strlen(tp_name[t]);
        if (n > pl && memcmp(s, tp_name[t], pl) == 0 && s[pl] == ':') {
            off = pl + 1;
            lim = t == T_TCP ? (size_t)ltcp : (size_t)loth;
            break;
        }
    }
    if (n - off > lim)
        return false;
    for (size_t i = off; i < n; i++)
        if (!memchr(ALPHABET, s[i], NALPHA))
            return false;
    return true;
}

static void one_parse(struct tb *one, const char *s, size_t n)
{
    one->n = 0;
    tb_f(one, "parse ");
    tb_pct(one, s, n);
    if (one_pcap >= 0)
        tb_f(one, " %ld", one_pcap);
}

static void parse_finding(const char *sig, const struct fdesc *f, const char *s, size_t n,
                          const struct pres *p, const char *fmt, ...) __attribute__((format(printf, 6, 7)));
static void parse_finding(const char *sig, const struct fdesc *f, const char *s, size_t n,
                          const struct pres *p, const char *fmt, ...)
{
    struct tb t = { 0 }, one = { 0 };
    char why[600];
    va_list ap;
    if (!finding_count(sig))
        return;
    va_start(ap, fmt);
    vsnprintf(why, sizeof why, fmt, ap);
    va_end(ap);
    tb_f(&t, "%s(", f->name);
    tb_cstr(&t, s, n);
    if (f->kind == FK_UX_PARSE || f->kind == FK_UXC_PARSE || f->kind == FK_PROTO)
        tb_f(&t, ", capacity=%zu", cur.cap);
    tb_f(&t, ") returned ");
    tb_pres(&t, f, p);
    tb_f(&t, "; %s", why);
    one_parse(&one, s, n);
    finding_emit(sig, &t, &one);
    free(t.p);
    free(one.p);
}

static void trace_call(const struct fdesc *f, const char *s, size_t n, const char *model,
                       const struct pres *p)
{
    struct tb t = { 0 };
    tb_f(&t, "%-22s(", f->name);
    tb_cstr(&t, s, n);
    tb_f(&t, ") -> ");
    tb_pres(&t, f, p);
    out_f("%s    [model: %s]\n", t.p, model);
    free(t.p);
}

static void maybe_sample(int kind, const char *cellname, const struct fdesc *f, const char *s, size_t n,
                         int mv, const char *model, const struct pres *p)
{
    if (!sample_wanted(kind, mv, p->rc == 0))
        return;
    struct tb c = { 0 }, i = { 0 };
    char cell[64];
    tb_f(&c, "%s(", f->name);
    tb_cstr(&c, s, n);
    tb_f(&c, ")");
    tb_pres(&i, f, p);
    snprintf(cell, sizeof cell, "%s/%s/%s", cellname, vname[mv], p->rc == 0 ? "accepted" : "rejected");
    sample(cell, &c, model, &i);
    free(c.p);
    free(i.p);
}

/* typed parser of transport tp against the model */
static void judge_typed(const struct fdesc *f, const char *s, size_t n, const struct mres *m,
                        const struct pres *p)
{
    char model[160];
    snprintf(model, sizeof model, "%s%s%s%s", vname[m->v], m->tag ? " (" : "", m->tag ? m->tag : "",
             m->tag ? ")" : "");
    st.cell[m->v][p->rc == 0]++;
    if (m->v == V_EITHER)
        st.either++;
    else
        st.validated++;
    if (verbose)
        trace_call(f, s, n, model, p);
    else
        maybe_sample(0, "parse", f, s, n, m->v, model, p);

    if (p->rc != 0 && p->rc != -1) {
        parse_finding("C12/parse-bad-rc", f, s, n, p, "the return value is neither 0 nor -1");
        return;
    }
    if (p->underflow)
        parse_finding("C12/parse-writes-outside/before-buffer", f, s, n, p,
                      "bytes in front of the output buffer were modified");
    if (p->overflow)
        parse_finding("C12/parse-writes-outside/after-buffer", f, s, n, p,
                      "bytes behind the output buffer (beyond capacity) were modified");
    if (p->rc == -1) {
        if (m->v == V_ACCEPT) {
            char sig[160];
            const char *cls = !m->hp ? "ux-name" : m->host.kind == H_IP4 ? "host=ipv4" :
                m->host.kind == H_IP6 ? "host=ipv6" : "host=name";
            snprintf(sig, sizeof sig, "C12/parse-rejects/%s", cls);
            parse_finding(sig, f, s, n, p, "the documented syntax makes this a valid %s address",
                          tp_name[f->tp]);
        } else if (p->err != EINVAL && p->err != ENAMETOOLONG) {
            struct tb t = { 0 };
            tb_f(&t, "%s rejected ", f->name);
            tb_cstr(&t, s, n);
            tb_f(&t, " with errno %s (documented: EINVAL)", ename(p->err));
            info("parse-errno", &t);
            free(t.p);
        }
        return;
    }
    /* accepted */
    if (m->v == V_EITHER && m->tag && strcmp(m->tag, "dns-name-odd-char") == 0) {
        char key[64];
        struct tb t = { 0 };
        snprintf(key, sizeof key, "dns-name-odd-char-accepted/byte=0x%02x", m->oddc);
        tb_f(&t, "%s accepts ", f->name);
        tb_cstr(&t, s, n);
        tb_f(&t, ": byte 0x%02x in a DNS name (outside letters, digits, '-', '.'; xcm.h is silent, no verdict)",
             m->oddc);
        info(key, &t);
        free(t.p);
    }
    if (m->v == V_REJECT) {
        char sig[160];
        const char *tag = m->tag;
        if (strcmp(tag, "port=out-of-range") == 0 && m->hp && dec_mod32(m->pf, m->pf_len) == p->port)
            tag = "port=wraps-int";
        snprintf(sig, sizeof sig, "C12/parse-accepts/%s", tag);
        parse_finding(sig, f, s, n, p, "the reference recogniser rejects it (%s)", tag);
        return;
    }
    if (!m->hp) {
        if (!p->ux_term || strlen(p->ux) != m->ux_len || memcmp(p->ux, m->ux, m->ux_len) != 0)
            parse_finding("C12/parse-wrong-value/ux-name", f, s, n, p,
                          "the name returned is not the text after the prefix%s",
                          p->ux_term ? "" : " (not NUL-terminated inside capacity)");
        return;
    }
    if (m->port >= 0 && p->port != (unsigned)m->port)
        parse_finding("C12/parse-wrong-value/port", f, s, n, p, "the port field denotes %ld", m->port);
    if (p->kind == H_NONE)
        parse_finding("C12/parse-wrong-value/host=bad-type", f, s, n, p,
                      "the host returned has neither a valid type nor a valid family (%d)", p->family);
    else if (p->kind == H_NAME && !p->name_term)
        parse_finding("C12/parse-wrong-value/host=unterminated-name", f, s, n, p,
                      "the name returned has no NUL inside struct xcm_addr_host");
    else if (!m->host_free && !host_equal(&m->host, p)) {
        /* alt_name: the host text itself, returned as a DNS name, is acceptable as well */
        bool ok = false;
        if (m->alt_name) {
            struct mhost as_name = { .kind = H_NAME };
            const char *c = memchr(s, ':', n);
            as_name.name = c + 1;
            as_name.name_len = (size_t)(m->pf - 1 - as_name.name);
            ok = host_equal(&as_name, p);
        }
        if (!ok) {
            struct tb t = { 0 };
            tb_host(&t, &m->host);
            parse_finding("C12/parse-wrong-value/host", f, s, n, p, "the host field denotes %s", t.p);
            free(t.p);
        }
    }
}

/* xcm_addr_parse_proto(s, proto, cap): splits off the transport name */
static void judge_proto(const char *s, size_t n, size_t cap, const struct pres *p, bool known_valid)
{
    const struct fdesc *f = &F_PROTO;
    const char *c = memchr(s, ':', n);
    size_t pl = c ? (size_t)(c - s) : 0;
    enum verdict v;
    const char *tag = NULL;
    const char *wst = m_whitespace(-1, s, n);
    if (wst) { v = V_REJECT; tag = wst; }
    else if (!c) { v = V_REJECT; tag = "proto=missing"; }
    else if (pl + 1 > cap) { v = V_REJECT; tag = "capacity-too-small"; }
    else if (known_valid) v = V_ACCEPT;
    else { v = V_EITHER; tag = "rest-not-a-valid-address"; }
    if (v == V_EITHER)
        st.either++;
    else
        st.validated++;
    if (verbose) {
        char model[96];
        snprintf(model, sizeof model, "%s%s%s", vname[v], tag ? " " : "", tag ? tag : "");
        trace_call(f, s, n, model, p);
    } else
        maybe_sample(1, "parse_proto", f, s, n, v, tag ? tag : vname[v], p);
    if (p->underflow)
        parse_finding("C12/parse-writes-outside/before-buffer", f, s, n, p,
                      "bytes in front of the output buffer were modified");
    if (p->overflow)
        parse_finding("C12/parse-writes-outside/after-buffer", f, s, n, p,
                      "bytes behind the output buffer (beyond capacity) were modified");
    if (p->rc != 0 && p->rc != -1)
        parse_finding("C12/parse-bad-rc", f, s, n, p, "the return value is neither 0 nor -1");
    else if (p->rc == 0 && v == V_REJECT) {
        char sig[120];
        snprintf(sig, sizeof sig, "C12/parse_proto-accepts/%s", tag);
        parse_finding(sig, f, s, n, p, "must fail: %s", tag);
    } else if (p->rc == -1 && v == V_ACCEPT)
        parse_finding("C12/parse_proto-rejects/valid-address", f, s, n, p,
                      "the string is a valid address and the buffer holds %zu bytes", cap);
    else if (p->rc == 0 && (!p->ux_term || strlen(p->ux) != pl || memcmp(p->ux, s, pl) != 0))
        parse_finding("C12/parse_proto-wrong-value", f, s, n, p,
                      "the transport name is the text in front of the first ':'%s",
                      p->ux_term ? "" : " (result not NUL-terminated inside capacity)");
}

#define UX_OUT_CAP (M_UX_MAX + 1)       /* smallest buffer that holds every legal name */
#define PROTO_OUT_CAP 33

/* all calls on one string; dup: this string is also a member of another family (do not count
 * its calls as new states); org: the components make was given (round trip) */
static void check_string(const char *s, size_t n, bool dup, const struct origin *org)
{
    char *in = in_block(s, n);
    struct pres p, prim[NT];
    struct mres m, mown;
    bool impl_ok[NT], any_ok = false;
    int own = -1;               /* the transport named by the prefix, if known */
    const char *c = memchr(in, ':', n);
    if (c)
        own = tp_by_name(in, (size_t)(c - in), NULL);
    bool nontrivial = own >= 0 && (size_t)(c - in) + 1 < n;
    memset(&mown, 0, sizeof mown);

    st.strings++;
    for (int t = 0; t < NT; t++) {
        const struct fdesc *f = t < NHP ? &F_HP_PARSE[t] : &F_UX_PARSE[t - NHP];
        m_parse(t, in, n, &m);
        if (t < NHP)
            call_hp_parse(f, in, n, dup, &prim[t]);
        else
            call_str_parse(f, in, n, UX_OUT_CAP, dup, &prim[t]);
        if (!(t < NHP))
            cur.cap = UX_OUT_CAP;
        judge_typed(f, in, n, &m, &prim[t]);
        impl_ok[t] = prim[t].rc == 0;
        any_ok |= impl_ok[t];
        if (t == own) {
            mown = m;
            if (nontrivial && !dup)
                st.nontrivial++;
        }
    }

    /* round trip: parse(make(components)) == components */
    if (org) {
        const struct pres *r = &prim[org->tp];
        const struct fdesc *f = org->tp < NHP ? &F_HP_PARSE[org->tp] : &F_UX_PARSE[org->tp - NHP];
        st.roundtrips++;
        if (org->canonical) {
            char sig[160];
            bool bad;
            if (org->tp < NHP)
                bad = r->rc != 0 || r->port != org->port || !host_equal(org->host, r);
            else
                bad = r->rc != 0 || !r->ux_term || strlen(r->ux) != org->ux_len ||
                    memcmp(r->ux, org->ux, org->ux_len) != 0;
            if (bad) {
                snprintf(sig, sizeof sig, "C12/roundtrip-mismatch/fn=%s/%s",
                         org->tp < NHP ? "host_port" : "ux_uxf",
                         r->rc != 0 ? "result-rejected" : "components-differ");
                parse_finding(sig, f, in, n, r, "the string was produced by %s from other components",
                              org->made_by->name);
            }
        }
    }

    /* xcm_addr_is_valid / is_supported: must agree with the typed parsers */
    call_begin(&F_VALID, in, n, dup);
    bool valid = xcm_addr_is_valid(in);
    st.validated++;
    if (nontrivial && !dup)
        st.nontrivial++;
    call_begin(&F_SUPPORTED, in, n, dup);
    bool supported = xcm_addr_is_supported(in);
    st.validated++;
    if (nontrivial && !dup)
        st.nontrivial++;
    if (verbose)
        out_f("xcm_addr_is_valid -> %d, xcm_addr_is_supported -> %d   [typed parsers accept: %s]\n",
              valid, supported, any_ok ? "yes" : "no");
    else if (sample_wanted(2, own >= 0 ? mown.v : V_REJECT, valid)) {
        struct tb cl = { 0 }, im = { 0 };
        tb_f(&cl, "xcm_addr_is_valid(");
        tb_cstr(&cl, in, n);
        tb_f(&cl, ")");
        tb_f(&im, "%s (typed parsers: %s)", valid ? "true" : "false", any_ok ? "one accepts" : "all reject");
        sample(valid ? "is_valid/true" : "is_valid/false", &cl, own >= 0 ? vname[mown.v] : "must-reject (proto)", &im);
        free(cl.p);
        free(im.p);
    }
    memset(&p, 0, sizeof p);
    p.rc = valid ? 0 : -1;
    p.err = 0;
    {
        const char *wst = m_whitespace(own, in, n);
        /* (when a typed parser accepted the string too, that parser's finding already says it) */
        if (wst && (valid || supported) && !any_ok) {
            char sig[160];
            struct tb t = { 0 }, one = { 0 };
            snprintf(sig, sizeof sig, "C12/is_valid-accepts/%s", wst);
            tb_f(&t, "%s(", valid ? "xcm_addr_is_valid" : "xcm_addr_is_supported");
            tb_cstr(&t, in, n);
            tb_f(&t, ") = true although the string contains white space (%s): an address is a single "
                 "token, no documented form contains blanks or line breaks", wst);
            one_parse(&one, in, n);
            finding(sig, &t, &one);
            free(t.p);
            free(one.p);
        }
    }
    if (valid != any_ok) {
        char sig[160];
        int which = -1;
        for (int t = 0; t < NT; t++)
            if (impl_ok[t])
                which = t;
        if (valid)
            snprintf(sig, sizeof sig, "C12/parse-disagrees-with-is_valid/valid-but-no-parser-accepts");
        else
            snprintf(sig, sizeof sig, "C12/parse-disagrees-with-is_valid/parsed-by=%s-but-invalid", tp_name[which]);
        struct tb t = { 0 }, one = { 0 };
        tb_f(&t, "xcm_addr_is_valid(");
        tb_cstr(&t, in, n);
        tb_f(&t, ") = %s but %s", valid ? "true" : "false",
             valid ? "none of the eight typed parsers accepts the string" : "a typed parser accepts it: ");
        if (which >= 0)
            tb_f(&t, "xcm_addr_parse_%s", tp_name[which]);
        one_parse(&one, in, n);
        finding(sig, &t, &one);
        free(t.p);
        free(one.p);
    }
    if (supported && !valid) {
        struct tb t = { 0 }, one = { 0 };
        tb_f(&t, "xcm_addr_is_supported(");
        tb_cstr(&t, in, n);
        tb_f(&t, ") = true but xcm_addr_is_valid = false");
        one_parse(&one, in, n);
        finding("C12/parse-disagrees-with-is_valid/supported-but-invalid", &t, &one);
        free(t.p);
        free(one.p);
    }

    /* xcm_addr_parse_proto */
    call_str_parse(&F_PROTO, in, n, PROTO_OUT_CAP, dup, &p);
    judge_proto(in, n, PROTO_OUT_CAP, &p, own >= 0 && mown.v == V_ACCEPT);
    if (nontrivial && !dup)
        st.nontrivial++;

    /* compat parsers: thin views of the primary parsers, checked differentially */
    for (int k = 0; k < 8; k++) {
        const struct fdesc *f = k < 4 ? &F_IP6_PARSE[k] : k < 7 ? &F_IP4_PARSE[k - 4] : &F_UXC_PARSE;
        const struct pres *r = &prim[f->tp];
        bool want;
        if (k < 4) {
            call_ip6_parse(f, in, n, dup, &p);
            want = r->rc == 0 && (r->kind == H_IP4 || r->kind == H_IP6);
        } else if (k < 7) {
            call_ip4_parse(f, in, n, dup, &p);
            want = r->rc == 0 && r->kind == H_IP4;
        } else {
            call_str_parse(f, in, n, UX_OUT_CAP, dup, &p);
            want = r->rc == 0;
        }
        st.validated++;
        if (nontrivial && !dup && f->tp == own)
            st.nontrivial++;
        if (verbose)
            trace_call(f, in, n, want ? "as primary parser: accept" : "as primary parser: reject", &p);
        else
            maybe_sample(3, "compat", f, in, n, want ? V_ACCEPT : V_REJECT,
                         want ? "same as primary parser: accept" : "primary parser rejects or host not representable", &p);
        if (p.rc == 0) {
            const char *wst = m_whitespace(f->tp, in, n);
            if (wst) {
                char sig[160];
                snprintf(sig, sizeof sig, "C12/parse-accepts/%s", wst);
                parse_finding(sig, f, in, n, &p, "the string contains white space (%s); an address is a "
                              "single token, no documented form contains blanks or line breaks", wst);
            }
        }
        /* the pre-IPv6 entry points (in_addr_t result) cannot represent an IPv6 host or [*]: by the
         * MODEL's reading of the string (not the current parser's) they must refuse it, with EINVAL
         * and without having stored anything */
        bool legacy6 = k >= 4 && k < 7 && f->tp == own && mown.hp && mown.v != V_REJECT &&
            !mown.host_free && mown.host.kind == H_IP6;
        bool legacy6_def = legacy6 && mown.v == V_ACCEPT;      /* errno / outputs: definite strings only */
        if (legacy6) {
            if (p.rc == 0)
                parse_finding("C12/legacy-ipv4-parse-accepts/host=ipv6", f, in, n, &p,
                              "the host is an IPv6 address (or [*]); an in_addr_t cannot hold it - the first "
                              "four of its sixteen bytes were returned as an IPv4 address");
            else if (legacy6_def && p.rc == -1 && p.err != EINVAL)
                parse_finding("C12/legacy-ipv4-parse/host=ipv6/errno-not-EINVAL", f, in, n, &p,
                              "an IPv6 host must be refused with EINVAL");
            if (legacy6_def && p.rc != 0 && p.touched)
                parse_finding("C12/legacy-ipv4-parse/host=ipv6/outputs-modified", f, in, n, &p,
                              "the call failed but *ip / *port no longer hold what they held before it");
        }
        bool same = (p.rc == 0) == want;
        if (legacy6 && p.rc == 0)
            same = true;        /* said above, with the specific signature */
        if (same && want) {
            if (k < 7)
                same = p.port == r->port && p.kind == r->kind &&
                    memcmp(p.ip, r->ip, p.kind == H_IP4 ? 4 : 16) == 0;
            else
                same = strcmp(p.ux, r->ux) == 0;
        }
        if (!same) {
            char sig[160];
            snprintf(sig, sizeof sig, "C12/compat-parse-disagrees/fn=%s", f->name);
            parse_finding(sig, f, in, n, &p, "xcm_addr_parse_%s on the same string %s", tp_name[f->tp],
                          r->rc == 0 ? "accepts (result differs or is not representable)" : "rejects");
        }
    }
    cur.fn = NULL;
    in_release(in, n);
}

/* a top-level parser case (counted, resumable) */
static void string_case(const char *s, size_t n, bool dup, const struct origin *org)
{
    if (case_idx >= from_idx) {
        check_string(s, n, dup, org);
        st.cases++;
    }
    case_idx++;
}

/* ====================================================================================== */
/* make: one (function, components) tuple swept over every capacity                       */
/* ====================================================================================== */

struct mres_make { int rc, err; bool term; size_t len; char s[OUT_BLK + 1]; bool underflow, overflow; };

static void tb_one_make(struct tb *b, const struct fdesc *f, const struct mhost *h, const char *ux,
                        size_t ux_len, unsigned port, size_t cap)
{
    tb_f(b, "%s ", f->name + strlen("xcm_addr_"));
    if (f->kind == FK_UX_MAKE || f->kind == FK_UXC_MAKE) {
        tb_pct(b, ux, ux_len);
        tb_f(b, " %zu", cap);
    } else {
        tb_hostspec(b, h);
        tb_f(b, " %u %zu", port, cap);
    }
}

static void tb_make_call(struct tb *b, const struct fdesc *f, const struct mhost *h, const char *ux,
                         size_t ux_len, unsigned port, size_t cap)
{
    tb_f(b, "%s(", f->name);
    if (f->kind == FK_UX_MAKE || f->kind == FK_UXC_MAKE) {
        if (ux_len > 24)
            tb_f(b, "name = %zu x '%c'", ux_len, ux[0]);
        else
            tb_cstr(b, ux, ux_len);
    } else {
        tb_host(b, h);
        tb_f(b, ", port %u", port);
    }
    tb_f(b, ", capacity=%zu)", cap);
}

/* one library call; the output buffer ends at the end of its heap block */
static void call_make(const struct fdesc *f, const struct mhost *h, const char *ux, size_t ux_len,
                      unsigned port, size_t cap, struct mres_make *r)
{
    static char *uxarg;         /* exact heap copy of the name argument */
    static size_t uxarg_len = (size_t)-1;
    char *o = out_buf(cap);
    uint16_t nport = (uint16_t)((port & 0xff) << 8 | port >> 8);        /* network order ... */
    uint8_t pb[2] = { (uint8_t)(port >> 8), (uint8_t)(port & 0xff) };   /* ... on any host */
    memcpy(&nport, pb, 2);

    cur.fn = f->name;
    cur.is_make = true;
    cur.host = h;
    cur.ux = ux;
    cur.ux_len = ux_len;
    cur.port = port;
    cur.cap = cap;
    st.calls++;
    st.states++;
    st.validated++;
    if (cap >= 1)
        st.nontrivial++;
    errno = 0;
    switch (f->kind) {
    case FK_HP_MAKE: {
        memset(g_host, 0, sizeof *g_host);
        if (h->kind == H_NAME) {
            g_host->type = xcm_addr_type_name;
            memcpy(g_host->name, h->name, h->name_len);
            g_host->name[h->name_len] = 0;
        } else {
            g_host->type = xcm_addr_type_ip;
            g_host->ip.family = h->kind == H_IP4 ? AF_INET : AF_INET6;
            memcpy(&g_host->ip.addr, h->ip, h->kind == H_IP4 ? 4 : 16);
        }
        r->rc = f->u.hp_make(g_host, nport, o, cap);
        break;
    }
    case FK_IP6_MAKE:
        memset(g_ip, 0, sizeof *g_ip);
        g_ip->family = h->kind == H_IP4 ? AF_INET : AF_INET6;
        memcpy(&g_ip->addr, h->ip, h->kind == H_IP4 ? 4 : 16);
        r->rc = f->u.ip6_make(g_ip, nport, o, cap);
        break;
    case FK_IP4_MAKE: {
        in_addr_t a;
        memcpy(&a, h->ip, 4);
        r->rc = f->u.ip4_make(a, nport, o, cap);
        break;
    }
    default:
        if (uxarg_len != ux_len || memcmp(uxarg, ux, ux_len) != 0) {
            free(uxarg);
            uxarg = malloc(ux_len + 1);
            memcpy(uxarg, ux, ux_len);
            uxarg[ux_len] = 0;
            uxarg_len = ux_len;
        }
        r->rc = f->u.ux_make(uxarg, o, cap);
    }
    r->err = errno;
    cur.fn = NULL;
    int dmg = out_damage(cap);
    r->underflow = dmg & 1;
    r->overflow = dmg & 2;
    const char *z = cap ? memchr(o, 0, cap) : NULL;
    r->term = z != NULL;
    r->len = z ? (size_t)(z - o) : cap;
    memcpy(r->s, o, r->len);
    r->s[r->len] = 0;
    if (r->rc == 0)
        st.make_ok++;
    else
        st.make_fail++;
}

static const char *make_family(const struct fdesc *f, const struct mhost *h)
{
    if (f->kind == FK_UX_MAKE || f->kind == FK_UXC_MAKE)
        return "fn=ux_uxf_make";
    return h->kind == H_NAME ? "fn=host_port_make/host=name" : "fn=host_port_make/host=ip";
}

static void make_finding(const char *clause, const char *shape, const struct fdesc *f,
                         const struct mhost *h, const char *ux, size_t ux_len, unsigned port,
                         size_t cap, const struct mres_make *r, const char *fmt, ...)
    __attribute__((format(printf, 10, 11)));
static void make_finding(const char *clause, const char *shape, const struct fdesc *f,
                         const struct mhost *h, const char *ux, size_t ux_len, unsigned port,
                         size_t cap, const struct mres_make *r, const char *fmt, ...)
{
    struct tb t = { 0 }, one = { 0 };
    char sig[200], why[600];
    va_list ap;
    snprintf(sig, sizeof sig, "C12/%s/%s%s%s", clause, make_family(f, h), shape[0] ? "/" : "", shape);
    if (!finding_count(sig))
        return;
    va_start(ap, fmt);
    vsnprintf(why, sizeof why, fmt, ap);
    va_end(ap);
    tb_make_call(&t, f, h, ux, ux_len, port, cap);
    if (r->rc == 0) {
        tb_f(&t, " returned 0 and the buffer holds ");
        if (r->term)
            tb_cstr(&t, r->s, r->len);
        else
            tb_f(&t, "no NUL within capacity");
    } else
        tb_f(&t, " returned %d/%s", r->rc, ename(r->err));
    tb_f(&t, "; %s", why);
    tb_one_make(&one, f, h, ux, ux_len, port, cap);
    finding_emit(sig, &t, &one);
    free(t.p);
    free(one.p);
}

/* Is `s` a complete, correct address of the components?  IPv4, names and ux have exactly one
 * text; for IPv6 any RFC 4291 text of the same sixteen bytes will do. */
static bool make_text_ok(const struct fdesc *f, const struct mhost *h, const char *ux, size_t ux_len,
                         unsigned port, const char *s, size_t n, const struct tb *canon)
{
    if (n == canon->n && memcmp(s, canon->p, n) == 0)
        return true;
    if (f->kind == FK_UX_MAKE || f->kind == FK_UXC_MAKE || h->kind != H_IP6)
        return false;
    (void)ux; (void)ux_len;
    struct mres m;
    m_parse(f->tp, s, n, &m);
    return m.v == V_ACCEPT && m.port == (long)port && m.host.kind == H_IP6 &&
        memcmp(m.host.ip, h->ip, 16) == 0;
}

#define REF_CAP 640             /* large enough for every address the model can produce */

/* valid: the components are inside the documented domain (ux name <= 107) */
static void make_tuple(const struct fdesc *f, const struct mhost *h, const char *ux, size_t ux_len,
                       unsigned port, bool valid, bool canonical, bool roundtrip,
                       long only_cap /* --one: just this capacity, -1: sweep */)
{
    static struct tb canon, call, impl;
    struct mres_make ref, r;
    bool is_ux = f->kind == FK_UX_MAKE || f->kind == FK_UXC_MAKE;

    if (case_idx < from_idx) {
        case_idx++;
        return;
    }
    st.make_tuples++;
    st.cases++;
    f_addr(&canon, f->tp, h, ux, ux_len, port);

    /* reference call with ample room: fixes the full text and its length */
    call_make(f, h, ux, ux_len, port, REF_CAP, &ref);
    bool ref_ok = false;
    if (!valid) {
        /* over-long ux name: must fail whatever the capacity */
        if (ref.rc == 0)
            make_finding("make-accepts", "ux-name=too-long", f, h, ux, ux_len, port, REF_CAP, &ref,
                         "a %zu-byte name exceeds the %d-byte limit, EINVAL expected", ux_len, M_UX_MAX);
        else if (ref.rc != -1 || (ref.err != EINVAL && ref.err != ENAMETOOLONG))
            make_finding("make-bad-errno", "", f, h, ux, ux_len, port, REF_CAP, &ref,
                         "-1 with EINVAL or ENAMETOOLONG expected");
    } else if (is_ux && ux_len == 0) {
        /* the empty name: no verdict on acceptance */
        ref_ok = ref.rc == 0 && ref.term && make_text_ok(f, h, ux, ux_len, port, ref.s, ref.len, &canon);
        if (ref.rc == 0 && !ref_ok)
            make_finding("make-wrong-string", "", f, h, ux, ux_len, port, REF_CAP, &ref,
                         "expected \"%s\"", canon.p);
    } else if (ref.rc == 0 && ref.term && make_text_ok(f, h, ux, ux_len, port, ref.s, ref.len, &canon))
        ref_ok = true;
    else if (ref.rc == 0)
        make_finding("make-wrong-string", "", f, h, ux, ux_len, port, REF_CAP, &ref,
                     "expected \"%s\"", canon.p);
    else if (ref.rc == -1 && (ref.err == ENAMETOOLONG || ref.err == EINVAL))
        make_finding("make-fails-with-room", "", f, h, ux, ux_len, port, REF_CAP, &ref,
                     "the address \"%s\" needs %zu bytes", canon.p, canon.n + 1);
    else
        make_finding("make-bad-errno", "", f, h, ux, ux_len, port, REF_CAP, &ref,
                     "0, or -1 with ENAMETOOLONG/EINVAL expected");
    if (ref.underflow)
        make_finding("make-writes-outside", "before-buffer", f, h, ux, ux_len, port, REF_CAP, &ref,
                     "bytes in front of the buffer were modified");
    if (ref.overflow)
        make_finding("make-writes-outside", "after-buffer", f, h, ux, ux_len, port, REF_CAP, &ref,
                     "bytes behind the buffer (beyond capacity) were modified");
    if (ref_ok && h && h->kind == H_IP6 && (ref.len != canon.n || memcmp(ref.s, canon.p, canon.n) != 0)) {
        struct tb t = { 0 };
        tb_f(&t, "%s writes \"%s\" where RFC 5952 would write \"%s\" (same address; not a verdict)",
             f->name, ref.s, canon.p);
        info("ipv6-text-not-rfc5952", &t);
        free(t.p);
    }

    const char *full = ref_ok ? ref.s : canon.p;
    size_t len = ref_ok ? ref.len : canon.n;
    size_t lo = only_cap >= 0 ? (size_t)only_cap : 0, hi = only_cap >= 0 ? (size_t)only_cap : len + 2;

    for (size_t cap = lo; cap <= hi; cap++) {
        call_make(f, h, ux, ux_len, port, cap, &r);
        const char *shape = cap < len ? "capacity=below-len" : cap == len ? "capacity=len" :
            cap == len + 1 ? "capacity=len+1" : "capacity=above-len+1";
        bool room = cap >= len + 1;
        int mv = !valid ? V_REJECT : room ? V_ACCEPT : V_REJECT;
        if (verbose || sample_wanted(4, mv == V_ACCEPT ? 1 : 0, r.rc == 0)) {
            call.n = impl.n = 0;
            tb_make_call(&call, f, h, ux, ux_len, port, cap);
            if (r.rc == 0) {
                tb_f(&impl, "0 ");
                tb_cstr(&impl, r.s, r.len);
                if (!r.term)
                    tb_f(&impl, " (no NUL)");
            } else
                tb_f(&impl, "%d/%s", r.rc, ename(r.err));
            char model[200];
            if (mv == V_ACCEPT)
                snprintf(model, sizeof model, "0 with the %zu-character address", len);
            else
                snprintf(model, sizeof model, "-1/%s (%s)", valid ? "ENAMETOOLONG" : "EINVAL",
                         valid ? "address needs len+1 bytes" : "name too long");
            if (verbose)
                out_f("%s -> %s    [model: %s]\n", call.p, impl.p, model);
            else {
                char cell[64];
                snprintf(cell, sizeof cell, "make/%s/%s", mv == V_ACCEPT ? "fits" : "does-not-fit",
                         r.rc == 0 ? "success" : "failure");
                sample(cell, &call, model, &impl);
            }
        }
        if (r.underflow)
            make_finding("make-writes-outside", "before-buffer", f, h, ux, ux_len, port, cap, &r,
                         "bytes in front of the buffer were modified");
        if (r.overflow)
            make_finding("make-writes-outside", "after-buffer", f, h, ux, ux_len, port, cap, &r,
                         "bytes behind the buffer (beyond capacity) were modified");
        if (r.rc == 0) {
            if (!valid) {
                make_finding("make-accepts", "ux-name=too-long", f, h, ux, ux_len, port, cap, &r,
                             "a %zu-byte name exceeds the %d-byte limit", ux_len, M_UX_MAX);
                continue;
            }
            if (is_ux && ux_len == 0 && !ref_ok)
                continue;
            bool complete = r.term && r.len == len && memcmp(r.s, full, len) == 0;
            if (complete)
                continue;
            bool prefix = r.len < len && memcmp(r.s, full, r.len) == 0;
            if (prefix)
                make_finding("make-truncated-success", shape, f, h, ux, ux_len, port, cap, &r,
                             "that is %zu of the %zu characters of \"%s\": a truncated address "
                             "reported as success (-1/ENAMETOOLONG expected)", r.len, len, full);
            else
                make_finding("make-wrong-string", shape, f, h, ux, ux_len, port, cap, &r,
                             "expected \"%s\"", full);
        } else if (r.rc == -1) {
            if (r.err != ENAMETOOLONG && r.err != EINVAL)
                make_finding("make-bad-errno", shape, f, h, ux, ux_len, port, cap, &r,
                             "ENAMETOOLONG or EINVAL expected");
            else if (valid && room && ref_ok)
                make_finding("make-fails-with-room", shape, f, h, ux, ux_len, port, cap, &r,
                             "the %zu-character address fits into %zu bytes", len, cap);
        } else
            make_finding("make-bad-rc", shape, f, h, ux, ux_len, port, cap, &r,
                         "the return value is neither 0 nor -1");
    }

    /* (i) the complete string goes back through every parser */
    if (ref_ok && roundtrip) {
        struct origin o = { .made_by = f, .tp = f->tp, .host = h, .canonical = canonical,
                            .port = port, .ux = ux, .ux_len = ux_len };
        if (is_ux && ux_len == 0)
            o.canonical = false;
        check_string(ref.s, ref.len, in_short_family(ref.s, ref.len), &o);
    }
    case_idx++;
}

/* ====================================================================================== */
/* the enumerated families                                                                */
/* ====================================================================================== */

/* host table of the make families.  The first three are swept over ALL ports. */
struct hostdef { const char *spec; bool canonical; };
static const struct hostdef HOSTDEFS[] = {
    { "4/192.168.1.42", true },                         /* all ports */
    { "6/2001:db8:85a3::8a2e:370:7334", true },         /* all ports */
    { "n/service.company.com", true },                  /* all ports */
    { "4/0.0.0.0", true }, { "4/255.255.255.255", true }, { "4/127.0.0.1", true },
    { "4/1.2.3.4", true }, { "4/10.0.0.1", true }, { "4/100.100.100.100", true },
    { "6/::", true }, { "6/::1", true }, { "6/::ffff:1.2.3.4", true },
    { "6/::ffff:255.255.255.255", true }, { "6/::1.2.3.4", true },
    { "6/ffff:ffff:ffff:ffff:ffff:ffff:ffff:ffff", true }, { "6/2001:db8::1", true },
    { "6/fe80::1", true }, { "6/1:0:0:2:0:0:0:3", true }, { "6/1:2:3:4:5:6:7:8", true },
    { "6/0:0:1::", true }, { "6/1::", true }, { "6/64:ff9b::102:304", true },
    /* the wildcards have no binary form of their own: handed to make as host NAMES they come
     * back from parse as 0.0.0.0 / :: -- not canonical, the round trip is judged by the model */
    { "n/*", false }, { "n/[*]", false },
    { "n/a", true }, { "n/L63", true }, { "n/L253", true }, { "n/x1.example-host.org", true },
    { "n/EXAMPLE.Com", true },
};
#define N_HOSTS ((int)(sizeof HOSTDEFS / sizeof HOSTDEFS[0]))
#define N_ALLPORT_HOSTS 3
static struct mhost HOSTS[sizeof HOSTDEFS / sizeof HOSTDEFS[0]];

/* a syntactically plain DNS name of exactly n characters (labels of at most 63) */
static char *dns_name_of_len(size_t n, char fill)
{
    char *s = malloc(n + 1);
    for (size_t i = 0; i < n; i++)
        s[i] = (i % 64 == 63 && i != n - 1) ? '.' : fill;
    s[n] = 0;
    return s;
}

static bool hostspec_parse(const char *spec, struct mhost *h)
{
    bool lz;
    memset(h, 0, sizeof *h);
    if (spec[0] == '4' && spec[1] == '/') {
        h->kind = H_IP4;
        return m_ipv4(spec + 2, strlen(spec + 2), h->ip, &lz);
    }
    if (spec[0] == '6' && spec[1] == '/') {
        h->kind = H_IP6;
        return m_ipv6(spec + 2, strlen(spec + 2), h->ip) != V_REJECT;
    }
    if (spec[0] == 'n' && spec[1] == '/') {
        h->kind = H_NAME;
        if (strcmp(spec + 2, "L63") == 0)
            h->name = dns_name_of_len(63, 'a');
        else if (strcmp(spec + 2, "L253") == 0)
            h->name = dns_name_of_len(253, 'a');
        else {
            size_t n;
            h->name = pct_decode(spec + 2, &n);
        }
        h->name_len = strlen(h->name);
        return h->name_len <= 253;
    }
    return false;
}

static bool make_applicable(const struct fdesc *f, const struct mhost *h)
{
    switch (f->kind) {
    case FK_HP_MAKE: return true;
    case FK_IP6_MAKE: return h->kind != H_NAME;
    case FK_IP4_MAKE: return h->kind == H_IP4;
    default: return false;
    }
}

/* make-all: one make function, one host, ports [p0,p1) x capacities 0..len+2 */
static void fam_make_allports(int fi, int hi, unsigned p0, unsigned p1)
{
    const struct fdesc *f = &F_MAKE[fi];
    /* the string is parsed back once per transport: by the primary make function */
    for (unsigned p = p0; p < p1; p++)
        make_tuple(f, &HOSTS[hi], NULL, 0, p, true, HOSTDEFS[hi].canonical, f->kind == FK_HP_MAKE, -1);
}

static const unsigned BOUNDARY_PORTS[] = { 0, 9, 10, 99, 100, 999, 1000, 9999, 10000, 65535 };

/* make-bnd: every make function x host hi x port-width boundaries x capacities */
static void fam_make_boundary(int hi)
{
    for (int fi = 0; fi < N_HOSTMAKE; fi++) {
        if (!make_applicable(&F_MAKE[fi], &HOSTS[hi]))
            continue;
        for (size_t k = 0; k < sizeof BOUNDARY_PORTS / sizeof BOUNDARY_PORTS[0]; k++)
            make_tuple(&F_MAKE[fi], &HOSTS[hi], NULL, 0, BOUNDARY_PORTS[k], true,
                       HOSTDEFS[hi].canonical, F_MAKE[fi].kind == FK_HP_MAKE, -1);
    }
}

/* make-ux: names around the 107-byte limit x capacities */
static void fam_make_ux(void)
{
    static const size_t LENS[] = { 0, 1, 2, 106, 107, 108, 109 };
    for (int fi = N_HOSTMAKE; fi < N_MAKE; fi++)
        for (size_t k = 0; k < sizeof LENS / sizeof LENS[0]; k++) {
            char name[128];
            memset(name, 'n', LENS[k]);
            name[LENS[k]] = 0;
            make_tuple(&F_MAKE[fi], NULL, name, LENS[k], 0, LENS[k] <= M_UX_MAX, true,
                       F_MAKE[fi].kind == FK_UX_MAKE, -1);
        }
}

/* (ii) prefix + head + every tail of length 0..tailmax over the alphabet.
 * pfx: transport index or NT for "no prefix"; head: fixed leading characters. */
static void fam_short(int pfx, const char *head, int tailmax)
{
    char buf[64];
    size_t base = 0;
    if (pfx < NT)
        base = (size_t)sprintf(buf, "%s:", tp_name[pfx]);
    base += (size_t)sprintf(buf + base, "%s", head);
    for (int tl = 0; tl <= tailmax; tl++) {
        int idx[8] = { 0 };
        for (;;) {
            for (int k = 0; k < tl; k++)
                buf[base + (size_t)k] = ALPHABET[idx[k]];
            buf[base + (size_t)tl] = 0;
            /* "tcp:..." reached without a prefix is the tcp-prefixed family's string */
            if (!(pfx == NT && strncmp(buf, "tcp:", 4) == 0))
                string_case(buf, base + (size_t)tl, false, NULL);
            int k = tl - 1;
            while (k >= 0 && ++idx[k] == NALPHA)
                idx[k--] = 0;
            if (k < 0)
                break;
        }
    }
}

/* exact de-duplication inside the structured families (a few 10^5 strings) */
static struct { char **v; size_t *l; size_t cap, n; } seen;

static bool seen_before(const char *s, size_t n)
{
    if (seen.n * 2 >= seen.cap) {
        size_t ncap = seen.cap ? seen.cap * 2 : 1 << 16;
        char **nv = calloc(ncap, sizeof *nv);
        size_t *nl = calloc(ncap, sizeof *nl);
        for (size_t i = 0; i < seen.cap; i++)
            if (seen.v[i]) {
                uint64_t h = 1469598103934665603ull;
                for (size_t k = 0; k < seen.l[i]; k++)
                    h = (h ^ (unsigned char)seen.v[i][k]) * 1099511628211ull;
                size_t j = h & (ncap - 1);
                while (nv[j])
                    j = (j + 1) & (ncap - 1);
                nv[j] = seen.v[i];
                nl[j] = seen.l[i];
            }
        free(seen.v);
        free(seen.l);
        seen.v = nv;
        seen.l = nl;
        seen.cap = ncap;
    }
    uint64_t h = 1469598103934665603ull;
    for (size_t k = 0; k < n; k++)
        h = (h ^ (unsigned char)s[k]) * 1099511628211ull;
    size_t j = h & (seen.cap - 1);
    while (seen.v[j]) {
        if (seen.l[j] == n && memcmp(seen.v[j], s, n) == 0)
            return true;
        j = (j + 1) & (seen.cap - 1);
    }
    seen.v[j] = malloc(n + 1);
    memcpy(seen.v[j], s, n);
    seen.l[j] = n;
    seen.n++;
    return false;
}

/* a structured-family string: skipped if already produced in this batch, not counted as a new
 * state if it belongs to the short family */
static void S(const char *s, size_t n)
{
    if (seen_before(s, n))
        return;
    string_case(s, n, in_short_family(s, n), NULL);
}

static void Sf(const char *fmt, ...) __attribute__((format(printf, 1, 2)));
static void Sf(const char *fmt, ...)
{
    static char buf[8192];
    va_list ap;
    va_start(ap, fmt);
    int n = vsnprintf(buf, sizeof buf, fmt, ap);
    va_end(ap);
    S(buf, (size_t)n);
}

static char *rep(char c, size_t n)
{
    static char *slot[4];
    static int k;
    k = (k + 1) % 4;
    free(slot[k]);
    slot[k] = malloc(n + 1);
    memset(slot[k], c, n);
    slot[k][n] = 0;
    return slot[k];
}

/* (iii-a) port field over all integers in [-2, 70000] for one transport */
static void fam_ports(int tp)
{
    for (long p = -2; p <= 70000; p++)
        Sf("%s:10.9.8.7:%ld", tp_name[tp], p);
}

static const char *const ODD_PORTS[] = {
    "", "+", "-", "+80", "-1", "-0", "+0", "-80", "+65535", "+65536", "-65536", " 80", "80 ", "\t80",
    "80\n", "8 0", "0x50", "0X50", "80a", "a80", "8a0", "1e3", "80.", "80.0", "80:", "80,", "080",
    "0080", "00", "000000", "065535", "065536", "0000065535", "0000065536",
    "00000000000000000000000000000080",           /* 32 characters */
    "000000000000000000000000000000080",          /* 33 characters */
    "\xef\xbc\x98\xef\xbc\x90",                    /* fullwidth "80" */
    "65535", "65536", "65537", "99999", "100000", "131072", "2147483647", "2147483648", "2147483649",
    "4294967295", "4294967296", "4294967297", "4294967376", "4295032831", "4295032832",
    "+4294967297", "-4294967295", "8589934593",
    "9223372036854775807", "9223372036854775808", "18446744073709551615", "18446744073709551616",
    "18446744073709551617", "18446744073709551696", "99999999999999999999",
    "340282366920938463463374607431768211457",     /* 2^128+1 */
    "0", "1", "4711",
};

static const char *const V4_FORMS[] = {
    "255.255.255.255", "0.0.0.0", "256.0.0.0", "0.0.0.256", "1.2.3", "1.2", "1", "1.2.3.4.5", "1.2.3.",
    ".1.2.3", "1..2.3", "1.2..3", "...", ".", "..", "01.2.3.4", "001.2.3.4", "0001.2.3.4", "1.2.3.04",
    "1.2.3.004", "000.000.000.000", "0x1.2.3.4", "1.2.3.0x4", "1.2.3.4a", "a1.2.3.4", "-1.2.3.4",
    "+1.2.3.4", "1.2.3.999", "1.2.3.256", "4294967296.0.0.0", "127.1", "2130706433", "0177.0.0.1",
    "1.2.3.4.", "1,2,3,4", "1.2.3.4/24", "1.2.3.-4", "999.999.999.999", "1.2.3.4%eth0",
};

static const char *const V6_FORMS[] = {       /* text between the brackets */
    "::", "::1", "1::", "1::2", "1:2:3:4:5:6:7:8", "1:2:3:4:5:6:7::", "::2:3:4:5:6:7:8",
    "1::3:4:5:6:7:8", "1:2:3:4:5:6:7:8:9", "1:2:3:4:5:6:7", ":::", "::1::", "1:::2", ":1", "1:", ":",
    "12345::", "::12345", "g::", "::g", "::ffff:1.2.3.4", "::1.2.3.4", "::1.2.3", "::1.2.3.4.5",
    "::256.1.1.1", "1.2.3.4::", "::1.2.3.4:1", "fe80::1%eth0", "fe80::1%1", "::FFFF:1.2.3.4",
    "ABCD:EF01::", "abcd:ef01::", "0000:0000:0000:0000:0000:0000:0000:0000", "00000::",
    "1:2:3:4:5:6:1.2.3.4", "1:2:3:4:5:6:7:1.2.3.4", "1:2:3:4:5:1.2.3.4", "::01.2.3.4", "::1.2.3.04",
    "*", "**", "", " ", "::1 ", " ::1", "[::1]", "1.2.3.4", "a", "service", "-", "+", "::-1", "::+1",
    "ffff:ffff:ffff:ffff:ffff:ffff:ffff:ffff", "ffff:ffff:ffff:ffff:ffff:ffff:255.255.255.255",
    "1::2::3", "::a.2.3.4", "0:0:0:0:0:0:0:0", "0::0", "1:2::3:4", "::0:0:0:0:0:0:0:0", "0:0:0:0:0:0:0::",
    "1:2:3:4:5:6:7:8::", "::1:2:3:4:5:6:7:8",
};

static const char *const DNS_FORMS[] = {
    "a", "A", "example", "EXAMPLE.com", "Example.Org", "a.b", "a.b.c", "a-b", "a--b", "xn--bcher-kva.ch",
    "a1", "1a", "a.1", "1.a", "0x50", "a.", "a.b.", ".a", "a..b", "a.b..c", "-a", "a-", "-", "--", "a.-b",
    "a-.b", "a_b", "_srv._tcp.a", "a b", "a\tb", "a:b", "a/b", "a@b", "a*b", "*.a", "a+b", "a,b", "a;b",
    "a%b", "a[b]", "[a", "a]", "]", "[", "*", "**", "a*", "\xc3\xa4.example",
};

/* (iii-b..) everything else around the limits */
static void fam_misc(void)
{
    static const char *const HOSTS_M[] = { "10.9.8.6", "[::1]", "*", "[*]", "h1.example" };
    char *p;

    /* odd port fields x hosts x the six host:port transports */
    for (int t = 0; t < NHP; t++)
        for (size_t h = 0; h < 5; h++)
            for (size_t k = 0; k < sizeof ODD_PORTS / sizeof ODD_PORTS[0]; k++)
                Sf("%s:%s:%s", tp_name[t], HOSTS_M[h], ODD_PORTS[k]);
    /* missing separators */
    for (int t = 0; t < NT; t++) {
        Sf("%s", tp_name[t]);
        Sf("%s:", tp_name[t]);
        Sf("%s::", tp_name[t]);
        Sf("%s:::", tp_name[t]);
        Sf("%s::4711", tp_name[t]);
        Sf("%s:10.9.8.6", tp_name[t]);
        Sf("%s:10.9.8.6:", tp_name[t]);
        Sf("%s:h1.example", tp_name[t]);
        Sf("%s:[::1]", tp_name[t]);
        Sf("%s:[::1]4711", tp_name[t]);
        Sf("%s:[::1:4711", tp_name[t]);
        Sf("%s:::1]:4711", tp_name[t]);
        Sf("%s:::1:4711", tp_name[t]);
        Sf("%s:[::1]]:4711", tp_name[t]);
        Sf("%s:[[::1]:4711", tp_name[t]);
        Sf("%s:[[::1]]:4711", tp_name[t]);
        Sf("%s:[::1]x:4711", tp_name[t]);
        Sf("%s:x[::1]:4711", tp_name[t]);
        Sf("%s:[*:4711", tp_name[t]);
        Sf("%s:*]:4711", tp_name[t]);
        Sf("%s:[*]*:4711", tp_name[t]);
        Sf("%s:[]:4711", tp_name[t]);
        Sf("%s:[:4711", tp_name[t]);
        Sf("%s:]:4711", tp_name[t]);
        Sf("%s:%s:10.9.8.6:4711", tp_name[t], tp_name[t]);
        Sf(" %s:10.9.8.6:4711", tp_name[t]);
        Sf("%s :10.9.8.6:4711", tp_name[t]);
        Sf("%s: 10.9.8.6:4711", tp_name[t]);
        Sf("%s:10.9.8.6 :4711", tp_name[t]);
        Sf("%s:10.9.8.6:4711 ", tp_name[t]);
        Sf("%s:10.9.8.6:4711\n", tp_name[t]);
        Sf("%s;10.9.8.6:4711", tp_name[t]);
        Sf("%s://10.9.8.6:4711", tp_name[t]);
    }
    /* IPv4, IPv6, DNS corner syntax (tcp and btls) */
    for (int t = 0; t < NHP; t += 5) {
        for (size_t k = 0; k < sizeof V4_FORMS / sizeof V4_FORMS[0]; k++)
            Sf("%s:%s:4711", tp_name[t], V4_FORMS[k]);
        for (size_t k = 0; k < sizeof V6_FORMS / sizeof V6_FORMS[0]; k++)
            Sf("%s:[%s]:4711", tp_name[t], V6_FORMS[k]);
        for (size_t k = 0; k < sizeof V6_FORMS / sizeof V6_FORMS[0]; k++)
            Sf("%s:%s:4711", tp_name[t], V6_FORMS[k]);          /* the same without brackets */
        for (size_t k = 0; k < sizeof DNS_FORMS / sizeof DNS_FORMS[0]; k++)
            Sf("%s:%s:4711", tp_name[t], DNS_FORMS[k]);
    }
    /* host lengths around 63 (label), 253 (name), 512 (host field) */
    static const size_t HLENS[] = { 1, 62, 63, 64, 65, 127, 128, 252, 253, 254, 255, 256, 511, 512, 513,
                                    514, 540, 570, 600, 1000 };
    for (int t = 0; t < NHP; t++)
        for (size_t k = 0; k < sizeof HLENS / sizeof HLENS[0]; k++) {
            size_t l = HLENS[k];
            p = dns_name_of_len(l, 'h');
            Sf("%s:%s:4711", tp_name[t], p);                    /* well-formed labels */
            free(p);
            Sf("%s:%s:4711", tp_name[t], rep('h', l));          /* one label */
            Sf("%s:%s:4711", tp_name[t], rep('1', l));          /* digits */
            Sf("%s:[%s]:4711", tp_name[t], rep('a', l));        /* bracketed */
            Sf("%s:[%s::]:4711", tp_name[t], rep('0', l));
            Sf("%s:%s:4711", tp_name[t], rep('.', l));
            Sf("%s:%s:4711", tp_name[t], rep('-', l));
            Sf("%s:%s:4711", tp_name[t], rep(':', l));
        }
    /* total lengths around XCM_ADDR_MAX = 578 */
    static const size_t TLENS[] = { 576, 577, 578, 579, 580, 581, 1000, 4096 };
    for (size_t k = 0; k < sizeof TLENS / sizeof TLENS[0]; k++) {
        size_t l = TLENS[k];
        Sf("ux:%s", rep('m', l - 3));
        Sf("uxf:%s", rep('m', l - 4));
        Sf("tcp:10.9.8.6:%s80", rep('0', l - 15));              /* padded with leading zeros */
        Sf("tcp:10.9.8.6:%s", rep('9', l - 13));
        p = dns_name_of_len(253, 'h');
        Sf("tcp:%s:%s7", p, rep('0', l - 4 - 253 - 2));
        free(p);
        Sf("tcp:%s:4711", rep('h', l - 9));
        Sf("tcp:%s", rep(':', l - 4));
        Sf("tcp:%s", rep(' ', l - 4));
        Sf("%s", rep('t', l));
        Sf("%s:", rep('t', l - 1));
    }
    /* transport-name lengths around XCM_ADDR_MAX_PROTO_LEN = 32 and look-alikes */
    static const size_t PLENS[] = { 0, 1, 2, 31, 32, 33, 34, 64, 600 };
    for (size_t k = 0; k < sizeof PLENS / sizeof PLENS[0]; k++) {
        Sf("%s:x", rep('p', PLENS[k]));
        Sf("%s:10.9.8.6:4711", rep('p', PLENS[k]));
        Sf("%s:", rep('p', PLENS[k]));
        Sf("%stcp:10.9.8.6:4711", rep('t', PLENS[k]));
    }
    static const char *const PROTOS[] = { "TCP", "Tcp", "tcP", "TLS", "UX", "Uxf", "BTLS", "tcpx", "tc",
        "xtcp", "tcp6", "tls6", "udp", "http", "btcpp", "utlss", "uxff", "u", "x", "sctp6", "ssl", "unix",
        "tcp\x01", "\x01tcp" };
    for (size_t k = 0; k < sizeof PROTOS / sizeof PROTOS[0]; k++) {
        Sf("%s:10.9.8.6:4711", PROTOS[k]);
        Sf("%s:h1.example:4711", PROTOS[k]);
        Sf("%s:mmm", PROTOS[k]);
    }
    /* arbitrary bytes: every byte value 1..255 in every field */
    for (int b = 1; b < 256; b++) {
        Sf("tcp:%c:4711", b);
        Sf("tcp:h%c:4711", b);
        Sf("tcp:%ch:4711", b);
        Sf("tcp:h%ch:4711", b);
        Sf("tcp:10.9.8.6%c:4711", b);
        Sf("tcp:[::1%c]:4711", b);
        Sf("tcp:[%c::1]:4711", b);
        Sf("tcp:[::1]%c:4711", b);
        Sf("tcp:h1.example:%c", b);
        Sf("tcp:h1.example:8%c", b);
        Sf("tcp:h1.example:%c8", b);
        Sf("tcp:h1.example:4%c11", b);
        Sf("btls:10.9.8.6:%c4711", b);
        Sf("utls:*:4711%c", b);
        Sf("tcp%ch1.example:4711", b);
        Sf("%ccp:h1.example:4711", b);
        Sf("t%cp:h1.example:4711", b);
        Sf("tcp:h1.example%c4711", b);
        Sf("ux:%c", b);
        Sf("ux:m%c", b);
        Sf("ux:%cm", b);
        Sf("uxf:/tmp/%c", b);
        Sf("u%c:m", b);
        Sf("ux%cm", b);
        Sf("%c", b);
        Sf("%c:", b);
        Sf(":%c", b);
    }
    /* white space: each of the six characters x every transport x every position class (in front
     * of / inside / at the end of the transport name, directly behind the prefix, start / middle /
     * end of the host, of the port and of the UX/UXF name, and as the only character of a field) */
    {
        static const char WS6[] = " \t\n\v\f\r";
        static const char *const WH[][3] = {      /* host split into head + tail, and the sole form */
            { "10.9", ".8.6" }, { "[::", "1]" }, { "h1.ex", "ample" }, { "*", "" }, { "[*", "]" },
        };
        static const char *const WN[][2] = { { "my", "service" }, { "/run/app", "/sock" }, { "a", ":b" } };
        for (int t = 0; t < NT; t++) {
            const char *tn = tp_name[t];
            const char *rest = t < NHP ? "10.9.8.6:4711" : "myservice";
            for (int w = 0; w < 6; w++) {
                char c = WS6[w];
                Sf("%c%s:%s", c, tn, rest);
                Sf("%c%s%c%s:%s", tn[0], "", c, tn + 1, rest);
                Sf("%s%c:%s", tn, c, rest);
                Sf("%s:%c%s", tn, c, rest);
                Sf("%s:%s%c", tn, rest, c);
                Sf("%s:%c", tn, c);
                Sf("%s%c", tn, c);
                Sf("%c%s", c, tn);
                if (t < NHP) {
                    for (size_t h = 0; h < sizeof WH / sizeof WH[0]; h++) {
                        Sf("%s:%c%s%s:4711", tn, c, WH[h][0], WH[h][1]);        /* host start */
                        Sf("%s:%s%c%s:4711", tn, WH[h][0], c, WH[h][1]);        /* host middle */
                        Sf("%s:%s%s%c:4711", tn, WH[h][0], WH[h][1], c);        /* host end */
                        Sf("%s:%s%s:%c4711", tn, WH[h][0], WH[h][1], c);        /* port start */
                        Sf("%s:%s%s:47%c11", tn, WH[h][0], WH[h][1], c);        /* port middle */
                        Sf("%s:%s%s:4711%c", tn, WH[h][0], WH[h][1], c);        /* port end */
                        Sf("%s:%s%s:%c", tn, WH[h][0], WH[h][1], c);            /* port = the character */
                        Sf("%s:%s%s:0%c", tn, WH[h][0], WH[h][1], c);
                    }
                    Sf("%s:%c:4711", tn, c);                                    /* host = the character */
                    Sf("%s:%c:%c", tn, c, c);
                } else {
                    for (size_t k = 0; k < sizeof WN / sizeof WN[0]; k++) {
                        Sf("%s:%c%s%s", tn, c, WN[k][0], WN[k][1]);             /* name start */
                        Sf("%s:%s%c%s", tn, WN[k][0], c, WN[k][1]);             /* name middle */
                        Sf("%s:%s%s%c", tn, WN[k][0], WN[k][1], c);             /* name end */
                    }
                    Sf("%s:%s%c", tn, rep('m', 106), c);                        /* at the length limit */
                    Sf("%s:%c%s", tn, c, rep('m', 106));
                }
            }
        }
    }
    /* ux/uxf names around the 107-byte limit and with structure of their own */
    static const size_t ULENS[] = { 0, 1, 2, 3, 105, 106, 107, 108, 109, 110, 200, 511, 512, 513, 574 };
    for (int t = T_UX; t <= T_UXF; t++) {
        for (size_t k = 0; k < sizeof ULENS / sizeof ULENS[0]; k++) {
            Sf("%s:%s", tp_name[t], rep('m', ULENS[k]));
            Sf("%s:%s", tp_name[t], rep(':', ULENS[k]));
            Sf("%s:%s", tp_name[t], rep('/', ULENS[k]));
            Sf("%s:/%s", tp_name[t], rep('m', ULENS[k]));
        }
        Sf("%s:a:b", tp_name[t]);
        Sf("%s::a", tp_name[t]);
        Sf("%s:a:", tp_name[t]);
        Sf("%s:/var/run/my.sock", tp_name[t]);
        Sf("%s:@abstract", tp_name[t]);
        Sf("%s:a b", tp_name[t]);
        Sf("%s:10.9.8.6:4711", tp_name[t]);
        Sf("%s:%s:m", tp_name[t], tp_name[t]);
    }
}

/* (iii-v6) maximal-length IPv6 spellings followed by junk inside the brackets, and the complete
 * product IPv6 host x port x transport for the legacy IPv4-only entry points.
 * Spellings: full 8-group form (39 characters) and full mixed notation, six 4-digit groups plus a
 * dotted quad of every length 7..15 (37..45 characters; 45 = INET6_ADDRSTRLEN-1 is the longest
 * text an IPv6 address has).  Suffixes: every string of length 1..3 over a 15-letter junk
 * alphabet, and named ones.  The verdict is the model's (m_ipv6 on the exact bracket content);
 * glibc's inet_pton on the same content is consulted as a self-check of the model (INFO line). */
#include <arpa/inet.h>
static void v6_selfcheck(const char *content)
{
    uint8_t ip[16];
    struct in6_addr a;
    enum verdict v = m_ipv6(content, strlen(content), ip);
    int r = inet_pton(AF_INET6, content, &a);
    if ((v == V_ACCEPT && (r != 1 || memcmp(ip, a.s6_addr, 16) != 0)) || (v == V_REJECT && r == 1)) {
        struct tb t = { 0 };
        tb_f(&t, "reference recogniser says %s for the IPv6 text ", vname[v]);
        tb_cstr(&t, content, strlen(content));
        tb_f(&t, " but inet_pton returns %d", r);
        info("model-disagrees-with-inet_pton", &t);
        free(t.p);
    }
}

static void fam_v6long(void)
{
    static const char *const FULL8[] = {
        "0000:0000:0000:0000:0000:ffff:7f64:6465", "ffff:ffff:ffff:ffff:ffff:ffff:ffff:ffff",
        "2001:0db8:85a3:0000:0000:8a2e:0370:7334", "FE80:0000:0000:0000:0202:B3FF:FE1E:8329",
    };
    static const char *const BASE6[] = { "0000:0000:0000:0000:0000:ffff:", "fe80:0000:0000:0000:0202:b3ff:" };
    static const char *const QUADS[] = {        /* lengths 7..15 */
        "1.2.3.4", "1.2.3.40", "1.2.30.40", "1.20.30.40", "10.20.30.40", "10.20.30.100", "10.20.100.100",
        "10.100.100.100", "127.100.100.101", "255.255.255.255", "127.100.100.1", "127.100.100.10",
    };
    static const char JUNK[] = "0159afg.:%/][*-";
    static const char *const NAMED[] = {
        ".evil.example", "%eth0", "%1", "/64", "]", "]]", "0", "1", "01", "55", "155", "0155", "00000000",
        ":0", "::", ":0000", ".1", ".0.0.1", "x", "-", "_", "@", "#", "?", "=", "\\", "%25eth0", "1234567890",
    };
    char spell[40][64];
    int ns = 0;
    for (size_t i = 0; i < sizeof FULL8 / sizeof FULL8[0]; i++)
        snprintf(spell[ns++], 64, "%s", FULL8[i]);
    for (size_t b = 0; b < sizeof BASE6 / sizeof BASE6[0]; b++)
        for (size_t q = 0; q < sizeof QUADS / sizeof QUADS[0]; q++)
            snprintf(spell[ns++], 64, "%s%s", BASE6[b], QUADS[q]);

    for (int k = 0; k < ns; k++) {
        char content[96];
        v6_selfcheck(spell[k]);
        /* the spelling itself, on every host:port transport */
        for (int t = 0; t < NHP; t++) {
            Sf("%s:[%s]:4711", tp_name[t], spell[k]);
            for (size_t j = 0; j < sizeof NAMED / sizeof NAMED[0]; j++) {
                Sf("%s:[%s%s]:4711", tp_name[t], spell[k], NAMED[j]);
                if (t == 0) {
                    snprintf(content, sizeof content, "%s%s", spell[k], NAMED[j]);
                    v6_selfcheck(content);
                }
            }
        }
        /* every junk suffix of length 1..3 (tcp; btls for the longest spellings) */
        for (int tl = 1; tl <= 3; tl++) {
            int idx[3] = { 0, 0, 0 };
            for (;;) {
                char suf[4] = { 0 };
                for (int i = 0; i < tl; i++)
                    suf[i] = JUNK[idx[i]];
                Sf("tcp:[%s%s]:4711", spell[k], suf);
                if (strlen(spell[k]) >= 43)
                    Sf("btls:[%s%s]:80", spell[k], suf);
                snprintf(content, sizeof content, "%s%s", spell[k], suf);
                v6_selfcheck(content);
                int i = tl - 1;
                while (i >= 0 && ++idx[i] == (int)(sizeof JUNK - 1))
                    idx[i--] = 0;
                if (i < 0)
                    break;
            }
        }
    }

    /* legacy IPv4-only entry points: every IPv6 host form x boundary ports x every transport */
    for (int t = 0; t < NT; t++) {
        for (size_t p = 0; p < sizeof BOUNDARY_PORTS / sizeof BOUNDARY_PORTS[0]; p++) {
            for (size_t k = 0; k < sizeof V6_FORMS / sizeof V6_FORMS[0]; k++)
                Sf("%s:[%s]:%u", tp_name[t], V6_FORMS[k], BOUNDARY_PORTS[p]);
            for (int k = 0; k < ns; k++)
                Sf("%s:[%s]:%u", tp_name[t], spell[k], BOUNDARY_PORTS[p]);
            for (int h = 0; h < N_HOSTS; h++)
                if (HOSTS[h].kind == H_IP6) {
                    char txt[64];
                    f_ipv6(HOSTS[h].ip, txt);
                    Sf("%s:[%s]:%u", tp_name[t], txt, BOUNDARY_PORTS[p]);
                }
        }
    }
}

/* parse capacities: xcm_addr_parse_ux/_uxf/xcm_addr_ux_parse and xcm_addr_parse_proto with
 * every capacity 0..len+2 (the 19-call check above uses the always-sufficient sizes) */
static void capacity_case(const struct fdesc *f, const char *s, size_t n, size_t cap)
{
    if (case_idx < from_idx) {
        case_idx++;
        return;
    }
    st.cases++;
    char *in = in_block(s, n);
    struct pres p;
    struct mres m;
    one_pcap = (long)cap;
    call_str_parse(f, in, n, cap, false, &p);
    st.nontrivial++;
    if (f->kind == FK_PROTO) {
        int own = tp_by_name(in, (size_t)((const char *)memchr(in, ':', n) - in), NULL);
        m_parse(own, in, n, &m);
        judge_proto(in, n, cap, &p, m.v == V_ACCEPT);
    } else {
        m_parse(f->tp, in, n, &m);
        if (m.v == V_ACCEPT && cap < m.ux_len + 1) {
            m.v = V_REJECT;
            m.tag = "capacity-too-small";
        }
        judge_typed(f, in, n, &m, &p);
    }
    cur.fn = NULL;
    one_pcap = -1;
    in_release(in, n);
    case_idx++;
}

static void fam_parse_capacity(void)
{
    static const size_t ULENS[] = { 1, 2, 106, 107 };
    const struct fdesc *uxf[3] = { &F_UX_PARSE[0], &F_UX_PARSE[1], &F_UXC_PARSE };
    char buf[256];
    for (int k = 0; k < 3; k++)
        for (size_t u = 0; u < 4; u++) {
            int n = sprintf(buf, "%s:%s", tp_name[uxf[k]->tp], rep('m', ULENS[u]));
            for (size_t cap = 0; cap <= ULENS[u] + 2; cap++)
                if (cap != UX_OUT_CAP)          /* that capacity is the one check_string uses */
                    capacity_case(uxf[k], buf, (size_t)n, cap);
        }
    for (int t = 0; t < NT; t++) {
        int n = t < NHP ? sprintf(buf, "%s:10.9.8.6:4711", tp_name[t]) : sprintf(buf, "%s:mmm", tp_name[t]);
        for (size_t cap = 0; cap <= strlen(tp_name[t]) + 2; cap++)
            capacity_case(&F_PROTO, buf, (size_t)n, cap);
    }
}

/* ====================================================================================== */
/* batch table                                                                            */
/* ====================================================================================== */

enum bkind { B_MAKE_ALL, B_MAKE_BND, B_MAKE_UX, B_SHORT, B_PORTS, B_MISC, B_PCAP, B_V6LONG };
struct batch {
    enum bkind kind;
    int a, b;                   /* make function / host, prefix, transport */
    unsigned p0, p1;
    char head[8];
    int tailmax;
    double weight;              /* rough number of library calls, for scheduling */
    char desc[96];
};
static struct batch *batches;
static int nbatches;

static struct batch *batch_add(enum bkind kind)
{
    batches = realloc(batches, (size_t)(nbatches + 1) * sizeof *batches);
    struct batch *b = &batches[nbatches++];
    memset(b, 0, sizeof *b);
    b->kind = kind;
    return b;
}

static double pow15(int k)
{
    double r = 1;
    while (k-- > 0)
        r *= NALPHA;
    return r;
}

static void short_batches(int pfx, int L)
{
    int headlen = L > 4 ? L - 4 : 0, tailmax = L - headlen;
    double per = 0;
    for (int k = 0; k <= tailmax; k++)
        per += pow15(k);
    const char *pn = pfx < NT ? tp_name[pfx] : "(none)";
    if (headlen > 0) {
        struct batch *b = batch_add(B_SHORT);
        b->a = pfx;
        b->tailmax = headlen - 1;
        b->weight = 19 * 16;
        snprintf(b->desc, sizeof b->desc, "short prefix=%s len<=%d", pn, headlen - 1);
    }
    int idx[8] = { 0 };
    for (;;) {
        struct batch *b = batch_add(B_SHORT);
        b->a = pfx;
        for (int k = 0; k < headlen; k++)
            b->head[k] = ALPHABET[idx[k]];
        b->tailmax = tailmax;
        b->weight = 19 * per;
        snprintf(b->desc, sizeof b->desc, "short prefix=%s head=\"%s\" tail<=%d", pn, b->head, tailmax);
        int k = headlen - 1;
        while (k >= 0 && ++idx[k] == NALPHA)
            idx[k--] = 0;
        if (k < 0)
            break;
    }
}

#define PORT_CHUNK 16384

static void build_batches(void)
{
    for (int hi = 0; hi < N_ALLPORT_HOSTS; hi++)
        for (int fi = 0; fi < N_HOSTMAKE; fi++) {
            if (!make_applicable(&F_MAKE[fi], &HOSTS[hi]))
                continue;
            for (unsigned p0 = 0; p0 < 65536; p0 += PORT_CHUNK) {
                struct batch *b = batch_add(B_MAKE_ALL);
                b->a = fi;
                b->b = hi;
                b->p0 = p0;
                b->p1 = p0 + PORT_CHUNK;
                /* DNS names cost a regcomp per parse of the round trip */
                b->weight = PORT_CHUNK * (40.0 + (F_MAKE[fi].kind == FK_HP_MAKE ?
                                                  (HOSTS[hi].kind == H_NAME ? 600 : 19) : 0));
                snprintf(b->desc, sizeof b->desc, "make-all %s host=%s ports=%u..%u", F_MAKE[fi].name,
                         HOSTDEFS[hi].spec, p0, p0 + PORT_CHUNK - 1);
            }
        }
    for (int hi = N_ALLPORT_HOSTS; hi < N_HOSTS; hi++) {
        struct batch *b = batch_add(B_MAKE_BND);
        b->a = hi;
        b->weight = 13 * 10 * 300;
        snprintf(b->desc, sizeof b->desc, "make-bnd host=%s", HOSTDEFS[hi].spec);
    }
    struct batch *b = batch_add(B_MAKE_UX);
    b->weight = 3 * 7 * 120;
    snprintf(b->desc, sizeof b->desc, "make-ux");
    for (int pfx = 0; pfx <= NT; pfx++)
        short_batches(pfx, pfx == T_TCP ? short_len_tcp : short_len_other);
    for (int t = 0; t < NHP; t++) {
        b = batch_add(B_PORTS);
        b->a = t;
        b->weight = 70003.0 * 19;
        snprintf(b->desc, sizeof b->desc, "ports %s:10.9.8.7:<-2..70000>", tp_name[t]);
    }
    b = batch_add(B_MISC);
    b->weight = 30000.0 * 40;
    snprintf(b->desc, sizeof b->desc, "misc structured families");
    b = batch_add(B_PCAP);
    b->weight = 1000;
    snprintf(b->desc, sizeof b->desc, "parse capacities");
    b = batch_add(B_V6LONG);
    b->weight = 230000.0 * 19;
    snprintf(b->desc, sizeof b->desc, "v6long: maximal IPv6 spellings + junk; legacy IPv4 parsers x IPv6 hosts");
}

static void run_batch(const struct batch *b)
{
    switch (b->kind) {
    case B_MAKE_ALL: fam_make_allports(b->a, b->b, b->p0, b->p1); break;
    case B_MAKE_BND: fam_make_boundary(b->a); break;
    case B_MAKE_UX: fam_make_ux(); break;
    case B_SHORT: fam_short(b->a, b->head, b->tailmax); break;
    case B_PORTS: fam_ports(b->a); break;
    case B_MISC: fam_misc(); break;
    case B_PCAP: fam_parse_capacity(); break;
    case B_V6LONG: fam_v6long(); break;
    }
}

/* ====================================================================================== */
/* main                                                                                   */
/* ====================================================================================== */

static int usage(void)
{
    fprintf(stderr,
            "usage: h_addr [--tier quick|thorough] [--ltcp L --lother L] --list\n"
            "       h_addr [--tier quick|thorough] [--ltcp L --lother L] --batch N [--from CASE]\n"
            "       h_addr --one parse <pct-string>\n"
            "       h_addr --one make_<tp>|<compat make> <4/a.b.c.d|6/ipv6|n/name> <port> <capacity>\n"
            "       h_addr --one make_ux|make_uxf|ux_make <pct-name> <capacity>\n"
            "  (pct-string: %%XX escapes, a lone %% is the empty string)\n");
    return 2;
}

static int run_one(int argc, char **argv)
{
    verbose = 1;
    if (argc >= 2 && strcmp(argv[0], "parse") == 0) {
        size_t n;
        char *s = pct_decode(argv[1], &n);
        n = strlen(s);
        check_string(s, n, false, NULL);
        /* the capacity-sensitive parsers, if a capacity is given */
        if (argc >= 3) {
            size_t cap = strtoul(argv[2], NULL, 10);
            const char *c = memchr(s, ':', n);
            int own = c ? tp_by_name(s, (size_t)(c - s), NULL) : -1;
            if (own >= T_UX)
                capacity_case(&F_UX_PARSE[own - T_UX], s, n, cap);
            if (own == T_UX)
                capacity_case(&F_UXC_PARSE, s, n, cap);
            if (c)
                capacity_case(&F_PROTO, s, n, cap);
        }
    } else {
        const struct fdesc *f = make_by_name(argv[0]);
        if (!f)
            return usage();
        if (f->kind == FK_UX_MAKE || f->kind == FK_UXC_MAKE) {
            if (argc < 3)
                return usage();
            size_t n;
            char *nm = pct_decode(argv[1], &n);
            make_tuple(f, NULL, nm, strlen(nm), 0, strlen(nm) <= M_UX_MAX, true, false,
                       strtol(argv[2], NULL, 10));
        } else {
            struct mhost h;
            if (argc < 4 || !hostspec_parse(argv[1], &h) || !make_applicable(f, &h))
                return usage();
            make_tuple(f, &h, NULL, 0, (unsigned)strtoul(argv[2], NULL, 10) & 0xffff, true, true, false,
                       strtol(argv[3], NULL, 10));
        }
    }
    out_f("%s\n", any_violation ? "RESULT: violates the oracle" : "RESULT: conforms to the oracle");
    out_flush();
    return any_violation ? 1 : 0;
}

int main(int argc, char **argv)
{
    const char *tier = "quick";
    int list = 0, one_at = -1, ltcp = -1, lother = -1;
    for (int i = 1; i < argc; i++) {
        if (strcmp(argv[i], "--tier") == 0 && i + 1 < argc)
            tier = argv[++i];
        else if (strcmp(argv[i], "--ltcp") == 0 && i + 1 < argc)
            ltcp = atoi(argv[++i]);
        else if (strcmp(argv[i], "--lother") == 0 && i + 1 < argc)
            lother = atoi(argv[++i]);
        else if (strcmp(argv[i], "--dd-ltcp") == 0 && i + 1 < argc)
            dd_len_tcp = atoi(argv[++i]);
        else if (strcmp(argv[i], "--dd-lother") == 0 && i + 1 < argc)
            dd_len_other = atoi(argv[++i]);
        else if (strcmp(argv[i], "--list") == 0)
            list = 1;
        else if (strcmp(argv[i], "--batch") == 0 && i + 1 < argc)
            batch_id = atoi(argv[++i]);
        else if (strcmp(argv[i], "--from") == 0 && i + 1 < argc)
            from_idx = strtoull(argv[++i], NULL, 10);
        else if (strcmp(argv[i], "--one") == 0 && i + 1 < argc) {
            one_at = i + 1;
            break;
        } else
            return usage();
    }
    if (strcmp(tier, "thorough") == 0) {
        short_len_tcp = 6;
        short_len_other = 5;
    } else if (strcmp(tier, "quick") != 0)
        return usage();
    /* explicit bounds of the short-string family (ii): C12.py runs the sanitizer build one length
     * below the plain build */
    if (ltcp >= 0)
        short_len_tcp = ltcp;
    if (lother >= 0)
        short_len_other = lother;
    if (short_len_tcp < 1 || short_len_tcp > 8 || short_len_other < 1 || short_len_other > 8)
        return usage();

    for (int i = 0; i < N_HOSTS; i++)
        if (!hostspec_parse(HOSTDEFS[i].spec, &HOSTS[i])) {
            fprintf(stderr, "h_addr: bad host table entry %s\n", HOSTDEFS[i].spec);
            return 2;
        }
    outputs_init();
#ifdef HAVE_ASAN
    __sanitizer_set_death_callback(death_cb);
#endif
    signal(SIGABRT, on_abort);

    if (one_at >= 0)
        return run_one(argc - one_at, argv + one_at);

    build_batches();
    if (list) {
        for (int i = 0; i < nbatches; i++) {
            out_f("{\"id\":%d,\"weight\":%.0f,\"desc\":", i, batches[i].weight);
            out_jstr(batches[i].desc, strlen(batches[i].desc));
            out_f("}\n");
        }
        out_flush();
        return 0;
    }
    if (batch_id < 0 || batch_id >= nbatches)
        return usage();

    struct sigaction sa = { .sa_handler = on_alarm };
    sigaction(SIGPROF, &sa, NULL);
    struct itimerval it = { { 5, 0 }, { 5, 0 } };
    setitimer(ITIMER_PROF, &it, NULL);

    run_batch(&batches[batch_id]);
    print_stats();
    out_f("{\"t\":\"done\",\"batch\":%d}\n", batch_id);
    out_flush();
    return 0;
}
