/* h_cred - C18: each TLS connection uses the credentials designated at that moment.
 *
 * Explicit search over update/connect HISTORIES.  A history is a sequence of operations from a
 * family's alphabet (credential-file updates, XCM_TLS_CERT switches, server creation, connection
 * set-up with per-socket attributes by file / by value on connect / server / accept, tear-down).
 * state = the history, canonical key = the sequence; breadth-first over all sequences up to the
 * requested depth, pruning only histories the reference model says cannot be carried out (no
 * server to connect to, nothing to close, ...) and extensions of histories that had to be
 * abandoned because the implementation left the model (reported as a violation at that point).
 * Every history is replayed on FRESH state in a forked child (empty SSL_CTX cache, fresh scratch
 * directory, fresh environment), TLS over the envshim's emulated TCP, default environment
 * (io_menu=0), deterministic OpenSSL randomness.
 *
 * Reference model ("boring"): a virtual file system (what every credential path holds right
 * now), the XCM_TLS_CERT value, and for every socket the designation of cert/key/tc as
 * none | file(path) | value(text).  Expectations are computed from the designated TEXTS with
 * OpenSSL primitives only (parse, key match, issuer, trust roots) - never through ctx_store.
 *
 *   h_cred --mat DIR --root DIR --family F --depth D [--jobs N] [--deadline S]      (BFS, JSON lines)
 *   h_cred --mat DIR --root DIR --family F --replay 'S:def,RWK,C:def/inh'            (one history, verbose)
 *   h_cred --mat DIR --root DIR --family F --list                                    (alphabet)
 *
 * families: main | files | attrs | kube | netns | netcrl | split | bad:file:<kind>:<item> | bad:value:<kind>:<item>
 */
#define _GNU_SOURCE
#include "hcommon.h"

#include <fcntl.h>
#include <ftw.h>
#include <pthread.h>
#include <signal.h>
#include <sched.h>
#include <sys/mman.h>
#include <sys/mount.h>
#include <sys/resource.h>
#include <sys/stat.h>
#include <sys/time.h>
#include <sys/wait.h>
#include <time.h>

#include <openssl/err.h>
#include <openssl/pem.h>
#include <openssl/ssl.h>
#include <openssl/x509.h>
#include <openssl/x509v3.h>

/* ------------------------------------------------------------------------------------------ */
/* SSL_CTX_new / SSL_CTX_free as called by the library objects in this link (ctx_store.c)      */
/* ------------------------------------------------------------------------------------------ */
static long g_ctx_new, g_ctx_free;
SSL_CTX *__real_SSL_CTX_new(const SSL_METHOD *m);
void __real_SSL_CTX_free(SSL_CTX *c);
SSL_CTX *__wrap_SSL_CTX_new(const SSL_METHOD *m)
{
    SSL_CTX *c = __real_SSL_CTX_new(m);
    if (c)
        g_ctx_new++;
    return c;
}
void __wrap_SSL_CTX_free(SSL_CTX *c)
{
    if (c)
        g_ctx_free++;
    __real_SSL_CTX_free(c);
}

/* ------------------------------------------------------------------------------------------ */
/* material                                                                                   */
/* ------------------------------------------------------------------------------------------ */
enum { IT_CERT, IT_KEY, IT_TC, NIT };
static const char *IT_NAME[NIT] = { "cert", "key", "tc" };
enum { SET_A, SET_B, SET_C, NSET };
static const char *SET_DIR[NSET] = { "A", "B", "C" };

static char *g_set[NSET][NIT];           /* PEM texts of the three complete sets */
static char *g_leafI, *g_inter, *g_keyI; /* leaf issued by an intermediate, the intermediate, the leaf's key */
static char *g_root, *g_root2;
static char *g_s1_cert, *g_s2_key, *g_s3_key, *g_tc_both;   /* equal-concatenation splits */
static X509 *g_x_root, *g_x_root2, *g_x_inter;
/* CRL checking (netcrl family): a root-issued leaf that one of the CRL bundles revokes, and three CRL bundles */
static char *g_rev_cert, *g_rev_key;
static X509 *g_x_rev;
enum { CRL_NONE_REVOKED, CRL_REVOKING, CRL_ROOT2, NCRL };
static char *g_crl[NCRL];

static char g_mat[400], g_root_dir[400];

static char *load_text(const char *fmt, ...)
{
    char path[600];
    va_list ap;
    va_start(ap, fmt);
    vsnprintf(path, sizeof path, fmt, ap);
    va_end(ap);
    FILE *f = fopen(path, "r");
    if (!f) {
        fprintf(stderr, "h_cred: cannot read %s\n", path);
        exit(2);
    }
    char *buf = malloc(1 << 16);
    size_t n = fread(buf, 1, (1 << 16) - 1, f);
    fclose(f);
    buf[n] = 0;
    return buf;
}

static char *cat2(const char *a, const char *b)
{
    char *r = malloc(strlen(a) + strlen(b) + 1);
    strcpy(r, a);
    strcat(r, b);
    return r;
}

static X509 *parse_one(const char *pem)
{
    BIO *b = BIO_new_mem_buf(pem, -1);
    X509 *x = PEM_read_bio_X509(b, NULL, 0, NULL);
    BIO_free(b);
    ERR_clear_error();
    return x;
}

static void load_material(void)
{
    for (int s = 0; s < NSET; s++)
        for (int i = 0; i < NIT; i++)
            g_set[s][i] = load_text("%s/%s/%s.pem", g_mat, SET_DIR[s], IT_NAME[i]);
    g_leafI = load_text("%s/I/leaf.pem", g_mat);
    g_inter = load_text("%s/I/inter.pem", g_mat);
    g_keyI = load_text("%s/I/key.pem", g_mat);
    g_root = load_text("%s/root.pem", g_mat);
    g_root2 = load_text("%s/root2.pem", g_mat);
    g_rev_cert = load_text("%s/R/cert.pem", g_mat);
    g_rev_key = load_text("%s/R/key.pem", g_mat);
    g_crl[CRL_NONE_REVOKED] = load_text("%s/crl_empty.pem", g_mat);
    g_crl[CRL_REVOKING] = load_text("%s/crl_rev.pem", g_mat);
    g_crl[CRL_ROOT2] = load_text("%s/crl_r2.pem", g_mat);
    g_x_rev = parse_one(g_rev_cert);
    g_s1_cert = cat2(g_leafI, g_inter);
    g_s2_key = cat2(g_inter, g_keyI);
    g_s3_key = cat2(g_set[SET_A][IT_KEY], g_root2);
    g_tc_both = cat2(g_root2, g_root);
    g_x_root = parse_one(g_root);
    g_x_root2 = parse_one(g_root2);
    g_x_inter = parse_one(g_inter);
    if (!g_x_root || !g_x_root2 || !g_x_inter) {
        fprintf(stderr, "h_cred: root/inter certificates do not parse\n");
        exit(2);
    }
    for (int i = 0; i < NIT; i++)
        if (strlen(g_set[SET_A][i]) != strlen(g_set[SET_B][i])) {
            printf("{\"kind\":\"broke\",\"text\":\"sets A and B differ in size of %s\"}\n", IT_NAME[i]);
            exit(2);
        }
}

/* ------------------------------------------------------------------------------------------ */
/* reference evaluation of designated texts (OpenSSL primitives only)                         */
/* ------------------------------------------------------------------------------------------ */
struct ident {
    int ok;                 /* material is readable, well-formed, key matches */
    unsigned char ski[32];
    int ski_len;
    char cn[96];
    int issuer;             /* 1 root, 2 root2, 3 intermediate, 0 unknown */
    int has_inter;          /* chain carries the intermediate */
    unsigned trust;         /* bit0 root, bit1 root2 */
    const char *why;        /* why not ok */
    int is_rev;             /* presents the leaf that CRL_REVOKING revokes */
    int check_crl;          /* verifies its peer against the designated CRLs */
    unsigned crl_cover;     /* issuers the designated CRLs come from: bit0 root, bit1 root2 */
    int crl_revokes_rev;    /* the designated CRLs revoke that leaf */
};

static void ref_eval(const char *cert, const char *key, const char *tc, int check_crl, const char *crl, struct ident *id)
{
    memset(id, 0, sizeof *id);
    id->why = "";
    id->check_crl = check_crl;
    if (check_crl) {
        /* the designated CRL bundle, read with the CRL primitives */
        if (!crl) {
            id->why = "unreadable";
            return;
        }
        BIO *cb = BIO_new_mem_buf(crl, -1);
        X509_CRL *l;
        int n = 0;
        while ((l = PEM_read_bio_X509_CRL(cb, NULL, 0, NULL)) != NULL) {
            n++;
            X509_NAME *iss = X509_CRL_get_issuer(l);
            if (X509_NAME_cmp(iss, X509_get_subject_name(g_x_root)) == 0) {
                id->crl_cover |= 1;
                X509_REVOKED *rv = NULL;
                if (g_x_rev && X509_CRL_get0_by_cert(l, &rv, g_x_rev) == 1)
                    id->crl_revokes_rev = 1;
            }
            if (X509_NAME_cmp(iss, X509_get_subject_name(g_x_root2)) == 0)
                id->crl_cover |= 2;
            X509_CRL_free(l);
        }
        BIO_free(cb);
        ERR_clear_error();
        if (n == 0) {
            id->why = "crl-malformed";
            return;
        }
    }
    if (!cert || !key || !tc) {
        id->why = "unreadable";
        return;
    }
    BIO *b = BIO_new_mem_buf(cert, -1);
    X509 *leaf = PEM_read_bio_X509(b, NULL, 0, NULL);
    if (!leaf) {
        BIO_free(b);
        ERR_clear_error();
        id->why = "cert-malformed";
        return;
    }
    X509 *c;
    /* the blocks after the leaf, one by one, with the generic PEM reader and d2i_X509 (not with the error-queue
       inspection install_cert() uses): a block under a certificate label must decode completely; armour or base64
       damage anywhere is malformed; blocks under other labels are not certificates and are passed over, as every
       PEM consumer does (RFC 7468) */
    for (;;) {
        char *name = NULL, *hdr = NULL;
        unsigned char *der = NULL;
        long len = 0;
        if (!PEM_read_bio(b, &name, &hdr, &der, &len)) {
            unsigned long err = ERR_peek_last_error();
            int at_end = ERR_GET_LIB(err) == ERR_LIB_PEM && ERR_GET_REASON(err) == PEM_R_NO_START_LINE;
            ERR_clear_error();
            if (!at_end) {
                BIO_free(b);
                X509_free(leaf);
                id->why = "chain-malformed";
                return;
            }
            break;
        }
        int is_cert = !strcmp(name, PEM_STRING_X509) || !strcmp(name, PEM_STRING_X509_OLD) ||
                      !strcmp(name, PEM_STRING_X509_TRUSTED);
        int bad = 0;
        if (is_cert) {
            const unsigned char *q = der;
            c = d2i_X509(NULL, &q, len);
            if (!c || q != der + len)
                bad = 1;
            else if (X509_cmp(c, g_x_inter) == 0)
                id->has_inter = 1;
            X509_free(c);
        }
        OPENSSL_free(name);
        OPENSSL_free(hdr);
        OPENSSL_free(der);
        ERR_clear_error();
        if (bad) {
            BIO_free(b);
            X509_free(leaf);
            id->why = "chain-malformed";
            return;
        }
    }
    BIO_free(b);
    ERR_clear_error();
    b = BIO_new_mem_buf(key, -1);
    EVP_PKEY *k = PEM_read_bio_PrivateKey(b, NULL, 0, NULL);
    BIO_free(b);
    ERR_clear_error();
    if (!k) {
        X509_free(leaf);
        id->why = "key-malformed";
        return;
    }
    int match = X509_check_private_key(leaf, k) == 1;
    EVP_PKEY_free(k);
    ERR_clear_error();
    if (!match) {
        X509_free(leaf);
        id->why = "key-mismatch";
        return;
    }
    b = BIO_new_mem_buf(tc, -1);
    int ntc = 0;
    while ((c = PEM_read_bio_X509_AUX(b, NULL, 0, NULL)) != NULL) {
        ntc++;
        if (X509_cmp(c, g_x_root) == 0)
            id->trust |= 1;
        if (X509_cmp(c, g_x_root2) == 0)
            id->trust |= 2;
        X509_free(c);
    }
    BIO_free(b);
    ERR_clear_error();
    if (ntc == 0) {
        X509_free(leaf);
        id->why = "tc-malformed";
        return;
    }
    const ASN1_OCTET_STRING *ski = X509_get0_subject_key_id(leaf);
    if (ski && ASN1_STRING_length(ski) <= (int)sizeof id->ski) {
        id->ski_len = ASN1_STRING_length(ski);
        memcpy(id->ski, ASN1_STRING_get0_data(ski), id->ski_len);
    }
    X509_NAME_get_text_by_NID(X509_get_subject_name(leaf), NID_commonName, id->cn, sizeof id->cn);
    id->is_rev = g_x_rev && X509_cmp(leaf, g_x_rev) == 0;
    X509_NAME *iss = X509_get_issuer_name(leaf);
    if (X509_NAME_cmp(iss, X509_get_subject_name(g_x_root)) == 0)
        id->issuer = 1;
    else if (X509_NAME_cmp(iss, X509_get_subject_name(g_x_root2)) == 0)
        id->issuer = 2;
    else if (X509_NAME_cmp(iss, X509_get_subject_name(g_x_inter)) == 0)
        id->issuer = 3;
    X509_free(leaf);
    id->ok = 1;
}

/* does verifier `v` accept what `x` presents: chain to a trusted root and, with CRL checking on, a CRL of the
   issuer at hand that does not list the certificate */
static int ref_accepts(const struct ident *x, const struct ident *v)
{
    unsigned trust = v->trust;
    if (v->check_crl) {
        unsigned need = x->issuer == 2 ? 2 : 1;
        if (!(v->crl_cover & need))
            return 0;
        if (x->is_rev && v->crl_revokes_rev)
            return 0;
    }
    switch (x->issuer) {
    case 1: return (trust & 1) != 0;
    case 2: return (trust & 2) != 0;
    case 3: return x->has_inter && (trust & 1);
    default: return 0;
    }
}

static const char *ename(int e)
{
    switch (e) {
    case EISDIR: return "EISDIR";
    case ENOTDIR: return "ENOTDIR";
    case ELOOP: return "ELOOP";
    case ETIME: return "ETIME";
    case EBADMSG: return "EBADMSG";
    case ENAMETOOLONG: return "ENAMETOOLONG";
    default: return errname(e);
    }
}

static const char *hex(const unsigned char *p, int n)
{
    static __thread char b[4][80];
    static __thread int k;
    char *o = b[k++ & 3];
    if (n > 8)
        n = 8;
    for (int i = 0; i < n; i++)
        sprintf(o + 2 * i, "%02x", p[i]);
    o[2 * n] = 0;
    if (n == 0)
        strcpy(o, "none");
    return o;
}

/* ------------------------------------------------------------------------------------------ */
/* the world: a virtual file system + XCM_TLS_CERT                                            */
/* ------------------------------------------------------------------------------------------ */
enum { D_LIVE, D_LINK, D_FLINK, D_BAD, D_SA, D_SB, D_KUBE, D_NS0, D_NSA, D_NSB, ND };
static const char *D_NAME[ND] = { "live", "link", "flink", "bad", "sA", "sB", "kube", "nsd", "nsd", "nsd" };
/* network namespaces of the netns family: 0 = the unnamed start namespace, 1 = "nsA", 2 = "nsB".  All three pseudo
   directories D_NS* are ONE directory nsd/ (the value of XCM_TLS_CERT); they differ in the file naming:
   <item>.pem, <item>_nsA.pem, <item>_nsB.pem */
static const char *NS_NAME[3] = { "0", "A", "B" };
static const char *NS_SUFFIX[3] = { "", "_nsA", "_nsB" };
static const int NS_SET[3] = { 2 /* SET_C: its own trust domain */, 0 /* SET_A */, 1 /* SET_B */ };
static int g_use_netns;
static int g_nsfd[3] = { -1, -1, -1 };
enum badkind { BK_NONE, BK_MISSING, BK_EMPTY, BK_GARBAGE, BK_TRUNC, BK_DANGLING, BK_DIR, BK_MISMATCH, BK_CHAIN };
static const char *BK_NAME[] = { "none", "missing", "empty", "garbage", "trunc", "dangling", "dir", "mismatch", "chain" };
/* BK_CHAIN: the certificate item is the leaf issued by the intermediate, followed by one or two extra PEM blocks; the
   shape names them: G well-formed certificate (intermediate, then root), T armour and base64 intact but the DER cut
   short, F DER with its first octet flipped, E armour with an empty body, W the intermediate under a foreign label.
   Key and trust bundle are the leaf's own.  (The item may be perfectly valid, e.g. shape G: the model decides.) */
static char g_chain_shape[8];
static char g_bk_label[24];       /* "chain-TG" etc. for signatures */
static char *g_chain_text;
static const char GARBAGE[] = "-----BEGIN CERTIFICATE-----\nthis is not base64 at all !!\n-----END CERTIFICATE-----\n";

/* family parameters */
static char g_family[64] = "main";
static int g_bad_form;      /* 0 none, 1 file, 2 value */
static int g_bad_kind;
static int g_bad_item;
static char *g_trunc[NIT];  /* A's item cut in the middle of the base64 body */

struct world {
    int live_set;      /* SET_A / SET_B: content of the regular files in live/ */
    int live_broken;   /* the item g_bad_item of live/ currently is the family's bad thing */
    int link_set;      /* link -> sA | sB */
    int flink_set;     /* flink/<item>.pem -> sX/<item>.pem */
    int env_dir;       /* XCM_TLS_CERT = live | link | kube */
    /* kube/: the Kubernetes secret-volume layout.  <item>.pem -> ..data/<item>.pem (never touched again),
       ..data -> ..gen1 | ..gen2 (directory symlink), ..genN/<item>.pem regular files */
    int kdata;         /* generation ..data points to (0, 1) */
    int gen_set[2];    /* SET_A / SET_B: certificate and key of generation g */
    int gen_tc[2];     /* trust bundle of generation g: 0 = root2+root, 1 = root only */
    int crl_ns[3];     /* netcrl family: which CRL bundle crl.pem, crl_nsA.pem, crl_nsB.pem hold */
};

static const struct world WORLD0 = { SET_A, 0, SET_B, SET_A, D_LIVE, 0, { SET_A, SET_B }, { 0, 1 },
                                     { CRL_ROOT2, CRL_REVOKING, CRL_NONE_REVOKED } };
static int g_use_crl;
static int g_use_kube;

/* text of a bad item (NULL: unreadable) */
static const char *bad_text(int item)
{
    switch (g_bad_kind) {
    case BK_CHAIN: return item == IT_CERT ? g_chain_text : item == IT_KEY ? g_keyI : g_root;
    case BK_EMPTY: return "";
    case BK_GARBAGE: return GARBAGE;
    case BK_TRUNC: return g_trunc[item];
    case BK_MISMATCH: return g_set[SET_B][item];     /* item is the key */
    default: return NULL;                            /* missing, dangling, directory */
    }
}

/* the CRL file of directory dir (only the namespace-named files of nsd/ exist) */
static const char *vfs_crl(const struct world *w, int dir)
{
    if (dir >= D_NS0 && dir <= D_NSB)
        return g_crl[w->crl_ns[dir - D_NS0]];
    return NULL;
}

/* what the path dir/item holds in world w: its text, or NULL when it cannot be read */
static const char *vfs_content(const struct world *w, int dir, int item)
{
    switch (dir) {
    case D_LIVE:
        if (w->live_broken && (item == g_bad_item || (g_bad_kind == BK_CHAIN && item == IT_KEY)))
            return bad_text(item);
        return g_set[w->live_set][item];
    case D_LINK: return g_set[w->link_set][item];
    case D_FLINK: return g_set[w->flink_set][item];
    case D_BAD: return item == g_bad_item || g_bad_kind == BK_CHAIN ? bad_text(item) : g_set[SET_A][item];
    case D_SA: return g_set[SET_A][item];
    case D_SB: return g_set[SET_B][item];
    case D_NS0: case D_NSA: case D_NSB: return g_set[NS_SET[dir - D_NS0]][item];
    case D_KUBE: {
        /* what the path RESOLVES to right now: item link -> ..data -> generation */
        int g = w->kdata;
        if (item == IT_TC)
            return w->gen_tc[g] ? g_root : g_tc_both;
        return g_set[w->gen_set[g]][item];
    }
    }
    return NULL;
}

/* ------------------------------------------------------------------------------------------ */
/* designations and configurations                                                            */
/* ------------------------------------------------------------------------------------------ */
enum { F_NONE, F_FILE, F_VALUE };
struct ditem { int form; int dir; const char *val; };
struct desig { struct ditem it[NIT]; int check_crl; struct ditem crl; };

enum cfg { CFG_DEF, CFG_INH, CFG_FILE, CFG_VAL, CFG_S1, CFG_S2, CFG_S3, CFG_S4, CFG_S5, CFG_C2, CFG_BADF, CFG_BADV, CFG_KUBE, CFG_DEFCRL, CFG_REV, NCFG };
static const char *CFG_NAME[NCFG] = { "def", "inh", "file", "val", "s1", "s2", "s3", "s4", "s5", "c2", "badf", "badv", "kube", "defcrl", "rev" };

static void desig_values(struct desig *d, const char *cert, const char *key, const char *tc)
{
    d->it[IT_CERT] = (struct ditem){ F_VALUE, 0, cert };
    d->it[IT_KEY] = (struct ditem){ F_VALUE, 0, key };
    d->it[IT_TC] = (struct ditem){ F_VALUE, 0, tc };
}

/* the attributes configuration `cfg` puts into the attribute map */
static void cfg_desig(int cfg, struct desig *d)
{
    memset(d, 0, sizeof *d);
    switch (cfg) {
    case CFG_DEF: case CFG_INH: break;
    case CFG_FILE:
        for (int i = 0; i < NIT; i++)
            d->it[i] = (struct ditem){ F_FILE, D_FLINK, NULL };
        break;
    case CFG_VAL: desig_values(d, g_set[SET_B][IT_CERT], g_set[SET_B][IT_KEY], g_set[SET_B][IT_TC]); break;
    case CFG_S1: desig_values(d, g_s1_cert, g_keyI, g_root); break;
    case CFG_S2: desig_values(d, g_leafI, g_s2_key, g_root); break;
    case CFG_S3: desig_values(d, g_set[SET_A][IT_CERT], g_s3_key, g_root); break;
    case CFG_S4: desig_values(d, g_set[SET_A][IT_CERT], g_set[SET_A][IT_KEY], g_tc_both); break;
    case CFG_S5: desig_values(d, g_set[SET_A][IT_CERT], g_set[SET_A][IT_KEY], g_root); break;   /* s4 but for tc */
    case CFG_C2: desig_values(d, g_set[SET_C][IT_CERT], g_set[SET_C][IT_KEY], g_tc_both); break;
    case CFG_BADF:
        for (int i = 0; i < NIT; i++)
            d->it[i] = (struct ditem){ F_FILE, D_BAD, NULL };
        break;
    case CFG_KUBE:
        for (int i = 0; i < NIT; i++)
            d->it[i] = (struct ditem){ F_FILE, D_KUBE, NULL };
        break;
    case CFG_DEFCRL: d->check_crl = 1; break;     /* tls.check_crl=true, every file left to the default naming */
    case CFG_REV: desig_values(d, g_rev_cert, g_rev_key, g_root); break;   /* the peer CRL_REVOKING revokes */
    case CFG_BADV:
        desig_values(d, g_set[SET_A][IT_CERT], g_set[SET_A][IT_KEY], g_set[SET_A][IT_TC]);
        d->it[g_bad_item].val = bad_text(g_bad_item);
        if (g_bad_kind == BK_CHAIN)
            desig_values(d, bad_text(IT_CERT), bad_text(IT_KEY), bad_text(IT_TC));
        break;
    }
}

/* items left undesignated take the file of that name in directory `env_dir` */
static void desig_finalize(struct desig *d, int env_dir)
{
    for (int i = 0; i < NIT; i++)
        if (d->it[i].form == F_NONE)
            d->it[i] = (struct ditem){ F_FILE, env_dir, NULL };
    if (d->check_crl && d->crl.form == F_NONE)
        d->crl = (struct ditem){ F_FILE, env_dir, NULL };
}

/* a = what `over` sets, else what `base` has */
static void desig_override(struct desig *base, const struct desig *over)
{
    for (int i = 0; i < NIT; i++)
        if (over->it[i].form != F_NONE)
            base->it[i] = over->it[i];
    if (over->check_crl)
        base->check_crl = 1;
    if (over->crl.form != F_NONE)
        base->crl = over->crl;
}

/* evaluate a finalized designation against the file contents of world w */
static void desig_eval(const struct desig *d, const struct world *w, struct ident *id)
{
    const char *t[NIT];
    for (int i = 0; i < NIT; i++)
        t[i] = d->it[i].form == F_VALUE ? d->it[i].val : vfs_content(w, d->it[i].dir, i);
    const char *crl = NULL;
    if (d->check_crl)
        crl = d->crl.form == F_VALUE ? d->crl.val : vfs_crl(w, d->crl.dir);
    ref_eval(t[IT_CERT], t[IT_KEY], t[IT_TC], d->check_crl, crl, id);
}

/* ------------------------------------------------------------------------------------------ */
/* operations, families                                                                       */
/* ------------------------------------------------------------------------------------------ */
enum opk { OP_RWF, OP_RWK, OP_MVO, OP_FLD, OP_FLF, OP_ENV, OP_BRK, OP_FIX, OP_SRV, OP_CONN, OP_X, OP_XS,
           /* kube/ layout: the final-component links stay, what they resolve to changes */
           OP_KDP,     /* re-point ..data to the other generation (symlink + rename, as the kubelet does) */
           OP_KRW,     /* rewrite cert+key of the current generation in place (equal size, fresh mtime) */
           OP_KMV,     /* rename new cert+key files over those of the current generation */
           OP_KTW,     /* rewrite the trust bundle of the current generation in place (other roots: flips acceptance) */
           OP_KTM,     /* rename a new trust bundle over it */
           OP_ENK,     /* XCM_TLS_CERT: kube <-> live */
           OP_SN,      /* netns family: the main thread enters namespace c1 (setns) */
           OP_FK,      /* netns family: fork; the rest of the history runs in the child, which first enters namespace c1 */
           OP_SWC };   /* netcrl family: crl_nsA.pem and crl_nsB.pem swap contents (new files renamed over) */
static const char *OPK_NAME[] = { "RWF", "RWK", "MVO", "FLD", "FLF", "ENV", "BRK", "FIX", "S", "C", "X", "XS",
                                  "KDP", "KRW", "KMV", "KTW", "KTM", "ENK", "SN", "FK", "SWC" };
struct op { int k, c1, c2; int t; /* socket op on a fresh thread that first enters namespace t (-1: calling thread) */ char tok[24]; };

#define MAXOPS 32
#define MAXD 8
static struct op g_ops[MAXOPS];
static int g_nops;

static void add_op(int k, int c1, int c2)
{
    struct op *o = &g_ops[g_nops++];
    o->k = k;
    o->c1 = c1;
    o->c2 = c2;
    if (k == OP_SRV)
        snprintf(o->tok, sizeof o->tok, "S:%s", CFG_NAME[c1]);
    else if (k == OP_CONN)
        snprintf(o->tok, sizeof o->tok, "C:%s/%s", CFG_NAME[c1], CFG_NAME[c2]);
    else if (k == OP_SN || k == OP_FK)
        snprintf(o->tok, sizeof o->tok, "%s%s", OPK_NAME[k], NS_NAME[c1]);
    else
        snprintf(o->tok, sizeof o->tok, "%s", OPK_NAME[k]);
    o->t = -1;
}

/* the same socket operation carried out by a fresh thread that enters namespace ns first */
static void add_op_thread(int k, int c1, int c2, int ns)
{
    add_op(k, c1, c2);
    struct op *o = &g_ops[g_nops - 1];
    o->t = ns;
    size_t l = strlen(o->tok);
    snprintf(o->tok + l, sizeof o->tok - l, "@t%s", NS_NAME[ns]);
}

/* PEM block with the given label around DER bytes */
static char *pem_block(const char *label, const unsigned char *der, int len)
{
    char *b64 = malloc(4 * ((len + 2) / 3) + 4);
    int n = len ? EVP_EncodeBlock((unsigned char *)b64, der, len) : 0;
    char *out = malloc(n + n / 64 + 200), *o = out;
    o += sprintf(o, "-----BEGIN %s-----\n", label);
    for (int i = 0; i < n; i += 64)
        o += sprintf(o, "%.*s\n", n - i < 64 ? n - i : 64, b64 + i);
    sprintf(o, "-----END %s-----\n", label);
    free(b64);
    return out;
}

static int build_chain(const char *shape)
{
    size_t ns = strlen(shape);
    if (ns < 1 || ns > 2 || strspn(shape, "GTFEW") != ns)
        return -1;
    snprintf(g_chain_shape, sizeof g_chain_shape, "%s", shape);
    BIO *b = BIO_new_mem_buf(g_inter, -1);
    char *name = NULL, *hdr = NULL;
    unsigned char *der = NULL;
    long len = 0;
    if (!PEM_read_bio(b, &name, &hdr, &der, &len))
        return -1;
    BIO_free(b);
    char *text = strdup(g_leafI);
    for (size_t i = 0; i < ns; i++) {
        char *blk;
        unsigned char *tmp = malloc(len);
        memcpy(tmp, der, len);
        switch (shape[i]) {
        case 'G': blk = strdup(i == 0 ? g_inter : g_root); break;
        case 'T': blk = pem_block("CERTIFICATE", tmp, (int)(len * 6 / 10)); break;
        case 'F': tmp[0] ^= 0x01; blk = pem_block("CERTIFICATE", tmp, (int)len); break;
        case 'E': blk = pem_block("CERTIFICATE", tmp, 0); break;
        default: blk = pem_block("VERIF FOREIGN BLOCK", tmp, (int)len); break;
        }
        char *t2 = cat2(text, blk);
        free(text);
        free(blk);
        free(tmp);
        text = t2;
    }
    g_chain_text = text;
    ERR_clear_error();
    return 0;
}

static int parse_kind(const char *s)
{
    if (!strncmp(s, "chain-", 6))
        return build_chain(s + 6) < 0 ? -1 : BK_CHAIN;
    for (int i = 1; i <= BK_MISMATCH; i++)
        if (!strcmp(s, BK_NAME[i]))
            return i;
    return -1;
}

static int setup_family(const char *fam)
{
    snprintf(g_family, sizeof g_family, "%s", fam);
    g_nops = 0;
    if (!strcmp(fam, "main")) {
        for (int k = OP_RWF; k <= OP_ENV; k++)
            add_op(k, 0, 0);
        add_op(OP_SRV, CFG_DEF, 0);
        add_op(OP_SRV, CFG_FILE, 0);
        add_op(OP_SRV, CFG_VAL, 0);
        add_op(OP_CONN, CFG_DEF, CFG_INH);
        add_op(OP_CONN, CFG_FILE, CFG_INH);
        add_op(OP_CONN, CFG_VAL, CFG_INH);
        add_op(OP_CONN, CFG_DEF, CFG_FILE);
        add_op(OP_CONN, CFG_DEF, CFG_VAL);
        add_op(OP_X, 0, 0);
        add_op(OP_XS, 0, 0);
    } else if (!strcmp(fam, "files")) {
        add_op(OP_RWF, 0, 0);
        add_op(OP_RWK, 0, 0);
        add_op(OP_MVO, 0, 0);
        add_op(OP_FLD, 0, 0);
        add_op(OP_ENV, 0, 0);
        add_op(OP_SRV, CFG_DEF, 0);
        add_op(OP_CONN, CFG_DEF, CFG_INH);
        add_op(OP_X, 0, 0);
        add_op(OP_XS, 0, 0);
    } else if (!strcmp(fam, "attrs")) {
        add_op(OP_FLF, 0, 0);
        add_op(OP_ENV, 0, 0);
        add_op(OP_SRV, CFG_DEF, 0);
        add_op(OP_SRV, CFG_FILE, 0);
        add_op(OP_SRV, CFG_VAL, 0);
        add_op(OP_CONN, CFG_DEF, CFG_INH);
        add_op(OP_CONN, CFG_FILE, CFG_INH);
        add_op(OP_CONN, CFG_VAL, CFG_INH);
        add_op(OP_CONN, CFG_DEF, CFG_FILE);
        add_op(OP_CONN, CFG_DEF, CFG_VAL);
        add_op(OP_X, 0, 0);
        add_op(OP_XS, 0, 0);
    } else if (!strcmp(fam, "netns")) {
        /* default credential files named after the network namespace the calling THREAD is in */
        g_use_netns = 1;
        add_op(OP_SN, 0, 0);
        add_op(OP_SN, 1, 0);
        add_op(OP_SN, 2, 0);
        add_op(OP_FK, 1, 0);
        add_op(OP_FK, 2, 0);
        add_op(OP_SRV, CFG_DEF, 0);
        add_op(OP_CONN, CFG_DEF, CFG_INH);
        add_op_thread(OP_SRV, CFG_DEF, 0, 2);
        add_op_thread(OP_CONN, CFG_DEF, CFG_INH, 1);
        add_op_thread(OP_CONN, CFG_DEF, CFG_INH, 2);
        add_op(OP_X, 0, 0);
        add_op(OP_XS, 0, 0);
    } else if (!strcmp(fam, "netcrl")) {
        /* CRL checking with every file left to the per-namespace default naming: exactly crl_<ns>.pem governs */
        g_use_netns = 1;
        g_use_crl = 1;
        add_op(OP_SN, 0, 0);
        add_op(OP_SN, 1, 0);
        add_op(OP_SN, 2, 0);
        add_op(OP_SWC, 0, 0);
        add_op(OP_SRV, CFG_DEFCRL, 0);
        add_op(OP_CONN, CFG_REV, CFG_INH);
        add_op(OP_CONN, CFG_VAL, CFG_INH);
        add_op(OP_CONN, CFG_DEFCRL, CFG_INH);
        add_op(OP_X, 0, 0);
        add_op(OP_XS, 0, 0);
    } else if (!strcmp(fam, "kube")) {
        /* credential paths whose FINAL component is a symlink that is never replaced; designated through the
           default directory (ENK + def) and through by-file attributes (kube); c2 is a client of the other
           trust domain, acceptable only while the resolved trust bundle holds root2 */
        g_use_kube = 1;
        for (int k = OP_KDP; k <= OP_ENK; k++)
            add_op(k, 0, 0);
        add_op(OP_SRV, CFG_DEF, 0);
        add_op(OP_SRV, CFG_KUBE, 0);
        add_op(OP_CONN, CFG_DEF, CFG_INH);
        add_op(OP_CONN, CFG_KUBE, CFG_INH);
        add_op(OP_CONN, CFG_DEF, CFG_KUBE);
        add_op(OP_CONN, CFG_C2, CFG_INH);
        add_op(OP_X, 0, 0);
        add_op(OP_XS, 0, 0);
    } else if (!strcmp(fam, "split")) {
        for (int c = CFG_S1; c <= CFG_S5; c++)
            add_op(OP_SRV, c, 0);
        add_op(OP_CONN, CFG_DEF, CFG_INH);
        add_op(OP_CONN, CFG_C2, CFG_INH);
        add_op(OP_CONN, CFG_S1, CFG_INH);
        add_op(OP_CONN, CFG_S2, CFG_INH);
        add_op(OP_CONN, CFG_DEF, CFG_S1);
        add_op(OP_CONN, CFG_DEF, CFG_S2);
        add_op(OP_CONN, CFG_C2, CFG_S3);
        add_op(OP_CONN, CFG_C2, CFG_S4);
        add_op(OP_CONN, CFG_C2, CFG_S5);
        add_op(OP_X, 0, 0);
        add_op(OP_XS, 0, 0);
    } else if (!strncmp(fam, "bad:", 4)) {
        char form[16], kind[16], item[16];
        g_bk_label[0] = 0;
        if (sscanf(fam, "bad:%15[^:]:%15[^:]:%15s", form, kind, item) != 3)
            return -1;
        g_bad_form = !strcmp(form, "file") ? F_FILE : !strcmp(form, "value") ? F_VALUE : 0;
        g_bad_kind = parse_kind(kind);
        g_bad_item = -1;
        for (int i = 0; i < NIT; i++)
            if (!strcmp(item, IT_NAME[i]))
                g_bad_item = i;
        if (!g_bad_form || g_bad_kind < 0 || g_bad_item < 0)
            return -1;
        snprintf(g_bk_label, sizeof g_bk_label, "%s", kind);
        if (g_bad_kind == BK_CHAIN && g_bad_item != IT_CERT)
            return -1;
        if (g_bad_kind == BK_CHAIN) {
            /* signatures name the kind of the first damaged block (the root cause), not the whole shape */
            size_t k = strcspn(g_chain_shape, "TFE");
            if (g_chain_shape[k])
                snprintf(g_bk_label, sizeof g_bk_label, "chain-first-damaged-%c", g_chain_shape[k]);
            else
                snprintf(g_bk_label, sizeof g_bk_label, "chain-well-formed");
        }
        if (g_bad_kind == BK_MISMATCH && g_bad_item != IT_KEY)
            return -1;
        if (g_bad_form == F_VALUE && (g_bad_kind == BK_MISSING || g_bad_kind == BK_DANGLING || g_bad_kind == BK_DIR))
            return -1;
        int bc = g_bad_form == F_FILE ? CFG_BADF : CFG_BADV;
        add_op(OP_SRV, CFG_DEF, 0);
        add_op(OP_CONN, CFG_DEF, CFG_INH);
        add_op(OP_X, 0, 0);
        add_op(OP_XS, 0, 0);
        if (g_bad_form == F_FILE) {
            add_op(OP_BRK, 0, 0);
            add_op(OP_FIX, 0, 0);
        }
        add_op(OP_SRV, bc, 0);
        add_op(OP_CONN, bc, CFG_INH);
        add_op(OP_CONN, CFG_DEF, bc);
    } else
        return -1;
    for (int i = 0; i < NIT; i++) {
        size_t n = strlen(g_set[SET_A][i]);
        g_trunc[i] = strndup(g_set[SET_A][i], n * 6 / 10);
    }
    return 0;
}

static int op_by_token(const char *t)
{
    for (int i = 0; i < g_nops; i++)
        if (!strcmp(g_ops[i].tok, t))
            return i;
    return -1;
}

/* ------------------------------------------------------------------------------------------ */
/* the model                                                                                  */
/* ------------------------------------------------------------------------------------------ */
#define MAXSOCK 8
struct msrv { int id, cfg; struct desig attr; struct desig fin; int ns, epoch; };   /* attr: as set; fin: finalized at creation */
struct model {
    struct world w;
    int nsteps;                        /* operations applied */
    struct world whist[MAXD + 2];      /* whist[t] = world after t operations */
    int ophist[MAXD + 2];              /* ophist[t] = kind of operation number t (1-based) */
    int nsrv;
    struct msrv srv[MAXSOCK];          /* open servers, oldest first */
    int nconn;
    int conn_id[MAXSOCK];              /* open connections, oldest first */
    int next_id;
    int cur_ns;                        /* netns family: namespace of the main thread */
    int epoch;                         /* 1 after the fork */
};

struct expect {
    int feasible;
    /* S */
    struct ident srv;
    /* C */
    struct desig dc, da_doc, da_h1;    /* finalized designations: client; accepted socket as documented;
                                          accepted socket if it used the server's creation-time default paths */
    struct ident c, a;
    int established;
    int acfg_srv;                      /* configuration of the server the accepted socket inherits from */
    int ctx_ns;                        /* netns family: namespace the calling thread is in */
};

static void model_init(struct model *m)
{
    memset(m, 0, sizeof *m);
    m->w = WORLD0;
    m->whist[0] = m->w;
}

/* applies op to the model; e->feasible == 0: the history cannot be carried out */
static void model_apply(struct model *m, const struct op *o, struct expect *e)
{
    memset(e, 0, sizeof *e);
    e->feasible = 1;
    switch (o->k) {
    case OP_RWF: case OP_RWK: case OP_MVO:
        m->w.live_set = m->w.live_set == SET_A ? SET_B : SET_A;
        break;
    case OP_FLD: m->w.link_set = m->w.link_set == SET_A ? SET_B : SET_A; break;
    case OP_FLF: m->w.flink_set = m->w.flink_set == SET_A ? SET_B : SET_A; break;
    case OP_ENV: m->w.env_dir = m->w.env_dir == D_LIVE ? D_LINK : D_LIVE; break;
    case OP_SWC: {
        int t = m->w.crl_ns[1];
        m->w.crl_ns[1] = m->w.crl_ns[2];
        m->w.crl_ns[2] = t;
        break;
    }
    case OP_KDP: m->w.kdata ^= 1; break;
    case OP_KRW: case OP_KMV: {
        int g = m->w.kdata;
        m->w.gen_set[g] = m->w.gen_set[g] == SET_A ? SET_B : SET_A;
        break;
    }
    case OP_KTW: case OP_KTM: m->w.gen_tc[m->w.kdata] ^= 1; break;
    case OP_ENK: m->w.env_dir = m->w.env_dir == D_KUBE ? D_LIVE : D_KUBE; break;
    case OP_BRK:
        if (m->w.live_broken)
            e->feasible = 0;
        m->w.live_broken = 1;
        break;
    case OP_FIX:
        if (!m->w.live_broken)
            e->feasible = 0;
        m->w.live_broken = 0;
        break;
    case OP_SN:
        if (m->cur_ns == o->c1)
            e->feasible = 0;
        m->cur_ns = o->c1;
        break;
    case OP_FK:
        if (m->epoch)
            e->feasible = 0;
        m->epoch = 1;
        m->cur_ns = o->c1;
        break;
    case OP_SRV: {
        if (m->nsrv >= MAXSOCK - 1) {
            e->feasible = 0;
            break;
        }
        struct msrv s;
        s.cfg = o->c1;
        e->ctx_ns = o->t >= 0 ? o->t : m->cur_ns;
        s.ns = e->ctx_ns;
        s.epoch = m->epoch;
        cfg_desig(o->c1, &s.attr);
        s.fin = s.attr;
        desig_finalize(&s.fin, g_use_netns ? D_NS0 + e->ctx_ns : m->w.env_dir);
        desig_eval(&s.fin, &m->w, &e->srv);
        if (e->srv.ok) {
            s.id = m->next_id++;
            m->srv[m->nsrv++] = s;
        }
        break;
    }
    case OP_CONN: {
        if (m->nsrv == 0 || m->nconn >= MAXSOCK - 1) {
            e->feasible = 0;
            break;
        }
        const struct msrv *s = &m->srv[m->nsrv - 1];
        e->acfg_srv = s->cfg;
        e->ctx_ns = o->t >= 0 ? o->t : m->cur_ns;
        /* emulated TCP (AF_UNIX abstract names carrying the pid) connects only within one network namespace
           and one process, as real loopback TCP does within one namespace */
        if (g_use_netns && (s->ns != e->ctx_ns || s->epoch != m->epoch)) {
            e->feasible = 0;
            break;
        }
        cfg_desig(o->c1, &e->dc);
        desig_finalize(&e->dc, g_use_netns ? D_NS0 + e->ctx_ns : m->w.env_dir);
        desig_eval(&e->dc, &m->w, &e->c);
        struct desig over;
        cfg_desig(o->c2, &over);
        /* documented: attributes set on the server are inherited, attributes of the accept call
           override them, whatever is still undesignated comes from XCM_TLS_CERT as it stands now */
        e->da_doc = s->attr;
        desig_override(&e->da_doc, &over);
        /* xcm.h: the namespace part of the file name is looked up "at the time of xcm_connect() or xcm_server()" */
        desig_finalize(&e->da_doc, g_use_netns ? D_NS0 + s->ns : m->w.env_dir);
        desig_eval(&e->da_doc, &m->w, &e->a);
        /* alternative explanation used only to name the cause of a mismatch */
        e->da_h1 = s->fin;
        desig_override(&e->da_h1, &over);
        e->established = e->c.ok && e->a.ok && ref_accepts(&e->a, &e->c) && ref_accepts(&e->c, &e->a);
        if (e->established)
            m->conn_id[m->nconn++] = m->next_id++;
        break;
    }
    case OP_X:
        if (m->nconn == 0) {
            e->feasible = 0;
            break;
        }
        memmove(&m->conn_id[0], &m->conn_id[1], sizeof m->conn_id[0] * (m->nconn - 1));
        m->nconn--;
        break;
    case OP_XS:
        if (m->nsrv == 0) {
            e->feasible = 0;
            break;
        }
        memmove(&m->srv[0], &m->srv[1], sizeof m->srv[0] * (m->nsrv - 1));
        m->nsrv--;
        break;
    }
    m->nsteps++;
    m->whist[m->nsteps] = m->w;
    m->ophist[m->nsteps] = o->k;
}

static int world_is_update(int k) { return k <= OP_FIX || (k >= OP_KDP && k <= OP_ENK) || k == OP_SWC; }

/* why does the observed identity differ from the designated one?  (names the signature) */
static void mismatch_cause(const struct model *m, const struct desig *d_doc, const struct desig *d_h1,
                           const unsigned char *obs, int obs_len, char *out, size_t n)
{
    /* world in force when the call is made: after nsteps-1 operations (the call is op nsteps) */
    int now = m->nsteps - 1;
    struct ident id;
    if (obs_len == 0) {
        snprintf(out, n, "no-identity");
        return;
    }
    /* An accepted socket whose server defaulted its paths under another XCM_TLS_CERT than the present one: the
       explanations through that directory (as it is now, then as it was) are tried first, so that the same root
       cause is named the same way whatever else the history did to the directory designated now. */
    int differ = 0;
    if (d_h1)
        for (int i = 0; i < NIT; i++)
            if (d_h1->it[i].form != d_doc->it[i].form || d_h1->it[i].dir != d_doc->it[i].dir ||
                d_h1->it[i].val != d_doc->it[i].val)
                differ = 1;
    for (int pass = 0; pass < 2; pass++) {
        int h = differ ? !pass : pass;          /* h == 1: through the server-creation directory */
        const struct desig *d = h == 0 ? d_doc : d_h1;
        if (!d || (h == 1 && !differ))
            continue;
        for (int t = now; t >= 0; t--) {
            if (h == 0 && t == now)
                continue;       /* that is the expectation itself */
            desig_eval(d, &m->whist[t], &id);
            if (id.ok && id.ski_len == obs_len && memcmp(id.ski, obs, obs_len) == 0) {
                if (t == now)
                    snprintf(out, n, "uses-XCM_TLS_CERT-of-server-creation");
                else {
                    /* the update that replaced that content: first world-changing op after t */
                    int k = -1;
                    for (int u = t + 1; u <= now; u++)
                        if (world_is_update(m->ophist[u])) {
                            struct ident id2;
                            desig_eval(d, &m->whist[u], &id2);
                            if (!(id2.ok && id2.ski_len == obs_len && memcmp(id2.ski, obs, obs_len) == 0)) {
                                k = m->ophist[u];
                                break;
                            }
                        }
                    snprintf(out, n, "%sstale-after=%s", h ? "server-creation-dir+" : "", k >= 0 ? OPK_NAME[k] : "?");
                }
                return;
            }
        }
    }
    snprintf(out, n, "unexplained");
}

/* ------------------------------------------------------------------------------------------ */
/* one execution (child): record shared with the worker                                       */
/* ------------------------------------------------------------------------------------------ */
#define CR_MAXV 6
struct crec {
    volatile int done;
    int aborted;              /* the implementation left the model: the history cannot go on */
    int nviol;
    char sig[CR_MAXV][200];
    char text[CR_MAXV][700];
    int cur_step;
    char cur_api[48];
    char internal[300];       /* harness-internal failure (check is broken) */
    long steps, conn_attempts, conn_established, conn_refused_as_expected, local_bad_as_expected,
         keepalive_checks, ctx_new, max_live_ctx, identity_checks;
    int verbose;
};
static struct crec *R;
static char g_scratch[500];     /* per-worker scratch directory */
static char g_static[500];
static int g_tick;

static void vlog(const char *fmt, ...)
{
    if (!R || !R->verbose)
        return;
    va_list ap;
    va_start(ap, fmt);
    vfprintf(stdout, fmt, ap);
    va_end(ap);
    fputc('\n', stdout);
    fflush(stdout);
}

static void violation(const char *sig, const char *fmt, ...)
{
    char text[700];
    va_list ap;
    va_start(ap, fmt);
    vsnprintf(text, sizeof text, fmt, ap);
    va_end(ap);
    vlog("VIOLATION %s: %s", sig, text);
    for (int i = 0; i < R->nviol; i++)
        if (!strcmp(R->sig[i], sig))
            return;
    if (R->nviol >= CR_MAXV)
        return;
    snprintf(R->sig[R->nviol], sizeof R->sig[0], "%s", sig);
    snprintf(R->text[R->nviol], sizeof R->text[0], "%s", text);
    R->nviol++;
}

static void internal(const char *fmt, ...) __attribute__((noreturn));
static void internal(const char *fmt, ...)
{
    va_list ap;
    va_start(ap, fmt);
    vsnprintf(R->internal, sizeof R->internal, fmt, ap);
    va_end(ap);
    vlog("INTERNAL %s", R->internal);
    R->done = 1;
    _exit(0);
}

#define CALL(name, call) ({ snprintf(R->cur_api, sizeof R->cur_api, "%s", name); API(name, 1, call); })

/* ---- real file system ---------------------------------------------------------------------- */
#define T0 1700000000L

static void path_of(int dir, int item, char *out, size_t n)
{
    if (dir >= D_NS0 && dir <= D_NSB)
        snprintf(out, n, "%s/nsd/%s%s.pem", g_scratch, IT_NAME[item], NS_SUFFIX[dir - D_NS0]);
    else if (dir == D_SA || dir == D_SB)
        snprintf(out, n, "%s/%s/%s.pem", g_static, D_NAME[dir], IT_NAME[item]);
    else
        snprintf(out, n, "%s/%s/%s.pem", g_scratch, D_NAME[dir], IT_NAME[item]);
}

static void set_mtime(const char *path, long sec, long nsec, int nofollow)
{
    struct timespec ts[2] = { { sec, nsec }, { sec, nsec } };
    if (utimensat(AT_FDCWD, path, ts, nofollow ? AT_SYMLINK_NOFOLLOW : 0) < 0)
        internal("utimensat(%s): %s", path, strerror(errno));
}

static void write_new(const char *path, const char *text, long mtime_sec)
{
    int fd = open(path, O_WRONLY | O_CREAT | O_TRUNC, 0644);
    if (fd < 0)
        internal("create %s: %s", path, strerror(errno));
    size_t n = strlen(text);
    if (write(fd, text, n) != (ssize_t)n)
        internal("write %s: %s", path, strerror(errno));
    close(fd);
    set_mtime(path, mtime_sec, 0, 0);
}

static long fresh_mtime(void) { return T0 + 10L * ++g_tick; }

static void remove_any(const char *path)
{
    struct stat st;
    if (lstat(path, &st) < 0)
        return;
    if (S_ISDIR(st.st_mode))
        rmdir(path);
    else
        unlink(path);
}

static void make_symlink(const char *target, const char *path)
{
    remove_any(path);
    if (symlink(target, path) < 0)
        internal("symlink %s: %s", path, strerror(errno));
    set_mtime(path, T0, 0, 1);
}

/* put the family's bad thing at `path` */
static void make_bad(const char *path, int item)
{
    remove_any(path);
    switch (g_bad_kind) {
    case BK_MISSING: break;
    case BK_DANGLING: make_symlink("/nonexistent/verif/target.pem", path); break;
    case BK_DIR:
        if (mkdir(path, 0755) < 0)
            internal("mkdir %s: %s", path, strerror(errno));
        break;
    default: write_new(path, bad_text(item), fresh_mtime()); break;
    }
}

static void fs_setup(const struct world *w)
{
    char p[700], t[700];
    snprintf(p, sizeof p, "%s/live", g_scratch);
    mkdir(p, 0755);
    snprintf(p, sizeof p, "%s/flink", g_scratch);
    mkdir(p, 0755);
    for (int i = 0; i < NIT; i++) {
        path_of(D_LIVE, i, p, sizeof p);
        write_new(p, g_set[w->live_set][i], T0);
        path_of(D_FLINK, i, p, sizeof p);
        path_of(w->flink_set == SET_A ? D_SA : D_SB, i, t, sizeof t);
        make_symlink(t, p);
    }
    snprintf(p, sizeof p, "%s/link", g_scratch);
    snprintf(t, sizeof t, "%s/%s", g_static, w->link_set == SET_A ? "sA" : "sB");
    make_symlink(t, p);
    if (g_bad_form == F_FILE) {
        snprintf(p, sizeof p, "%s/bad", g_scratch);
        mkdir(p, 0755);
        for (int i = 0; i < NIT; i++) {
            path_of(D_BAD, i, p, sizeof p);
            if (i == g_bad_item)
                make_bad(p, i);
            else
                write_new(p, g_bad_kind == BK_CHAIN ? bad_text(i) : g_set[SET_A][i], T0);
        }
    }
    if (g_use_kube) {
        snprintf(p, sizeof p, "%s/kube", g_scratch);
        mkdir(p, 0755);
        for (int g = 0; g < 2; g++) {
            snprintf(p, sizeof p, "%s/kube/..gen%d", g_scratch, g + 1);
            mkdir(p, 0755);
            for (int i = 0; i < NIT; i++) {
                struct world tmp = *w;
                tmp.kdata = g;
                snprintf(p, sizeof p, "%s/kube/..gen%d/%s.pem", g_scratch, g + 1, IT_NAME[i]);
                write_new(p, vfs_content(&tmp, D_KUBE, i), T0);
            }
        }
        snprintf(p, sizeof p, "%s/kube/..data", g_scratch);
        make_symlink(w->kdata ? "..gen2" : "..gen1", p);
        for (int i = 0; i < NIT; i++) {
            path_of(D_KUBE, i, p, sizeof p);
            snprintf(t, sizeof t, "..data/%s.pem", IT_NAME[i]);
            make_symlink(t, p);
        }
    }
    snprintf(p, sizeof p, "%s/%s", g_scratch, D_NAME[w->env_dir]);
    if (g_use_netns) {
        snprintf(p, sizeof p, "%s/nsd", g_scratch);
        mkdir(p, 0755);
        for (int ns = 0; ns < 3; ns++)
            for (int i = 0; i < NIT; i++) {
                path_of(D_NS0 + ns, i, t, sizeof t);
                write_new(t, g_set[NS_SET[ns]][i], T0);
            }
        for (int ns = 0; ns < 3 && g_use_crl; ns++) {
            snprintf(t, sizeof t, "%s/nsd/crl%s.pem", g_scratch, NS_SUFFIX[ns]);
            write_new(t, g_crl[w->crl_ns[ns]], T0);
        }
    }
    setenv("XCM_TLS_CERT", p, 1);
}

/* apply a world update to the real file system; `after` is the model's world after the op */
static void fs_update(const struct op *o, const struct world *after)
{
    char p[700], t[700];
    switch (o->k) {
    case OP_RWF: case OP_RWK:
        for (int i = 0; i < NIT; i++) {
            path_of(D_LIVE, i, p, sizeof p);
            struct stat st;
            if (stat(p, &st) < 0)
                internal("stat %s: %s", p, strerror(errno));
            const char *text = g_set[after->live_set][i];
            if ((size_t)st.st_size != strlen(text))
                internal("rewrite in place: size differs for %s", p);
            int fd = open(p, O_WRONLY);
            if (fd < 0 || pwrite(fd, text, strlen(text), 0) != (ssize_t)strlen(text))
                internal("rewrite %s: %s", p, strerror(errno));
            close(fd);
            if (o->k == OP_RWK) {
                /* cp -p / rsync -t: the old mtime is put back.  The update happens at a later tick of the file
                   system clock than the previous change of the file (true of any update that is not within the same
                   few milliseconds): make sure of it whatever the granularity, so that the inode change time - which
                   nobody can put back - is distinct */
                struct stat s3;
                int spins = 0;
                do {
                    set_mtime(p, st.st_mtim.tv_sec, st.st_mtim.tv_nsec, 0);
                    stat(p, &s3);
                } while (s3.st_ctim.tv_sec == st.st_ctim.tv_sec && s3.st_ctim.tv_nsec == st.st_ctim.tv_nsec &&
                         ++spins < 2000000);
                if (spins >= 2000000)
                    internal("file system clock does not advance");
            } else
                set_mtime(p, fresh_mtime(), 0, 0);
            struct stat s2;
            stat(p, &s2);
            if (s2.st_ino != st.st_ino)
                internal("rewrite in place changed the inode of %s", p);
        }
        break;
    case OP_MVO:
        for (int i = 0; i < NIT; i++) {
            path_of(D_LIVE, i, p, sizeof p);
            snprintf(t, sizeof t, "%s.new", p);
            write_new(t, g_set[after->live_set][i], fresh_mtime());
            if (rename(t, p) < 0)
                internal("rename %s: %s", p, strerror(errno));
        }
        break;
    case OP_FLD:
        snprintf(p, sizeof p, "%s/link", g_scratch);
        snprintf(t, sizeof t, "%s/%s", g_static, after->link_set == SET_A ? "sA" : "sB");
        make_symlink(t, p);
        break;
    case OP_FLF:
        for (int i = 0; i < NIT; i++) {
            path_of(D_FLINK, i, p, sizeof p);
            path_of(after->flink_set == SET_A ? D_SA : D_SB, i, t, sizeof t);
            make_symlink(t, p);
        }
        break;
    case OP_ENV:
        snprintf(p, sizeof p, "%s/%s", g_scratch, D_NAME[after->env_dir]);
        setenv("XCM_TLS_CERT", p, 1);
        break;
    case OP_KDP: {
        /* atomically: new link under a temporary name, renamed over ..data; cert.pem/key.pem/tc.pem stay */
        snprintf(t, sizeof t, "%s/kube/..data_tmp", g_scratch);
        if (symlink(after->kdata ? "..gen2" : "..gen1", t) < 0)
            internal("symlink %s: %s", t, strerror(errno));
        set_mtime(t, T0, 0, 1);
        snprintf(p, sizeof p, "%s/kube/..data", g_scratch);
        if (rename(t, p) < 0)
            internal("rename %s: %s", p, strerror(errno));
        break;
    }
    case OP_KRW: case OP_KMV: case OP_KTW: case OP_KTM:
        for (int i = 0; i < NIT; i++) {
            int is_tc = o->k == OP_KTW || o->k == OP_KTM;
            if ((i == IT_TC) != is_tc)
                continue;
            const char *text = vfs_content(after, D_KUBE, i);
            snprintf(p, sizeof p, "%s/kube/..gen%d/%s.pem", g_scratch, after->kdata + 1, IT_NAME[i]);
            if (o->k == OP_KRW || o->k == OP_KTW) {
                struct stat st, s2;
                if (stat(p, &st) < 0)
                    internal("stat %s: %s", p, strerror(errno));
                int fd = open(p, O_WRONLY | O_TRUNC);
                if (fd < 0 || write(fd, text, strlen(text)) != (ssize_t)strlen(text))
                    internal("rewrite %s: %s", p, strerror(errno));
                close(fd);
                set_mtime(p, fresh_mtime(), 0, 0);
                stat(p, &s2);
                if (s2.st_ino != st.st_ino)
                    internal("rewrite in place changed the inode of %s", p);
            } else {
                snprintf(t, sizeof t, "%s.new", p);
                write_new(t, text, fresh_mtime());
                if (rename(t, p) < 0)
                    internal("rename %s: %s", p, strerror(errno));
            }
        }
        break;
    case OP_SWC:
        for (int ns = 1; ns <= 2; ns++) {
            snprintf(p, sizeof p, "%s/nsd/crl%s.pem", g_scratch, NS_SUFFIX[ns]);
            snprintf(t, sizeof t, "%s.new", p);
            write_new(t, g_crl[after->crl_ns[ns]], fresh_mtime());
            if (rename(t, p) < 0)
                internal("rename %s: %s", p, strerror(errno));
        }
        break;
    case OP_ENK:
        snprintf(p, sizeof p, "%s/%s", g_scratch, D_NAME[after->env_dir]);
        setenv("XCM_TLS_CERT", p, 1);
        break;
    case OP_BRK:
        path_of(D_LIVE, g_bad_item, p, sizeof p);
        make_bad(p, g_bad_item);
        if (g_bad_kind == BK_CHAIN) {       /* the chain's leaf comes with its own key */
            path_of(D_LIVE, IT_KEY, p, sizeof p);
            make_bad(p, IT_KEY);
        }
        break;
    case OP_FIX:
        for (int i = 0; i < NIT; i++) {
            if (i != g_bad_item && !(g_bad_kind == BK_CHAIN && i == IT_KEY))
                continue;
            path_of(D_LIVE, i, p, sizeof p);
            remove_any(p);
            snprintf(t, sizeof t, "%s.new", p);
            write_new(t, g_set[after->live_set][i], fresh_mtime());
            if (rename(t, p) < 0)
                internal("rename %s: %s", p, strerror(errno));
        }
        break;
    default: break;
    }
}

/* ---- sockets --------------------------------------------------------------------------------- */
struct rsrv { int id; struct xcm_socket *s; char addr[96]; };
struct rconn {
    int id;
    struct xcm_socket *c, *a;
    unsigned char seen_by_c[32], seen_by_a[32];     /* peer key ids as read at establishment */
    int seen_by_c_len, seen_by_a_len;
    int born;
};
static struct rsrv g_srv[MAXSOCK];
static int g_nsrv;
static struct rconn g_conn[MAXSOCK];
static int g_nconn;
static int g_msgno;

static struct xcm_attr_map *attrs_of(int cfg)
{
    struct xcm_attr_map *m = xcm_attr_map_create();
    xcm_attr_map_add_bool(m, "xcm.blocking", false);
    struct desig d;
    cfg_desig(cfg, &d);
    if (d.check_crl)
        xcm_attr_map_add_bool(m, "tls.check_crl", true);
    for (int i = 0; i < NIT; i++) {
        char name[32], p[700];
        if (d.it[i].form == F_FILE) {
            snprintf(name, sizeof name, "tls.%s_file", IT_NAME[i]);
            path_of(d.it[i].dir, i, p, sizeof p);
            xcm_attr_map_add_str(m, name, p);
        } else if (d.it[i].form == F_VALUE) {
            snprintf(name, sizeof name, "tls.%s", IT_NAME[i]);
            xcm_attr_map_add_bin(m, name, d.it[i].val, strlen(d.it[i].val));
        }
    }
    return m;
}

static int open_sockets(void) { return g_nsrv + 2 * g_nconn; }

/* one message from -> to; 1 delivered intact, otherwise -errno (or -EBADMSG / -ETIME) */
static int pass_message(struct xcm_socket *from, struct xcm_socket *to)
{
    unsigned char msg[24], buf[64];
    int m = ++g_msgno;
    pay_fill(msg, m, sizeof msg);
    int sent = 0;
    for (int i = 0; i < 300; i++) {
        if (!sent) {
            int rc = CALL("xcm_send", xcm_send(from, msg, sizeof msg));
            if (rc == 0)
                sent = 1;
            else if (errno != EAGAIN)
                return -errno;
        }
        int rc = CALL("xcm_finish", xcm_finish(from));
        if (rc < 0 && errno != EAGAIN)
            return -errno;
        rc = CALL("xcm_receive", xcm_receive(to, buf, sizeof buf));
        if (rc > 0) {
            if (rc != (int)sizeof msg || memcmp(buf, msg, sizeof msg))
                return -EBADMSG;
            return sent ? 1 : -EBADMSG;
        }
        if (rc == 0)
            return -EPIPE;
        if (errno != EAGAIN)
            return -errno;
    }
    return -ETIME;
}

static int peer_ski(struct xcm_socket *s, unsigned char *out, int cap)
{
    int rc = CALL("xcm_attr_get", xcm_attr_get_bin(s, "tls.peer_subject_key_id", out, cap));
    return rc < 0 ? 0 : rc;
}

static const char *cfg_label(int role_accept, int cfg, int srv_cfg)
{
    static char b[2][40];
    char *o = b[role_accept];
    if (role_accept && cfg == CFG_INH)
        snprintf(o, sizeof b[0], "inh:%s", CFG_NAME[srv_cfg]);
    else
        snprintf(o, sizeof b[0], "%s", CFG_NAME[cfg]);
    return o;
}

/* equal-concatenation classes of by-value configurations: s1/s2 split cert|key, s3/s4 split key|tc */
static const char *split_class(int cfg)
{
    if (cfg == CFG_S1 || cfg == CFG_S2)
        return "cert-key-boundary";
    if (cfg == CFG_S3 || cfg == CFG_S4)
        return "key-tc-boundary";
    return NULL;
}

/* names the configurations of a connection in a signature: when an equal-concatenation configuration is
   involved the class is the root cause, otherwise both configurations are spelled out */
static const char *pair_label(const struct op *o, const struct expect *e, const char *lc, const char *la)
{
    static char b[96];
    const char *k = split_class(o->c2 == CFG_INH ? e->acfg_srv : o->c2);
    if (!k)
        k = split_class(o->c1);
    if (k)
        snprintf(b, sizeof b, "by-value-split=%s", k);
    else
        snprintf(b, sizeof b, "client=%s/accept=%s", lc, la);
    return b;
}

static const char *bad_label(void)
{
    static char b[64];
    if (g_bad_form)
        snprintf(b, sizeof b, "/bad=%s:%s:%s", g_bad_form == F_FILE ? "file" : "value", g_bk_label,
                 IT_NAME[g_bad_item]);
    else
        b[0] = 0;
    return b;
}

/* the local-material clause: a call that designates bad material must fail with EPROTO;
   returns 1 if the history can go on */
static int check_local(const char *role, const char *cfgl, const struct ident *exp, int failed, int err)
{
    char sig[200];
    if (!exp->ok) {
        if (!failed) {
            if (g_bad_kind == BK_CHAIN)
                snprintf(sig, sizeof sig, "C18/bad-material-accepted/role=%s/bad=%s:%s/tp=tls", role,
                         g_bad_form == F_FILE ? "file" : "value", g_bk_label);
            else
                snprintf(sig, sizeof sig, "C18/bad-material-accepted/role=%s/cfg=%s%s/tp=tls", role, cfgl, bad_label());
            violation(sig, "%s with material that is %s succeeded; it must fail with EPROTO", role, exp->why);
            return 0;
        }
        if (err != EPROTO) {
            /* the root cause is per call and kind of unreadable thing, not per item or configuration */
            if (g_bad_form)
                snprintf(sig, sizeof sig, "C18/errno/role=%s/bad=%s:%s/got=%s/tp=tls", role,
                         g_bad_form == F_FILE ? "file" : "value", g_bk_label, ename(err));
            else
                snprintf(sig, sizeof sig, "C18/errno/role=%s/cfg=%s/got=%s/tp=tls", role, cfgl, ename(err));
            violation(sig, "%s with material that is %s failed with %s; the documented errno is EPROTO", role,
                      exp->why, ename(err));
        } else
            R->local_bad_as_expected++;
        return 1;
    }
    if (failed) {
        snprintf(sig, sizeof sig, "C18/failed-unexpectedly/role=%s/cfg=%s%s/errno=%s/tp=tls", role, cfgl, bad_label(),
                 ename(err));
        violation(sig, "%s with valid designated material (subject key id %s) failed with %s", role,
                  hex(exp->ski, exp->ski_len), ename(err));
        return 0;
    }
    return 1;
}

/* netns family: the default file names a socket settled on are visible in tls.cert_file */
static void netns_file_check(const char *role, struct xcm_socket *sock, const struct desig *fin, int ctx_ns)
{
    if (!g_use_netns || fin->it[IT_CERT].form != F_FILE)
        return;
    char want[700], got[700] = "";
    path_of(fin->it[IT_CERT].dir, IT_CERT, want, sizeof want);
    int rc = CALL("xcm_attr_get", xcm_attr_get_str(sock, "tls.cert_file", got, sizeof got));
    vlog("    %s in namespace %s: tls.cert_file = %s", role, NS_NAME[ctx_ns], rc < 0 ? ename(errno) : strrchr(got, '/') + 1);
    if (rc < 0 || strcmp(got, want)) {
        char sig[200];
        snprintf(sig, sizeof sig, "C18/netns-file-naming/role=%s/tp=tls", role);
        violation(sig, "%s called by a thread in network namespace %s: tls.cert_file is %s, the file naming of that "
                  "namespace gives %s", role, NS_NAME[ctx_ns], rc < 0 ? ename(errno) : got, want);
    }
}

static int do_srv(struct model *m, const struct op *o, const struct expect *e)
{
    struct xcm_attr_map *a = attrs_of(o->c1);
    struct xcm_socket *s = CALL("xcm_server_a", xcm_server_a("tls:127.0.0.1:0", a));
    int err = errno;
    xcm_attr_map_destroy(a);
    vlog("  xcm_server_a(%s) -> %s   expected: %s", CFG_NAME[o->c1], s ? "socket" : ename(err),
         e->srv.ok ? hex(e->srv.ski, e->srv.ski_len) : e->srv.why);
    int go = check_local("server", CFG_NAME[o->c1], &e->srv, s == NULL, err);
    if (s && !e->srv.ok)
        CALL("xcm_close", xcm_close(s));
    if (!go)
        return 0;
    if (s) {
        struct rsrv *r = &g_srv[g_nsrv++];
        r->s = s;
        r->id = m->srv[m->nsrv - 1].id;
        const char *la = CALL("xcm_local_addr", xcm_local_addr(s));
        if (!la)
            internal("xcm_local_addr(server) failed: %s", ename(errno));
        snprintf(r->addr, sizeof r->addr, "%s", la);
        netns_file_check("server", s, &m->srv[m->nsrv - 1].fin, e->ctx_ns);
    }
    return 1;
}

static void identity_check(struct model *m, const char *role, const char *cfgl, struct xcm_socket *observer,
                           const struct ident *exp, const struct desig *d_doc, const struct desig *d_h1,
                           unsigned char *seen, int *seen_len)
{
    *seen_len = peer_ski(observer, seen, 32);
    R->identity_checks++;
    char cn[128] = "";
    CALL("xcm_attr_get", xcm_attr_get_str(observer, "tls.peer.cert.subject.cn", cn, sizeof cn));
    char names[256] = "";
    CALL("xcm_attr_get", xcm_attr_get_str(observer, "tls.peer_names", names, sizeof names));
    vlog("    %s presents key id %s cn=%s names=%s   designated: %s cn=%s", role, hex(seen, *seen_len), cn, names,
         hex(exp->ski, exp->ski_len), exp->cn);
    if (*seen_len != exp->ski_len || memcmp(seen, exp->ski, exp->ski_len)) {
        char cause[96], sig[200];
        mismatch_cause(m, d_doc, d_h1, seen, *seen_len, cause, sizeof cause);
        if (g_use_netns)
            snprintf(cause, sizeof cause, "files-of-another-network-namespace");
        snprintf(sig, sizeof sig, "C18/identity/role=%s/cfg=%s/%s/tp=tls", role, cfgl, cause);
        violation(sig, "the %s side designated the certificate with subject key id %s (cn %s) when the call was made, "
                  "but its peer sees %s (cn %s)", role, hex(exp->ski, exp->ski_len), exp->cn, hex(seen, *seen_len), cn);
    } else if (strcmp(cn, exp->cn) || strncmp(names, exp->cn, strlen(exp->cn))) {
        char sig[200];
        snprintf(sig, sizeof sig, "C18/identity-names/role=%s/cfg=%s/tp=tls", role, cfgl);
        violation(sig, "key id matches but tls.peer.cert.subject.cn=%s tls.peer_names=%s, designated cn %s", cn, names,
                  exp->cn);
    }
}

static int do_conn(struct model *m, const struct op *o, const struct expect *e)
{
    struct rsrv *srv = &g_srv[g_nsrv - 1];
    const char *lc = cfg_label(0, o->c1, 0), *la = cfg_label(1, o->c2, e->acfg_srv);
    char sig[200];
    R->conn_attempts++;
    struct xcm_attr_map *ac = attrs_of(o->c1);
    struct xcm_socket *c = CALL("xcm_connect_a", xcm_connect_a(srv->addr, ac));
    int err = errno;
    xcm_attr_map_destroy(ac);
    vlog("  xcm_connect_a(%s) -> %s   designated: %s", lc, c ? "socket" : ename(err),
         e->c.ok ? hex(e->c.ski, e->c.ski_len) : e->c.why);
    int go = check_local("connect", lc, &e->c, c == NULL, err);
    if (c && !e->c.ok)
        CALL("xcm_close", xcm_close(c));
    if (!go)
        return 0;
    if (!c)
        return 1;
    netns_file_check("connect", c, &e->dc, e->ctx_ns);
    /* accept */
    struct xcm_attr_map *aa = attrs_of(o->c2);
    struct xcm_socket *a = NULL;
    for (int i = 0; i < 100 && !a; i++) {
        a = CALL("xcm_accept_a", xcm_accept_a(srv->s, aa));
        err = errno;
        if (a || err != EAGAIN)
            break;
        CALL("xcm_finish", xcm_finish(c));
    }
    xcm_attr_map_destroy(aa);
    vlog("  xcm_accept_a(%s) -> %s   designated: %s", la, a ? "socket" : ename(err),
         e->a.ok ? hex(e->a.ski, e->a.ski_len) : e->a.why);
    if (!a && err == EAGAIN)
        internal("no connection arrived at the server socket");
    /* An accepted socket that inherits defaulted paths of the server: when the variable was switched since,
       the implementation looks at the old directory - the failure/success of the call itself then follows the
       old directory too.  Name that cause instead of a generic one. */
    struct ident h1;
    desig_eval(&e->da_h1, &m->whist[m->nsteps - 1], &h1);
    if ((a == NULL) != !e->a.ok && h1.ok == (a != NULL) && h1.ok != e->a.ok) {
        snprintf(sig, sizeof sig, "C18/accept-outcome/cfg=%s%s/uses-XCM_TLS_CERT-of-server-creation/tp=tls", la, bad_label());
        violation(sig, "xcm_accept %s although the material designated at accept time is %s; the outcome follows the "
                  "directory XCM_TLS_CERT named when the server socket was created", a ? "succeeded" : "failed",
                  e->a.ok ? "valid" : e->a.why);
        if (a)
            CALL("xcm_close", xcm_close(a));
        CALL("xcm_close", xcm_close(c));
        return 0;
    }
    go = check_local("accept", la, &e->a, a == NULL, err);
    if (a && !e->a.ok)
        CALL("xcm_close", xcm_close(a));
    if (!go || !a) {
        /* the client must not be left with an established connection */
        for (int i = 0; i < 100; i++)
            if (CALL("xcm_finish", xcm_finish(c)) < 0 && errno != EAGAIN)
                break;
        CALL("xcm_close", xcm_close(c));
        return go;
    }
    /* handshake */
    int fail_errno = 0;
    const char *fail_side = "";
    for (int i = 0; i < 400; i++) {
        int r1 = CALL("xcm_finish", xcm_finish(c));
        int e1 = errno;
        int r2 = CALL("xcm_finish", xcm_finish(a));
        int e2 = errno;
        if (r1 < 0 && e1 != EAGAIN) {
            fail_errno = e1;
            fail_side = "connect";
            break;
        }
        if (r2 < 0 && e2 != EAGAIN) {
            fail_errno = e2;
            fail_side = "accept";
            break;
        }
        if (r1 == 0 && r2 == 0)
            break;
        if (i == 399) {
            fail_errno = ETIME;
            fail_side = "both";
        }
    }
    if (!fail_errno) {
        int r = pass_message(c, a);
        if (r == 1)
            r = pass_message(a, c);
        if (r != 1) {
            fail_errno = -r;
            fail_side = "traffic";
        }
    }
    /* Same root cause as the identity form: the accepted socket took everything (trust bundle included) from the
       directory XCM_TLS_CERT named when the server socket was created, and the outcome of the handshake is the
       one that directory gives, not the one the directory designated now gives. */
    {
        int differ = 0;
        for (int i = 0; i < NIT; i++)
            if (e->da_h1.it[i].form != e->da_doc.it[i].form || e->da_h1.it[i].dir != e->da_doc.it[i].dir ||
                e->da_h1.it[i].val != e->da_doc.it[i].val)
                differ = 1;
        int est_h1 = e->c.ok && h1.ok && ref_accepts(&h1, &e->c) && ref_accepts(&e->c, &h1);
        int est = !fail_errno;
        if (differ && o->c2 == CFG_INH && est != e->established && est == est_h1) {
            snprintf(sig, sizeof sig, "C18/identity/role=accept/cfg=%s/uses-XCM_TLS_CERT-of-server-creation/tp=tls", la);
            violation(sig, "the connection was %s although the material designated at accept time (trust mask %u) demands "
                      "the opposite; the accepted socket used the directory XCM_TLS_CERT named when the server socket was "
                      "created (trust mask %u)", est ? "established" : "refused", e->a.trust, h1.trust);
            CALL("xcm_close", xcm_close(c));
            CALL("xcm_close", xcm_close(a));
            return 0;
        }
    }
    vlog("  handshake: %s%s%s   expected: %s", fail_errno ? "failed at " : "established", fail_side,
         fail_errno ? ename(fail_errno) : "", e->established ? "established" : "refused");
    if (fail_errno) {
        CALL("xcm_close", xcm_close(c));
        CALL("xcm_close", xcm_close(a));
        if (e->established) {
            snprintf(sig, sizeof sig, "C18/failed-unexpectedly/role=handshake/%s/tp=tls", pair_label(o, e, lc, la));
            violation(sig, "client designated %s (trusting %u), accepted socket designated %s (trusting %u): the connection "
                      "must be established, but it failed (%s, %s) [client=%s accept=%s]", hex(e->c.ski, e->c.ski_len), e->c.trust,
                      hex(e->a.ski, e->a.ski_len), e->a.trust, fail_side, ename(fail_errno), lc, la);
            return 0;
        }
        R->conn_refused_as_expected++;
        return 1;
    }
    struct rconn rc = { 0 };
    rc.c = c;
    rc.a = a;
    rc.born = m->nsteps;
    if (!e->established) {
        /* which identities did they use? */
        unsigned char s1[32], s2[32];
        int l1 = peer_ski(c, s1, sizeof s1), l2 = peer_ski(a, s2, sizeof s2);
        snprintf(sig, sizeof sig, "C18/established-unexpectedly/%s/tp=tls", pair_label(o, e, lc, la));
        violation(sig, "client designated %s (chain complete %d, trusting mask %u), accepted socket designated %s (chain "
                  "complete %d, trusting mask %u): one side cannot verify the other with exactly that material, yet the "
                  "connection was established and passes traffic (client sees %s, server sees %s) - material of another "
                  "configuration was used [client=%s accept=%s]", hex(e->c.ski, e->c.ski_len), e->c.issuer != 3 || e->c.has_inter, e->c.trust,
                  hex(e->a.ski, e->a.ski_len), e->a.issuer != 3 || e->a.has_inter, e->a.trust, hex(s1, l1), hex(s2, l2), lc, la);
        CALL("xcm_close", xcm_close(c));
        CALL("xcm_close", xcm_close(a));
        return 0;
    }
    R->conn_established++;
    identity_check(m, "accept", la, c, &e->a, &e->da_doc, &e->da_h1, rc.seen_by_c, &rc.seen_by_c_len);
    identity_check(m, "connect", lc, a, &e->c, &e->dc, NULL, rc.seen_by_a, &rc.seen_by_a_len);
    rc.id = m->conn_id[m->nconn - 1];
    g_conn[g_nconn++] = rc;
    return 1;
}

/* established connections keep their identities and keep passing traffic */
static void keepalive(const struct op *last)
{
    for (int i = 0; i < g_nconn; i++) {
        struct rconn *k = &g_conn[i];
        unsigned char s[32];
        char sig[200];
        R->keepalive_checks++;
        int r = pass_message(k->c, k->a);
        if (r == 1)
            r = pass_message(k->a, k->c);
        if (r != 1) {
            snprintf(sig, sizeof sig, "C18/established-connection-broken/after=%s/errno=%s/tp=tls", OPK_NAME[last->k],
                     ename(-r));
            violation(sig, "a connection established earlier stopped passing traffic after %s (%s)", last->tok, ename(-r));
            continue;
        }
        int l = peer_ski(k->c, s, sizeof s);
        int l2;
        unsigned char s2[32];
        l2 = peer_ski(k->a, s2, sizeof s2);
        if (l != k->seen_by_c_len || memcmp(s, k->seen_by_c, l) || l2 != k->seen_by_a_len || memcmp(s2, k->seen_by_a, l2)) {
            snprintf(sig, sizeof sig, "C18/established-connection-changed-identity/after=%s/tp=tls", OPK_NAME[last->k]);
            violation(sig, "peer identity of an established connection changed after %s", last->tok);
        }
    }
}

static void ctx_bound(const struct op *last)
{
    long live = g_ctx_new - g_ctx_free;
    if (live > R->max_live_ctx)
        R->max_live_ctx = live;
    if (live > open_sockets() || live < 0) {
        char sig[200];
        snprintf(sig, sizeof sig, "C18/ctx-not-released/more-contexts-than-sockets/after=%s/tp=tls", OPK_NAME[last->k]);
        violation(sig, "%ld TLS contexts alive (SSL_CTX_new - SSL_CTX_free) but only %d TLS sockets open after %s", live,
                  open_sockets(), last->tok);
    }
}

struct thr_arg { struct model *m; const struct op *o; const struct expect *e; int go; };
static void *thr_main(void *p)
{
    struct thr_arg *a = p;
    if (setns(g_nsfd[a->o->t], CLONE_NEWNET) < 0)
        internal("setns in thread: %s", strerror(errno));
    a->go = a->o->k == OP_SRV ? do_srv(a->m, a->o, a->e) : do_conn(a->m, a->o, a->e);
    return NULL;
}

/* a socket operation on the calling thread, or on a fresh thread that enters its namespace first and ends afterwards */
static int socket_op(struct model *m, const struct op *o, const struct expect *e)
{
    if (o->t < 0)
        return o->k == OP_SRV ? do_srv(m, o, e) : do_conn(m, o, e);
    struct thr_arg a = { m, o, e, 0 };
    pthread_t th;
    if (pthread_create(&th, NULL, thr_main, &a) != 0)
        internal("pthread_create failed");
    pthread_join(th, NULL);
    return a.go;
}

static void run_history(const uint8_t *ops, int len)
{
    struct model m;
    struct expect e;
    model_init(&m);
    fs_setup(&m.w);
    setenv("XCM_CTL", "/nonexistent-ctl-dir", 1);
    struct env_cfg cfg = { .io_menu = 0, .sleep_monitor = 0, .only_task = -1 };
    env_init(&cfg);
    det_rand_install(1);
    long base = g_ctx_new - g_ctx_free;
    if (base != 0)
        internal("SSL_CTX baseline is not 0");
    for (int i = 0; i < len; i++) {
        const struct op *o = &g_ops[ops[i]];
        R->cur_step = i;
        vlog("[%d] %s", i + 1, o->tok);
        model_apply(&m, o, &e);
        if (!e.feasible)
            internal("history is not feasible at step %d (%s)", i + 1, o->tok);
        int go = 1;
        switch (o->k) {
        case OP_SRV: case OP_CONN: go = socket_op(&m, o, &e); break;
        case OP_SN:
            if (setns(g_nsfd[o->c1], CLONE_NEWNET) < 0)
                internal("setns: %s", strerror(errno));
            break;
        case OP_FK: {
            fflush(stdout);
            pid_t pid = fork();
            if (pid < 0)
                internal("fork: %s", strerror(errno));
            if (pid > 0) {
                /* the rest of the history (and the verdict, through the shared record) is the child's */
                int st = 0;
                while (waitpid(pid, &st, 0) < 0 && errno == EINTR)
                    ;
                if (WIFSIGNALED(st)) {
                    signal(WTERMSIG(st), SIG_DFL);
                    raise(WTERMSIG(st));
                }
                _exit(WIFEXITED(st) ? WEXITSTATUS(st) : 3);
            }
            alarm(60);
            if (setns(g_nsfd[o->c1], CLONE_NEWNET) < 0)
                internal("setns after fork: %s", strerror(errno));
            break;
        }
        case OP_X:
            CALL("xcm_close", xcm_close(g_conn[0].c));
            CALL("xcm_close", xcm_close(g_conn[0].a));
            memmove(&g_conn[0], &g_conn[1], sizeof g_conn[0] * --g_nconn);
            break;
        case OP_XS:
            CALL("xcm_close", xcm_close(g_srv[0].s));
            memmove(&g_srv[0], &g_srv[1], sizeof g_srv[0] * --g_nsrv);
            break;
        default: fs_update(o, &m.w); break;
        }
        R->steps++;
        if (!go) {
            R->aborted = 1;
            vlog("  -- the implementation left the model here; history abandoned");
            break;
        }
        if (g_nsrv != m.nsrv || g_nconn != m.nconn)
            internal("model and harness disagree on open sockets after step %d", i + 1);
        keepalive(o);
        ctx_bound(o);
        vlog("  contexts alive %ld, sockets open %d", g_ctx_new - g_ctx_free, open_sockets());
    }
    if (!R->aborted) {
        /* tear down: connections oldest first, then servers */
        R->cur_step = len;
        while (g_nconn > 0) {
            CALL("xcm_close", xcm_close(g_conn[0].c));
            CALL("xcm_close", xcm_close(g_conn[0].a));
            memmove(&g_conn[0], &g_conn[1], sizeof g_conn[0] * --g_nconn);
        }
        while (g_nsrv > 0) {
            CALL("xcm_close", xcm_close(g_srv[0].s));
            memmove(&g_srv[0], &g_srv[1], sizeof g_srv[0] * --g_nsrv);
        }
        long live = g_ctx_new - g_ctx_free;
        vlog("teardown: SSL_CTX_new=%ld SSL_CTX_free=%ld", g_ctx_new, g_ctx_free);
        if (live != 0)
            violation("C18/ctx-not-released/at-teardown/tp=tls", "after the last TLS socket was closed SSL_CTX_new - "
                      "SSL_CTX_free = %ld (new %ld, free %ld)", live, g_ctx_new, g_ctx_free);
    }
    R->ctx_new = g_ctx_new;
    R->done = 1;
}

/* ------------------------------------------------------------------------------------------ */
/* driver: level-synchronous BFS over histories, one forked child per history                 */
/* ------------------------------------------------------------------------------------------ */
struct hist { uint8_t len; uint8_t ops[MAXD]; };

#define SH_MAXV 192
struct shviol { char sig[200]; char text[700]; char hist[120]; uint64_t count; int depth; };
struct shared {
    pthread_mutex_t lock;
    volatile uint64_t next;
    uint64_t n;
    volatile int deadline_hit;
    uint64_t runs, steps, conn_attempts, conn_established, conn_refused, local_bad, keepalive, ctx_new, identity_checks,
             crashes, aborted, max_live_ctx;
    int nviol;
    struct shviol viol[SH_MAXV];
    int nbroke;
    char broke[8][320];
};
static struct shared *S;
static struct hist *g_frontier;
static uint8_t *g_result;          /* per history: 1 ran, 2 abandoned */
static double g_deadline_at;

static double now_s(void)
{
    /* clock_gettime is interposed by the shim (virtual clock); the tier deadline is real time */
    struct timeval tv;
    gettimeofday(&tv, NULL);
    return tv.tv_sec + tv.tv_usec / 1e6;
}

static void hist_str(const struct hist *h, char *out, size_t n)
{
    size_t o = 0;
    out[0] = 0;
    for (int i = 0; i < h->len && o + 26 < n; i++)
        o += snprintf(out + o, n - o, "%s%s", i ? "," : "", g_ops[h->ops[i]].tok);
}

static int rm_cb(const char *p, const struct stat *st, int flag, struct FTW *f)
{
    (void)st; (void)flag; (void)f;
    return remove(p);
}
static void rm_rf(const char *p) { nftw(p, rm_cb, 16, FTW_DEPTH | FTW_PHYS); }

static void json_str(FILE *f, const char *s)
{
    fputc('"', f);
    for (; *s; s++) {
        if (*s == '"' || *s == '\\')
            fprintf(f, "\\%c", *s);
        else if ((unsigned char)*s < 0x20)
            fprintf(f, "\\u%04x", *s);
        else
            fputc(*s, f);
    }
    fputc('"', f);
}

static void sh_violation(const char *sig, const char *text, const struct hist *h)
{
    pthread_mutex_lock(&S->lock);
    int i;
    for (i = 0; i < S->nviol; i++)
        if (!strcmp(S->viol[i].sig, sig))
            break;
    if (i == S->nviol && S->nviol < SH_MAXV) {
        S->nviol++;
        snprintf(S->viol[i].sig, sizeof S->viol[i].sig, "%s", sig);
        S->viol[i].count = 0;
        S->viol[i].depth = 99;
    }
    if (i < S->nviol) {
        struct shviol *v = &S->viol[i];
        char hs[120];
        hist_str(h, hs, sizeof hs);
        v->count++;
        /* keep the shortest, then lexicographically first history: independent of worker timing */
        if (h->len < v->depth || (h->len == v->depth && strcmp(hs, v->hist) < 0)) {
            v->depth = h->len;
            snprintf(v->hist, sizeof v->hist, "%s", hs);
            snprintf(v->text, sizeof v->text, "%s", text);
        }
    }
    pthread_mutex_unlock(&S->lock);
}

static void sh_broke(const char *fmt, ...)
{
    pthread_mutex_lock(&S->lock);
    if (S->nbroke < 8) {
        va_list ap;
        va_start(ap, fmt);
        vsnprintf(S->broke[S->nbroke++], sizeof S->broke[0], fmt, ap);
        va_end(ap);
    }
    pthread_mutex_unlock(&S->lock);
}

static const char *signame(int s)
{
    switch (s) {
    case SIGSEGV: return "SIGSEGV";
    case SIGABRT: return "SIGABRT";
    case SIGBUS: return "SIGBUS";
    case SIGFPE: return "SIGFPE";
    case SIGALRM: return "hang";
    case SIGILL: return "SIGILL";
    default: return "signal";
    }
}

/* runs one history in a forked child; returns 0 ok, 2 abandoned */
static int run_one(struct crec *rec, const struct hist *h, int verbose)
{
    rm_rf(g_scratch);
    mkdir(g_scratch, 0755);
    memset(rec, 0, sizeof *rec);
    rec->verbose = verbose;
    fflush(stdout);
    pid_t pid = fork();
    if (pid < 0) {
        sh_broke("fork: %s", strerror(errno));
        return 0;
    }
    if (pid == 0) {
        if (!verbose) {
            int fd = open("/dev/null", O_WRONLY);
            dup2(fd, 1);
            dup2(fd, 2);
        }
        alarm(60);
        R = rec;
        run_history(h->ops, h->len);
        _exit(0);
    }
    int st = 0;
    while (waitpid(pid, &st, 0) < 0 && errno == EINTR)
        ;
    pthread_mutex_lock(&S->lock);
    S->runs++;
    S->steps += rec->steps;
    S->conn_attempts += rec->conn_attempts;
    S->conn_established += rec->conn_established;
    S->conn_refused += rec->conn_refused_as_expected;
    S->local_bad += rec->local_bad_as_expected;
    S->keepalive += rec->keepalive_checks;
    S->identity_checks += rec->identity_checks;
    S->ctx_new += rec->ctx_new;
    if ((uint64_t)rec->max_live_ctx > S->max_live_ctx)
        S->max_live_ctx = rec->max_live_ctx;
    pthread_mutex_unlock(&S->lock);
    int abandoned = rec->aborted;
    if (rec->internal[0]) {
        char hs[120];
        hist_str(h, hs, sizeof hs);
        sh_broke("%s [history %s]", rec->internal, hs);
        abandoned = 1;
    } else if (!(WIFEXITED(st) && WEXITSTATUS(st) == 0 && rec->done)) {
        char sig[200], text[300];
        const char *tok = rec->cur_step < h->len ? g_ops[h->ops[rec->cur_step]].tok : "teardown";
        snprintf(sig, sizeof sig, "C18/crash/%s/in=%s/op=%s%s/tp=tls", WIFSIGNALED(st) ? signame(WTERMSIG(st)) : "exit",
                 rec->cur_api[0] ? rec->cur_api : "-", tok, bad_label());
        snprintf(text, sizeof text, "the process died (status 0x%x) during %s at step %d (%s)", st, rec->cur_api,
                 rec->cur_step + 1, tok);
        sh_violation(sig, text, h);
        __sync_fetch_and_add(&S->crashes, 1);
        abandoned = 1;
    }
    for (int i = 0; i < rec->nviol; i++)
        sh_violation(rec->sig[i], rec->text[i], h);
    if (abandoned)
        __sync_fetch_and_add(&S->aborted, 1);
    return abandoned ? 2 : 0;
}

/* netns family fixture, made once per worker (like the static certificate directories it never changes): a private
   mount namespace in which the named-namespace directory is a tmpfs holding nsA and nsB - bind mounts of two new network
   namespaces, which is all `ip netns add` does - and descriptors for setns().  Returns 0, or -errno of the refused step. */
static int netns_setup(char *why, size_t n)
{
    const char *step = "unshare(CLONE_NEWNS)";
    if (unshare(CLONE_NEWNS) < 0)
        goto refused;
    step = "mount --make-rprivate /";
    if (mount(NULL, "/", NULL, MS_REC | MS_PRIVATE, NULL) < 0)
        goto refused;
    struct stat st;
    if (stat("/run/netns", &st) == 0) {
        step = "mount tmpfs /run/netns";
        if (mount("tmpfs", "/run/netns", "tmpfs", 0, NULL) < 0)
            goto refused;
    } else {
        step = "mount tmpfs /run";
        if (mount("tmpfs", "/run", "tmpfs", 0, NULL) < 0)
            goto refused;
        mkdir("/run/netns", 0755);
    }
    step = "open /proc/self/ns/net";
    if ((g_nsfd[0] = open("/proc/self/ns/net", O_RDONLY | O_CLOEXEC)) < 0)
        goto refused;
    for (int ns = 1; ns <= 2; ns++) {
        char p[64];
        step = "unshare(CLONE_NEWNET)";
        if (unshare(CLONE_NEWNET) < 0)
            goto refused;
        snprintf(p, sizeof p, "/run/netns/ns%s", NS_NAME[ns]);
        int fd = open(p, O_WRONLY | O_CREAT | O_EXCL, 0444);
        if (fd >= 0)
            close(fd);
        step = "bind mount /proc/self/ns/net";
        if (mount("/proc/self/ns/net", p, NULL, MS_BIND, NULL) < 0)
            goto refused;
        step = "open /proc/self/ns/net";
        if ((g_nsfd[ns] = open("/proc/self/ns/net", O_RDONLY | O_CLOEXEC)) < 0)
            goto refused;
    }
    step = "setns";
    if (setns(g_nsfd[0], CLONE_NEWNET) < 0)
        goto refused;
    return 0;
refused:
    snprintf(why, n, "%s: %s", step, strerror(errno));
    return -1;
}

static void worker(int wid)
{
    if (g_use_netns) {
        char why[160];
        if (netns_setup(why, sizeof why) < 0) {
            sh_broke("netns fixture failed in a worker although the probe succeeded: %s", why);
            return;
        }
    }
    snprintf(g_scratch, sizeof g_scratch, "%s/w%d", g_root_dir, wid);
    struct crec *rec = mmap(NULL, sizeof *rec, PROT_READ | PROT_WRITE, MAP_SHARED | MAP_ANONYMOUS, -1, 0);
    for (;;) {
        if (now_s() > g_deadline_at) {
            S->deadline_hit = 1;
            break;
        }
        uint64_t i = __sync_fetch_and_add(&S->next, 1);
        if (i >= S->n)
            break;
        g_result[i] = 1 | run_one(rec, &g_frontier[i], 0);
    }
    rm_rf(g_scratch);
}

static void prepare_static(void)
{
    char p[700];
    snprintf(g_static, sizeof g_static, "%s/static", g_root_dir);
    mkdir(g_root_dir, 0755);
    mkdir(g_static, 0755);
    for (int s = SET_A; s <= SET_B; s++) {
        snprintf(p, sizeof p, "%s/%s", g_static, s == SET_A ? "sA" : "sB");
        mkdir(p, 0755);
        for (int i = 0; i < NIT; i++) {
            snprintf(p, sizeof p, "%s/%s/%s.pem", g_static, s == SET_A ? "sA" : "sB", IT_NAME[i]);
            int fd = open(p, O_WRONLY | O_CREAT | O_TRUNC, 0644);
            if (fd < 0 || write(fd, g_set[s][i], strlen(g_set[s][i])) < 0) {
                fprintf(stderr, "h_cred: cannot write %s\n", p);
                exit(2);
            }
            close(fd);
            struct timespec ts[2] = { { T0, 0 }, { T0, 0 } };
            utimensat(AT_FDCWD, p, ts, 0);
        }
    }
}

static double cpu_children_s(void)
{
    struct rusage ru;
    getrusage(RUSAGE_CHILDREN, &ru);
    return ru.ru_utime.tv_sec + ru.ru_stime.tv_sec + (ru.ru_utime.tv_usec + ru.ru_stime.tv_usec) / 1e6;
}

/* can this process do what the netns family needs?  (tried in a throw-away child) */
static int netns_probe(char *why, size_t n)
{
    char *shared = mmap(NULL, 256, PROT_READ | PROT_WRITE, MAP_SHARED | MAP_ANONYMOUS, -1, 0);
    shared[0] = 0;
    fflush(stdout);
    pid_t pid = fork();
    if (pid == 0) {
        char w[160] = "";
        int rc = netns_setup(w, sizeof w);
        snprintf(shared, 256, "%s", w);
        _exit(rc < 0 ? 1 : 0);
    }
    int st = 0;
    while (waitpid(pid, &st, 0) < 0 && errno == EINTR)
        ;
    snprintf(why, n, "%s", shared);
    return WIFEXITED(st) && WEXITSTATUS(st) == 0 ? 0 : -1;
}

static int bfs(int depth, int jobs, double deadline)
{
    if (g_use_netns) {
        char why[200];
        if (netns_probe(why, sizeof why) < 0) {
            printf("{\"kind\":\"skipped\",\"family\":\"netns\",\"reason\":");
            json_str(stdout, why);
            printf("}\n{\"kind\":\"done\",\"family\":\"netns\",\"deadline_hit\":false}\n");
            return 0;
        }
    }
    double t0 = now_s();
    g_deadline_at = t0 + deadline;
    S = mmap(NULL, sizeof *S, PROT_READ | PROT_WRITE, MAP_SHARED | MAP_ANONYMOUS, -1, 0);
    pthread_mutexattr_t ma;
    pthread_mutexattr_init(&ma);
    pthread_mutexattr_setpshared(&ma, PTHREAD_PROCESS_SHARED);
    pthread_mutex_init(&S->lock, &ma);
    /* level 1 frontier: every feasible single operation */
    struct hist *prev = calloc(1, sizeof *prev);
    uint64_t nprev = 1;           /* the empty history */
    uint8_t *prev_res = calloc(1, 1);
    int completed = 0;
    uint64_t per_level[MAXD + 1] = { 0 }, infeasible = 0, pruned_abandoned = 0;
    char samples[12][120];
    int nsamples = 0;
    for (int d = 1; d <= depth && d <= MAXD; d++) {
        /* expand */
        uint64_t cap = nprev * g_nops + 1, n = 0;
        struct hist *fr = mmap(NULL, cap * sizeof *fr, PROT_READ | PROT_WRITE, MAP_SHARED | MAP_ANONYMOUS, -1, 0);
        uint8_t *res = mmap(NULL, cap, PROT_READ | PROT_WRITE, MAP_SHARED | MAP_ANONYMOUS, -1, 0);
        if (fr == MAP_FAILED || res == MAP_FAILED) {
            printf("{\"kind\":\"broke\",\"text\":\"mmap frontier failed\"}\n");
            return 2;
        }
        for (uint64_t i = 0; i < nprev; i++) {
            if (prev_res[i] & 2) {
                pruned_abandoned += g_nops;
                continue;
            }
            struct model m;
            struct expect e;
            model_init(&m);
            for (int k = 0; k < prev[i].len; k++)
                model_apply(&m, &g_ops[prev[i].ops[k]], &e);
            for (int o = 0; o < g_nops; o++) {
                struct model m2 = m;
                model_apply(&m2, &g_ops[o], &e);
                if (!e.feasible) {
                    infeasible++;
                    continue;
                }
                fr[n] = prev[i];
                fr[n].ops[fr[n].len++] = o;
                n++;
            }
        }
        g_frontier = fr;
        g_result = res;
        S->next = 0;
        S->n = n;
        fflush(stdout);
        pid_t pids[64];
        for (int w = 0; w < jobs; w++) {
            pid_t p = fork();
            if (p == 0) {
                worker(w);
                _exit(0);
            }
            pids[w] = p;
        }
        for (int w = 0; w < jobs; w++) {
            int st;
            while (waitpid(pids[w], &st, 0) < 0 && errno == EINTR)
                ;
            if (!(WIFEXITED(st) && WEXITSTATUS(st) == 0))
                sh_broke("worker died, status 0x%x", st);
        }
        if (S->deadline_hit || S->nbroke)
            break;
        per_level[d] = n;
        completed = d;
        for (uint64_t i = 0; i < n && nsamples < 12; i += (n / 3) + 1)
            if (fr[i].len == d)
                hist_str(&fr[i], samples[nsamples++], sizeof samples[0]);
        prev = fr;
        prev_res = res;
        nprev = n;
    }
    /* report */
    printf("{\"kind\":\"stats\",\"family\":");
    json_str(stdout, g_family);
    printf(",\"alphabet\":%d,\"depth_requested\":%d,\"depth_completed\":%d,\"histories\":%llu,\"steps\":%llu,"
           "\"conn_attempts\":%llu,\"conn_established\":%llu,\"conn_refused_as_expected\":%llu,"
           "\"bad_material_refused_with_EPROTO\":%llu,\"keepalive_checks\":%llu,\"identity_checks\":%llu,"
           "\"ssl_ctx_created\":%llu,\"max_live_ctx\":%llu,\"crashes\":%llu,\"abandoned\":%llu,"
           "\"infeasible_pruned\":%llu,\"extensions_of_abandoned_pruned\":%llu,\"wall_s\":%.1f,\"cpu_s\":%.1f,\"per_level\":[",
           g_nops, depth, completed, (unsigned long long)S->runs, (unsigned long long)S->steps,
           (unsigned long long)S->conn_attempts, (unsigned long long)S->conn_established,
           (unsigned long long)S->conn_refused, (unsigned long long)S->local_bad, (unsigned long long)S->keepalive,
           (unsigned long long)S->identity_checks, (unsigned long long)S->ctx_new, (unsigned long long)S->max_live_ctx,
           (unsigned long long)S->crashes, (unsigned long long)S->aborted, (unsigned long long)infeasible,
           (unsigned long long)pruned_abandoned, now_s() - t0, cpu_children_s());
    for (int d = 1; d <= completed; d++)
        printf("%s%llu", d > 1 ? "," : "", (unsigned long long)per_level[d]);
    printf("]}\n");
    for (int i = 0; i < S->nviol; i++) {
        printf("{\"kind\":\"finding\",\"family\":");
        json_str(stdout, g_family);
        printf(",\"sig\":");
        json_str(stdout, S->viol[i].sig);
        printf(",\"text\":");
        json_str(stdout, S->viol[i].text);
        printf(",\"history\":");
        json_str(stdout, S->viol[i].hist);
        printf(",\"count\":%llu}\n", (unsigned long long)S->viol[i].count);
    }
    for (int i = 0; i < nsamples; i++) {
        printf("{\"kind\":\"sample\",\"family\":");
        json_str(stdout, g_family);
        printf(",\"text\":");
        json_str(stdout, samples[i]);
        printf("}\n");
    }
    for (int i = 0; i < S->nbroke; i++) {
        printf("{\"kind\":\"broke\",\"text\":");
        json_str(stdout, S->broke[i]);
        printf("}\n");
    }
    printf("{\"kind\":\"done\",\"family\":");
    json_str(stdout, g_family);
    printf(",\"deadline_hit\":%s}\n", S->deadline_hit ? "true" : "false");
    return S->nbroke ? 2 : 0;
}

static int replay(const char *s)
{
    struct hist h = { 0 };
    char *dup = strdup(s), *save = NULL;
    for (char *t = strtok_r(dup, ", ", &save); t; t = strtok_r(NULL, ", ", &save)) {
        int o = op_by_token(t);
        if (o < 0 || h.len >= MAXD) {
            fprintf(stderr, "unknown operation '%s' in family %s\n", t, g_family);
            return 2;
        }
        h.ops[h.len++] = o;
    }
    S = mmap(NULL, sizeof *S, PROT_READ | PROT_WRITE, MAP_SHARED | MAP_ANONYMOUS, -1, 0);
    pthread_mutexattr_t ma;
    pthread_mutexattr_init(&ma);
    pthread_mutexattr_setpshared(&ma, PTHREAD_PROCESS_SHARED);
    pthread_mutex_init(&S->lock, &ma);
    snprintf(g_scratch, sizeof g_scratch, "%s/replay%d", g_root_dir, getpid());
    struct crec *rec = mmap(NULL, sizeof *rec, PROT_READ | PROT_WRITE, MAP_SHARED | MAP_ANONYMOUS, -1, 0);
    struct model m;
    struct expect e;
    model_init(&m);
    for (int i = 0; i < h.len; i++) {
        model_apply(&m, &g_ops[h.ops[i]], &e);
        if (!e.feasible) {
            printf("history is infeasible at step %d (%s)\n", i + 1, g_ops[h.ops[i]].tok);
            return 2;
        }
    }
    printf("family %s, history %s\n", g_family, s);
    if (g_use_netns) {
        char why[200];
        if (netns_setup(why, sizeof why) < 0) {
            printf("netns family skipped (no privilege): %s\nVERDICT skipped\n", why);
            return 0;
        }
    }
    run_one(rec, &h, 1);
    rm_rf(g_scratch);
    for (int i = 0; i < S->nviol; i++)
        printf("VERDICT violation %s: %s\n", S->viol[i].sig, S->viol[i].text);
    for (int i = 0; i < S->nbroke; i++)
        printf("VERDICT harness-broken %s\n", S->broke[i]);
    if (!S->nviol && !S->nbroke)
        printf("VERDICT ok\n");
    return S->nbroke ? 2 : S->nviol ? 1 : 0;
}

int main(int argc, char **argv)
{
    const char *fam = "main", *rep = NULL;
    int depth = 3, jobs = 16, list = 0;
    double deadline = 3600;
    for (int i = 1; i < argc; i++) {
        if (!strcmp(argv[i], "--mat") && i + 1 < argc)
            snprintf(g_mat, sizeof g_mat, "%s", argv[++i]);
        else if (!strcmp(argv[i], "--root") && i + 1 < argc)
            snprintf(g_root_dir, sizeof g_root_dir, "%s", argv[++i]);
        else if (!strcmp(argv[i], "--family") && i + 1 < argc)
            fam = argv[++i];
        else if (!strcmp(argv[i], "--depth") && i + 1 < argc)
            depth = atoi(argv[++i]);
        else if (!strcmp(argv[i], "--jobs") && i + 1 < argc)
            jobs = atoi(argv[++i]);
        else if (!strcmp(argv[i], "--deadline") && i + 1 < argc)
            deadline = atof(argv[++i]);
        else if (!strcmp(argv[i], "--replay") && i + 1 < argc)
            rep = argv[++i];
        else if (!strcmp(argv[i], "--list"))
            list = 1;
    }
    if (!g_mat[0] || !g_root_dir[0]) {
        fprintf(stderr, "usage: h_cred --mat DIR --root DIR --family F (--depth D [--jobs N] [--deadline S] | --replay H | --list)\n");
        return 2;
    }
    signal(SIGPIPE, SIG_IGN);
    {
        /* symlink targets and XCM_TLS_CERT must not depend on the working directory */
        char abs[400];
        mkdir(g_root_dir, 0755);
        if (realpath(g_root_dir, abs))
            snprintf(g_root_dir, sizeof g_root_dir, "%s", abs);
        if (realpath(g_mat, abs))
            snprintf(g_mat, sizeof g_mat, "%s", abs);
    }
    load_material();
    if (setup_family(fam) < 0) {
        fprintf(stderr, "h_cred: unknown family %s\n", fam);
        return 2;
    }
    prepare_static();
    if (list) {
        for (int i = 0; i < g_nops; i++)
            printf("%s\n", g_ops[i].tok);
        return 0;
    }
    if (jobs < 1)
        jobs = 1;
    if (jobs > 64)
        jobs = 64;
    if (rep)
        return replay(rep);
    return bfs(depth, jobs, deadline);
}
