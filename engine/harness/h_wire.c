/* h_wire - C07: hostile or corrupt wire input cannot harm or mislead the receiver.
 *
 * Technique: exhaustive INPUT enumeration (not schedule enumeration).  A raw peer (harness-owned
 * descriptor on the other side of an emulated TCP connection, envshim with io_menu 0) feeds byte
 * streams to a real XCM endpoint (tcp, tls, btcp, btls; XCM as server or as client) and the
 * results of xcm_receive / xcm_send are compared with a reference decoder of the wire format
 * ("frames", ref_decode() below, written from the wire format description, not from mbuf.h).
 *
 * Families (fam=):
 *   frames   streams of <= maxframes frames (+ one tail) whose announced lengths come from
 *            {0,1,2,65535,65536,0x7fffffff,0x80000000,0xffffffff}: payload present / truncated at
 *            every offset (small frames) / followed by garbage; ALL 2^(n-1) segmentations of every
 *            stream of n <= nfull bytes, every single cut (+ all pairs of cuts if pairs=1) and a
 *            1-byte trickle for longer ones; then close / late close / silence.  TLS: the same
 *            plaintext through a harness-side OpenSSL peer (memory BIOs) after a good handshake,
 *            one TLS record per segment; endings close_notify+close / abrupt close / silence.
 *   ctfrag   (tls, btls) the whole plaintext in one record, the CIPHERTEXT cut at every offset / trickled
 *   rawinj   (tls, btls) after a good handshake and one good message: the stream bytes injected raw
 *   prehs    (tls, btls) the same byte strings INSTEAD of the handshake
 *   hsmut    (tls, btls) garbage DURING the handshake: every byte offset of every flight of the
 *            harness-side peer (and of the first application record) x mutation set
 *
 * Oracle: no crash/abort/sanitizer report (driver: one forked child per batch, the case that was
 * running is named); messages delivered == reference decoder's list (bytes too), never before
 * their last byte was sent, never of length 0 or > 65535, none after a terminal result; complete
 * header with an illegal length => EPROTO on that and every later receive and send; heap
 * attributable to the connection (ledger over wrapped malloc/calloc/realloc/free + OpenSSL's
 * allocator hooks, counting only allocations made inside XCM calls) grows by <= one maximum
 * frame + slack after establishment; byte-stream transports: byte-exact stream.
 *
 * Output: JSON lines (finding / crash / sample / stats / done), aggregated by checks/C07.py.
 *   h_wire --count --cfg k=v,..       number of cases of that configuration
 *   h_wire --range A B --cfg k=v,..   run cases [A,B)
 *   h_wire --one 'k=v,..'             run one case verbosely; exit 1 if the oracle objects
 */
#define _GNU_SOURCE
#include "hcommon.h"

#include <arpa/inet.h>
#include <fcntl.h>
#include <netinet/in.h>
#include <signal.h>
#include <stdarg.h>
#include <sys/mman.h>
#include <sys/socket.h>
#include <sys/wait.h>

#include <openssl/crypto.h>
#include <openssl/err.h>
#include <openssl/ssl.h>

#define MSG_MAX 65535u
#define WIRE_MAX (MSG_MAX + 4u)
#define RCAP 70000u              /* receive capacity: > MSG_MAX so that an oversize message is visible */

/* ====================================================================================== */
/* allocation ledger                                                                      */
/* ====================================================================================== */
void *__real_malloc(size_t);
void *__real_calloc(size_t, size_t);
void *__real_realloc(void *, size_t);
void __real_free(void *);

struct lent { void *p; uint32_t sz; uint32_t gc; };      /* gc = generation << 1 | class */
#define LBITS 16
#define LSZ (1u << LBITS)
#define LTOMB ((void *)1)
static struct lent ltab[LSZ];
static uint32_t lgen = 1, lused;
static volatile int l_track, l_crypto;
static int l_overflow;
static int64_t l_live[2], l_peak[2], l_live_tot, l_peak_tot;   /* class 0 = XCM's own, 1 = via OpenSSL */

static inline uint32_t lhash(void *p) { return (uint32_t)(((uintptr_t)p >> 4) * 2654435761u) >> (32 - LBITS); }

static void ledger_reset(void)
{
    lgen++;
    lused = 0;
    l_live[0] = l_live[1] = l_peak[0] = l_peak[1] = l_live_tot = l_peak_tot = 0;
}

static void ledger_peak_restart(void)
{
    l_peak[0] = l_live[0];
    l_peak[1] = l_live[1];
    l_peak_tot = l_live_tot;
}

static void ledger_insert(void *p, uint32_t sz, int cls)
{
    uint32_t h = lhash(p);
    for (;;) {
        struct lent *e = &ltab[h];
        if ((e->gc >> 1) != lgen || e->p == LTOMB) {
            if ((e->gc >> 1) != lgen)
                lused++;
            e->p = p;
            e->sz = sz;
            e->gc = lgen << 1 | (uint32_t)cls;
            return;
        }
        h = (h + 1) & (LSZ - 1);
    }
}

/* too many slots touched in this generation (tombstones of a long case): re-insert the live entries into a
   fresh generation */
static void ledger_compact(void)
{
    static struct lent tmp[LSZ / 4];
    uint32_t n = 0;
    for (uint32_t i = 0; i < LSZ; i++)
        if ((ltab[i].gc >> 1) == lgen && ltab[i].p != LTOMB) {
            if (n == LSZ / 4) {
                l_overflow = 1;
                return;
            }
            tmp[n++] = ltab[i];
        }
    lgen++;
    lused = 0;
    for (uint32_t i = 0; i < n; i++)
        ledger_insert(tmp[i].p, tmp[i].sz, (int)(tmp[i].gc & 1));
}

static void ledger_add(void *p, size_t sz)
{
    if (lused > LSZ / 2) {
        if (!l_overflow)
            ledger_compact();
        if (l_overflow)
            return;
    }
    int cls = l_crypto ? 1 : 0;
    ledger_insert(p, (uint32_t)sz, cls);
    l_live[cls] += (int64_t)sz;
    l_live_tot += (int64_t)sz;
    if (l_live[cls] > l_peak[cls])
        l_peak[cls] = l_live[cls];
    if (l_live_tot > l_peak_tot)
        l_peak_tot = l_live_tot;
}

static int ledger_del(void *p)
{
    if (!lused)
        return 0;
    uint32_t h = lhash(p);
    for (;;) {
        struct lent *e = &ltab[h];
        if ((e->gc >> 1) != lgen)
            return 0;
        if (e->p == p) {
            int cls = e->gc & 1;
            l_live[cls] -= e->sz;
            l_live_tot -= e->sz;
            e->p = LTOMB;
            return 1;
        }
        h = (h + 1) & (LSZ - 1);
    }
}

void *__wrap_malloc(size_t n)
{
    void *p = __real_malloc(n);
    if (l_track && p)
        ledger_add(p, n);
    return p;
}

void *__wrap_calloc(size_t a, size_t b)
{
    void *p = __real_calloc(a, b);
    if (l_track && p)
        ledger_add(p, a * b);
    return p;
}

void *__wrap_realloc(void *o, size_t n)
{
    int was = o ? ledger_del(o) : 0;
    void *p = __real_realloc(o, n);
    if (p && n && (l_track || was))
        ledger_add(p, n);
    else if (!p && n && was)
        ledger_add(o, 0);
    return p;
}

void __wrap_free(void *p)
{
    if (p)
        ledger_del(p);
    __real_free(p);
}

/* OpenSSL's allocator goes through the same ledger (class 1) */
static void *cm_malloc(size_t n, const char *f, int l) { (void)f; (void)l; l_crypto++; void *p = __wrap_malloc(n); l_crypto--; return p; }
static void *cm_realloc(void *o, size_t n, const char *f, int l) { (void)f; (void)l; l_crypto++; void *p = __wrap_realloc(o, n); l_crypto--; return p; }
static void cm_free(void *p, const char *f, int l) { (void)f; (void)l; __wrap_free(p); }
static int g_cm_ok;
static void early_init(void) __attribute__((constructor(101)));
static void early_init(void) { g_cm_ok = CRYPTO_set_mem_functions(cm_malloc, cm_realloc, cm_free); }

/* ====================================================================================== */
/* output                                                                                 */
/* ====================================================================================== */
static int g_verbose;

static void out_f(const char *fmt, ...) __attribute__((format(printf, 1, 2)));
static void out_f(const char *fmt, ...)
{
    char tmp[8192];
    va_list ap;
    va_start(ap, fmt);
    int n = vsnprintf(tmp, sizeof tmp, fmt, ap);
    va_end(ap);
    if (n < 0)
        return;
    if ((size_t)n >= sizeof tmp)
        n = sizeof tmp - 1;
    size_t off = 0;
    while (off < (size_t)n) {
        ssize_t w = write(1, tmp + off, (size_t)n - off);
        if (w <= 0)
            break;
        off += (size_t)w;
    }
}

static void jesc(char *dst, size_t dn, const char *s)
{
    size_t k = 0;
    for (; *s && k + 8 < dn; s++) {
        unsigned char c = (unsigned char)*s;
        if (c == '"' || c == '\\') {
            dst[k++] = '\\';
            dst[k++] = (char)c;
        } else if (c == '\n') {
            dst[k++] = '\\';
            dst[k++] = 'n';
        } else if (c < 0x20 || c >= 0x7f)
            k += (size_t)snprintf(dst + k, dn - k, "\\u%04x", c);
        else
            dst[k++] = (char)c;
    }
    dst[k] = 0;
}

static void vlog(const char *fmt, ...) __attribute__((format(printf, 1, 2)));
static void vlog(const char *fmt, ...)
{
    if (!g_verbose)
        return;
    char tmp[1024];
    va_list ap;
    va_start(ap, fmt);
    vsnprintf(tmp, sizeof tmp, fmt, ap);
    va_end(ap);
    out_f("  %s\n", tmp);
}

/* ====================================================================================== */
/* configuration                                                                          */
/* ====================================================================================== */
enum { FAM_FRAMES, FAM_CTFRAG, FAM_RAWINJ, FAM_PREHS, FAM_HSMUT, NFAM };
static const char *const fam_name[NFAM] = { "frames", "ctfrag", "rawinj", "prehs", "hsmut" };

static struct {
    char tp[8];
    int server;             /* XCM is the server */
    int fam;
    char certs[256];
    int nfull;              /* all segmentations up to this stream length */
    int maxframes;          /* small streams: frames per stream */
    int big;                /* streams containing a 65535/65536-byte frame: max frames (0 = none) */
    int pairs;              /* all pairs of cuts for streams of nfull < n <= 24 bytes */
    int cuts;               /* every single cut for streams longer than nfull (0: one piece and trickle only) */
    int bigtrickle;         /* 1-byte trickle of a 65539-byte stream */
    int mutset;             /* hsmut: 0 reduced, 1 full mutation set */
    int prefix;             /* frames: every stream is preceded by one well-formed frame of this many bytes */
    int tls, bytestream;
} C;

static void cfg_parse(const char *p)
{
    char b[64];
    param_get(p, "tp", C.tp, sizeof C.tp, "tcp");
    C.server = strcmp(param_get(p, "role", b, sizeof b, "server"), "server") == 0;
    param_get(p, "fam", b, sizeof b, "frames");
    C.fam = -1;
    for (int i = 0; i < NFAM; i++)
        if (!strcmp(b, fam_name[i]))
            C.fam = i;
    if (C.fam < 0) {
        fprintf(stderr, "h_wire: unknown family %s\n", b);
        exit(2);
    }
    param_get(p, "certs", C.certs, sizeof C.certs, "/verif/build/pki");
    C.nfull = (int)param_int(p, "nfull", 12);
    C.maxframes = (int)param_int(p, "maxframes", 3);
    C.big = (int)param_int(p, "big", 0);
    C.pairs = (int)param_int(p, "pairs", 0);
    C.cuts = (int)param_int(p, "cuts", 1);
    C.bigtrickle = (int)param_int(p, "bigtrickle", 0);
    C.mutset = (int)param_int(p, "mutset", 1);
    C.prefix = (int)param_int(p, "prefix", 0);
    if (C.prefix < 0 || C.prefix > 65535)
        C.prefix = 0;
    C.tls = !strcmp(C.tp, "tls") || !strcmp(C.tp, "btls") || !strcmp(C.tp, "utls");
    C.bytestream = !strcmp(C.tp, "btcp") || !strcmp(C.tp, "btls");
    if (C.nfull > 16)
        C.nfull = 16;
    if (C.fam != FAM_FRAMES && !C.tls) {
        fprintf(stderr, "h_wire: family %s needs tls or btls\n", fam_name[C.fam]);
        exit(2);
    }
}

static void cfg_print(char *b, size_t n)
{
    snprintf(b, n, "tp=%s,role=%s,fam=%s", C.tp, C.server ? "server" : "client", fam_name[C.fam]);
}

/* ====================================================================================== */
/* streams                                                                                */
/* ====================================================================================== */
/* items: 'L' header announcing len + the payload if the length is legal (1..65535; none for 0)
 *        'X' header announcing an ILLEGAL len followed by that many payload bytes (65536 only)
 *        'H' the first k bytes (1..3) of a header announcing len
 *        'P' header announcing len + only the first k payload bytes (truncated frame)      */
struct item { char kind; uint32_t len, k; };
#define MAXITEMS 5
struct stream { int n; struct item it[MAXITEMS]; };

static unsigned char *g_sb;     /* stream bytes */
static size_t g_sn;
static uint32_t g_bnd[3 * MAXITEMS + 2];
static int g_nbnd;
#define SB_MAX (4 * 65540 + 64)

static size_t item_size(const struct item *it)
{
    switch (it->kind) {
    case 'L': return 4 + ((it->len >= 1 && it->len <= MSG_MAX) ? it->len : 0);
    case 'X': return 4 + (size_t)it->len;
    case 'H': return it->k;
    default: return 4 + (size_t)it->k;
    }
}

static size_t stream_size(const struct stream *s)
{
    size_t n = 0;
    for (int i = 0; i < s->n; i++)
        n += item_size(&s->it[i]);
    return n;
}

static void stream_build(const struct stream *s)
{
    if (!g_sb)
        g_sb = __real_malloc(SB_MAX);
    g_sn = 0;
    g_nbnd = 0;
    for (int i = 0; i < s->n; i++) {
        const struct item *it = &s->it[i];
        unsigned char h[4] = { (unsigned char)(it->len >> 24), (unsigned char)(it->len >> 16),
                               (unsigned char)(it->len >> 8), (unsigned char)it->len };
        size_t sz = item_size(it);
        size_t hb = it->kind == 'H' ? it->k : 4;
        g_bnd[g_nbnd++] = (uint32_t)g_sn;
        memcpy(g_sb + g_sn, h, hb);
        if (sz > hb) {
            g_bnd[g_nbnd++] = (uint32_t)(g_sn + 4);
            pay_fill(g_sb + g_sn + 4, i, sz - 4);
        }
        g_sn += sz;
        g_bnd[g_nbnd++] = (uint32_t)g_sn;
    }
}

/* the stream of a case: with prefix=N (family frames) one well-formed frame of N bytes goes ahead of it */
static size_t g_pre;

static void stream_build_case(const struct stream *s)
{
    g_pre = 0;
    if (C.prefix > 0 && C.fam == FAM_FRAMES && s->n < MAXITEMS) {
        struct stream t;
        t.n = s->n + 1;
        t.it[0] = (struct item){ 'L', (uint32_t)C.prefix, 0 };
        for (int i = 0; i < s->n; i++)
            t.it[i + 1] = s->it[i];
        stream_build(&t);
        g_pre = 4 + (size_t)C.prefix;
    } else
        stream_build(s);
}

static int stream_is_big(const struct stream *s) { return stream_size(s) > 4096; }

static void stream_print(char *b, size_t n, const struct stream *s)
{
    size_t k = 0;
    b[0] = 0;
    if (s->n == 0)
        k += (size_t)snprintf(b + k, n - k, "-");
    for (int i = 0; i < s->n && k + 24 < n; i++) {
        const struct item *it = &s->it[i];
        if (i)
            b[k++] = '.';
        if (it->kind == 'L' || it->kind == 'X')
            k += (size_t)snprintf(b + k, n - k, "%c%x", it->kind, it->len);
        else
            k += (size_t)snprintf(b + k, n - k, "%c%x:%u", it->kind, it->len, it->k);
    }
}

static int stream_parse(const char *t, struct stream *s)
{
    s->n = 0;
    if (!strcmp(t, "-") || !*t)
        return 0;
    while (*t) {
        if (s->n >= MAXITEMS)
            return -1;
        struct item *it = &s->it[s->n];
        it->kind = *t++;
        if (!strchr("LXHP", it->kind))
            return -1;
        char *e;
        it->len = (uint32_t)strtoul(t, &e, 16);
        it->k = 0;
        t = e;
        if (*t == ':') {
            it->k = (uint32_t)strtoul(t + 1, &e, 10);
            t = e;
        }
        if (it->kind == 'H' && (it->k < 1 || it->k > 3))
            return -1;
        if (it->kind == 'X' && it->len > 70000)
            return -1;
        if (it->kind == 'P' && it->k > 65535)
            return -1;
        s->n++;
        if (*t == '.')
            t++;
        else if (*t)
            return -1;
    }
    return 0;
}

/* ---- "frames": the reference decoder ------------------------------------------------- */
/* Wire format: every message is preceded by its length as a 32-bit big-endian integer; legal
 * lengths are 1..65535.  Decoding stops at the first header that announces an illegal length. */
enum { ST_CLEAN, ST_PARTIAL, ST_ILLEGAL };
struct ref {
    int nmsg;
    size_t off[8], len[8], end[8];
    int status;
    size_t ill_at;          /* offset of the first byte behind the illegal header */
    uint32_t ill_len;
};

static void ref_decode(const unsigned char *b, size_t n, struct ref *r)
{
    size_t p = 0;
    r->nmsg = 0;
    r->ill_at = 0;
    r->ill_len = 0;
    for (;;) {
        if (n - p == 0) { r->status = ST_CLEAN; return; }
        if (n - p < 4) { r->status = ST_PARTIAL; return; }
        uint32_t l = (uint32_t)b[p] << 24 | (uint32_t)b[p + 1] << 16 | (uint32_t)b[p + 2] << 8 | b[p + 3];
        if (l == 0 || l > MSG_MAX) {
            r->status = ST_ILLEGAL;
            r->ill_at = p + 4;
            r->ill_len = l;
            return;
        }
        if (n - p - 4 < l) { r->status = ST_PARTIAL; return; }
        if (r->nmsg < 8) {
            r->off[r->nmsg] = p + 4;
            r->len[r->nmsg] = l;
            r->end[r->nmsg] = p + 4 + l;
            r->nmsg++;
        }
        p += 4 + l;
    }
}

/* ====================================================================================== */
/* cases                                                                                  */
/* ====================================================================================== */
enum { SEG_CUTS, SEG_TRICKLE, SEG_CTCUT, SEG_CTTRICKLE };
enum { END_CLOSE, END_LATECLOSE, END_SILENCE, END_SHUTDOWN, NEND };
static const char *const end_name[NEND] = { "close", "lateclose", "silence", "shutdown" };
enum { MUT_X1, MUT_XFF, MUT_Z1, MUT_F1, MUT_Z2, MUT_F2, MUT_Z3, MUT_F3, MUT_TC, MUT_TS, NMUT };
static const char *const mut_name[NMUT] = { "x1", "xff", "z1", "f1", "z2", "f2", "z3", "f3", "tc", "ts" };

#define MAXCUTS 16
struct kase {
    struct stream st;
    int segkind;
    int ncuts;
    uint32_t cuts[MAXCUTS];
    int trickle;
    int end;
    int flight, off, mut;
};

static void kase_print(char *b, size_t n, const struct kase *k)
{
    char cf[96], st[160];
    cfg_print(cf, sizeof cf);
    if (C.fam == FAM_HSMUT) {
        snprintf(b, n, "%s,flight=%d,off=%d,mut=%s,certs=%s", cf, k->flight, k->off, mut_name[k->mut], C.certs);
        return;
    }
    stream_print(st, sizeof st, &k->st);
    size_t o = (size_t)snprintf(b, n, "%s,stream=%s,seg=", cf, st);
    if (k->segkind == SEG_TRICKLE)
        o += (size_t)snprintf(b + o, n - o, "t%d", k->trickle);
    else if (k->segkind == SEG_CTTRICKLE)
        o += (size_t)snprintf(b + o, n - o, "xt%d", k->trickle);
    else {
        o += (size_t)snprintf(b + o, n - o, "%s", k->segkind == SEG_CTCUT ? "x" : "c");
        for (int i = 0; i < k->ncuts; i++)
            o += (size_t)snprintf(b + o, n - o, "%s%u", i ? "-" : "", k->cuts[i]);
    }
    o += (size_t)snprintf(b + o, n - o, ",end=%s", end_name[k->end]);
    if (C.prefix && C.fam == FAM_FRAMES)
        o += (size_t)snprintf(b + o, n - o, ",prefix=%d", C.prefix);
    if (C.tls)
        snprintf(b + o, n - o, ",certs=%s", C.certs);
}

static int kase_parse(const char *p, struct kase *k)
{
    char b[256];
    memset(k, 0, sizeof *k);
    if (C.fam == FAM_HSMUT) {
        k->flight = (int)param_int(p, "flight", 0);
        k->off = (int)param_int(p, "off", 0);
        param_get(p, "mut", b, sizeof b, "xff");
        k->mut = -1;
        for (int i = 0; i < NMUT; i++)
            if (!strcmp(b, mut_name[i]))
                k->mut = i;
        return k->mut < 0 ? -1 : 0;
    }
    if (stream_parse(param_get(p, "stream", b, sizeof b, "-"), &k->st) < 0)
        return -1;
    param_get(p, "end", b, sizeof b, "silence");
    k->end = -1;
    for (int i = 0; i < NEND; i++)
        if (!strcmp(b, end_name[i]))
            k->end = i;
    if (k->end < 0)
        return -1;
    const char *s = param_get(p, "seg", b, sizeof b, "c");
    int ct = 0;
    if (*s == 'x') {
        ct = 1;
        s++;
    }
    if (*s == 't') {
        k->segkind = ct ? SEG_CTTRICKLE : SEG_TRICKLE;
        k->trickle = atoi(s + 1);
        return k->trickle >= 1 ? 0 : -1;
    }
    if (*s == 'c')
        s++;
    k->segkind = ct ? SEG_CTCUT : SEG_CUTS;
    while (*s) {
        char *e;
        if (k->ncuts >= MAXCUTS)
            return -1;
        k->cuts[k->ncuts++] = (uint32_t)strtoul(s, &e, 10);
        s = *e == '-' ? e + 1 : e;
        if (e == s && *e)
            return -1;
    }
    return 0;
}

/* ---- enumeration --------------------------------------------------------------------- */
typedef void (*kase_cb)(const struct kase *);
static uint64_t en_idx, en_from, en_to;     /* the callback runs for en_from <= idx < en_to */
static kase_cb en_cb;

static inline void emit(const struct kase *k)
{
    if (en_idx >= en_from && en_idx < en_to && en_cb)
        en_cb(k);
    en_idx++;
}

static const int *ends_list(int *n)
{
    static const int tcp_ends[] = { END_CLOSE, END_LATECLOSE, END_SILENCE };
    static const int tls_ends[] = { END_SHUTDOWN, END_CLOSE, END_SILENCE };
    static const int pre_ends[] = { END_CLOSE, END_LATECLOSE, END_SILENCE };
    *n = 3;
    if (C.fam == FAM_PREHS)
        return pre_ends;
    return C.tls ? tls_ends : tcp_ends;
}

static void emit_ends(struct kase *k)
{
    int ne;
    const int *e = ends_list(&ne);
    for (int i = 0; i < ne; i++) {
        k->end = e[i];
        emit(k);
    }
}

/* structural cut set of a long stream */
static int big_cuts(uint32_t *out, int max)
{
    int n = 0;
    for (int i = 0; i <= g_nbnd + 1; i++) {
        uint32_t b = i < g_nbnd ? g_bnd[i] : (i == g_nbnd ? 16384 : 32768);
        for (int d = -1; d <= 1; d++) {
            int64_t o = (int64_t)b + d;
            if (o < 1 || o >= (int64_t)g_sn)
                continue;
            int dup = 0;
            for (int j = 0; j < n; j++)
                if (out[j] == (uint32_t)o)
                    dup = 1;
            if (!dup && n < max)
                out[n++] = (uint32_t)o;
        }
    }
    /* ascending */
    for (int i = 1; i < n; i++)
        for (int j = i; j > 0 && out[j - 1] > out[j]; j--) {
            uint32_t t = out[j];
            out[j] = out[j - 1];
            out[j - 1] = t;
        }
    return n;
}

static void enum_segs(struct kase *k)
{
    size_t n = stream_size(&k->st);
    k->segkind = SEG_CUTS;
    k->ncuts = 0;
    k->trickle = 0;
    if (C.fam == FAM_RAWINJ) {
        emit_ends(k);
        if (n >= 2 && n <= 64) {
            k->segkind = SEG_TRICKLE;
            k->trickle = 1;
            emit_ends(k);
        }
        return;
    }
    if (C.fam == FAM_CTFRAG) {
        if (n == 0 || n > 16384)
            return;
        size_t ct = n + 22;         /* TLS 1.3 record: 5 header + 1 inner type + 16 tag */
        k->segkind = SEG_CTCUT;
        k->ncuts = 1;
        for (size_t o = 1; o < ct; o++) {
            k->cuts[0] = (uint32_t)o;
            emit_ends(k);
        }
        k->segkind = SEG_CTTRICKLE;
        k->ncuts = 0;
        k->trickle = 1;
        emit_ends(k);
        return;
    }
    if (n <= 1) {
        emit_ends(k);
        return;
    }
    if (n <= (size_t)C.nfull) {
        for (uint32_t m = 0; m < (1u << (n - 1)); m++) {
            k->ncuts = 0;
            for (uint32_t o = 1; o < n; o++)
                if (m & (1u << (o - 1)))
                    k->cuts[k->ncuts++] = o;
            emit_ends(k);
        }
        return;
    }
    emit_ends(k);       /* one piece */
    if (n <= 4096) {
        k->ncuts = 1;
        for (uint32_t o = 1; o < n && C.cuts; o++) {
            k->cuts[0] = o;
            emit_ends(k);
        }
        if (C.pairs && n <= 24) {
            k->ncuts = 2;
            for (uint32_t a = 1; a < n; a++)
                for (uint32_t b = a + 1; b < n; b++) {
                    k->cuts[0] = a;
                    k->cuts[1] = b;
                    emit_ends(k);
                }
        }
        if (n <= 64) {
            k->ncuts = 0;
            k->segkind = SEG_TRICKLE;
            k->trickle = 1;
            emit_ends(k);
        }
    } else {
        uint32_t cs[64];
        stream_build(&k->st);
        int nc = big_cuts(cs, 64);
        k->ncuts = 1;
        for (int i = 0; i < nc; i++) {
            k->cuts[0] = cs[i];
            emit_ends(k);
        }
        if (C.bigtrickle && k->st.n <= 2 && n <= WIRE_MAX + 8) {
            k->ncuts = 0;
            k->segkind = SEG_TRICKLE;
            k->trickle = 1;
            emit_ends(k);
        }
    }
}

static const uint32_t SMALL_LENS[7] = { 0, 1, 2, 65536, 0x7fffffffu, 0x80000000u, 0xffffffffu };
static const struct item SMALL_TAILS[12] = {
    { 0, 0, 0 },
    { 'H', 2, 1 }, { 'H', 2, 2 }, { 'H', 2, 3 },
    { 'H', 0xffffffffu, 1 }, { 'H', 0xffffffffu, 2 }, { 'H', 0xffffffffu, 3 },
    { 'P', 1, 0 }, { 'P', 2, 0 }, { 'P', 2, 1 }, { 'P', 65535, 0 }, { 'P', 65535, 1 },
};
/* kinds of the "big" streams: the seven small ones + a complete maximum frame + an illegal 65536 frame with
   its payload */
static const struct item BIG_KINDS[9] = {
    { 'L', 0, 0 }, { 'L', 1, 0 }, { 'L', 2, 0 }, { 'L', 65536, 0 }, { 'L', 0x7fffffffu, 0 },
    { 'L', 0x80000000u, 0 }, { 'L', 0xffffffffu, 0 }, { 'L', 65535, 0 }, { 'X', 65536, 0 },
};

static void enum_streams(void)
{
    struct kase k;
    memset(&k, 0, sizeof k);
    /* small streams */
    int maxf = C.fam == FAM_CTFRAG || C.fam == FAM_RAWINJ ? (C.maxframes < 2 ? C.maxframes : 2) : C.maxframes;
    for (int nf = 0; nf <= maxf; nf++) {
        int tot = 1;
        for (int i = 0; i < nf; i++)
            tot *= 7;
        for (int c = 0; c < tot; c++) {
            int x = c;
            for (int i = nf - 1; i >= 0; i--) {
                k.st.it[i] = (struct item){ 'L', SMALL_LENS[x % 7], 0 };
                x /= 7;
            }
            for (int t = 0; t < 12; t++) {
                k.st.n = nf;
                if (SMALL_TAILS[t].kind)
                    k.st.it[k.st.n++] = SMALL_TAILS[t];
                enum_segs(&k);
            }
        }
    }
    /* big streams */
    if (C.fam == FAM_CTFRAG)
        return;
    static const struct item BIG_TAILS[3] = { { 0, 0, 0 }, { 'H', 2, 2 }, { 'P', 2, 1 } };
    for (int nf = 1; nf <= C.big; nf++) {
        int tot = 1;
        for (int i = 0; i < nf; i++)
            tot *= 9;
        for (int c = 0; c < tot; c++) {
            int x = c, has_big = 0;
            for (int i = nf - 1; i >= 0; i--) {
                k.st.it[i] = BIG_KINDS[x % 9];
                if (x % 9 >= 7)
                    has_big = 1;
                x /= 9;
            }
            if (!has_big)
                continue;
            for (int t = 0; t < (C.big >= 3 ? 3 : 2); t++) {
                k.st.n = nf;
                if (BIG_TAILS[t].kind)
                    k.st.it[k.st.n++] = BIG_TAILS[t];
                enum_segs(&k);
            }
        }
    }
    /* a maximum frame truncated by one byte behind <= big-1 arbitrary frames */
    for (int nf = 0; nf < C.big; nf++) {
        int tot = 1;
        for (int i = 0; i < nf; i++)
            tot *= 9;
        for (int c = 0; c < tot; c++) {
            int x = c;
            for (int i = nf - 1; i >= 0; i--) {
                k.st.it[i] = BIG_KINDS[x % 9];
                x /= 9;
            }
            k.st.n = nf;
            k.st.it[k.st.n++] = (struct item){ 'P', 65535, 65534 };
            enum_segs(&k);
        }
    }
}

/* ====================================================================================== */
/* shared record between the driver and its child                                          */
/* ====================================================================================== */
#define MAXSIG 48
enum { O_EPROTO, O_CLOSED, O_EAGAIN, O_OTHER, O_DELIVERED, NOUT };
struct shm {
    volatile uint64_t cur_idx;
    char cur_spec[640];
    uint64_t cases, calls, checked, findings, msgs_delivered, bytes_fed, segments;
    uint64_t outcome[NOUT];            /* first terminal result per case */
    int64_t max_growth_xcm, max_growth_all, max_peak_hs;
    uint64_t hs_peer_ok, hs_xcm_ok, identity_skipped, bystander_checks, residual_checks;
    int64_t max_resid_xcm, max_resid_ssl;
    int nsig;
    struct { char sig[200]; uint64_t n; } sig[MAXSIG];
    int internal_err;
    char internal_text[300];
};
static struct shm *S;
static char g_spec[640];
static int g_case_bad, g_warm;

static void finding(const char *sig, const char *fmt, ...) __attribute__((format(printf, 2, 3)));
static void finding(const char *sig, const char *fmt, ...)
{
    char text[1200], esc[2600], sesc[1400], ssig[420];
    va_list ap;
    va_start(ap, fmt);
    vsnprintf(text, sizeof text, fmt, ap);
    va_end(ap);
    g_case_bad = 1;
    if (g_warm)
        return;
    S->findings++;
    int k;
    for (k = 0; k < S->nsig; k++)
        if (!strcmp(S->sig[k].sig, sig))
            break;
    if (k == S->nsig) {
        if (S->nsig == MAXSIG)
            k = MAXSIG - 1;
        else {
            snprintf(S->sig[k].sig, sizeof S->sig[k].sig, "%s", sig);
            S->sig[k].n = 0;
            S->nsig++;
        }
    }
    S->sig[k].n++;
    if (g_verbose) {
        out_f("VIOLATION %s\n    %s\n", sig, text);
        return;
    }
    if (S->sig[k].n > 2)
        return;
    jesc(esc, sizeof esc, text);
    jesc(sesc, sizeof sesc, g_spec);
    jesc(ssig, sizeof ssig, sig);
    out_f("{\"t\":\"finding\",\"sig\":\"%s\",\"text\":\"%s\",\"one\":\"%s\"}\n", ssig, esc, sesc);
}

static void internal(const char *fmt, ...) __attribute__((format(printf, 1, 2)));
static void internal(const char *fmt, ...)
{
    va_list ap;
    va_start(ap, fmt);
    if (!S->internal_err)
        vsnprintf(S->internal_text, sizeof S->internal_text, fmt, ap);
    va_end(ap);
    S->internal_err++;
    if (g_verbose)
        out_f("INTERNAL %s\n", S->internal_text);
}

/* ====================================================================================== */
/* the two ends                                                                           */
/* ====================================================================================== */
static struct xcm_socket *g_srv;     /* role=server: XCM server socket (lives as long as the process) */
static struct xcm_socket *g_prime;   /* role=client, TLS: keeps the SSL_CTX cache entry alive */
static int g_lst = -1;               /* role=client: raw listener */
static int g_port;
static char g_addr[64];
static unsigned char *g_rbuf;        /* exact heap block of RCAP bytes */
static SSL_CTX *g_pctx;

static struct xcm_socket *g_conn;
static int g_raw = -1;
static int g_xfd;

/* harness-side TLS peer over memory BIOs */
static SSL *g_pssl;
static BIO *g_prb, *g_pwb;
static int g_pdone, g_pfailed, g_cutoff;    /* cutoff: a truncating mutation was applied, the peer is mute */
static int g_nflights;
#define MAXFL 6
static unsigned char *g_fl[MAXFL];           /* reference flights (calibration) */
static int g_fl_len[MAXFL], g_nfl_ref, g_app_flight = -1;
static int g_calibrating;
static const struct kase *g_mutk;            /* hsmut: the mutation to apply */
static int g_mut_applied;

/* The harness-side OpenSSL peer lives in the same thread as the XCM endpoint and therefore shares OpenSSL's
   per-thread error queue with it.  Every harness-side SSL call removes exactly the entries it added itself and
   leaves what the library under test left there (that residue is what the bystander check is about); results
   are judged with SSL_want(), never with SSL_get_error(), which looks at the shared queue. */
#define HSSL(call) ({ int _m = ERR_set_mark(); __typeof__(call) _r = (call); \
                      if (_m) ERR_pop_to_mark(); else ERR_clear_error(); _r; })
/* XCM call on the bystander connection: not charged to the hostile case's allocation ledger */
#define XB(call) ({ __typeof__(call) _r = (call); int _e = errno; S->calls++; errno = _e; _r; })

#define XC(call) ({ l_track = 1; __typeof__(call) _r = (call); int _e = errno; l_track = 0; S->calls++; errno = _e; _r; })

static struct xcm_attr_map *mk_attrs(void)
{
    struct xcm_attr_map *m = xcm_attr_map_create();
    xcm_attr_map_add_bool(m, "xcm.blocking", false);
    if (C.bytestream)
        xcm_attr_map_add_str(m, "xcm.service", "bytestream");
    return m;
}

static int g_stopfeed;
static int g_term;              /* a terminal result has been seen */

static int raw_send_all(const unsigned char *b, size_t n)
{
    if (g_stopfeed)
        return -1;
    size_t off = 0;
    while (off < n) {
        ssize_t w = send(g_raw, b + off, n - off, MSG_NOSIGNAL);
        if (w <= 0) {
            if (w < 0 && (errno == EPIPE || errno == ECONNRESET))
                return -1;      /* the XCM side is gone; nothing more can be said to it */
            if (w < 0 && errno == EAGAIN && g_term) {
                /* the receiver has reported a terminal condition and reads no more: a real sender would block
                   here for good; the rest of the stream stays unsent */
                g_stopfeed = 1;
                return -1;
            }
            internal("raw send: %s after %zu of %zu bytes", errname(errno), off, n);
            return -1;
        }
        off += (size_t)w;
    }
    S->bytes_fed += n;
    return 0;
}

static int g_setup_done;

static void process_setup(void)
{
    static int done;
    if (done)
        return;
    done = 1;
    setenv("XCM_CTL", "/nonexistent-ctl-dir", 1);
    if (C.tls) {
        char d[300];
        snprintf(d, sizeof d, "%s/good_a", C.certs);
        setenv("XCM_TLS_CERT", d, 1);
    }
    struct env_cfg ec = { .io_menu = 0, .only_task = -1 };
    env_init(&ec);
    det_rand_install(1);
    signal(SIGPIPE, SIG_IGN);
    g_rbuf = __real_malloc(RCAP);
    g_port = 20000 + getpid() % 20000;
    snprintf(g_addr, sizeof g_addr, "%s:127.0.0.1:%d", C.tp, g_port);
    struct xcm_attr_map *a = mk_attrs();
    if (C.server) {
        g_srv = xcm_server_a(g_addr, a);
        if (!g_srv) {
            fprintf(stderr, "h_wire: xcm_server_a(%s): %s\n", g_addr, strerror(errno));
            exit(2);
        }
    } else {
        g_lst = socket(AF_INET, SOCK_STREAM | SOCK_NONBLOCK, 0);
        env_set_raw(g_lst);
        struct sockaddr_in sa = { .sin_family = AF_INET, .sin_port = htons(g_port) };
        inet_pton(AF_INET, "127.0.0.1", &sa.sin_addr);
        if (bind(g_lst, (struct sockaddr *)&sa, sizeof sa) < 0 || listen(g_lst, 8) < 0) {
            fprintf(stderr, "h_wire: raw listener: %s\n", strerror(errno));
            exit(2);
        }
        if (C.tls) {
            char pa[64];
            snprintf(pa, sizeof pa, "%s:127.0.0.1:%d", C.tp, g_port + 1);
            g_prime = xcm_server_a(pa, a);
        }
    }
    xcm_attr_map_destroy(a);
    if (C.tls) {
        char f[320];
        g_pctx = SSL_CTX_new(TLS_method());
        snprintf(f, sizeof f, "%s/good_b/cert.pem", C.certs);
        int ok = SSL_CTX_use_certificate_chain_file(g_pctx, f) == 1;
        snprintf(f, sizeof f, "%s/good_b/key.pem", C.certs);
        ok = ok && SSL_CTX_use_PrivateKey_file(g_pctx, f, SSL_FILETYPE_PEM) == 1;
        snprintf(f, sizeof f, "%s/good_b/tc.pem", C.certs);
        ok = ok && SSL_CTX_load_verify_locations(g_pctx, f, NULL) == 1;
        if (!ok) {
            fprintf(stderr, "h_wire: cannot load the peer's credentials from %s/good_b\n", C.certs);
            exit(2);
        }
        SSL_CTX_set_verify(g_pctx, SSL_VERIFY_PEER, NULL);
        SSL_CTX_set_num_tickets(g_pctx, 0);     /* session tickets carry the wall-clock time */
    }
    g_setup_done = 1;
}

/* raw TCP connection + XCM connection socket; TLS handshake not driven here */
static int open_conn(void)
{
    struct xcm_attr_map *a = mk_attrs();
    g_conn = NULL;
    g_raw = -1;
    if (C.server) {
        g_raw = socket(AF_INET, SOCK_STREAM | SOCK_NONBLOCK, 0);
        env_set_raw(g_raw);
        struct sockaddr_in sa = { .sin_family = AF_INET, .sin_port = htons(g_port) };
        inet_pton(AF_INET, "127.0.0.1", &sa.sin_addr);
        if (connect(g_raw, (struct sockaddr *)&sa, sizeof sa) < 0) {
            internal("raw connect: %s", errname(errno));
            xcm_attr_map_destroy(a);
            return -1;
        }
        g_conn = XC(xcm_accept_a(g_srv, a));
    } else {
        g_conn = XC(xcm_connect_a(g_addr, a));
        if (g_conn) {
            XC(xcm_finish(g_conn));
            g_raw = accept4(g_lst, NULL, NULL, SOCK_NONBLOCK);
            if (g_raw < 0)
                internal("raw accept: %s", errname(errno));
        }
    }
    xcm_attr_map_destroy(a);
    if (!g_conn || g_raw < 0) {
        internal("connection setup failed: %s", errname(errno));
        return -1;
    }
    g_xfd = env_conn_fd_peer(g_raw);
    return 0;
}

static void close_raw(void)
{
    if (g_raw >= 0) {
        close(g_raw);
        g_raw = -1;
    }
}

static void close_conn(void)
{
    if (g_conn) {
        XC(xcm_close(g_conn));
        g_conn = NULL;
    }
    close_raw();
    if (g_pssl) {
        HSSL((SSL_free(g_pssl), 0));       /* frees the BIOs */
        g_pssl = NULL;
    }
}

/* ---- harness-side TLS peer ------------------------------------------------------------ */
static int g_xfailed;            /* the XCM side has reported a hard failure of this connection */

static void peer_new(void)
{
    g_pssl = HSSL(SSL_new(g_pctx));
    g_prb = BIO_new(BIO_s_mem());
    g_pwb = BIO_new(BIO_s_mem());
    BIO_set_mem_eof_return(g_prb, -1);
    SSL_set_bio(g_pssl, g_prb, g_pwb);
    if (C.server)
        SSL_set_connect_state(g_pssl);
    else
        SSL_set_accept_state(g_pssl);
    g_pdone = g_pfailed = g_cutoff = g_xfailed = 0;
    g_nflights = 0;
    g_mut_applied = 0;
}

/* everything the raw descriptor has -> the peer's read BIO (or the bin) */
static size_t peer_pump_in(void)
{
    static unsigned char b[1 << 16];
    size_t tot = 0;
    for (;;) {
        ssize_t r = g_raw >= 0 ? recv(g_raw, b, sizeof b, 0) : -1;
        if (r <= 0)
            break;
        tot += (size_t)r;
        if (g_pssl)
            BIO_write(g_prb, b, (int)r);
    }
    return tot;
}

static void apply_mutation(unsigned char *b, size_t *n, int *then_close)
{
    const struct kase *k = g_mutk;
    size_t o = (size_t)k->off;
    g_mut_applied = 1;
    *then_close = 0;
    if (o >= *n) {
        internal("mutation offset %zu beyond flight of %zu bytes", o, *n);
        return;
    }
    int w = 1;
    switch (k->mut) {
    case MUT_X1: b[o] ^= 0x01; break;
    case MUT_XFF: b[o] ^= 0xff; break;
    case MUT_Z3: case MUT_F3: w = 3; /* fallthrough */
    case MUT_Z2: case MUT_F2: if (w == 1) w = 2; /* fallthrough */
    case MUT_Z1: case MUT_F1:
        for (int i = 0; i < w && o + (size_t)i < *n; i++)
            b[o + (size_t)i] = (k->mut == MUT_Z1 || k->mut == MUT_Z2 || k->mut == MUT_Z3) ? 0x00 : 0xff;
        break;
    case MUT_TC: *then_close = 1; /* fallthrough */
    case MUT_TS:
        *n = o;
        g_cutoff = 1;
        break;
    }
}

/* would the mutation change the reference flight at all? */
static int mutation_is_identity(int f, int o, int m)
{
    const unsigned char *b = g_fl[f];
    int n = g_fl_len[f];
    int w = (m == MUT_Z1 || m == MUT_F1) ? 1 : (m == MUT_Z2 || m == MUT_F2) ? 2 : 3;
    if (m == MUT_X1 || m == MUT_XFF || m == MUT_TC || m == MUT_TS)
        return 0;
    unsigned char v = (m == MUT_Z1 || m == MUT_Z2 || m == MUT_Z3) ? 0x00 : 0xff;
    if (o + w > n)
        return 1;               /* the multi-byte forms need all their bytes inside the flight */
    for (int i = 0; i < w; i++)
        if (b[o + i] != v)
            return 0;
    return 1;
}

/* what the peer has produced -> (mutation) -> raw descriptor; one call = one flight */
static void peer_flush(int is_app)
{
    static unsigned char *fb;
    if (!fb)
        fb = __real_malloc(SB_MAX + 65536);
    size_t n = 0;
    for (;;) {
        int r = BIO_read(g_pwb, fb + n, 65536);
        if (r <= 0)
            break;
        n += (size_t)r;
        if (n > SB_MAX)
            break;
    }
    if (n == 0)
        return;
    if (g_cutoff)
        return;                 /* behind a truncation nothing more is sent */
    int idx = g_nflights++;
    if (g_calibrating && idx < MAXFL) {
        g_fl[idx] = __real_realloc(g_fl[idx], n);
        memcpy(g_fl[idx], fb, n);
        g_fl_len[idx] = (int)n;
        g_nfl_ref = idx + 1;
        if (is_app)
            g_app_flight = idx;
    }
    int then_close = 0;
    if (g_mutk && !g_calibrating && idx == g_mutk->flight) {
        if (idx < g_nfl_ref && ((int)n != g_fl_len[idx] || memcmp(fb, g_fl[idx], n)))
            internal("flight %d differs from the reference run (%zu vs %d bytes): not deterministic", idx, n,
                     g_fl_len[idx]);
        apply_mutation(fb, &n, &then_close);
    }
    if (n)
        raw_send_all(fb, n);
    if (then_close)
        close_raw();
}

static void peer_handshake_step(void)
{
    /* once the XCM side has given up there is nothing left to negotiate, and OpenSSL's handshake state machine
       begins with ERR_clear_error(): stepping the harness peer again would wipe whatever the library under test
       left in the thread's error queue - exactly the residue the bystander check looks for */
    if (g_pdone || g_pfailed || g_xfailed)
        return;
    int r = HSSL(SSL_do_handshake(g_pssl));
    if (r == 1)
        g_pdone = 1;
    else if (!SSL_want_read(g_pssl) && !SSL_want_write(g_pssl))
        g_pfailed = 1;
}

/* ---- observations -------------------------------------------------------------------- */
enum { EV_MSG, EV_EOF, EV_ERR };
struct ev { int kind, val; uint32_t cnt; };
#define MAXEV 64
static struct ev g_ev[MAXEV];
static int g_nev;
static int g_ndeliv;            /* messages (messaging) / chunks (bytestream) delivered */
static size_t g_bs_pos;         /* bytestream: bytes received so far */
static size_t g_fed;            /* plaintext stream bytes handed to the wire so far */
static const unsigned char *g_exp;   /* expected plaintext */
static size_t g_exp_n;
static struct ref g_ref;
static const char *g_famtag = "";

static void ev_add(int kind, int val)
{
    if (g_nev && g_ev[g_nev - 1].kind == kind && g_ev[g_nev - 1].val == val && kind != EV_MSG) {
        g_ev[g_nev - 1].cnt++;
        return;
    }
    if (g_nev < MAXEV)
        g_ev[g_nev++] = (struct ev){ kind, val, 1 };
}

static void ev_print(char *b, size_t n)
{
    size_t o = 0;
    b[0] = 0;
    for (int i = 0; i < g_nev && o + 32 < n; i++) {
        struct ev *e = &g_ev[i];
        if (e->kind == EV_MSG)
            o += (size_t)snprintf(b + o, n - o, "%s%d", i ? " " : "", e->val);
        else if (e->kind == EV_EOF)
            o += (size_t)snprintf(b + o, n - o, "%s0(closed)x%u", i ? " " : "", e->cnt);
        else
            o += (size_t)snprintf(b + o, n - o, "%s-1/%sx%u", i ? " " : "", errname(e->val), e->cnt);
    }
}

static const char *got_name(int rc, int err)
{
    return rc > 0 ? "message" : rc == 0 ? "closed" : errname(err);
}

/* one xcm_receive result, judged on the spot where that is possible */
static int g_eproto_reported;   /* the illegal length has been answered with EPROTO */

static void on_receive(int rc, int err)
{
    char sig[200];
    S->checked++;
    if (g_eproto_reported && !(rc < 0 && err == EPROTO)) {
        snprintf(sig, sizeof sig, "C07/eproto-not-sticky/call=xcm_receive/got=%s%s/tp=%s", got_name(rc, err), g_famtag, C.tp);
        finding(sig, "after the illegal frame length had been reported as EPROTO a later xcm_receive returned %d %s", rc,
                rc < 0 ? errname(err) : "");
    }
    if (rc > 0) {
        if (g_term) {
            snprintf(sig, sizeof sig, "C07/delivery-mismatch/after-terminal%s/tp=%s", g_famtag, C.tp);
            finding(sig, "xcm_receive returned %d bytes after it had reported a terminal condition", rc);
        }
        if (C.bytestream) {
            if (g_bs_pos + (size_t)rc > g_fed) {
                snprintf(sig, sizeof sig, "C07/bytestream-mismatch/premature%s/tp=%s", g_famtag, C.tp);
                finding(sig, "received %d bytes at stream offset %zu but only %zu bytes have been sent", rc, g_bs_pos, g_fed);
            } else if (memcmp(g_rbuf, g_exp + g_bs_pos, (size_t)rc)) {
                snprintf(sig, sizeof sig, "C07/bytestream-mismatch/wrong-bytes%s/tp=%s", g_famtag, C.tp);
                finding(sig, "the %d bytes received at stream offset %zu differ from the bytes sent", rc, g_bs_pos);
            }
            g_bs_pos += (size_t)rc;
            ev_add(EV_MSG, rc);
            g_ndeliv++;
            S->msgs_delivered++;
            return;
        }
        int j = g_ndeliv++;
        S->msgs_delivered++;
        ev_add(EV_MSG, rc);
        if ((unsigned)rc > MSG_MAX) {
            snprintf(sig, sizeof sig, "C07/delivery-mismatch/oversize%s/tp=%s", g_famtag, C.tp);
            finding(sig, "xcm_receive delivered a message of %d bytes (> 65535)", rc);
            return;
        }
        if (j >= g_ref.nmsg) {
            snprintf(sig, sizeof sig, "C07/delivery-mismatch/extra%s/tp=%s", g_famtag, C.tp);
            finding(sig, "delivery #%d (%d bytes): the reference decoder finds only %d well-formed message(s) ahead of "
                    "the first malformed frame", j + 1, rc, g_ref.nmsg);
            return;
        }
        if ((size_t)rc != g_ref.len[j]) {
            snprintf(sig, sizeof sig, "C07/delivery-mismatch/wrong-length%s/tp=%s", g_famtag, C.tp);
            finding(sig, "delivery #%d has %d bytes, the frame on the wire has %zu", j + 1, rc, g_ref.len[j]);
            return;
        }
        if (g_ref.end[j] > g_fed) {
            snprintf(sig, sizeof sig, "C07/delivery-mismatch/premature%s/tp=%s", g_famtag, C.tp);
            finding(sig, "delivery #%d (%d bytes) although only %zu of the %zu bytes up to its end had been sent", j + 1, rc,
                    g_fed, g_ref.end[j]);
            return;
        }
        if (memcmp(g_rbuf, g_exp + g_ref.off[j], (size_t)rc)) {
            snprintf(sig, sizeof sig, "C07/delivery-mismatch/wrong-bytes%s/tp=%s", g_famtag, C.tp);
            finding(sig, "delivery #%d (%d bytes) differs from the payload on the wire", j + 1, rc);
        }
        return;
    }
    if (rc == 0) {
        ev_add(EV_EOF, 0);
        g_term = 1;
    } else if (err != EAGAIN) {
        ev_add(EV_ERR, err);
        g_term = 1;
    }
}

/* Call xcm_receive until nothing more can come of it: a single call may return EAGAIN although
   more is at hand (TLS: at most one record is consumed per call), so the loop goes on while
   EAGAIN calls still consume bytes from the kernel and stops after `idle` EAGAIN calls in a row
   that consumed nothing.  After a terminal result two more calls. */

static void drain(void)
{
    int after_term = 0, idle = 0, idle_max = C.tls ? 3 : 2;
    for (int i = 0; i < 400000; i++) {
        uint64_t in0 = g_xfd >= 0 ? env_bytes_in(g_xfd) : 0;
        errno = 0;
        int rc = XC(xcm_receive(g_conn, g_rbuf, RCAP));
        int err = errno;
        if (g_verbose)
            vlog("xcm_receive -> %d %s", rc, rc < 0 ? errname(err) : "");
        on_receive(rc, err);
        if (rc < 0 && err == EAGAIN) {
            uint64_t in1 = g_xfd >= 0 ? env_bytes_in(g_xfd) : 0;
            if (in1 != in0)
                idle = 0;
            else if (++idle >= idle_max)
                return;
            continue;
        }
        idle = 0;
        if (rc <= 0 && ++after_term >= 3)
            return;
    }
    internal("drain did not come to an end");
}

/* ====================================================================================== */
/* running one case                                                                       */
/* ====================================================================================== */
#define SLACK_XCM 4096
#define SLACK_ALL 32768
static int64_t g_hs_peak_ref;       /* peak of a good handshake (all classes), calibrated per process */

/* drive both ends until the TLS handshake is over on both sides (or nothing moves any more);
   with_drain: also call xcm_receive (hsmut: messages may follow at once) */
static int tls_handshake(int with_drain)
{
    (void)with_drain;
    int xrc = -1;
    for (int it = 0; it < 10; it++) {
        peer_handshake_step();
        peer_flush(0);
        errno = 0;
        xrc = XC(xcm_finish(g_conn));
        int xe = errno;
        if (g_verbose)
            vlog("handshake round %d: peer %s, xcm_finish -> %d %s", it, g_pdone ? "done" : g_pfailed ? "failed" : "busy",
                 xrc, xrc < 0 ? errname(xe) : "");
        if (xrc < 0 && xe != EAGAIN)
            g_xfailed = 1;
        size_t in = peer_pump_in();
        if (g_pdone && xrc == 0 && in == 0)
            break;
        if (g_xfailed && in == 0)
            break;
        if (g_raw < 0)
            break;
    }
    /* let the peer digest what the XCM side sent with its last flight (session tickets) */
    if (g_pdone && !g_pfailed) {
        unsigned char t[64];
        (void)HSSL(SSL_read(g_pssl, t, sizeof t));
        peer_flush(0);
    }
    return g_pdone && xrc == 0 ? 0 : -1;
}

static void feed_plain(const unsigned char *b, size_t n)
{
    if (n == 0 || g_raw < 0)
        return;
    S->segments++;
    if (g_pssl) {
        size_t off = 0;
        while (off < n) {
            int w = HSSL(SSL_write(g_pssl, b + off, (int)(n - off > 1 << 30 ? 1 << 30 : n - off)));
            if (w <= 0) {
                internal("peer SSL_write failed (%d)", w);
                return;
            }
            off += (size_t)w;
        }
        peer_flush(1);
    } else
        raw_send_all(b, n);
}

static void do_end(int end)
{
    if (end == END_SILENCE || g_raw < 0)
        return;
    peer_pump_in();     /* nothing unread at the closing side: the close is orderly at the TCP level */
    if (end == END_SHUTDOWN && g_pssl) {
        HSSL(SSL_shutdown(g_pssl));
        peer_flush(0);
    }
    close_raw();
}

static void judge_memory(int64_t base_xcm, int64_t base_all, int handshake_phase)
{
    char sig[200];
    if (l_overflow) {
        internal("allocation ledger overflow");
        l_overflow = 0;
        return;
    }
    if (handshake_phase) {
        if (l_peak_tot > S->max_peak_hs)
            S->max_peak_hs = l_peak_tot;
        if (g_hs_peak_ref && l_peak_tot > g_hs_peak_ref + WIRE_MAX + SLACK_ALL) {
            snprintf(sig, sizeof sig, "C07/buffers-too-much/phase=handshake%s/tp=%s", g_famtag, C.tp);
            finding(sig, "heap attributable to the connection peaked at %lld bytes; a good handshake peaks at %lld",
                    (long long)l_peak_tot, (long long)g_hs_peak_ref);
        }
        return;
    }
    int64_t gx = l_peak[0] - base_xcm, ga = l_peak_tot - base_all;
    if (gx > S->max_growth_xcm)
        S->max_growth_xcm = gx;
    if (ga > S->max_growth_all)
        S->max_growth_all = ga;
    if (gx > (int64_t)WIRE_MAX + SLACK_XCM) {
        snprintf(sig, sizeof sig, "C07/buffers-too-much/class=xcm%s/tp=%s", g_famtag, C.tp);
        finding(sig, "XCM's own allocations for the connection grew by %lld bytes after establishment (one maximum frame "
                "on the wire is %u)", (long long)gx, WIRE_MAX);
    } else if (ga > (int64_t)WIRE_MAX + SLACK_ALL) {
        snprintf(sig, sizeof sig, "C07/buffers-too-much/class=all%s/tp=%s", g_famtag, C.tp);
        finding(sig, "heap attributable to the connection (XCM + OpenSSL) grew by %lld bytes after establishment",
                (long long)ga);
    }
}

/* final verdict of a case of the frames-like families.
   peer_open: the raw peer has not closed;  must_all: every well-formed message must have arrived */
static void judge_final(int peer_open, int must_all, int send_rc, int send_errno)
{
    char sig[200], evs[600];
    ev_print(evs, sizeof evs);
    /* first terminal event */
    int ft = -1;
    for (int i = 0; i < g_nev; i++)
        if (g_ev[i].kind != EV_MSG) {
            ft = i;
            break;
        }
    int oc = ft < 0 ? O_EAGAIN : g_ev[ft].kind == EV_EOF ? O_CLOSED : g_ev[ft].val == EPROTO ? O_EPROTO : O_OTHER;
    S->outcome[oc]++;
    if (g_ndeliv)
        S->outcome[O_DELIVERED]++;
    if (C.bytestream) {
        if (must_all && g_bs_pos < g_exp_n) {
            snprintf(sig, sizeof sig, "C07/bytestream-mismatch/missing%s/tp=%s", g_famtag, C.tp);
            finding(sig, "only %zu of the %zu bytes sent were received; results: %s", g_bs_pos, g_exp_n, evs);
        } else if (ft >= 0 && peer_open && must_all) {
            snprintf(sig, sizeof sig, "C07/terminal-without-cause/got=%s%s/tp=%s",
                     g_ev[ft].kind == EV_EOF ? "closed" : errname(g_ev[ft].val), g_famtag, C.tp);
            finding(sig, "the peer neither closed nor sent anything malformed, yet xcm_receive reported: %s", evs);
        }
        return;
    }
    if (must_all && g_ndeliv < g_ref.nmsg) {
        snprintf(sig, sizeof sig, "C07/delivery-mismatch/missing%s/tp=%s", g_famtag, C.tp);
        finding(sig, "%d of the %d well-formed messages ahead of the first malformed frame were delivered; results: %s",
                g_ndeliv, g_ref.nmsg, evs);
        return;
    }
    if (!must_all)
        return;
    if (g_ref.status == ST_ILLEGAL) {
        const char *cls = g_ref.ill_len == 0 ? "0" : "over-max";
        if (ft < 0 || g_ev[ft].kind != EV_ERR || g_ev[ft].val != EPROTO) {
            /* one signature per transport: what is reported instead (peer closed, EAGAIN for ever) depends on
               whether more input follows, not on the cause */
            snprintf(sig, sizeof sig, "C07/illegal-length-not-EPROTO/len=%s/tp=%s", cls, C.tp);
            finding(sig, "a frame header announcing length %u was completely received (after %d well-formed message(s)) but "
                    "xcm_receive did not report EPROTO, it reported %s; results of the receive calls: %s; xcm_send "
                    "afterwards: %d %s", g_ref.ill_len, g_ref.nmsg,
                    ft < 0 ? "EAGAIN for ever" : g_ev[ft].kind == EV_EOF ? "0 (peer closed)" : errname(g_ev[ft].val), evs,
                    send_rc, send_rc < 0 ? errname(send_errno) : "");
            return;
        }
        S->checked++;
        if (!(send_rc < 0 && send_errno == EPROTO)) {
            snprintf(sig, sizeof sig, "C07/eproto-not-sticky/call=xcm_send/got=%s%s/tp=%s",
                     send_rc >= 0 ? "accepted" : errname(send_errno), g_famtag, C.tp);
            finding(sig, "after the illegal frame length (%u) had been reported as EPROTO, xcm_send returned %d %s",
                    g_ref.ill_len, send_rc, send_rc < 0 ? errname(send_errno) : "");
        }
        return;
    }
    if (ft >= 0 && peer_open) {
        snprintf(sig, sizeof sig, "C07/terminal-without-cause/got=%s%s/tp=%s",
                 g_ev[ft].kind == EV_EOF ? "closed" : errname(g_ev[ft].val), g_famtag, C.tp);
        finding(sig, "the peer neither closed nor sent a frame with an illegal length, yet xcm_receive reported: %s", evs);
    }
}

static void case_reset(void)
{
    g_nev = g_ndeliv = g_term = g_eproto_reported = g_stopfeed = 0;
    g_bs_pos = g_fed = 0;
    g_case_bad = 0;
    g_mutk = NULL;
}

/* after each drain: has the illegal header been answered with EPROTO? */
static void note_eproto(void)
{
    if (!C.bytestream && g_ref.status == ST_ILLEGAL && g_fed >= g_ref.ill_at && g_nev &&
        g_ev[g_nev - 1].kind == EV_ERR && g_ev[g_nev - 1].val == EPROTO && g_ndeliv == g_ref.nmsg)
        g_eproto_reported = 1;
}

static void probes(int *send_rc, int *send_errno)
{
    errno = 0;
    *send_rc = XC(xcm_send(g_conn, "p", 1));
    *send_errno = errno;
    vlog("xcm_send(1 byte) -> %d %s", *send_rc, *send_rc < 0 ? errname(*send_errno) : "");
    errno = 0;
    int rc = XC(xcm_receive(g_conn, g_rbuf, RCAP));
    int e = errno;
    vlog("xcm_receive -> %d %s", rc, rc < 0 ? errname(e) : "");
    on_receive(rc, e);
    rc = XC(xcm_finish(g_conn));
    vlog("xcm_finish -> %d %s", rc, rc < 0 ? errname(errno) : "");
}

/* frames, ctfrag, rawinj */
static void run_stream_case(const struct kase *k)
{
    stream_build_case(&k->st);
    if (open_conn() < 0)
        return;
    if (C.tls) {
        peer_new();
        if (tls_handshake(0) < 0) {
            internal("good TLS handshake did not complete (peer done=%d failed=%d)", g_pdone, g_pfailed);
            close_conn();
            return;
        }
    } else
        XC(xcm_finish(g_conn));
    static unsigned char *xb;
    const unsigned char *exp = g_sb;
    size_t exp_n = g_sn, pre = 0;
    if (C.fam == FAM_RAWINJ) {
        /* one good message first; what follows is injected below the TLS layer */
        static const unsigned char good[7] = { 0, 0, 0, 3, 'a', 'b', 'c' };
        if (!xb)
            xb = __real_malloc(16);
        memcpy(xb, good, 7);
        exp = xb;
        exp_n = pre = 7;
    }
    g_exp = exp;
    g_exp_n = exp_n;
    ref_decode(exp, exp_n, &g_ref);
    int64_t base_xcm = l_live[0], base_all = l_live_tot;
    ledger_peak_restart();
    if (pre) {
        feed_plain(exp, pre);
        g_fed = pre;
        drain();
    }
    int early_closed = 0;
    if (C.fam == FAM_RAWINJ) {
        /* raw bytes instead of TLS records */
        size_t step = k->segkind == SEG_TRICKLE ? (size_t)k->trickle : g_sn;
        for (size_t o = 0; o < g_sn; o += step) {
            size_t m = g_sn - o < step ? g_sn - o : step;
            if (g_raw >= 0)
                raw_send_all(g_sb + o, m);
            S->segments++;
            if (o + m >= g_sn && k->end != END_SILENCE && k->end != END_LATECLOSE) {
                do_end(k->end);
                early_closed = 1;
            }
            drain();
        }
    } else if (k->segkind == SEG_CTCUT || k->segkind == SEG_CTTRICKLE) {
        /* one record, the ciphertext fragmented */
        static unsigned char ct[17000];
        int w = HSSL(SSL_write(g_pssl, g_sb, (int)g_sn));
        int cn = w > 0 ? BIO_read(g_pwb, ct, sizeof ct) : -1;
        if (cn != (int)g_sn + 22) {
            internal("ciphertext of %zu plaintext bytes has %d bytes, expected %zu", g_sn, cn, g_sn + 22);
            close_conn();
            return;
        }
        size_t pos = 0;
        while (pos < (size_t)cn) {
            size_t nxt = k->segkind == SEG_CTTRICKLE ? pos + (size_t)k->trickle : (pos < k->cuts[0] ? k->cuts[0] : (size_t)cn);
            if (nxt > (size_t)cn)
                nxt = (size_t)cn;
            raw_send_all(ct + pos, nxt - pos);
            S->segments++;
            pos = nxt;
            if (pos == (size_t)cn) {
                g_fed = g_sn;   /* the plaintext exists for the receiver only when the record is complete */
                if (k->end != END_SILENCE && k->end != END_LATECLOSE) {
                    do_end(k->end);
                    early_closed = 1;
                }
            }
            drain();
            note_eproto();
        }
    } else {
        size_t pos = 0;
        int ci = 0;
        if (g_pre) {
            /* the large well-formed frame first, in one piece; the case's segmentation applies to what follows */
            feed_plain(g_sb, g_pre);
            pos = g_fed = g_pre;
            drain();
        }
        if (g_sn == g_pre && k->end != END_SILENCE && k->end != END_LATECLOSE) {
            do_end(k->end);
            early_closed = 1;
            drain();
        }
        while (pos < g_sn) {
            size_t nxt;
            if (k->segkind == SEG_TRICKLE)
                nxt = pos + (size_t)k->trickle;
            else
                nxt = ci < k->ncuts ? g_pre + k->cuts[ci++] : g_sn;
            if (nxt > g_sn || nxt <= pos)
                nxt = g_sn;
            feed_plain(g_sb + pos, nxt - pos);
            pos = nxt;
            g_fed = pos;
            if (pos == g_sn && k->end != END_SILENCE && k->end != END_LATECLOSE) {
                do_end(k->end);
                early_closed = 1;
            }
            drain();
            note_eproto();
        }
    }
    if (k->end == END_LATECLOSE) {
        do_end(END_CLOSE);
        drain();
        note_eproto();
    }
    (void)early_closed;
    int src, serr;
    probes(&src, &serr);
    judge_final(k->end == END_SILENCE && !(C.fam == FAM_RAWINJ && g_sn > 0), 1, src, serr);
    judge_memory(base_xcm, base_all, 0);
    close_conn();
}

/* the byte strings instead of the handshake */
static void run_prehs_case(const struct kase *k)
{
    stream_build(&k->st);
    if (open_conn() < 0)
        return;
    XC(xcm_finish(g_conn));
    peer_pump_in();             /* role=client: the ClientHello goes to the bin */
    g_exp = g_sb;
    g_exp_n = 0;                /* nothing may be delivered */
    g_ref.nmsg = 0;
    g_ref.status = ST_CLEAN;
    size_t pos = 0;
    int ci = 0;
    if (g_sn == 0 && k->end == END_CLOSE) {
        do_end(END_CLOSE);
        drain();
    }
    while (pos < g_sn) {
        size_t nxt = k->segkind == SEG_TRICKLE ? pos + (size_t)k->trickle : (ci < k->ncuts ? k->cuts[ci++] : g_sn);
        if (nxt > g_sn || nxt <= pos)
            nxt = g_sn;
        if (g_raw >= 0) {
            raw_send_all(g_sb + pos, nxt - pos);
            S->segments++;
        }
        pos = nxt;
        if (pos == g_sn && k->end == END_CLOSE)
            do_end(END_CLOSE);
        drain();
        peer_pump_in();
    }
    if (k->end == END_LATECLOSE) {
        do_end(END_CLOSE);
        drain();
    }
    int src, serr;
    probes(&src, &serr);
    int ft = -1;
    for (int i = 0; i < g_nev; i++)
        if (g_ev[i].kind != EV_MSG) {
            ft = i;
            break;
        }
    S->outcome[ft < 0 ? O_EAGAIN : g_ev[ft].kind == EV_EOF ? O_CLOSED : g_ev[ft].val == EPROTO ? O_EPROTO : O_OTHER]++;
    if (g_ndeliv) {
        S->outcome[O_DELIVERED]++;
        /* on_receive has already reported it as extra / premature */
    }
    (void)src;
    (void)serr;
    judge_memory(0, 0, 1);
    close_conn();
}

static const unsigned char HS_APP[] = { 0, 0, 0, 1, 0x2c, 0, 0, 0, 2, 0x6f, 0x0b, 0, 1, 0, 0 };

/* garbage during the handshake */
static void run_hsmut_case(const struct kase *k)
{
    if (open_conn() < 0)
        return;
    peer_new();
    g_mutk = g_calibrating ? NULL : k;
    g_exp = HS_APP;
    g_exp_n = sizeof HS_APP;
    ref_decode(g_exp, g_exp_n, &g_ref);
    int hs = tls_handshake(1);
    if (g_calibrating && hs < 0) {
        internal("reference handshake failed");
        close_conn();
        return;
    }
    if (g_pdone)
        S->hs_peer_ok++;
    if (hs == 0)
        S->hs_xcm_ok++;
    if (g_calibrating)
        g_hs_peak_ref = l_peak_tot;
    drain();
    if (g_pdone && !g_pfailed && !g_cutoff && g_raw >= 0) {
        int w = HSSL(SSL_write(g_pssl, HS_APP, sizeof HS_APP));
        if (w == (int)sizeof HS_APP) {
            g_fed = sizeof HS_APP;
            peer_flush(1);
            if (g_cutoff)
                g_fed = 0;
        }
        drain();
        note_eproto();
    }
    if (g_mutk && !g_mut_applied && !g_calibrating)
        internal("flight %d was never produced", k->flight);
    int src, serr;
    probes(&src, &serr);
    /* prefix rule: nothing, or everything */
    if (g_ndeliv > 0)
        judge_final(g_raw >= 0, 1, src, serr);
    else {
        int ft = g_nev ? 0 : -1;
        S->outcome[ft < 0 ? O_EAGAIN : g_ev[ft].kind == EV_EOF ? O_CLOSED : g_ev[ft].val == EPROTO ? O_EPROTO : O_OTHER]++;
        if (g_calibrating)
            internal("reference run delivered nothing");
    }
    judge_memory(0, 0, 1);
    close_conn();
}

/* ====================================================================================== */
/* the bystander: a second, healthy, idle TLS/BTLS connection of the same thread            */
/* ====================================================================================== */
/* Hostile input on connection A must not harm the receiver's OTHER connections.  B is established once per
   process (before any case, outside every per-case heap measurement: its XCM calls are not charged to the
   ledger) between an XCM endpoint of the same kind as A's and a second harness-side OpenSSL peer, and is left
   idle.  After every case on A - whatever A reported - (1) one idle xcm_receive(B) must say EAGAIN, (2) one
   valid message (btls: bytes) sent by B's peer must be delivered exactly, (3) xcm_send on B must be accepted and
   arrive at the peer.  After a violation B is torn down, the thread's OpenSSL error queue is emptied (so that one
   defect does not cascade into every later case) and B is established anew. */
static struct {
    struct xcm_socket *conn;
    int raw;
    SSL *ssl;
    BIO *rb, *wb;
    unsigned seq;
    int ok;
} B = { .raw = -1 };

static void b_destroy(void)
{
    if (B.conn)
        XB(xcm_close(B.conn));
    if (B.raw >= 0)
        close(B.raw);
    if (B.ssl)
        HSSL((SSL_free(B.ssl), 0));
    memset(&B, 0, sizeof B);
    B.raw = -1;
}

/* uses A's machinery (globals) to set the connection up and then moves it aside */
static int b_establish(void)
{
    int cal = g_calibrating;
    g_mutk = NULL;
    g_calibrating = 0;
    if (open_conn() < 0) {
        g_calibrating = cal;
        return -1;
    }
    peer_new();
    int rc = tls_handshake(0);
    g_calibrating = cal;
    if (rc < 0) {
        close_conn();
        return -1;
    }
    B.conn = g_conn;
    B.raw = g_raw;
    B.ssl = g_pssl;
    B.rb = g_prb;
    B.wb = g_pwb;
    B.ok = 1;
    g_conn = NULL;
    g_raw = -1;
    g_pssl = NULL;
    g_prb = g_pwb = NULL;
    g_xfd = -1;
    return 0;
}

static void b_flush(void)
{
    unsigned char b[4096];
    int r;
    while ((r = BIO_read(B.wb, b, sizeof b)) > 0)
        send(B.raw, b, (size_t)r, MSG_NOSIGNAL);
}

static void b_pump_in(void)
{
    unsigned char b[4096];
    ssize_t r;
    while ((r = recv(B.raw, b, sizeof b, 0)) > 0)
        BIO_write(B.rb, b, (int)r);
}

static void setup_all(void)
{
    process_setup();
    if (C.tls && !B.ok && b_establish() < 0)
        internal("the bystander connection could not be established");
}

static void bystander_check(void)
{
    char sig[200];
    const char *what = NULL;
    char detail[300] = "";
    if (!C.tls || !B.ok)
        return;
    S->bystander_checks++;
    char qs[160] = "empty";
    unsigned long qe = ERR_peek_error();
    if (qe)
        ERR_error_string_n(qe, qs, sizeof qs);
    vlog("bystander: OpenSSL error queue of the thread before the idle receive: %s", qs);
    /* (1) idle receive */
    errno = 0;
    int rc = XB(xcm_receive(B.conn, g_rbuf, RCAP));
    int e = errno;
    vlog("bystander: idle xcm_receive -> %d %s", rc, rc < 0 ? errname(e) : "");
    S->checked++;
    if (!(rc < 0 && e == EAGAIN)) {
        static char w[40];
        snprintf(w, sizeof w, "receive-%s", rc > 0 ? "data" : rc == 0 ? "closed" : errname(e));
        what = w;
        snprintf(detail, sizeof detail, "the idle xcm_receive on the bystander returned %d %s instead of -1/EAGAIN", rc,
                 rc < 0 ? errname(e) : "");
    }
    /* (2) one valid message from B's peer */
    unsigned char msg[7] = { 0, 0, 0, 3, 'B', (unsigned char)(B.seq >> 8), (unsigned char)B.seq };
    B.seq++;
    const unsigned char *pay = C.bytestream ? msg : msg + 4;
    int paylen = C.bytestream ? 7 : 3;
    if (!what) {
        int w = HSSL(SSL_write(B.ssl, msg, sizeof msg));
        b_flush();
        int got = 0;
        unsigned char acc[16];
        for (int i = 0; i < 6 && got < paylen && w == (int)sizeof msg; i++) {
            errno = 0;
            rc = XB(xcm_receive(B.conn, g_rbuf, RCAP));
            e = errno;
            if (rc > 0) {
                if (got + rc > (int)sizeof acc)
                    rc = (int)sizeof acc - got;
                memcpy(acc + got, g_rbuf, (size_t)rc);
                got += rc;
                if (!C.bytestream)
                    break;
            } else if (!(rc < 0 && e == EAGAIN))
                break;
        }
        S->checked++;
        if (w != (int)sizeof msg)
            internal("bystander peer SSL_write failed (%d)", w);
        else if (got != paylen || memcmp(acc, pay, (size_t)paylen)) {
            what = "not-delivered";
            snprintf(detail, sizeof detail, "the bystander's peer sent one valid %s of %d bytes; xcm_receive delivered %d "
                     "byte(s), last result %d %s", C.bytestream ? "chunk" : "message", paylen, got, rc,
                     rc < 0 ? errname(e) : "");
        }
    }
    /* (3) a send on B */
    if (!what) {
        unsigned char out[2] = { 's', (unsigned char)B.seq };
        errno = 0;
        rc = XB(xcm_send(B.conn, out, 2));
        e = errno;
        S->checked++;
        if (rc < 0) {
            what = "send-refused";
            snprintf(detail, sizeof detail, "xcm_send on the bystander returned -1 %s", errname(e));
        } else {
            XB(xcm_finish(B.conn));
            unsigned char in[16];
            int want = C.bytestream ? 2 : 6, got = 0;
            for (int i = 0; i < 4 && got < want; i++) {
                b_pump_in();
                int r = HSSL(SSL_read(B.ssl, in + got, (int)sizeof in - got));
                if (r > 0)
                    got += r;
                else
                    XB(xcm_finish(B.conn));
            }
            S->checked++;
            if (got != want || memcmp(in + want - 2, out, 2)) {
                what = "send-not-arrived";
                snprintf(detail, sizeof detail, "xcm_send on the bystander was accepted but its %d bytes did not reach the "
                         "peer (%d arrived)", want, got);
            }
        }
    }
    if (!what)
        return;
    snprintf(sig, sizeof sig, "C07/bystander-connection-harmed/%s/after=%s/tp=%s", what, fam_name[C.fam], C.tp);
    finding(sig, "%s; the bystander is a second, healthy, idle %s connection of the same thread, established before the "
            "hostile case on the other connection; OpenSSL error queue of the thread when that case had ended: %s", detail, C.tp,
            qs);
    b_destroy();
    ERR_clear_error();          /* harness hygiene after the verdict: do not let the defect cascade */
    if (b_establish() < 0)
        internal("the bystander connection could not be re-established");
}

/* after the connection has been closed (xcm_close on the XCM side, close on the raw side, the server socket
   kept): everything allocated inside XCM calls for this connection must have been given back */
static void judge_residual(void)
{
    if (g_conn)
        return;
    S->residual_checks++;
    if (l_live[0] > S->max_resid_xcm)
        S->max_resid_xcm = l_live[0];
    if (l_live[1] > S->max_resid_ssl)
        S->max_resid_ssl = l_live[1];
    if (l_live[0] != 0) {
        char sig[200];
        snprintf(sig, sizeof sig, "C07/memory-left-behind-after-close/class=xcm%s/tp=%s", g_famtag, C.tp);
        finding(sig, "after xcm_close of the connection that received this input, %lld bytes that the library had allocated "
                "for it (its own malloc/realloc calls made inside XCM calls on this connection) are still allocated: every "
                "such connection makes the receiving process grow", (long long)l_live[0]);
    } else if (l_live[1] > 2048) {
        char sig[200];
        snprintf(sig, sizeof sig, "C07/memory-left-behind-after-close/class=openssl%s/tp=%s", g_famtag, C.tp);
        finding(sig, "after xcm_close of the connection that received this input, %lld bytes that OpenSSL had allocated inside "
                "XCM calls on this connection are still allocated", (long long)l_live[1]);
    }
    if (g_verbose)
        vlog("after xcm_close: %lld bytes of XCM's own allocations and %lld bytes of OpenSSL's made inside XCM calls for "
             "this connection are still allocated", (long long)l_live[0], (long long)l_live[1]);
}

static void run_case(const struct kase *k)
{
    case_reset();
    det_rand_install(1);
    ledger_reset();
    g_famtag = C.fam == FAM_FRAMES ? "" : C.fam == FAM_CTFRAG ? "/fam=ctfrag" : C.fam == FAM_RAWINJ ? "/fam=rawinj" :
               C.fam == FAM_PREHS ? "/fam=prehs" : "/fam=hsmut";
    if (C.fam == FAM_PREHS)
        run_prehs_case(k);
    else if (C.fam == FAM_HSMUT)
        run_hsmut_case(k);
    else
        run_stream_case(k);
    S->cases++;
    judge_residual();
    bystander_check();
}

/* ====================================================================================== */
/* driver                                                                                 */
/* ====================================================================================== */
static uint64_t g_sample_every = 0;

#define IDX_WARMUP ((uint64_t)1 << 62)

static void warm_case(const struct kase *k)
{
    char sp[600];
    kase_print(sp, sizeof sp, k);
    if (g_calibrating)
        snprintf(S->cur_spec, sizeof S->cur_spec, "%s [the unmodified reference handshake + messages of 1 and 2 bytes + a "
                 "header announcing 65536]", sp);
    else
        snprintf(S->cur_spec, sizeof S->cur_spec, "%s", sp);
    S->cur_idx = IDX_WARMUP;
    run_case(k);
}

static void calibrate(void)
{
    struct kase k;
    memset(&k, 0, sizeof k);
    int fam = C.fam;
    C.fam = FAM_HSMUT;
    g_calibrating = 1;
    k.flight = -1;
    warm_case(&k);
    g_calibrating = 0;
    C.fam = fam;
}

/* one-time allocations of the library and of OpenSSL must not be charged to the first case */
static void warmup(void)
{
    struct shm save = *S;
    struct kase k;
    int fam = C.fam;
    g_warm = 1;
    memset(&k, 0, sizeof k);
    stream_parse("L1.L10000", &k.st);
    k.end = END_SILENCE;
    if (C.tls) {
        calibrate();
        calibrate();
        C.fam = FAM_RAWINJ;
        warm_case(&k);
        C.fam = FAM_PREHS;
        warm_case(&k);
        C.fam = FAM_FRAMES;
        warm_case(&k);
        k.end = END_CLOSE;
        warm_case(&k);
    } else {
        warm_case(&k);
        k.end = END_CLOSE;
        warm_case(&k);
    }
    C.fam = fam;
    g_warm = 0;
    int ie = S->internal_err;
    char it[300];
    memcpy(it, S->internal_text, sizeof it);
    *S = save;
    if (ie && !S->internal_err) {
        S->internal_err = ie;
        memcpy(S->internal_text, it, sizeof it);
    }
}

static void enum_hsmut(void)
{
    struct kase k;
    memset(&k, 0, sizeof k);
    static const int reduced[] = { MUT_XFF, MUT_Z2, MUT_F2, MUT_TC };
    for (int f = 0; f < g_nfl_ref; f++)
        for (int o = 0; o < g_fl_len[f]; o++)
            for (int m = 0; m < (C.mutset ? NMUT : 4); m++) {
                k.flight = f;
                k.off = o;
                k.mut = C.mutset ? m : reduced[m];
                if (mutation_is_identity(f, o, k.mut)) {
                    if (en_cb && en_idx >= en_from && en_idx < en_to)
                        S->identity_skipped++;
                    continue;
                }
                emit(&k);
            }
}

static void enumerate(void)
{
    en_idx = 0;
    if (C.fam == FAM_HSMUT)
        enum_hsmut();
    else
        enum_streams();
}

static void exec_cb(const struct kase *k)
{
    kase_print(g_spec, sizeof g_spec, k);
    S->cur_idx = en_idx;
    memcpy(S->cur_spec, g_spec, sizeof S->cur_spec);
    alarm(300);
    if (g_verbose)
        out_f("case %s\n", g_spec);
    run_case(k);
    if (g_sample_every && !g_verbose && (en_idx == en_from || en_idx % g_sample_every == 0)) {
        char evs[600], esc[1400], ee[1300];
        ev_print(evs, sizeof evs);
        jesc(esc, sizeof esc, g_spec);
        jesc(ee, sizeof ee, evs);
        out_f("{\"t\":\"sample\",\"case\":\"%s\",\"results\":\"%s\",\"verdict\":\"%s\"}\n", esc, ee,
              g_case_bad ? "violation" : "ok");
    }
}

static void print_stats(uint64_t a, uint64_t b)
{
    char cf[96];
    cfg_print(cf, sizeof cf);
    out_f("{\"t\":\"stats\",\"cfg\":\"%s\",\"from\":%llu,\"to\":%llu,\"cases\":%llu,\"calls\":%llu,\"checked\":%llu,"
          "\"findings\":%llu,\"msgs_delivered\":%llu,\"bytes_fed\":%llu,\"segments\":%llu,"
          "\"out_eproto\":%llu,\"out_closed\":%llu,\"out_eagain\":%llu,\"out_other\":%llu,\"out_delivered\":%llu,"
          "\"max_growth_xcm\":%lld,\"max_growth_all\":%lld,\"max_peak_hs\":%lld,\"hs_peak_ref\":%lld,"
          "\"hs_peer_ok\":%llu,\"hs_xcm_ok\":%llu,\"identity_skipped\":%llu,\"bystander_checks\":%llu,\"residual_checks\":%llu,"
          "\"max_resid_xcm\":%lld,\"max_resid_ssl\":%lld,\"flights\":[%d,%d,%d,%d,%d,%d],"
          "\"internal\":%d,\"internal_text\":\"%s\",\"sigs\":{",
          cf, (unsigned long long)a, (unsigned long long)b, (unsigned long long)S->cases,
          (unsigned long long)S->calls, (unsigned long long)S->checked, (unsigned long long)S->findings,
          (unsigned long long)S->msgs_delivered, (unsigned long long)S->bytes_fed, (unsigned long long)S->segments,
          (unsigned long long)S->outcome[O_EPROTO], (unsigned long long)S->outcome[O_CLOSED],
          (unsigned long long)S->outcome[O_EAGAIN], (unsigned long long)S->outcome[O_OTHER],
          (unsigned long long)S->outcome[O_DELIVERED], (long long)S->max_growth_xcm, (long long)S->max_growth_all,
          (long long)S->max_peak_hs, (long long)g_hs_peak_ref, (unsigned long long)S->hs_peer_ok,
          (unsigned long long)S->hs_xcm_ok, (unsigned long long)S->identity_skipped,
          (unsigned long long)S->bystander_checks, (unsigned long long)S->residual_checks,
          (long long)S->max_resid_xcm, (long long)S->max_resid_ssl, g_fl_len[0], g_fl_len[1],
          g_fl_len[2], g_fl_len[3], g_fl_len[4], g_fl_len[5], S->internal_err, S->internal_text);
    for (int i = 0; i < S->nsig; i++) {
        char e[420];
        jesc(e, sizeof e, S->sig[i].sig);
        out_f("%s\"%s\":%llu", i ? "," : "", e, (unsigned long long)S->sig[i].n);
    }
    out_f("}}\n");
}

/* child: set up, warm up, run [from,to) */
static void child_main(uint64_t from, uint64_t to)
{
    setup_all();
    warmup();
    if (C.fam == FAM_HSMUT && !g_nfl_ref)
        internal("no reference flights");
    en_from = from;
    en_to = to;
    en_cb = exec_cb;
    enumerate();
    alarm(0);
}

static int run_range(uint64_t from, uint64_t to, uint64_t batch)
{
    S = mmap(NULL, sizeof *S, PROT_READ | PROT_WRITE, MAP_SHARED | MAP_ANONYMOUS, -1, 0);
    memset(S, 0, sizeof *S);
    char errp[128];
    mkdir("/verif/build/run", 0777);
    snprintf(errp, sizeof errp, "/verif/build/run/hwire-%d.err", getpid());
    uint64_t pos = from;
    int crashes = 0, aborted = 0;
    int64_t hsref = 0;
    int fl[MAXFL] = { 0 };
    int *flp = mmap(NULL, sizeof(int) * (MAXFL + 2), PROT_READ | PROT_WRITE, MAP_SHARED | MAP_ANONYMOUS, -1, 0);
    while (pos < to) {
        uint64_t end = pos + batch < to ? pos + batch : to;
        S->cur_idx = (uint64_t)-1;
        pid_t pid = fork();
        if (pid == 0) {
            int fd = open(errp, O_WRONLY | O_CREAT | O_TRUNC, 0666);
            if (fd >= 0) {
                dup2(fd, 2);
                close(fd);
            }
            child_main(pos, end);
            for (int i = 0; i < MAXFL; i++)
                flp[i] = g_fl_len[i];
            *(int64_t *)&flp[MAXFL] = g_hs_peak_ref;
            _exit(0);
        }
        int st = 0;
        waitpid(pid, &st, 0);
        if (WIFEXITED(st) && WEXITSTATUS(st) == 0) {
            pos = end;
            for (int i = 0; i < MAXFL; i++)
                fl[i] = flp[i];
            hsref = *(int64_t *)&flp[MAXFL];
            continue;
        }
        /* the child died: name the case */
        char err[6000] = "", esc[13000], sp[1400];
        int fd = open(errp, O_RDONLY);
        if (fd >= 0) {
            ssize_t n = read(fd, err, sizeof err - 1);
            err[n > 0 ? n : 0] = 0;
            close(fd);
        }
        jesc(esc, sizeof esc, err);
        jesc(sp, sizeof sp, S->cur_spec);
        const char *kind = WIFSIGNALED(st) ? (WTERMSIG(st) == SIGALRM ? "hang" : WTERMSIG(st) == SIGABRT ? "abort" :
                           WTERMSIG(st) == SIGSEGV ? "segv" : "signal") : "exit";
        if (S->cur_idx == IDX_WARMUP) {
            out_f("{\"t\":\"crash\",\"kind\":\"%s\",\"status\":%d,\"idx\":-1,\"one\":\"%s\",\"stderr\":\"%s\"}\n", kind,
                  WIFSIGNALED(st) ? WTERMSIG(st) : WEXITSTATUS(st), sp, esc);
            crashes++;
            aborted = 1;        /* this tree cannot even get through the warm-up inputs: nothing more to learn here */
            break;
        }
        if (S->cur_idx == (uint64_t)-1) {
            out_f("{\"t\":\"broken\",\"text\":\"child died during setup (%s %d): %s\"}\n", kind,
                  WIFSIGNALED(st) ? WTERMSIG(st) : WEXITSTATUS(st), esc);
            unlink(errp);
            return 2;
        }
        out_f("{\"t\":\"crash\",\"kind\":\"%s\",\"status\":%d,\"idx\":%llu,\"one\":\"%s\",\"stderr\":\"%s\"}\n", kind,
              WIFSIGNALED(st) ? WTERMSIG(st) : WEXITSTATUS(st), (unsigned long long)S->cur_idx, sp, esc);
        S->cases++;
        pos = S->cur_idx + 1;
        if (++crashes >= 12) {
            /* a tree that dies on a whole class of inputs: a dozen named cases per range say it all */
            aborted = 1;
            break;
        }
    }
    unlink(errp);
    for (int i = 0; i < MAXFL; i++)
        g_fl_len[i] = fl[i];
    g_hs_peak_ref = hsref;
    print_stats(from, to);
    out_f("{\"t\":\"done\",\"crashes\":%d,\"aborted\":%d,\"next\":%llu}\n", crashes, aborted, (unsigned long long)pos);
    return 0;
}

int main(int argc, char **argv)
{
    static struct shm local;
    S = &local;
    if (!g_cm_ok)
        fprintf(stderr, "h_wire: CRYPTO_set_mem_functions refused; OpenSSL's allocations are not in the ledger\n");
    if (argc >= 3 && !strcmp(argv[1], "--one")) {
        struct kase k;
        g_verbose = 1;
        cfg_parse(argv[2]);
        if (kase_parse(argv[2], &k) < 0) {
            fprintf(stderr, "h_wire: cannot parse case %s\n", argv[2]);
            return 2;
        }
        g_verbose = 0;
        setup_all();
        warmup();
        g_verbose = 1;
        kase_print(g_spec, sizeof g_spec, &k);
        out_f("case %s\n", g_spec);
        if (C.fam != FAM_HSMUT) {
            stream_build_case(&k.st);
            struct ref r;
            ref_decode(g_sb, g_sn, &r);
            out_f("  stream: %zu bytes; reference decoder: %d message(s), then %s", g_sn, r.nmsg,
                  r.status == ST_CLEAN ? "clean end" : r.status == ST_PARTIAL ? "a truncated frame" : "ILLEGAL length");
            if (r.status == ST_ILLEGAL)
                out_f(" %u (header complete at byte %zu)", r.ill_len, r.ill_at);
            out_f("\n");
        } else
            out_f("  reference flights: %d %d %d %d bytes (application record = flight %d)\n", g_fl_len[0], g_fl_len[1],
                  g_fl_len[2], g_fl_len[3], g_app_flight);
        run_case(&k);
        char evs[600];
        ev_print(evs, sizeof evs);
        out_f("  results of xcm_receive: %s\n  heap: growth xcm=%lld all=%lld handshake peak=%lld (reference %lld)\n", evs,
              (long long)S->max_growth_xcm, (long long)S->max_growth_all, (long long)S->max_peak_hs,
              (long long)g_hs_peak_ref);
        if (S->internal_err) {
            out_f("INTERNAL ERROR: %s\n", S->internal_text);
            return 2;
        }
        out_f("%s\n", g_case_bad ? "VERDICT: violation" : "VERDICT: ok");
        return g_case_bad ? 1 : 0;
    }
    const char *cfg = NULL;
    int count = 0;
    uint64_t a = 0, b = 0, batch = 5000;
    for (int i = 1; i < argc; i++) {
        if (!strcmp(argv[i], "--cfg") && i + 1 < argc)
            cfg = argv[++i];
        else if (!strcmp(argv[i], "--count"))
            count = 1;
        else if (!strcmp(argv[i], "--range") && i + 2 < argc) {
            a = strtoull(argv[i + 1], NULL, 10);
            b = strtoull(argv[i + 2], NULL, 10);
            i += 2;
        } else if (!strcmp(argv[i], "--batch") && i + 1 < argc)
            batch = strtoull(argv[++i], NULL, 10);
        else if (!strcmp(argv[i], "--sample-every") && i + 1 < argc)
            g_sample_every = strtoull(argv[++i], NULL, 10);
    }
    if (!cfg) {
        fprintf(stderr, "usage: h_wire --count|--range A B --cfg k=v,.. | --one k=v,..\n");
        return 2;
    }
    cfg_parse(cfg);
    if (count) {
        S = mmap(NULL, sizeof *S, PROT_READ | PROT_WRITE, MAP_SHARED | MAP_ANONYMOUS, -1, 0);
        memset(S, 0, sizeof *S);
        S->cur_idx = (uint64_t)-1;
        pid_t pid = fork();
        if (pid == 0) {
            if (C.fam == FAM_HSMUT) {
                setup_all();
                warmup();
                if (S->internal_err) {
                    out_f("{\"t\":\"broken\",\"text\":\"%s\"}\n", S->internal_text);
                    _exit(2);
                }
            }
            en_from = 0;
            en_to = 0;
            en_cb = NULL;
            enumerate();
            out_f("{\"t\":\"count\",\"n\":%llu,\"flights\":[%d,%d,%d,%d,%d,%d]}\n", (unsigned long long)en_idx,
                  g_fl_len[0], g_fl_len[1], g_fl_len[2], g_fl_len[3], g_fl_len[4], g_fl_len[5]);
            _exit(0);
        }
        int st = 0;
        waitpid(pid, &st, 0);
        if (WIFEXITED(st))
            return WEXITSTATUS(st);
        char sp[1400];
        jesc(sp, sizeof sp, S->cur_spec);
        if (S->cur_idx == IDX_WARMUP) {
            out_f("{\"t\":\"crash\",\"kind\":\"%s\",\"status\":%d,\"idx\":-1,\"one\":\"%s\",\"stderr\":\"\"}\n",
                  WTERMSIG(st) == SIGABRT ? "abort" : WTERMSIG(st) == SIGSEGV ? "segv" : "signal", WTERMSIG(st), sp);
            return 0;
        }
        out_f("{\"t\":\"broken\",\"text\":\"counting died with signal %d\"}\n", WTERMSIG(st));
        return 2;
    }
    return run_range(a, b, batch);
}
