/* h_term - C06: terminal conditions are reported faithfully and stick.
 *
 * One XCM endpoint (or two) is driven by a small script; its peer is another XCM endpoint
 * (mode=pair, mode=conn) or a harness-owned raw socket on the other side of the emulated TCP
 * connection (mode=raw; for the TLS transports the raw peer is an OpenSSL endpoint over memory
 * BIOs whose output stream is cut at a chosen byte offset).  The environment injects errno faults
 * at data-path calls (env_cfg.fault_data) and at connect completion (fault_connect); the harness
 * observes every choice the shim takes (link-time wrap of mc_choose), so the oracle knows the
 * ground truth: which errno was injected during which API call of which endpoint, whether a close
 * was orderly at the wire (no unread data at the closer, none of its writes refused) or a reset.
 *
 * Oracle `term` (DESIGN.md section 2/C06, 4.1), evaluated after every xcm_send/receive/finish:
 *   discover  the call during which a fault E was injected reports E (EPIPE: send/finish EPIPE,
 *             receive 0 or EPIPE); a refused/timed-out establishment reports its errno
 *   faithful  the first terminal report matches the ground truth: orderly close -> 0/EPIPE class,
 *             reset -> ECONNRESET, nothing happened -> no terminal report at all
 *   drain     orderly close first met by xcm_receive: every complete message (byte) that had
 *             arrived is returned before the first 0
 *   sticky    after the first terminal report no send/receive succeeds; on the TCP-based
 *             transports every later send/receive/finish reports the same errno; after 0, receive
 *             keeps returning 0 and send fails with EPIPE
 *   whole     a message the peer did not complete is never delivered; what is delivered is the
 *             next complete message of the peer, unaltered
 *
 * params: tp=tcp|tls|btcp|btls|utlstls|ux|uxf  mode=pair|raw|conn  sa=<script> sb=<script>
 *         bat=<order of r,s,f>  menu=<hex>  fd=0|1 (fault_data)  fc=0|1 (fault_connect)
 *         policy=auto|silent  role=c|s (raw: A is client/server)  wire=3|big|bs|bad0|badmax|badbig (a good frame, then
 *         a header announcing 0 / 65536 / 2^20 bytes, then a good frame; once the invalid header is complete the raw peer
 *         stays connected: the framing-level protocol error is the only terminal condition)
 *         cut=<lo>:<hi> | cuts=a;b;c   rawread=<n msgs/bytes the raw peer reads first>
 *         rawwait=0|1 (raw peer dies only once unread bytes of A are queued)
 *         rawdrain=0|1 (raw peer reads whatever has arrived just before it dies)   certs=<dir>
 * script letters: s send small, S send big, r receive one, f finish, R receive until terminal,
 *         w wait until the peer has ended, c close.  A script that ends without c goes on with R.
 */
#define _GNU_SOURCE
#include "hcommon.h"

#include <arpa/inet.h>
#include <fcntl.h>
#include <netinet/in.h>
#include <sys/eventfd.h>
#include <sys/ioctl.h>
#include <sys/socket.h>

#include <openssl/err.h>
#include <openssl/ssl.h>

#define MAXM 24
#define CAP 65535

enum { END_ALIVE = 0, END_ORDERLY, END_RESET, END_DIRTY };
enum { K_OK = 0, K_AGAIN, K_EOF, K_ERR };
enum { C_SEND = 0, C_RECV, C_FIN, C_SETB };
/* "xcm_" + name; set_blocking(true) has to finish outstanding work first, so it is judged like finish */
static const char *CALLN[] = { "send", "receive", "finish", "set_blocking" };

/* what one side has put on the wire towards the other */
struct wire {
    int n_off;                 /* messages accepted by the sender's API (or whole frames written raw) */
    int n_maybe;               /* upper bound of messages the receiver may legitimately obtain */
    int n_complete;            /* lower bound: completely in the receiver's kernel queue for sure */
    int id[MAXM], len[MAXM];
    int64_t b_off, b_maybe, b_complete;   /* byte-stream transports */
    int dir;
};

struct ep {
    const char *name;
    int idx;
    struct xcm_socket *s;
    int fd0, kfd;
    char script[32];
    int pc;
    int evfd;                  /* readable once the peer of this endpoint has ended */
    struct wire *out, *in;
    int n_rcv;
    int64_t bytes_rcv;
    int n_sent;
    /* ground truth */
    int fault_errno, fault_reported, fault_deferrable;
    char fault_api[24];
    int conn_fault;
    int peer_end;              /* END_* of the other side as this side's kernel will see it */
    int peer_notify;           /* TLS: the peer wrote a close_notify (xcm_close of an XCM peer) */
    int peer_raw;
    int proto_err;             /* the raw peer has put a complete invalid frame header on the wire (and lives on) */
    int dirty_close;
    int closed, done, in_close, acceptor;
    /* observations */
    int term_seen, term_closed_class, term_errno, term_call, term_kind, eof_seen;
    int last_kind, last_errno, last_call;
    int waiting_R;
};

static struct ep E[2];
static struct wire W[2];
static struct xcm_socket *g_server;
static char g_tp[16], g_mode[8], g_bat[8], g_certs[256], g_addr[256], g_wire[8], g_policy[12];
static int g_bs, g_T, g_tls, g_ux, g_role_server, g_port;
static int g_cut = -1, g_rawread, g_rawwait, g_rawdrain, g_raw_fd = -1, g_raw_listen = -1;
static int g_raw_written, g_raw_total, g_cut_beyond;
static unsigned char *g_buf[2];
static int64_t g_t0;

static struct ep *peer_of(struct ep *x) { return x == &E[0] ? &E[1] : &E[0]; }

/* ---- payloads ------------------------------------------------------------------------------- */
static const int SMALL[] = { 1, 2, 3, 300, 5, 7, 1, 2 };
static unsigned char sbyte(int dir, int64_t pos) { return pay_byte(dir * 7 + 3, (size_t)pos); }

static void viol(const char *sig, const char *fmt, ...) __attribute__((format(printf, 2, 3)));
static void viol(const char *sig, const char *fmt, ...)
{
    char text[1200];
    va_list ap;
    va_start(ap, fmt);
    vsnprintf(text, sizeof text, fmt, ap);
    va_end(ap);
    mc_violation(sig, "%s", text);
}

static const char *resname(int kind, int err)
{
    switch (kind) {
    case K_OK: return "success";
    case K_AGAIN: return "EAGAIN";
    case K_EOF: return "0";
    default: return errname(err);
    }
}

/* result classes used in signatures: one root cause seen through several errnos is one signature */
static const char *rescls(int kind, int err)
{
    switch (kind) {
    case K_OK: return "success";
    case K_AGAIN: return "EAGAIN";
    case K_EOF: return "0";
    default: return err == EPIPE ? "EPIPE" : err == EPROTO ? "EPROTO" : "break-errno";
    }
}

static const char *endname(int e)
{
    static const char *n[] = { "alive", "orderly-close", "reset", "close-with-refused-writes" };
    return n[e];
}

/* ---- ground truth from the environment's own choices ------------------------------------------ */
static void signal_end_to(struct ep *x)
{
    uint64_t one = 1;
    if (x->evfd >= 0 && write(x->evfd, &one, sizeof one) < 0) {
    }
}

static void set_peer_end(struct ep *x, int kind)
{
    if (x->name && x->peer_end == END_ALIVE)
        x->peer_end = kind;
}

/* the emulated-TCP descriptor that carries x's connection.  The client's is the one connect() was last
   called on (tconnect opens a socket per address family and closes the unused one, so "the last socket
   created" is not it); the acceptor's is found by comparing the set of emulated descriptors before and
   after xcm_accept_a (task_acceptor), before that through the client's pairing. */
static int client_fd(void)
{
    int n = env_connect_log_count(), fd = -1, port;
    char ip[64];
    if (n > 0)
        env_connect_log_entry(n - 1, &fd, ip, sizeof ip, &port);
    return fd;
}

static int kernel_fd(struct ep *x)
{
    if (!g_T)
        return -1;
    if (x->kfd >= 0)
        return x->kfd;
    if (!x->acceptor) {
        int fd = client_fd();
        return fd >= 0 && env_is_emulated_tcp(fd) ? fd : -1;
    }
    int pf = peer_of(x)->name ? (peer_of(x)->closed ? -1 : client_fd()) : g_raw_fd;
    return pf >= 0 && env_is_emulated_tcp(pf) ? env_conn_fd_peer(pf) : -1;
}

#define SNAPN 512
static void snap_tcp(unsigned char *m)
{
    for (int fd = 0; fd < SNAPN; fd++)
        m[fd] = env_is_emulated_tcp(fd);
}

/* has the other side's descriptor been paired with ours yet (accept done)?  Until then the shim cannot
   tell it about a reset: it will see the plain end of the stream */
static int linked(struct ep *x)
{
    int fd = kernel_fd(x);
    return fd >= 0 && env_is_emulated_tcp(fd) && env_conn_fd_peer(fd) >= 0;
}

int __real_mc_choose(int n, enum mc_kind kind, const char *label);
int __wrap_mc_choose(int n, enum mc_kind kind, const char *label)
{
    int alt = __real_mc_choose(n, kind, label);
    if (alt <= 0)
        return alt;
    char op[24] = "", task[16] = "", api[24] = "";
    if (sscanf(label, "%23[^:]:%15[^:]:%23s", op, task, api) < 3)
        return alt;
    struct ep *x = NULL;
    for (int i = 0; i < 2; i++)
        if (E[i].name && !strcmp(E[i].name, task))
            x = &E[i];
    if (!x)
        return alt;
    if (kind == MC_FAULT && (!strcmp(op, "fault-send") || !strcmp(op, "fault-recv"))) {
        static const int errs[] = { ECONNRESET, ETIMEDOUT, EHOSTUNREACH, ENETUNREACH, EPIPE };
        if (alt >= 1 && alt <= 5) {
            mc_count(3, 1);
            if (!x->fault_errno) {
                x->fault_errno = errs[alt - 1];
                x->fault_reported = x->term_seen || x->in_close;
                snprintf(x->fault_api, sizeof x->fault_api, "%s", api);
                /* OpenSSL (statem_srvr.c, TLS_ST_SW_SESSION_TICKET) deliberately treats ECONNRESET/EPIPE while
                   flushing the NewSessionTicket as success "so that we are still able to read data sent to us by
                   a client that closes soon after the end of the handshake": a write that fails that way while
                   xcm_receive completes the handshake is not yet a discovery; data that had arrived may still be
                   returned, the next call that is not such a receive has to report the errno (DESIGN 6: OpenSSL
                   is trusted) */
                x->fault_deferrable = g_tls && !strcmp(op, "fault-send") && !strcmp(api, "xcm_receive") &&
                                      (errs[alt - 1] == ECONNRESET || errs[alt - 1] == EPIPE);
            }
            /* the other end of a connection that died this way sees a reset */
            struct ep *p = peer_of(x);
            /* not yet accepted: depending on when the other side looks it sees the end of the stream or,
               once this side has closed, a reset - any terminal report is accepted then */
            set_peer_end(p, linked(x) ? END_RESET : END_DIRTY);
            signal_end_to(p);
            mc_observe("ENV fault %s injected at %s of %s", errname(errs[alt - 1]), op, label);
        }
    } else if (kind == MC_FAULT && !strcmp(op, "connect-outcome")) {
        static const int errs[] = { ECONNREFUSED, ETIMEDOUT, EHOSTUNREACH, ENETUNREACH, ECONNRESET };
        if (alt >= 1 && alt <= 5) {
            x->conn_fault = errs[alt - 1];
            /* the shim has already queued the AF_UNIX connection at the listener and then withdraws it:
               whatever the acceptor makes of that ghost is not judged */
            set_peer_end(peer_of(x), END_DIRTY);
            mc_count(3, 1);
            mc_observe("ENV connect outcome %s", errname(x->conn_fault));
        }
    } else if (kind == MC_IO && !strcmp(api, "xcm_close"))
        x->dirty_close = 1;
    return alt;
}

/* ---- delivered data -------------------------------------------------------------------------- */
static void on_received(struct ep *x, const unsigned char *buf, int rc)
{
    char sig[200];
    struct wire *w = x->in;
    if (g_bs) {
        int64_t off = x->bytes_rcv;
        if (off + rc > w->b_maybe) {
            snprintf(sig, sizeof sig, "C06/bytes-never-sent-delivered/tp=%s", g_tp);
            viol(sig, "%s obtained %lld bytes, the peer has put at most %lld on the wire", x->name,
                 (long long)(off + rc), (long long)w->b_maybe);
        } else
            for (int j = 0; j < rc; j++)
                if (buf[j] != sbyte(w->dir, off + j)) {
                    snprintf(sig, sizeof sig, "C06/wrong-bytes-delivered/tp=%s", g_tp);
                    viol(sig, "%s: stream byte %lld is 0x%02x, the peer wrote 0x%02x", x->name,
                         (long long)(off + j), buf[j], sbyte(w->dir, off + j));
                    break;
                }
        x->bytes_rcv += rc;
        return;
    }
    int k = x->n_rcv++;
    if (k >= w->n_maybe) {
        snprintf(sig, sizeof sig, "C06/incomplete-message-delivered/tp=%s", g_tp);
        viol(sig, "%s obtained a %d-byte message as receive #%d, but only %d message(s) were ever completed by the peer "
             "(raw peer: %d of %d wire bytes written)", x->name, rc, k + 1, w->n_maybe, g_raw_written, g_raw_total);
        return;
    }
    if (rc != w->len[k] || pay_diff(buf, w->id[k], rc) >= 0) {
        snprintf(sig, sizeof sig, "C06/wrong-message-delivered/tp=%s", g_tp);
        viol(sig, "%s receive #%d returned %d bytes; message %d of the peer has %d bytes (first differing offset %ld)",
             x->name, k + 1, rc, k, w->len[k], rc == w->len[k] ? pay_diff(buf, w->id[k], rc) : -1L);
    }
}

static int drained(struct ep *x)
{
    return g_bs ? x->bytes_rcv >= x->in->b_complete : x->n_rcv >= x->in->n_complete;
}

/* ---- the oracle ------------------------------------------------------------------------------- */
static void after_call(struct ep *x, int call, int kind, int err)
{
    char sig[220];
    const char *res = resname(kind, err);
    int terminal = kind == K_EOF || kind == K_ERR;
    int own_fault_now = 0;
    mc_count(0, 1);
    x->last_kind = kind;
    x->last_errno = err;
    x->last_call = call;

    /* discover: an injected fault must be reported by this call */
    if (x->fault_errno && !x->fault_reported && x->fault_deferrable && call == C_RECV && kind == K_OK && !x->term_seen) {
        mc_info("C06/openssl-ignores-reset-at-ticket-flush", "tp=%s: a send failing with ECONNRESET/EPIPE while xcm_receive "
                "completes the TLS handshake is swallowed by OpenSSL; xcm_receive went on to return data that had arrived", g_tp);
        return;
    }
    if (x->fault_errno && !x->fault_reported) {
        x->fault_reported = 1;
        own_fault_now = 1;
        int fe = x->fault_errno, ok;
        if (fe == EPIPE)
            ok = (kind == K_ERR && err == EPIPE) || (call == C_RECV && kind == K_EOF);
        else
            ok = kind == K_ERR && err == fe;
        /* the failure OpenSSL swallowed leaves a truncated TLS stream behind: "protocol error" is an honest report */
        if (!ok && x->fault_deferrable && kind == K_ERR && err == EPROTO)
            ok = 1;
        if (!ok) {
            const char *got = kind == K_ERR ? (err == EPIPE ? "EPIPE" : "other-errno") : res;
            snprintf(sig, sizeof sig, "C06/fault-not-reported/injected=%s/call=%s/got=%s/tp=%s",
                     fe == EPIPE ? "EPIPE" : "break-errno", CALLN[call], got, g_tp);
            viol(sig, "%s: the environment failed a data-path call with %s during %s; xcm_%s returned %s",
                 x->name, errname(fe), x->fault_api, CALLN[call], res);
        }
    }

    /* sticky */
    if (x->term_seen) {
        int ok;
        mc_count(2, 1);
        if (!x->term_closed_class) {
            if (g_T) {
                ok = kind == K_ERR && err == x->term_errno;
                /* DESIGN C06 Care (i): an orderly peer close first met by an explicit send/finish */
                if (!ok && (x->peer_end == END_ORDERLY || (x->peer_end == END_RESET && x->peer_notify)) &&
                    x->term_call != C_RECV && call == C_RECV &&
                    (kind == K_OK || kind == K_EOF || (kind == K_ERR && err == EPIPE)))
                    ok = 1;
            } else
                ok = call >= C_FIN ? 1 : (kind == K_ERR || (call == C_RECV && kind == K_EOF));
        } else {
            if (call == C_SEND)
                ok = kind == K_ERR && err == EPIPE;
            else if (call == C_RECV) {
                if (x->eof_seen)
                    ok = kind == K_EOF;
                else        /* the close was reported by send/finish: drain (possibly waiting), then 0 - or nothing */
                    ok = kind == K_EOF || kind == K_OK || kind == K_AGAIN || (kind == K_ERR && err == EPIPE);
            } else
                ok = kind == K_OK || (kind == K_ERR && err == EPIPE);
        }
        /* a raw TLS peer that ends its stream without close_notify: "closed by the peer" (met by a write) and
           "truncated TLS stream" (met by the read that tries to drain) are both true; a closed-class report may be
           superseded once by EPROTO, which must stick from then on */
        if (!ok && x->peer_raw && g_tls && x->term_closed_class && !x->eof_seen && kind == K_ERR && err == EPROTO) {
            x->term_closed_class = 0;
            x->term_kind = K_ERR;
            x->term_errno = EPROTO;
            x->term_call = call;
            ok = 1;
        }
        if (!ok) {
            snprintf(sig, sizeof sig, "C06/not-sticky/first=%s:%s/then=%s:%s/tp=%s", CALLN[x->term_call],
                     rescls(x->term_kind, x->term_errno), CALLN[call],
                     kind == K_ERR && !x->term_closed_class && err != EPIPE && err != EPROTO ? "other-errno" : rescls(kind, err), g_tp);
            viol(sig, "%s: the first terminal report was xcm_%s -> %s; a later xcm_%s returned %s (peer: %s%s)",
                 x->name, CALLN[x->term_call], resname(x->term_kind, x->term_errno),
                 CALLN[call], res, endname(x->peer_end), x->eof_seen ? "; a receive had already returned 0" : "");
        }
        if (kind == K_EOF)
            x->eof_seen = 1;
        return;
    }

    if (!terminal)
        return;

    /* first terminal report: faithful? */
    mc_count(1, 1);
    x->term_seen = 1;
    x->term_call = call;
    x->term_kind = kind;
    x->term_errno = kind == K_ERR ? err : 0;
    x->term_closed_class = kind == K_EOF || (kind == K_ERR && err == EPIPE);
    if (kind == K_EOF)
        x->eof_seen = 1;
    mc_observe("%s first terminal report: xcm_%s -> %s (peer %s, fault %s, connect %s)", x->name, CALLN[call], res,
               endname(x->peer_end), errname(x->fault_errno), errname(x->conn_fault));
    if (own_fault_now)
        return;
    if (x->fault_errno)
        return;              /* an earlier injected fault explains any later report; checked above */
    if (x->conn_fault) {
        /* XCM's own tcp.connect_timeout (3 s of virtual time) may expire before the environment answers */
        int timed_out = kind == K_ERR && err == ETIMEDOUT && env_now_ns() - g_t0 >= 3000000000LL;
        if (!(kind == K_ERR && err == x->conn_fault) && !timed_out) {
            snprintf(sig, sizeof sig, "C06/connect-errno-misreported/call=%s/got=%s/tp=%s", CALLN[call],
                     kind == K_ERR ? "other-errno" : res, g_tp);
            viol(sig, "%s: the connection establishment ended with %s; xcm_%s reported %s", x->name,
                 errname(x->conn_fault), CALLN[call], res);
        }
        return;
    }
    /* XCM's own tcp.connect_timeout: virtual time only advances while an establishment is being withheld */
    if (kind == K_ERR && err == ETIMEDOUT && env_now_ns() - g_t0 >= 3000000000LL)
        return;
    if (x->proto_err && x->peer_end == END_ALIVE) {
        /* only the read path parses headers: the discovering call is xcm_receive, and it says EPROTO */
        if (!(kind == K_ERR && err == EPROTO)) {
            snprintf(sig, sizeof sig, "C06/protocol-error-misreported/%s:%s/tp=%s", CALLN[call], rescls(kind, err), g_tp);
            viol(sig, "%s: the peer sent an invalid frame header after %d complete message(s) and stays connected; xcm_%s reported %s",
                 x->name, x->in->n_complete, CALLN[call], res);
        } else if (!drained(x)) {
            snprintf(sig, sizeof sig, "C06/protocol-error-before-queued-message/tp=%s", g_tp);
            viol(sig, "%s: %d complete message(s) precede the invalid header on the wire; EPROTO was reported after only %d",
                 x->name, x->in->n_complete, x->n_rcv);
        }
        return;
    }
    switch (x->peer_end) {
    case END_ALIVE:
        /* the other endpoint has already met a terminal condition: what the library did to its descriptor
           since (tconnect closes it on a failed establishment) is not this endpoint's misreport */
        if (peer_of(x)->name && peer_of(x)->term_seen)
            break;
        snprintf(sig, sizeof sig, "C06/terminal-without-cause/%s:%s/tp=%s", CALLN[call], rescls(kind, err), g_tp);
        viol(sig, "%s: xcm_%s returned %s although the peer has neither closed nor died and the environment injected no fault",
             x->name, CALLN[call], res);
        break;
    case END_ORDERLY: {
        int ok = x->term_closed_class;
        if (x->peer_raw && g_tls && kind == K_ERR && err == EPROTO)
            ok = 1;          /* TCP FIN without close_notify: a truncation, reported as a protocol error */
        if (!ok) {
            snprintf(sig, sizeof sig, "C06/close-misreported/%s:%s/tp=%s", CALLN[call], rescls(kind, err), g_tp);
            viol(sig, "%s: the peer closed the connection in an orderly way; xcm_%s reported %s", x->name, CALLN[call], res);
        }
        /* a raw TLS peer that dies without close_notify has not "closed" at the TLS level: no drain is owed */
        if (call == C_RECV && !(x->peer_raw && g_tls) && !drained(x)) {
            /* was a frame of this endpoint still waiting to be written (internal flush) or was its writer idle? */
            int pending = g_bs ? 0 : x->out->n_off > x->out->n_complete;
            snprintf(sig, sizeof sig, "C06/eof-before-queued-message/writer=%s/tp=%s", pending ? "pending-frame" : "idle", g_tp);
            if (g_bs)
                viol(sig, "%s: the peer wrote %lld bytes and closed; xcm_receive reported the end (%s) after only %lld bytes, "
                     "before any send/finish had reported the close", x->name, (long long)x->in->b_complete, res,
                     (long long)x->bytes_rcv);
            else
                viol(sig, "%s: %d complete message(s) of the peer had arrived before its orderly close; xcm_receive reported the "
                     "end (%s) after delivering only %d, and no send/finish had reported the close before", x->name,
                     x->in->n_complete, res, x->n_rcv);
        }
        break;
    }
    case END_RESET: {
        int ok = kind == K_ERR && err == ECONNRESET;
        if (!ok && g_tls && x->peer_notify && x->term_closed_class)
            ok = 1;          /* the close_notify arrived in full before the reset */
        if (!ok && g_tls && x->peer_raw && kind == K_ERR && err == EPROTO)
            ok = 1;
        if (!ok && !g_T && (x->term_closed_class || kind == K_ERR))
            ok = 1;          /* AF_UNIX: ECONNRESET is reported once, by whichever call comes first */
        if (!ok) {
            snprintf(sig, sizeof sig, "C06/reset-misreported/%s:%s/tp=%s", CALLN[call], rescls(kind, err), g_tp);
            viol(sig, "%s: the connection was reset by the peer; xcm_%s reported %s", x->name, CALLN[call], res);
        }
        break;
    }
    default:
        break;
    }
}

/* ---- API calls -------------------------------------------------------------------------------- */
static int wait_cond(struct ep *x, int cond, const char *why)
{
    if (API("xcm_await", 1, xcm_await(x->s, cond)) < 0)
        return -1;
    mc_wait_readable(x->fd0, why);
    return 0;
}

/* one xcm_send of the next message; returns K_* */
static int call_send(struct ep *x, int big, int *err_out)
{
    unsigned char *buf = g_buf[x->idx];
    struct wire *w = x->out;
    int rc, err;
    mc_sched_point("send");
    if (g_bs) {
        int len = big ? 40000 : SMALL[x->n_sent % 8];
        for (int j = 0; j < len; j++)
            buf[j] = sbyte(w->dir, w->b_off + j);
        w->b_maybe = w->b_off + len;
        rc = API("xcm_send", 1, xcm_send(x->s, buf, len));
        err = rc < 0 ? errno : 0;
        if (rc > 0) {
            w->b_off += rc;
            w->b_complete = w->b_off;
        }
        w->b_maybe = w->b_off;
        mc_observe("%s send %d bytes -> %d %s", x->name, len, rc, rc < 0 ? errname(err) : "");
    } else {
        int k = w->n_off;
        int len = big ? CAP : SMALL[x->n_sent % 8];
        int id = x->idx * 100 + x->n_sent;
        if (k >= MAXM)
            mc_fail("internal/too-many-messages", "script too long");
        pay_fill(buf, id, len);
        w->id[k] = id;
        w->len[k] = len;
        w->n_maybe = k + 1;
        rc = API("xcm_send", 1, xcm_send(x->s, buf, len));
        err = rc < 0 ? errno : 0;
        if (rc == 0) {
            w->n_off = k + 1;
            if (g_ux)
                w->n_complete = w->n_off;
        }
        w->n_maybe = w->n_off;
        mc_observe("%s send m%d len=%d -> %d %s", x->name, id, len, rc, rc < 0 ? errname(err) : "");
    }
    *err_out = err;
    int kind = rc >= 0 ? K_OK : (err == EAGAIN ? K_AGAIN : K_ERR);
    if (kind == K_OK)
        x->n_sent++;
    after_call(x, C_SEND, kind, err);
    return kind;
}

static int call_recv(struct ep *x, int *err_out)
{
    unsigned char *buf = g_buf[x->idx];
    mc_sched_point("recv");
    memset(buf, 0, 16);
    int rc = API("xcm_receive", 1, xcm_receive(x->s, buf, g_bs ? 64 : CAP));
    int err = rc < 0 ? errno : 0;
    mc_observe("%s recv -> %d %s", x->name, rc, rc < 0 ? errname(err) : "");
    *err_out = err;
    int kind = rc > 0 ? K_OK : (rc == 0 ? K_EOF : (err == EAGAIN ? K_AGAIN : K_ERR));
    if (kind == K_OK)
        on_received(x, buf, rc);
    after_call(x, C_RECV, kind, err);
    return kind;
}

static int call_finish(struct ep *x, int *err_out)
{
    mc_sched_point("finish");
    int rc = API("xcm_finish", 1, xcm_finish(x->s));
    int err = rc < 0 ? errno : 0;
    mc_observe("%s finish -> %d %s", x->name, rc, rc < 0 ? errname(err) : "");
    *err_out = err;
    int kind = rc == 0 ? K_OK : (err == EAGAIN ? K_AGAIN : K_ERR);
    if (kind == K_OK) {
        /* everything accepted so far is in the kernel now */
        x->out->n_complete = x->out->n_off;
        x->out->b_complete = x->out->b_off;
    }
    after_call(x, C_FIN, kind, err);
    return kind;
}

static void call_set_blocking(struct ep *x)
{
    mc_sched_point("set_blocking");
    int rc = API("xcm_set_blocking", 0, xcm_set_blocking(x->s, true));
    int err = rc < 0 ? errno : 0;
    mc_observe("%s set_blocking(true) -> %d %s", x->name, rc, rc < 0 ? errname(err) : "");
    after_call(x, C_SETB, rc == 0 ? K_OK : (err == EAGAIN ? K_AGAIN : K_ERR), err);
    if (rc == 0)
        API("xcm_set_blocking", 0, xcm_set_blocking(x->s, false));
}

static void ep_close(struct ep *x)
{
    struct ep *p = peer_of(x);
    int unread = 0;
    if (!x->s || x->closed)
        return;
    mc_sched_point("close");
    int kfd = kernel_fd(x);
    if (kfd >= 0 && env_is_emulated_tcp(kfd))
        ioctl(kfd, FIONREAD, &unread);
    else if (g_ux && !g_bs)
        unread = x->in->n_off - x->n_rcv;
    x->in_close = 1;
    x->dirty_close = 0;
    int was_linked = linked(x);
    API("xcm_close", 1, xcm_close(x->s));
    x->in_close = 0;
    x->closed = 1;
    x->s = NULL;
    int kind = (unread > 0 || x->fault_errno) ? END_RESET : (x->dirty_close ? END_DIRTY : END_ORDERLY);
    if (g_T && !was_linked)
        kind = END_DIRTY;        /* not yet accepted by the other side: it will find what was written and then, depending
                                    on the call, the end of the stream (recv) or a reset (send) - not judged */
    if (p->name) {
        if (g_tls && !x->term_seen)
            p->peer_notify = 1;
        set_peer_end(p, kind);
        signal_end_to(p);
    }
    mc_observe("%s close (unread=%d linked=%d -> peer sees %s)", x->name, unread, was_linked, endname(kind));
}

/* every call twice, in the order given by bat= */
static void battery(struct ep *x)
{
    int err;
    for (int round = 0; round < 2; round++)
        for (const char *b = g_bat; *b; b++) {
            if (*b == 'r')
                call_recv(x, &err);
            else if (*b == 's')
                call_send(x, 0, &err);
            else if (*b == 'f')
                call_finish(x, &err);
            mc_set_progress(1);
        }
    /* finish once more, back to back with the last call, and the call that has to finish outstanding work */
    call_finish(x, &err);
    call_set_blocking(x);
    mc_set_progress(1);
}

static void run_script(struct ep *x)
{
    int err, kind;
    for (x->pc = 0;; x->pc++) {
        char op = x->script[x->pc];
        if (op == 0)
            op = 'R';
        switch (op) {
        case 's':
        case 'S':
            for (;;) {
                kind = call_send(x, op == 'S', &err);
                if (kind == K_AGAIN) {
                    mc_set_progress(0);
                    if (wait_cond(x, XCM_SO_SENDABLE, "send-eagain") < 0)
                        goto out;
                    continue;
                }
                mc_set_progress(1);
                break;
            }
            if (kind != K_OK)
                goto term;
            break;
        case 'r':
        case 'R':
            for (;;) {
                kind = call_recv(x, &err);
                if (kind == K_AGAIN) {
                    mc_set_progress(0);
                    x->waiting_R = 1;
                    if (wait_cond(x, XCM_SO_RECEIVABLE, "recv-eagain") < 0)
                        goto out;
                    x->waiting_R = 0;
                    continue;
                }
                mc_set_progress(1);
                if (kind == K_OK && op == 'R')
                    continue;
                break;
            }
            if (kind != K_OK)
                goto term;
            break;
        case 'f':
            for (;;) {
                kind = call_finish(x, &err);
                if (kind == K_AGAIN) {
                    mc_set_progress(0);
                    if (wait_cond(x, 0, "finish-eagain") < 0)
                        goto out;
                    continue;
                }
                mc_set_progress(1);
                break;
            }
            if (kind != K_OK)
                goto term;
            break;
        case 'w': {
            uint64_t v;
            mc_wait_readable(x->evfd, "wait-peer-end");
            if (read(x->evfd, &v, sizeof v) < 0) {
            }
            break;
        }
        case 'c':
            goto out;
        default:
            mc_fail("internal/bad-script", "unknown script letter %c", op);
        }
    }
term:
    battery(x);
out:
    ep_close(x);
    x->done = 1;
}

/* ---- tasks -------------------------------------------------------------------------------------- */
static struct xcm_attr_map *mk_attrs(void)
{
    struct xcm_attr_map *m = xcm_attr_map_create();
    xcm_attr_map_add_bool(m, "xcm.blocking", false);
    if (g_bs)
        xcm_attr_map_add_str(m, "xcm.service", "bytestream");
    return m;
}

static void after_established(struct ep *x)
{
    x->fd0 = xcm_fd(x->s);
}

static void task_client(void *arg)
{
    struct ep *x = arg;
    struct xcm_attr_map *at = mk_attrs();
    mc_sched_point("connect");
    x->s = API("xcm_connect_a", 1, xcm_connect_a(g_addr, at));
    int e = errno;
    xcm_attr_map_destroy(at);
    if (!x->s) {
        char sig[200];
        mc_observe("%s connect failed %s", x->name, errname(e));
        int expect = x->fault_errno ? x->fault_errno : x->conn_fault;
        x->fault_reported = 1;
        if (!expect) {
            snprintf(sig, sizeof sig, "C06/terminal-without-cause/connect:%s/tp=%s", rescls(K_ERR, e), g_tp);
            viol(sig, "xcm_connect_a(%s) failed with %s although the server listens and no fault was injected", g_addr, errname(e));
        } else if (e != expect && !(e == ETIMEDOUT && env_now_ns() - g_t0 >= 3000000000LL)) {
            snprintf(sig, sizeof sig, "C06/%s/call=connect/got=%s/tp=%s", x->fault_errno ? "fault-not-reported/injected=break-errno" :
                     "connect-errno-misreported", "other-errno", g_tp);
            viol(sig, "the environment ended the establishment with %s; xcm_connect_a failed with %s", errname(expect), errname(e));
        } else
            mc_count(1, 1);
        x->done = 1;
        struct ep *p = peer_of(x);
        if (p->name) {
            set_peer_end(p, END_RESET);
            signal_end_to(p);
        }
        return;
    }
    after_established(x);
    mc_observe("%s connected", x->name);
    run_script(x);
}

static void task_acceptor(void *arg)
{
    struct ep *x = arg;
    x->acceptor = 1;
    struct xcm_attr_map *at = mk_attrs();
    for (;;) {
        if (API("xcm_await", 1, xcm_await(g_server, XCM_SO_ACCEPTABLE)) < 0)
            break;
        mc_wait_readable(xcm_fd(g_server), "accept-wait");
        mc_sched_point("accept");
        unsigned char before[SNAPN], after[SNAPN];
        snap_tcp(before);
        x->s = API("xcm_accept_a", 1, xcm_accept_a(g_server, at));
        if (x->s) {
            snap_tcp(after);
            for (int fd = 0; fd < SNAPN; fd++)
                if (after[fd] && !before[fd])
                    x->kfd = fd;
            break;
        }
        int e = errno;
        mc_observe("%s accept -> %s", x->name, errname(e));
        if (e != EAGAIN) {
            char sig[200];
            struct ep *p = peer_of(x);
            int expect = x->fault_errno;
            x->fault_reported = 1;
            if (expect && e != expect) {
                snprintf(sig, sizeof sig, "C06/fault-not-reported/injected=break-errno/call=accept/got=other-errno/tp=%s", g_tp);
                viol(sig, "the environment failed a data-path call with %s during xcm_accept_a, which failed with %s",
                     errname(expect), errname(e));
            } else if (!expect && x->peer_end == END_ALIVE && !(p->name && (p->done || p->fault_errno))) {
                snprintf(sig, sizeof sig, "C06/terminal-without-cause/accept:%s/tp=%s", rescls(K_ERR, e), g_tp);
                viol(sig, "xcm_accept_a failed with %s although the client is alive and no fault was injected", errname(e));
            }
            xcm_attr_map_destroy(at);
            x->done = 1;
            return;
        }
        mc_set_progress(0);
    }
    xcm_attr_map_destroy(at);
    if (!x->s) {
        x->done = 1;
        return;
    }
    after_established(x);
    mc_observe("%s accepted", x->name);
    run_script(x);
}

/* ---- raw peer -------------------------------------------------------------------------------------- */
#define RAWMAX (1 << 17)
static unsigned char *g_out;           /* planned output stream of the raw peer */
static int g_outlen, g_out_sent;
static int g_frame_end[MAXM], g_nframes;
static int g_bad_hdr_end;              /* plain-wire offset behind the invalid header (wire=bad*), 0 if none */
static int g_bad_hdr_out;              /* the same as an offset of the raw peer's output stream (TLS: record end) */

static int raw_listener(int port)
{
    int fd = socket(AF_INET, SOCK_STREAM | SOCK_NONBLOCK, 0);
    env_set_raw(fd);
    struct sockaddr_in a = { .sin_family = AF_INET, .sin_port = htons(port) };
    inet_pton(AF_INET, "127.0.0.1", &a.sin_addr);
    if (bind(fd, (struct sockaddr *)&a, sizeof a) < 0 || listen(fd, 8) < 0)
        mc_fail("internal/raw-listen", "raw listener: %s", errname(errno));
    return fd;
}

static int raw_connect(int port)
{
    int fd = socket(AF_INET, SOCK_STREAM | SOCK_NONBLOCK, 0);
    env_set_raw(fd);
    struct sockaddr_in a = { .sin_family = AF_INET, .sin_port = htons(port) };
    inet_pton(AF_INET, "127.0.0.1", &a.sin_addr);
    if (connect(fd, (struct sockaddr *)&a, sizeof a) < 0)
        mc_fail("internal/raw-connect", "raw connect: %s", errname(errno));
    return fd;
}

/* the application-level byte stream the raw peer wants to send */
static int build_wire(unsigned char *dst, int *frame_end, int *nframes, int *ids, int *lens)
{
    int n = 0;
    *nframes = 0;
    if (g_bs) {
        int len = !strcmp(g_wire, "big") ? 40000 : 6;
        for (int j = 0; j < len; j++)
            dst[j] = sbyte(1, j);
        return len;
    }
    if (!strncmp(g_wire, "bad", 3)) {
        /* one good frame, then a header no XCM peer can send (length 0, or above 65535), then a good frame again */
        uint32_t be = htonl(2);
        memcpy(dst, &be, 4);
        pay_fill(dst + 4, 200, 2);
        n = 6;
        frame_end[0] = n;
        ids[0] = 200;
        lens[0] = 2;
        *nframes = 1;
        be = htonl(!strcmp(g_wire, "bad0") ? 0u : !strcmp(g_wire, "badmax") ? 65536u : (1u << 20));
        memcpy(dst + n, &be, 4);
        n += 4;
        g_bad_hdr_end = n;
        be = htonl(1);
        memcpy(dst + n, &be, 4);
        dst[n + 4] = 0x5a;
        return n + 5;
    }
    int cnt = !strcmp(g_wire, "big") ? 1 : 3;
    for (int i = 0; i < cnt; i++) {
        int len = cnt == 1 ? CAP : i + 1;
        int id = 200 + i;
        uint32_t be = htonl((uint32_t)len);
        memcpy(dst + n, &be, 4);
        pay_fill(dst + n + 4, id, len);
        n += 4 + len;
        frame_end[i] = n;
        ids[i] = id;
        lens[i] = len;
        (*nframes)++;
    }
    return n;
}

/* account for what the raw peer has really written: whole frames only are deliverable */
static void raw_account(struct ep *a)
{
    struct wire *w = a->in;
    if (g_bs) {
        /* for TLS byte streams only bytes inside complete records count; g_frame_end holds record ends */
        int64_t b = 0;
        if (g_tls) {
            for (int i = 0; i < g_nframes; i++)
                if (g_frame_end[i] <= g_raw_written)
                    b = W[1].len[i];
        } else
            b = g_raw_written;
        w->b_off = w->b_maybe = w->b_complete = b;
        return;
    }
    int n = 0;
    for (int i = 0; i < g_nframes; i++)
        if (g_frame_end[i] <= g_raw_written)
            n = i + 1;
    w->n_off = w->n_maybe = w->n_complete = n;
}

static void raw_die(struct ep *a)
{
    int unread = 0;
    raw_account(a);
    mc_sched_point("raw-die");
    if (g_rawdrain) {
        /* read whatever has arrived (whole or partial frames) so that the death is an orderly FIN */
        static unsigned char sink[4096];
        while (recv(g_raw_fd, sink, sizeof sink, 0) > 0)
            ;
    }
    ioctl(g_raw_fd, FIONREAD, &unread);
    if (env_conn_fd_peer(g_raw_fd) < 0)
        set_peer_end(a, END_DIRTY);      /* the XCM server has not accepted yet: see ep_close */
    set_peer_end(a, unread > 0 ? END_RESET : END_ORDERLY);
    mc_observe("RAW peer dies after %d of %d bytes (%s), %d complete message(s)/%lld byte(s) deliverable", g_raw_written,
               g_outlen, unread > 0 ? "reset: unread data" : "orderly FIN", a->in->n_complete, (long long)a->in->b_complete);
    close(g_raw_fd);
    g_raw_fd = -1;
    signal_end_to(a);
}

/* the raw peer has written a complete invalid frame header: it stays connected (the protocol error is the only
   terminal condition there is), swallows whatever the XCM side sends and leaves when the XCM side has closed */
static void raw_stay(struct ep *a)
{
    static unsigned char sink[4096];
    raw_account(a);
    a->proto_err = 1;
    mc_observe("RAW peer has sent an invalid frame header behind %d complete message(s) (%d bytes written) and stays", a->in->n_complete,
               g_raw_written);
    signal_end_to(a);
    for (;;) {
        mc_wait_readable(g_raw_fd, "raw-stay");
        ssize_t n = recv(g_raw_fd, sink, sizeof sink, 0);
        if (n == 0 || (n < 0 && errno != EAGAIN))
            break;
    }
    close(g_raw_fd);
    g_raw_fd = -1;
}

/* write planned bytes up to the cut; returns 1 when the cut (or the end of the plan) is reached */
static int raw_pump(int final)
{
    while (g_out_sent < g_outlen && g_out_sent < g_cut) {
        int n = g_outlen - g_out_sent;
        if (n > g_cut - g_out_sent)
            n = g_cut - g_out_sent;
        ssize_t rc = send(g_raw_fd, g_out + g_out_sent, n, MSG_NOSIGNAL);
        if (rc <= 0)
            return 1;        /* the XCM side is gone */
        g_out_sent += rc;
        g_raw_written = g_out_sent;
    }
    if (g_out_sent >= g_cut)
        return 1;
    if (final && g_out_sent >= g_outlen) {
        g_cut_beyond = 1;
        return 1;
    }
    return 0;
}

/* consume n messages (byte-stream: n bytes) of the XCM side from the plain wire */
static int g_rx_have, g_rx_msgs;
static unsigned char g_rx_hdr[4];
static int g_rx_hdr_n, g_rx_left;
static void rx_feed(const unsigned char *p, int n)
{
    if (g_bs) {
        g_rx_msgs += n;
        return;
    }
    while (n > 0) {
        if (g_rx_left > 0) {
            int k = n < g_rx_left ? n : g_rx_left;
            g_rx_left -= k;
            p += k;
            n -= k;
            if (g_rx_left == 0)
                g_rx_msgs++;
            continue;
        }
        g_rx_hdr[g_rx_hdr_n++] = *p++;
        n--;
        if (g_rx_hdr_n == 4) {
            uint32_t be;
            memcpy(&be, g_rx_hdr, 4);
            g_rx_left = (int)ntohl(be);
            g_rx_hdr_n = 0;
            if (g_rx_left == 0)
                g_rx_msgs++;
        }
    }
}

static void raw_accept_or_connect(void)
{
    if (g_role_server) {
        g_raw_fd = raw_connect(g_port);
    } else {
        mc_wait_readable(g_raw_listen, "raw-accept-wait");
        g_raw_fd = accept4(g_raw_listen, NULL, NULL, SOCK_NONBLOCK);
        if (g_raw_fd < 0)
            mc_fail("internal/raw-accept", "raw accept: %s", errname(errno));
    }
}

static void task_raw_plain(void *arg)
{
    struct ep *a = arg;
    static unsigned char tmp[4096];
    int ids[MAXM], lens[MAXM];
    raw_accept_or_connect();
    g_out = malloc(RAWMAX);
    g_outlen = g_raw_total = build_wire(g_out, g_frame_end, &g_nframes, ids, lens);
    for (int i = 0; i < g_nframes; i++) {
        W[1].id[i] = ids[i];
        W[1].len[i] = lens[i];
    }
    /* what the XCM side is to have sent before the peer speaks and dies */
    while (g_rx_msgs < g_rawread) {
        mc_wait_readable(g_raw_fd, "raw-read-wait");
        ssize_t n = recv(g_raw_fd, tmp, sizeof tmp, 0);
        if (n == 0)
            goto gone;
        if (n > 0)
            rx_feed(tmp, (int)n);
    }
    if (g_rawwait) {
        int unread = 0;
        for (;;) {
            ioctl(g_raw_fd, FIONREAD, &unread);
            if (unread > 0)
                break;
            mc_wait_readable(g_raw_fd, "raw-unread-wait");
            ioctl(g_raw_fd, FIONREAD, &unread);
            if (unread == 0)
                goto gone;       /* readable without data: the XCM side has gone */
        }
    }
    mc_sched_point("raw-write");
    g_bad_hdr_out = g_bad_hdr_end;
    raw_pump(1);
    if (g_bad_hdr_out && g_raw_written >= g_bad_hdr_out)
        raw_stay(a);
    else
        raw_die(a);
    return;
gone:
    raw_account(a);
    close(g_raw_fd);
    g_raw_fd = -1;
}

/* TLS raw peer: an OpenSSL endpoint over memory BIOs; every byte it produces goes through raw_pump */
static void collect(BIO *wb)
{
    int n;
    while (g_outlen < RAWMAX - 4096 && (n = BIO_read(wb, g_out + g_outlen, 4096)) > 0)
        g_outlen += n;
}

static void task_raw_tls(void *arg)
{
    struct ep *a = arg;
    static unsigned char tmp[256], app[70000];
    char path[300];
    int ids[MAXM], lens[MAXM], fe[MAXM], nf;
    raw_accept_or_connect();
    g_out = malloc(RAWMAX);
    SSL_CTX *ctx = SSL_CTX_new(g_role_server ? TLS_client_method() : TLS_server_method());
    snprintf(path, sizeof path, "%s/cert.pem", g_certs);
    if (SSL_CTX_use_certificate_chain_file(ctx, path) != 1)
        mc_fail("internal/raw-tls-cert", "cannot load %s", path);
    snprintf(path, sizeof path, "%s/key.pem", g_certs);
    if (SSL_CTX_use_PrivateKey_file(ctx, path, SSL_FILETYPE_PEM) != 1)
        mc_fail("internal/raw-tls-key", "cannot load %s", path);
    SSL *ssl = SSL_new(ctx);
    BIO *rb = BIO_new(BIO_s_mem()), *wb = BIO_new(BIO_s_mem());
    SSL_set_bio(ssl, rb, wb);
    if (g_role_server)
        SSL_set_connect_state(ssl);
    else
        SSL_set_accept_state(ssl);
    int applen = build_wire(app, fe, &nf, ids, lens);
    int hs_done = 0, app_done = 0, eof = 0;
    for (;;) {
        /* input: small reads, and none at all once the handshake is complete and rawwait asks for
           unread data to stay in the kernel queue */
        while (!eof && !(hs_done && g_rawwait) && !(hs_done && g_rx_msgs >= g_rawread)) {
            ssize_t n = recv(g_raw_fd, tmp, sizeof tmp, 0);
            if (n > 0)
                BIO_write(rb, tmp, (int)n);
            else {
                if (n == 0)
                    eof = 1;
                break;
            }
            if (!hs_done)
                break;       /* let the handshake consume it before pulling more */
        }
        if (!hs_done) {
            int rc = SSL_do_handshake(ssl);
            if (rc == 1)
                hs_done = 1;
            else {
                int se = SSL_get_error(ssl, rc);
                if (se != SSL_ERROR_WANT_READ && se != SSL_ERROR_WANT_WRITE) {
                    mc_observe("RAW tls handshake failed (ssl error %d)", se);
                    collect(wb);
                    raw_pump(0);
                    break;
                }
            }
        }
        if (hs_done && !app_done) {
            int n;
            while (g_rx_msgs < g_rawread && (n = SSL_read(ssl, tmp, sizeof tmp)) > 0)
                rx_feed(tmp, n);
            int ready = g_rx_msgs >= g_rawread;
            if (ready && g_rawwait) {
                int unread = 0;
                ioctl(g_raw_fd, FIONREAD, &unread);
                ready = unread > 0;
            }
            if (ready) {
                collect(wb);
                int start = 0;
                if (g_bs) {
                    /* one record per byte-stream chunk of 3 bytes */
                    g_nframes = 0;
                    for (int off = 0; off < applen; off += (applen > 64 ? 16384 : 3)) {
                        int l = applen - off < (applen > 64 ? 16384 : 3) ? applen - off : (applen > 64 ? 16384 : 3);
                        SSL_write(ssl, app + off, l);
                        collect(wb);
                        g_frame_end[g_nframes] = g_outlen;
                        W[1].len[g_nframes] = off + l;     /* bytes deliverable once this record is complete */
                        g_nframes++;
                    }
                } else
                    for (int i = 0; i < nf; i++) {
                        SSL_write(ssl, app + start, fe[i] - start);
                        start = fe[i];
                        collect(wb);
                        g_frame_end[i] = g_outlen;
                        W[1].id[i] = ids[i];
                        W[1].len[i] = lens[i];
                        g_nframes = i + 1;
                    }
                if (!g_bs && start < applen) {
                    /* wire=bad*: the invalid header and what follows it, in one more record */
                    SSL_write(ssl, app + start, applen - start);
                    collect(wb);
                    g_bad_hdr_out = g_outlen;
                }
                app_done = 1;
                g_raw_total = g_outlen;
            }
        }
        collect(wb);
        if (!app_done)
            g_raw_total = g_outlen;
        if (raw_pump(app_done))
            break;
        if (eof)
            break;
        mc_wait_readable(g_raw_fd, "raw-tls-wait");
    }
    if (g_raw_fd >= 0) {
        if (eof) {
            raw_account(a);
            close(g_raw_fd);
            g_raw_fd = -1;
        } else if (g_bad_hdr_out && g_out_sent >= g_bad_hdr_out)
            raw_stay(a);
        else
            raw_die(a);
    }
    SSL_free(ssl);
    SSL_CTX_free(ctx);
}

/* ---- state digest, end of run ----------------------------------------------------------------------- */
static uint64_t state_digest(void)
{
    uint64_t h = 23;
    for (int i = 0; i < 2; i++) {
        struct ep *x = &E[i];
        if (!x->name)
            continue;
        h = mc_hash_mix(h, x->pc * 64 + x->n_rcv * 8 + x->n_sent);
        h = mc_hash_mix(h, x->bytes_rcv);
        h = mc_hash_mix(h, (uint64_t)x->last_kind * 4096 + x->last_errno * 4 + x->last_call);
        h = mc_hash_mix(h, x->term_seen * 1000 + x->term_errno + x->eof_seen * 500 + x->term_call * 5000);
        h = mc_hash_mix(h, x->peer_end * 8 + x->closed * 4 + (x->s != NULL) * 2 + x->done);
        h = mc_hash_mix(h, x->fault_errno * 2 + x->fault_reported);
        if (x->s && !x->closed)
            h = mc_hash_mix(h, fd_readable_mask(x->fd0));
    }
    h = mc_hash_mix(h, g_raw_written);
    h = mc_hash_mix(h, env_now_ns());
    h = mc_hash_mix(h, env_data_calls());
    h = mc_hash_mix(h, env_pending_connects() * 16 + env_stalled_count());
    return h;
}

static void final_checks(enum mc_end end)
{
    char sig[200];
    for (int i = 0; i < 2; i++) {
        struct ep *x = &E[i];
        if (!x->name || x->done || !x->s || x->term_seen)
            continue;
        /* still waiting in its event loop: is there something the library owes it? */
        const char *cause = NULL;
        if (x->fault_errno && !x->fault_reported)
            cause = "injected-fault";
        else if (x->conn_fault)
            cause = "failed-establishment";
        else if ((x->peer_end == END_ORDERLY || x->peer_end == END_RESET) && !x->fault_errno)
            cause = endname(x->peer_end);
        if (cause && x->waiting_R && end == MC_END_QUIESCENT) {
            snprintf(sig, sizeof sig, "C06/never-reported/cause=%s/tp=%s", cause, g_tp);
            viol(sig, "%s awaits XCM_SO_RECEIVABLE after xcm_receive said EAGAIN; the system is quiescent (no descriptor "
                 "readable, no timer, no environment event) yet the terminal condition (%s) was never reported", x->name, cause);
        } else if (cause && end == MC_END_HORIZON && x->last_kind == K_AGAIN) {
            snprintf(sig, sizeof sig, "C06/never-reported/spinning/cause=%s/tp=%s", cause, g_tp);
            viol(sig, "%s: after %d scheduler steps xcm_%s still answers EAGAIN; the terminal condition (%s) was never reported",
                 x->name, mc_steps(), CALLN[x->last_call], cause);
        }
    }
}

/* ---- scenario ------------------------------------------------------------------------------------------ */
static int choose_free(int n, const char *label)
{
    int v = 0;
    /* digits of base <= 16, all alternatives free: the explorer enumerates them completely */
    int d2 = (n + 255) / 256, d1 = n > 256 ? 16 : (n + 15) / 16, d0 = n > 16 ? 16 : n;
    if (d2 > 1) {
        char lb[40];
        snprintf(lb, sizeof lb, "%s/256", label);
        if (d2 > 16)
            mc_fail("internal/cut-range", "cut range too large");
        v += 256 * mc_choose_mask(d2, MC_EVENT, lb, 0);
    }
    if (d1 > 1) {
        char lb[40];
        snprintf(lb, sizeof lb, "%s/16", label);
        v += 16 * mc_choose_mask(d1, MC_EVENT, lb, 0);
    }
    if (d0 > 1) {
        char lb[40];
        snprintf(lb, sizeof lb, "%s/1", label);
        v += mc_choose_mask(d0, MC_EVENT, lb, 0);
    }
    return v;
}

static void scenario(const char *params)
{
    char b[128], sa[32], sb[32];
    param_get(params, "tp", g_tp, sizeof g_tp, "tcp");
    param_get(params, "mode", g_mode, sizeof g_mode, "pair");
    param_get(params, "bat", g_bat, sizeof g_bat, "rsf");
    param_get(params, "certs", g_certs, sizeof g_certs, "");
    param_get(params, "wire", g_wire, sizeof g_wire, "3");
    param_get(params, "policy", g_policy, sizeof g_policy, "auto");
    param_get(params, "sa", sa, sizeof sa, "ssfrr");
    param_get(params, "sb", sb, sizeof sb, "rrssf");
    g_role_server = !strcmp(param_get(params, "role", b, sizeof b, "c"), "s");
    g_rawread = (int)param_int(params, "rawread", 0);
    g_rawwait = (int)param_int(params, "rawwait", 0);
    g_rawdrain = (int)param_int(params, "rawdrain", 0);
    g_bs = !strcmp(g_tp, "btcp") || !strcmp(g_tp, "btls");
    g_ux = !strcmp(g_tp, "ux") || !strcmp(g_tp, "uxf");
    g_T = !g_ux;
    g_tls = !strcmp(g_tp, "tls") || !strcmp(g_tp, "btls") || !strcmp(g_tp, "utlstls");
    g_buf[0] = malloc(1 << 17);
    g_buf[1] = malloc(1 << 17);
    setenv("XCM_CTL", "/nonexistent-ctl-dir", 1);
    if (g_certs[0])
        setenv("XCM_TLS_CERT", g_certs, 1);

    struct env_cfg cfg = { .io_menu = (unsigned)param_int(params, "menu", 0), .fault_data = (int)param_int(params, "fd", 0),
                           .fault_connect = (int)param_int(params, "fc", 0), .sleep_monitor = 1, .only_task = -1 };
    env_init(&cfg);
    env_register_events();
    det_rand_install(1);
    mc_set_state_fn(state_digest);

    int id = getpid();
    /* utls derives an abstract AF_UNIX name from ip:port, and abstract names are global to the network namespace:
       stay out of the port ranges the other harnesses use (20000-40999) so that a utls client of this harness can
       never meet a utls server of a concurrently running check */
    g_port = 45000 + id % 20000;
    if (!strcmp(g_tp, "ux"))
        snprintf(g_addr, sizeof g_addr, "ux:mcx-term-%d", id);
    else if (!strcmp(g_tp, "uxf")) {
        snprintf(g_addr, sizeof g_addr, "uxf:/tmp/mcx-term-%d", id);
        unlink(g_addr + 4);
    } else if (!strcmp(g_tp, "utlstls"))
        snprintf(g_addr, sizeof g_addr, "tls:127.0.0.1:%d", g_port);
    else
        snprintf(g_addr, sizeof g_addr, "%s:127.0.0.1:%d", g_tp, g_port);

    W[0].dir = 0;
    W[1].dir = 1;
    for (int i = 0; i < 2; i++) {
        E[i].idx = i;
        E[i].kfd = -1;
        E[i].evfd = -1;
    }
    struct ep *A = &E[0], *B = &E[1];
    A->name = "A";
    A->out = &W[0];
    A->in = &W[1];
    snprintf(A->script, sizeof A->script, "%s", sa);
    A->evfd = eventfd(0, EFD_NONBLOCK);

    int raw = !strcmp(g_mode, "raw");
    if (raw) {
        if (g_ux)
            mc_fail("internal/raw-ux", "raw peers exist for the TCP-based transports only");
        A->peer_raw = 1;
        /* the cut: a free choice, so that the explorer visits every offset of the range */
        if (param_get(params, "cuts", b, sizeof b, "")[0]) {
            int vals[32], n = 0;
            for (char *p = b; *p && n < 32;) {
                vals[n++] = (int)strtol(p, &p, 10);
                if (*p == ';')
                    p++;
            }
            g_cut = vals[choose_free(n, "cut-index") % n];
        } else {
            int lo = 0, hi = 0;
            sscanf(param_get(params, "cut", b, sizeof b, "0:18"), "%d:%d", &lo, &hi);
            int v = choose_free(hi - lo + 1, "cut-offset");
            if (v > hi - lo) {
                mc_count(5, 1);
                mc_outcome("cut beyond range");
                return;
            }
            g_cut = lo + v;
        }
        mc_observe("cut=%d", g_cut);
        mc_count(4, 1);
    } else {
        B->name = "B";
        B->out = &W[1];
        B->in = &W[0];
        snprintf(B->script, sizeof B->script, "%s", sb);
        B->evfd = eventfd(0, EFD_NONBLOCK);
    }
    if (!strcmp(g_mode, "conn"))
        B->peer_end = END_DIRTY;      /* the acceptor only exists so that the establishment can succeed */
    if (!strcmp(g_policy, "silent")) {
        env_policy_set("127.0.0.1", ENV_SILENT);
        A->conn_fault = ETIMEDOUT;
    }

    if (!raw || g_role_server) {
        struct xcm_attr_map *at = mk_attrs();
        g_server = xcm_server_a(g_addr, at);
        xcm_attr_map_destroy(at);
        if (!g_server)
            mc_fail("internal/server-create", "xcm_server_a(%s): %s", g_addr, errname(errno));
    } else
        g_raw_listen = raw_listener(g_port);
    if (!strcmp(g_tp, "utlstls")) {
        memmove(g_addr + 1, g_addr, strlen(g_addr) + 1);
        g_addr[0] = 'u';
    }

    if (raw) {
        mc_task_create("A", g_role_server ? task_acceptor : task_client, A);
        mc_task_create("R", g_tls ? task_raw_tls : task_raw_plain, A);
    } else {
        mc_task_create("A", task_client, A);
        mc_task_create("B", task_acceptor, B);
    }
    g_t0 = env_now_ns();
    enum mc_end end = mc_run((int)param_int(params, "horizon", 4000));
    mc_observe("end=%d", end);
    final_checks(end);
    mc_outcome("end=%d cut=%d/%d%s A:pc=%d rcv=%d/%lld term=%s:%s eof=%d end=%s f=%s B:pc=%d rcv=%d/%lld term=%s:%s eof=%d end=%s f=%s",
               end, g_cut, g_raw_total, g_cut_beyond ? "(beyond)" : "", A->pc, A->n_rcv, (long long)A->bytes_rcv,
               A->term_seen ? CALLN[A->term_call] : "-", A->term_seen ? (A->term_closed_class ? "closed" : errname(A->term_errno)) : "-",
               A->eof_seen, endname(A->peer_end), errname(A->fault_errno), B->pc, B->n_rcv, (long long)B->bytes_rcv,
               B->term_seen ? CALLN[B->term_call] : "-", B->term_seen ? (B->term_closed_class ? "closed" : errname(B->term_errno)) : "-",
               B->eof_seen, endname(B->peer_end), errname(B->fault_errno));
    if (g_cut_beyond)
        mc_count(6, 1);
    if (!strcmp(g_tp, "uxf"))
        unlink(g_addr + 4);
}

int main(int argc, char **argv)
{
    return mc_main(argc, argv, scenario, NULL);
}
