/* helpers shared by the explorer-based harnesses */
#ifndef HCOMMON_H
#define HCOMMON_H

#include "envshim.h"
#include "mcx.h"

#include <errno.h>
#include <poll.h>
#include <stdbool.h>
#include <stdint.h>
#include <stdio.h>
#include <stdlib.h>
#include <string.h>
#include <unistd.h>

#include <xcm.h>
#include <xcm_attr.h>
#include <xcm_attr_map.h>

/* run an XCM API call with the bookkeeping the shim's monitors need */
#define API(name, nb, call) ({                      \
    mc_api_begin(name, nb);                         \
    __typeof__(call) _r = (call);                   \
    int _e = errno;                                 \
    mc_api_end();                                   \
    errno = _e;                                     \
    _r; })

/* ---- "k=v,k=v" parameters ------------------------------------------------------------- */
static inline const char *param_get(const char *params, const char *key, char *buf, size_t n,
                                    const char *dflt)
{
    size_t kl = strlen(key);
    const char *p = params;
    while (p && *p) {
        if (strncmp(p, key, kl) == 0 && p[kl] == '=') {
            const char *v = p + kl + 1;
            const char *e = strchr(v, ',');
            size_t l = e ? (size_t)(e - v) : strlen(v);
            if (l >= n)
                l = n - 1;
            memcpy(buf, v, l);
            buf[l] = 0;
            return buf;
        }
        p = strchr(p, ',');
        if (p)
            p++;
    }
    snprintf(buf, n, "%s", dflt);
    return buf;
}

static inline long param_int(const char *params, const char *key, long dflt)
{
    char b[64], d[32];
    snprintf(d, sizeof d, "%ld", dflt);
    return strtol(param_get(params, key, b, sizeof b, d), NULL, 0);
}

/* ---- patterned payloads: byte j of message m ------------------------------------------- */
static inline unsigned char pay_byte(int m, size_t j)
{
    /* injective in (m mod 251, j mod 251) */
    return (unsigned char)(((unsigned)(m % 251) * 37u + (unsigned)(j % 251) * 101u + (unsigned)(j / 251) * 7u + 11u) % 251u) + 1;
}

static inline void pay_fill(unsigned char *buf, int m, size_t len)
{
    for (size_t j = 0; j < len; j++)
        buf[j] = pay_byte(m, j);
}

/* first index at which buf differs from message m's payload, or -1 */
static inline long pay_diff(const unsigned char *buf, int m, size_t len)
{
    for (size_t j = 0; j < len; j++)
        if (buf[j] != pay_byte(m, j))
            return (long)j;
    return -1;
}

static inline const char *errname(int e)
{
    switch (e) {
    case 0: return "0";
    case EAGAIN: return "EAGAIN";
    case EPIPE: return "EPIPE";
    case ECONNRESET: return "ECONNRESET";
    case ETIMEDOUT: return "ETIMEDOUT";
    case EHOSTUNREACH: return "EHOSTUNREACH";
    case ENETUNREACH: return "ENETUNREACH";
    case ECONNREFUSED: return "ECONNREFUSED";
    case EPROTO: return "EPROTO";
    case EMSGSIZE: return "EMSGSIZE";
    case EINVAL: return "EINVAL";
    case EINTR: return "EINTR";
    case ENOENT: return "ENOENT";
    case EACCES: return "EACCES";
    case EOVERFLOW: return "EOVERFLOW";
    case EMFILE: return "EMFILE";
    case ENFILE: return "ENFILE";
    case ENOMEM: return "ENOMEM";
    case ENOBUFS: return "ENOBUFS";
    case EADDRINUSE: return "EADDRINUSE";
    case EADDRNOTAVAIL: return "EADDRNOTAVAIL";
    case EINPROGRESS: return "EINPROGRESS";
    case ECONNABORTED: return "ECONNABORTED";
    case ENOTCONN: return "ENOTCONN";
    case EBADF: return "EBADF";
    default: {
        static __thread char b[16];
        snprintf(b, sizeof b, "E%d", e);
        return b;
    }
    }
}

static inline int fd_readable_mask(int fd)
{
    struct pollfd p = { .fd = fd, .events = POLLIN | POLLOUT | POLLPRI };
    int rc = poll(&p, 1, 0);
    return rc > 0 ? p.revents : 0;
}

void env_register_events(void);
void det_rand_install(uint64_t seed);

#endif
