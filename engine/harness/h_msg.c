/* h_msg - two endpoints over one connection (messaging and byte-stream transports).
 *
 * Decides, per execution: C01/C02 (chan oracle), C03 (failed sends), C04 (quiescence with
 * obligations, blocking calls), C05 (sleep monitor in the shim), C16 (readiness probes at the
 * final quiescent state), C17 (counter ledger after every call).
 *
 * params: tp=tcp|tls|ux|uxf|utls|utlstls|btcp|btls  script=<name>  ma=nb|b  mb=nb|b
 *         style=spec|strict|loop  fin=each|end  menu=<hex>  sig=0|1  resend=0|1|2
 *         certs=<dir>  probe=0|1  prop=<Cxx> (which property's violations to report: all if absent)
 */
#define _GNU_SOURCE
#include "hcommon.h"

#include <fcntl.h>
#include <sys/ioctl.h>
#include <sys/socket.h>
#include <sys/stat.h>

#define MAXOPS 24
#define MAXMSG 65535

enum opk { OP_SEND, OP_RECV, OP_FINISH, OP_CLOSE, OP_RECV_EOF, OP_END };

struct op {
    enum opk k;
    int len;   /* send: message length; recv: capacity */
    int m;     /* send: message number in this direction */
    int hi;    /* send: the length offered is hi * 2^32 + len (C03: "far larger" sizes that wrap a 32-bit length) */
    int try_only;  /* send: a failure of this send does not end the script (the application goes on to receive) */
};

struct side {
    const char *name;
    int idx;                 /* 0 = A (client), 1 = B (server side connection) */
    struct xcm_socket *s;
    int blocking;
    int fd0;                 /* xcm_fd at creation */
    int established;         /* some operation has succeeded on the connection (a TLS handshake is over) */
    int tcp_fd;              /* the emulated-TCP descriptor that carries the connection (-1: not a TCP-class transport / unknown) */
    struct op ops[MAXOPS];
    int nops, pc;
    /* chan ledger, direction "this side sends" */
    int n_acc;               /* accepted messages */
    int acc[MAXOPS];
    int acc_len[MAXOPS];
    int inflight;            /* message number being offered right now, -1 */
    int inflight_len;
    unsigned char refused[8][16]; /* bytestream: buffers offered in refused calls, and where */
    int64_t refused_at[8];
    int refused_len[8], n_refused;
    int failed[MAXOPS];      /* message numbers whose send failed */
    int n_failed;
    int n_rcv;               /* messages received by this side */
    int64_t bytes_sent_acc, bytes_rcv;   /* bytestream: accepted / received byte counts */
    unsigned char *stream;               /* bytestream: the accepted bytes, in order */
    const unsigned char *inflight_buf;   /* bytestream: what the call in progress offers */
    int eof_seen, closed, term_errno, gave_up, had_eagain_send;
    int last_rc, last_errno;
    int last_send_len, carried_on, own_write_failed;
    int send_fail_errno;     /* errno of the first xcm_send that failed with something else than EAGAIN */
    /* counter ledger */
    int64_t exp_from_app_msgs, exp_from_app_bytes, exp_to_app_msgs, exp_to_app_bytes;
    int64_t prev_cnt[8];
    int cnt_valid;
};

static struct side A, B;
static struct xcm_socket *g_server;
static char g_tp[16], g_script[24], g_style[12], g_prop[8], g_retry[16];
static int g_bytestream, g_fin_each, g_resend, g_probe, g_sig;
static char g_addr[256], g_certs[256];
static int64_t g_t0;
static unsigned char *g_buf[2];

#define V(prop, sig, ...) do { if (!g_prop[0] || strcmp(g_prop, prop) == 0) mc_violation(sig, __VA_ARGS__); } while (0)

static const char *CNT_NAMES[8] = {
    "xcm.from_app_msgs", "xcm.from_app_bytes", "xcm.to_app_msgs", "xcm.to_app_bytes",
    "xcm.from_lower_msgs", "xcm.from_lower_bytes", "xcm.to_lower_msgs", "xcm.to_lower_bytes"
};

static struct side *peer_of(struct side *x) { return x == &A ? &B : &A; }

/* ---- C17: counters ---------------------------------------------------------------------- */
struct cnt_ctx {
    int64_t *c;
    int found;
};

static void cnt_cb(const char *name, enum xcm_attr_type type, void *value, size_t len, void *cb_data)
{
    struct cnt_ctx *ctx = cb_data;
    if (type != xcm_attr_type_int64 || len != sizeof(int64_t) || strncmp(name, "xcm.", 4) != 0)
        return;
    for (int i = 0; i < 8; i++)
        if (strcmp(name, CNT_NAMES[i]) == 0) {
            memcpy(&ctx->c[i], value, sizeof(int64_t));
            ctx->found++;
        }
}

static int read_counters(struct side *x, int64_t c[8])
{
    /* one attribute-tree build for all eight counters */
    struct cnt_ctx ctx = { .c = c };
    memset(c, 0, 8 * sizeof(int64_t));
    xcm_attr_get_all(x->s, cnt_cb, &ctx);
    return ctx.found == (g_bytestream ? 4 : 8) ? 0 : -1;
}

static int g_counters = 1;

static void check_counters(struct side *x, const char *after, int refused)
{
    if (!x->s || x->closed || !g_counters)
        return;
    int64_t c[8];
    if (read_counters(x, c) < 0)
        return;
    char sig[160];
    for (int i = 0; i < 8; i++)
        if (x->cnt_valid && c[i] < x->prev_cnt[i]) {
            snprintf(sig, sizeof sig, "C17/decreased/%s/tp=%s", CNT_NAMES[i], g_tp);
            V("C17", sig, "%s went from %lld to %lld after %s on %s", CNT_NAMES[i],
              (long long)x->prev_cnt[i], (long long)c[i], after, x->name);
        }
    if (refused && x->cnt_valid && (c[0] != x->prev_cnt[0] || c[1] != x->prev_cnt[1] ||
                                    c[2] != x->prev_cnt[2] || c[3] != x->prev_cnt[3])) {
        snprintf(sig, sizeof sig, "C17/refused-call-counted/%s/tp=%s", after, g_tp);
        V("C17", sig, "a refused %s changed app-side counters on %s: from_app %lld/%lld -> %lld/%lld, to_app %lld/%lld -> %lld/%lld",
          after, x->name, (long long)x->prev_cnt[0], (long long)x->prev_cnt[1], (long long)c[0],
          (long long)c[1], (long long)x->prev_cnt[2], (long long)x->prev_cnt[3], (long long)c[2], (long long)c[3]);
    }
    if ((!g_bytestream && c[0] != x->exp_from_app_msgs) || c[1] != x->exp_from_app_bytes) {
        snprintf(sig, sizeof sig, "C17/from_app-mismatch/after=%s/tp=%s", after, g_tp);
        V("C17", sig, "%s: from_app is %lld msgs/%lld bytes, the application had %lld/%lld accepted (after %s)",
          x->name, (long long)c[0], (long long)c[1], (long long)x->exp_from_app_msgs,
          (long long)x->exp_from_app_bytes, after);
    }
    if ((!g_bytestream && c[2] != x->exp_to_app_msgs) || c[3] != x->exp_to_app_bytes) {
        snprintf(sig, sizeof sig, "C17/to_app-mismatch/after=%s/tp=%s", after, g_tp);
        V("C17", sig, "%s: to_app is %lld msgs/%lld bytes, the application really obtained %lld/%lld (after %s)",
          x->name, (long long)c[2], (long long)c[3], (long long)x->exp_to_app_msgs,
          (long long)x->exp_to_app_bytes, after);
    }
    if (c[1] < c[7] || (!g_bytestream && c[0] < c[6])) {
        snprintf(sig, sizeof sig, "C17/to_lower-exceeds-from_app/tp=%s", g_tp);
        V("C17", sig, "%s: to_lower %lld/%lld > from_app %lld/%lld after %s", x->name, (long long)c[6],
          (long long)c[7], (long long)c[0], (long long)c[1], after);
    }
    if (c[5] < c[3] || (!g_bytestream && c[4] < c[2])) {
        snprintf(sig, sizeof sig, "C17/to_app-exceeds-from_lower/tp=%s", g_tp);
        V("C17", sig, "%s: to_app %lld/%lld > from_lower %lld/%lld after %s", x->name, (long long)c[2],
          (long long)c[3], (long long)c[4], (long long)c[5], after);
    }
    memcpy(x->prev_cnt, c, sizeof c);
    x->cnt_valid = 1;
    mc_count(3, 1);
}

/* ---- C16: xcm_fd stability ---------------------------------------------------------------- */
static void check_fd_stable(struct side *x)
{
    if (!x->s || x->closed || x->blocking)
        return;
    int fd = xcm_fd(x->s);
    if (fd != x->fd0) {
        char sig[96];
        snprintf(sig, sizeof sig, "C16/fd-changed/tp=%s", g_tp);
        V("C16", sig, "xcm_fd of %s changed from %d to %d", x->name, x->fd0, fd);
    }
    int m = fd_readable_mask(fd);
    if (m & ~POLLIN) {
        char sig[96];
        snprintf(sig, sizeof sig, "C16/fd-not-only-readable/tp=%s", g_tp);
        V("C16", sig, "xcm_fd of %s reports events 0x%x", x->name, m);
    }
}

/* ---- chan oracle --------------------------------------------------------------------------- */
static void on_received(struct side *rx, const unsigned char *buf, int rc, int cap)
{
    struct side *tx = peer_of(rx);
    char sig[200];
    if (g_bytestream) {
        /* stream position rx->bytes_rcv .. +rc must equal the accepted stream of tx */
        int64_t off = rx->bytes_rcv;
        if (rc > cap) {
            snprintf(sig, sizeof sig, "C02/more-than-capacity/tp=%s", g_tp);
            V("C02", sig, "xcm_receive returned %d with capacity %d", rc, cap);
            rc = cap;
        }
        int64_t limit = tx->bytes_sent_acc + (tx->inflight >= 0 ? tx->inflight_len : 0);
        if (off + rc > limit) {
            /* (the errno of the sender's last failed call is part of the signature unless it is EAGAIN: bytes of a call
               interrupted by a signal or failed otherwise are a different matter than OpenSSL's retained refusal) */
            char fc[40] = "";
            if (tx->send_fail_errno)
                snprintf(fc, sizeof fc, "/failed-call=%s", errname(tx->send_fail_errno));
            snprintf(sig, sizeof sig, "C02/bytes-never-accepted%s/retry=%s/tp=%s", fc, g_retry[0] ? g_retry : "same", g_tp);
            V("C02", sig, "%s received %lld bytes but only %lld were accepted (+%d offered in a call in progress)",
              rx->name, (long long)(off + rc), (long long)tx->bytes_sent_acc,
              tx->inflight >= 0 ? tx->inflight_len : 0);
        }
        for (int j = 0; j < rc; j++) {
            int64_t pos = off + j;
            unsigned char want;
            if (pos < tx->bytes_sent_acc)
                want = tx->stream[pos];
            else if (tx->inflight >= 0 && pos - tx->bytes_sent_acc < tx->inflight_len)
                want = tx->inflight_buf[pos - tx->bytes_sent_acc];
            else
                break;      /* reported above as bytes-never-accepted */
            if (buf[j] != want) {
                /* do the bytes belong to a call that was refused? */
                int refused = 0;
                for (int r = 0; r < tx->n_refused; r++)
                    if (pos - tx->refused_at[r] >= 0 && pos - tx->refused_at[r] < tx->refused_len[r] &&
                        tx->refused[r][pos - tx->refused_at[r]] == buf[j])
                        refused = 1;
                snprintf(sig, sizeof sig, "C02/%s/retry=%s/tp=%s", refused ? "refused-bytes-in-stream" : "wrong-byte",
                         g_retry[0] ? g_retry : "same", g_tp);
                V("C02", sig, "%s: stream byte %lld is 0x%02x, the accepted stream has 0x%02x%s", rx->name,
                  (long long)pos, buf[j], want, refused ? " (the byte was offered at this position in a call that returned -1/EAGAIN)" : "");
                break;
            }
        }
        rx->bytes_rcv += rc;
        rx->exp_to_app_bytes += rc;
        return;
    }
    int k = rx->n_rcv++;
    int exp_m, exp_len;
    if (k < tx->n_acc) {
        exp_m = tx->acc[k];
        exp_len = tx->acc_len[k];
    } else if (k == tx->n_acc && tx->inflight >= 0) {
        exp_m = tx->inflight;
        exp_len = tx->inflight_len;
    } else {
        /* nothing was accepted that could be this message: classify it */
        const char *what = "never-sent";
        for (int i = 0; i < tx->n_acc; i++)
            if (rc <= tx->acc_len[i] && pay_diff(buf, tx->acc[i], rc) < 0)
                what = "duplicate";
        for (int i = 0; i < tx->n_failed; i++)
            if (pay_diff(buf, tx->failed[i], rc < 1 ? 1 : rc) < 0)
                what = "failed-send-delivered";
        snprintf(sig, sizeof sig, "%s/%s/tp=%s", strcmp(what, "failed-send-delivered") == 0 ? "C03" : "C01", what, g_tp);
        V(strcmp(what, "failed-send-delivered") == 0 ? "C03" : "C01", sig,
          "%s obtained a message (%d bytes, first byte 0x%02x) as receive #%d but the peer had only %d accepted sends (%s)",
          rx->name, rc, rc > 0 ? buf[0] : 0, k + 1, tx->n_acc, what);
        if (strcmp(what, "failed-send-delivered") == 0) {
            snprintf(sig, sizeof sig, "C01/message-beyond-accepted-sends/tp=%s", g_tp);
            V("C01", sig, "%s obtained %d message(s), the peer's xcm_send succeeded only %d time(s)", rx->name, k + 1, tx->n_acc);
        }
        rx->exp_to_app_msgs++;
        rx->exp_to_app_bytes += rc;
        return;
    }
    int want = exp_len < cap ? exp_len : cap;
    rx->exp_to_app_msgs++;
    rx->exp_to_app_bytes += rc > 0 ? rc : 0;
    if (rc != want) {
        const char *what = rc < want ? "partial" : "too-long";
        /* merged with the next one? */
        snprintf(sig, sizeof sig, "C01/%s-message/tp=%s", what, g_tp);
        V("C01", sig, "%s receive #%d returned %d bytes, message %d has %d (capacity %d)", rx->name,
          k + 1, rc, exp_m, exp_len, cap);
        return;
    }
    long d = pay_diff(buf, exp_m, rc);
    if (d >= 0) {
        const char *what = "altered";
        for (int i = 0; i < tx->n_acc; i++)
            if (i != k && pay_diff(buf, tx->acc[i], rc) < 0)
                what = i < k ? "duplicate" : "reordered";
        for (int i = 0; i < tx->n_failed; i++)
            if (pay_diff(buf, tx->failed[i], rc) < 0)
                what = "failed-send-delivered";
        int c3 = strcmp(what, "failed-send-delivered") == 0;
        snprintf(sig, sizeof sig, "%s/%s/tp=%s", c3 ? "C03" : "C01", what, g_tp);
        V(c3 ? "C03" : "C01", sig, "%s receive #%d: %d bytes differ from message %d at offset %ld (%s)",
          rx->name, k + 1, rc, exp_m, d, what);
    }
}

static void on_send_result(struct side *tx, int m, int len, int rc, int err)
{
    struct side *rx = peer_of(tx);
    char sig[160];
    tx->inflight = -1;
    if (g_bytestream) {
        if (rc > 0) {
            if (rc > len) {
                snprintf(sig, sizeof sig, "C02/send-returned-more-than-len/tp=%s", g_tp);
                V("C02", sig, "xcm_send(len=%d) returned %d", len, rc);
                rc = len;
            }
            memcpy(tx->stream + tx->bytes_sent_acc, tx->inflight_buf, rc);
            tx->bytes_sent_acc += rc;
            tx->exp_from_app_bytes += rc;
        } else if (rc == 0 && len > 0) {
            snprintf(sig, sizeof sig, "C02/send-returned-0/tp=%s", g_tp);
            V("C02", sig, "xcm_send(len=%d) returned 0", len);
        }
        if (rx->bytes_rcv > tx->bytes_sent_acc) {
            snprintf(sig, sizeof sig, "C02/failed-bytes-delivered/retry=%s/tp=%s", g_retry[0] ? g_retry : "same", g_tp);
            V("C02", sig, "peer has %lld bytes, only %lld accepted after a send returning %d/%s",
              (long long)rx->bytes_rcv, (long long)tx->bytes_sent_acc, rc, errname(err));
        }
        return;
    }
    if (rc == 0) {
        tx->acc[tx->n_acc] = m;
        tx->acc_len[tx->n_acc++] = len;
        tx->exp_from_app_msgs++;
        tx->exp_from_app_bytes += len;
    } else {
        tx->failed[tx->n_failed++] = m;
        /* was it delivered although the call failed? */
        if (rx->n_rcv > tx->n_acc) {
            snprintf(sig, sizeof sig, "C03/failed-send-delivered/errno=%s/tp=%s", errname(err), g_tp);
            V("C03", sig, "xcm_send of message %d returned -1/%s but the peer has already received it",
              m, errname(err));
            /* keep the ledgers aligned with what really happened so later checks stay meaningful */
            tx->acc[tx->n_acc] = m;
            tx->acc_len[tx->n_acc++] = len;
            tx->n_failed--;
        }
    }
}

/* ---- running one operation ----------------------------------------------------------------- */
static int cond_wait(struct side *x, int cond, const char *why)
{
    /* event-loop wait: declare interest, sleep until the descriptor is readable */
    if (API("xcm_await", 1, xcm_await(x->s, cond)) < 0) {
        mc_observe("%s await(%d) failed %s", x->name, cond, errname(errno));
        return -1;
    }
    check_fd_stable(x);
    /* C16's converse clause, at EVERY wait and not only at the final quiescent state: if bytes for this end are
       sitting in the kernel's queue of the connection's descriptor while RECEIVABLE is awaited, the socket's read
       interest must be registered, i.e. xcm_fd must be readable now (level-triggered; whether the bytes already
       make a complete message is irrelevant - the library has to look at them).  A socket that dropped its read
       interest while it waits to write is caught here even when something else would wake it later. */
    if ((cond & XCM_SO_RECEIVABLE) && x->established && x->tcp_fd >= 0 && env_is_emulated_tcp(x->tcp_fd)) {
        int queued = 0;
        ioctl(x->tcp_fd, FIONREAD, &queued);
        if (queued > 0 && !(fd_readable_mask(x->fd0) & POLLIN)) {
            char sig[160];
            snprintf(sig, sizeof sig, "C16/not-readable-though-data-queued/awaiting=%d/tp=%s", cond, g_tp);
            V("C16", sig, "%s awaits condition %d with %d byte(s) queued on the connection's descriptor, but xcm_fd is not readable (%s)",
              x->name, cond, queued, why);
            snprintf(sig, sizeof sig, "C04/read-interest-dropped-while-waiting/tp=%s", g_tp);
            V("C04", sig, "%s awaits RECEIVABLE (condition %d) with data queued and is not woken (%s)", x->name, cond, why);
        }
        mc_count(5, 1);
    }
    mc_wait_readable(x->fd0, why);
    return 0;
}

static int transient(int e) { return e == EAGAIN; }

/* a terminal error met by side x: is it explained by the environment or by the peer? */
static void terminal(struct side *x, const char *op, int err)
{
    struct side *p = peer_of(x);
    x->term_errno = err;
    /* virtual time only advances when the environment withholds a connection establishment until
       tcp.connect_timeout expires; whatever either side reports after that is a consequence */
    int timed_out = env_now_ns() - g_t0 >= 3000000000LL;
    if (timed_out || p->gave_up || p->closed)
        return;
    /* tf=1: the environment answered one send(2) with ENOBUFS/ENOMEM; a connection that ends with that errno (or,
       under TLS, with whatever OpenSSL makes of a failed write) is the environment's doing */
    if (env_transient_faults() > 0)
        return;
    char sig[160];
    if (x->n_refused > 0 || x->had_eagain_send) {
        /* C03: after a send refused with EAGAIN the connection must remain fully usable */
        snprintf(sig, sizeof sig, "C03/unusable-after-refused-send/%s/%s/retry=%s/tp=%s", op, errname(err),
                 g_retry[0] ? g_retry : "same", g_tp);
        V("C03", sig, "%s: after an xcm_send refused with EAGAIN (retry policy '%s') %s failed with %s; the peer is alive and "
          "the environment injected no fault", x->name, g_retry[0] ? g_retry : "same", op, errname(err));
    }
    snprintf(sig, sizeof sig, "C04/unexpected-terminal-error/%s/%s/tp=%s", op, errname(err), g_tp);
    V("C04", sig, "%s: %s failed with %s although the peer is alive and the environment injected no fault",
      x->name, op, errname(err));
}

/* xcm_receive returned 0: legitimate only when the peer has closed (or given up) */
static void unexpected_eof(struct side *x)
{
    struct side *p = peer_of(x);
    /* ... or when the environment withheld the establishment beyond tcp.connect_timeout: the peer's library has
       abandoned the connection even if its application has not been told yet (same rule as terminal()) */
    if (p->closed || p->gave_up || env_now_ns() - g_t0 >= 3000000000LL)
        return;
    char sig[128];
    snprintf(sig, sizeof sig, "C06/eof-without-close/tp=%s", g_tp);
    V("C06", sig, "%s: xcm_receive returned 0 although the peer has not closed", x->name);
    /* the connection has NOT ended: whatever the peer's sends accepted and this end has not obtained is
       lost to a fabricated end-of-stream (C01/C02: same count; C04: eventually delivered) */
    snprintf(sig, sizeof sig, "%s/eof-while-peer-alive/tp=%s", g_bytestream ? "C02" : "C01", g_tp);
    V(g_bytestream ? "C02" : "C01", sig, "%s: xcm_receive returned 0 after %d message(s)/%lld byte(s) although the peer is "
      "alive, has not closed and no fault was injected; the peer had %d accepted", x->name, x->n_rcv,
      (long long)x->bytes_rcv, p->n_acc);
    snprintf(sig, sizeof sig, "C04/eof-while-peer-alive/tp=%s", g_tp);
    V("C04", sig, "%s: end-of-stream reported on a live connection; accepted messages will never be delivered", x->name);
}

static int do_send(struct side *x, struct op *o)
{
    char nm[32];
    int m = o->m;
    unsigned char *buf = g_buf[x->idx];
    int attempt = 0, olen0 = o->len;
    pay_fill(buf, g_bytestream ? m * 16 : m, o->len);
    int strict = !x->blocking && strcmp(g_style, "strict") == 0;
    int sent_total = 0;
    for (;;) {
        if (strict && cond_wait(x, XCM_SO_SENDABLE, "strict-send") < 0)
            return -1;
        snprintf(nm, sizeof nm, "xcm_send");
        mc_sched_point("send");
        x->inflight = m;
        x->inflight_len = o->len - sent_total;
        x->last_send_len = o->len;
        x->inflight_buf = buf + sent_total;
        int64_t before[8];
        int have_before = x->cnt_valid;
        memcpy(before, x->prev_cnt, sizeof before);
        size_t offered = ((size_t)o->hi << 32) + (size_t)(o->len - sent_total);
        int rc = API(nm, !x->blocking, xcm_send(x->s, buf + sent_total, offered));
        int err = rc < 0 ? errno : 0;
        if (!g_bytestream && offered > MAXMSG && rc >= 0) {
            char sig[128];
            snprintf(sig, sizeof sig, "C03/oversized-send-accepted/%s/tp=%s", o->hi ? "len=k*2^32+n" : "len>65535", g_tp);
            V("C03", sig, "xcm_send of %zu bytes (maximum message size is %d) returned %d instead of -1/EMSGSIZE", offered, MAXMSG, rc);
        }
        x->last_rc = rc;
        x->last_errno = err;
        if (rc < 0 && err != EAGAIN && !x->send_fail_errno)
            x->send_fail_errno = err;
        mc_observe("%s send m%d len=%d -> %d %s", x->name, m, o->len - sent_total, rc, rc < 0 ? errname(err) : "");
        on_send_result(x, m, o->len - sent_total, rc, err);
        int refused = rc < 0 && (err == EAGAIN || err == EMSGSIZE || err == EINVAL || err == EINTR);
        (void)have_before;
        check_counters(x, "xcm_send", refused && err != EINTR);
        if (refused && err != EINTR && have_before && x->cnt_valid &&
            (x->prev_cnt[0] != before[0] || x->prev_cnt[1] != before[1])) {
            /* C03: a refused send leaves the counters as if the call had not been made (C17 reports the same
               step as a ledger mismatch) */
            char sig[128];
            snprintf(sig, sizeof sig, "C03/refused-send-counted/errno=%s/tp=%s", errname(err), g_tp);
            V("C03", sig, "xcm_send returned -1/%s but from_app went %lld/%lld -> %lld/%lld", errname(err),
              (long long)before[0], (long long)before[1], (long long)x->prev_cnt[0], (long long)x->prev_cnt[1]);
        }
        if (rc < 0 && err == EINTR) {
            /* C03: counters must be as if the call had not been made */
            if (have_before && (x->prev_cnt[0] != before[0] || x->prev_cnt[1] != before[1])) {
                char sig[128];
                snprintf(sig, sizeof sig, "C03/eintr-send-counted/tp=%s", g_tp);
                V("C03", sig, "xcm_send returned -1/EINTR but from_app went %lld/%lld -> %lld/%lld",
                  (long long)before[0], (long long)before[1], (long long)x->prev_cnt[0], (long long)x->prev_cnt[1]);
                /* resynchronise the ledger with the library's view so that the run can go on */
                x->exp_from_app_msgs = x->prev_cnt[0];
                x->exp_from_app_bytes = x->prev_cnt[1];
            }
        }
        check_fd_stable(x);
        if (rc >= 0) {
            mc_set_progress(1);
            /* (an accepted send proves nothing: the TLS messaging layer buffers a message while the handshake is still
               under way; only a successful finish or receive sets x->established) */
            if (g_bytestream) {
                sent_total += rc;
                if (sent_total < o->len)
                    continue;
            }
            return 0;
        }
        if (transient(err) && !x->blocking) {
            mc_set_progress(0);
            x->had_eagain_send = 1;
            if (g_bytestream && g_retry[0] && sent_total == 0 && o->len <= 12) {
                /* the application changes its mind about what to offer next (C02: "whatever the
                   application offers in its next call") */
                if (x->n_refused < 8) {
                    memcpy(x->refused[x->n_refused], buf, o->len);
                    x->refused_at[x->n_refused] = x->bytes_sent_acc;
                    x->refused_len[x->n_refused++] = o->len;
                }
                attempt++;
                if (!strcmp(g_retry, "longer")) {
                    if (o->len < olen0 + 4)
                        o->len = olen0 + 4;       /* same prefix, more bytes */
                    pay_fill(buf, m * 16, o->len);
                } else if (!strcmp(g_retry, "different"))
                    pay_fill(buf, m * 16 + (attempt % 15) + 1, o->len);
                else if (!strcmp(g_retry, "shorter")) {
                    if (o->len > 3)
                        o->len = 3;
                }
            }
            if (!strict && cond_wait(x, XCM_SO_SENDABLE, "send-eagain") < 0)
                return -1;
            continue;
        }
        if (err == EINTR && x->blocking) {
            /* application policy after an interrupted call */
            if (g_resend == 1)
                continue;          /* re-send the same message */
            return 0;              /* move on: the message counts as not sent */
        }
        if (err == EMSGSIZE || err == EINVAL) {
            /* refused by size: move on.  A message of an admissible size (1..65535; any non-zero length on a byte
               stream) must never be answered that way: a refused oversized or empty send has to leave the connection
               fully usable (C03) */
            if (offered >= 1 && (g_bytestream || offered <= MAXMSG)) {
                char sig[160];
                snprintf(sig, sizeof sig, "C03/admissible-send-refused-by-size/%s/tp=%s", errname(err), g_tp);
                V("C03", sig, "%s: xcm_send of %zu bytes failed with %s (after %d send(s) refused for their size on this connection)",
                  x->name, offered, errname(err), x->n_failed - 1);
            }
            return 0;
        }
        terminal(x, "send", err);
        return -1;
    }
}

static int do_recv(struct side *x, struct op *o, int until_eof)
{
    unsigned char *buf = g_buf[x->idx];
    int strict = !x->blocking && strcmp(g_style, "strict") == 0;
    for (;;) {
        if (strict && cond_wait(x, XCM_SO_RECEIVABLE, "strict-recv") < 0)
            return -1;
        mc_sched_point("recv");
        int cap = o->len;
        memset(buf, 0, cap < 64 ? cap : 64);
        int rc = API("xcm_receive", !x->blocking, xcm_receive(x->s, buf, cap));
        int err = rc < 0 ? errno : 0;
        x->last_rc = rc;
        x->last_errno = err;
        mc_observe("%s recv cap=%d -> %d %s", x->name, cap, rc, rc < 0 ? errname(err) : "");
        if (rc > 0)
            on_received(x, buf, rc, cap);
        check_counters(x, "xcm_receive", rc < 0 && err == EAGAIN);
        check_fd_stable(x);
        if (rc > 0) {
            mc_set_progress(1);
            x->established = 1;
            if (until_eof)
                continue;
            if (g_bytestream) {
                /* a bytestream "receive op" wants o->m bytes in total */
                o->m -= rc;
                if (o->m > 0)
                    continue;
            }
            return 0;
        }
        if (rc == 0) {
            x->eof_seen = 1;
            mc_set_progress(1);
            unexpected_eof(x);
            return until_eof ? 0 : -1;
        }
        if (transient(err) && !x->blocking) {
            mc_set_progress(0);
            if (!strict && cond_wait(x, XCM_SO_RECEIVABLE, "recv-eagain") < 0)
                return -1;
            continue;
        }
        if (err == EINTR && x->blocking)
            continue;
        terminal(x, "receive", err);
        return -1;
    }
}

static int do_finish(struct side *x)
{
    if (x->blocking)
        return 0;           /* blocking sends have flushed already */
    int strict = strcmp(g_style, "strict") == 0;
    int first = 1;
    for (;;) {
        if (strict && !first && cond_wait(x, 0, "strict-finish") < 0)
            return -1;
        first = 0;
        mc_sched_point("finish");
        int rc = API("xcm_finish", 1, xcm_finish(x->s));
        int err = rc < 0 ? errno : 0;
        mc_observe("%s finish -> %d %s", x->name, rc, rc < 0 ? errname(err) : "");
        check_counters(x, "xcm_finish", 0);
        check_fd_stable(x);
        if (rc == 0) {
            mc_set_progress(1);
            x->established = 1;
            return 0;
        }
        if (transient(err)) {
            mc_set_progress(0);
            if (!strict && cond_wait(x, 0, "finish-eagain") < 0)
                return -1;
            continue;
        }
        terminal(x, "finish", err);
        return -1;
    }
}

static void do_close(struct side *x)
{
    mc_sched_point("close");
    if (!x->blocking && !g_bytestream) {
        /* a graceful application flushes before closing */
    }
    API("xcm_close", !x->blocking, xcm_close(x->s));
    mc_observe("%s close", x->name);
    x->closed = 1;
    x->s = NULL;
}

/* event-loop style: both directions served from one loop */
static int run_loop_style(struct side *x)
{
    int si = 0, ri = 0;   /* indexes into the op list of the next send / receive */
    unsigned char *buf = g_buf[x->idx];
    for (;;) {
        while (si < x->nops && x->ops[si].k != OP_SEND)
            si++;
        while (ri < x->nops && x->ops[ri].k != OP_RECV)
            ri++;
        int want_send = si < x->nops, want_recv = ri < x->nops;
        if (!want_send && !want_recv)
            break;
        int cond = (want_send ? XCM_SO_SENDABLE : 0) | (want_recv ? XCM_SO_RECEIVABLE : 0);
        if (cond_wait(x, cond, "loop") < 0)
            return -1;
        int progressed = 0;
        if (want_recv) {
            mc_sched_point("recv");
            int cap = x->ops[ri].len;
            int rc = API("xcm_receive", 1, xcm_receive(x->s, buf, cap));
            int err = rc < 0 ? errno : 0;
            mc_observe("%s recv cap=%d -> %d %s", x->name, cap, rc, rc < 0 ? errname(err) : "");
            if (rc > 0) {
                on_received(x, buf, rc, cap);
                ri++;
                progressed = 1;
                x->established = 1;
            }
            check_counters(x, "xcm_receive", rc < 0 && err == EAGAIN);
            check_fd_stable(x);
            if (rc == 0) {
                x->eof_seen = 1;
                unexpected_eof(x);
                return -1;
            }
            if (rc < 0 && err != EAGAIN) {
                terminal(x, "receive", err);
                return -1;
            }
        }
        if (want_send) {
            struct op *o = &x->ops[si];
            pay_fill(buf, o->m, o->len);
            mc_sched_point("send");
            x->inflight = o->m;
            x->inflight_len = o->len;
            x->last_send_len = o->len;
            int rc = API("xcm_send", 1, xcm_send(x->s, buf, o->len));
            int err = rc < 0 ? errno : 0;
            mc_observe("%s send m%d len=%d -> %d %s", x->name, o->m, o->len, rc, rc < 0 ? errname(err) : "");
            on_send_result(x, o->m, o->len, rc, err);
            check_counters(x, "xcm_send", rc < 0 && err == EAGAIN);
            check_fd_stable(x);
            if (rc == 0) {
                si++;
                progressed = 1;
            } else if (err != EAGAIN) {
                terminal(x, "send", err);
                return -1;
            }
        }
        mc_set_progress(progressed);
    }
    x->pc = x->nops;
    return do_finish(x);
}

/* what an application does when its connection is gone: close the socket */
/* an application that does not take a failed xcm_send for the end of the connection: it flushes, offers the same
   message once more, flushes again - and only then closes.  Run after the environment refused one send(2) with
   ENOBUFS/ENOMEM (tf=1).  Whatever the library makes of that errno, a message whose xcm_send returned -1 must not
   reach the peer (C03) and the peer's sequence must remain the sequence of successful sends (C01): the oracle is
   on_received()/on_send_result() as always. */
static void carry_on_after_failed_send(struct side *x)
{
    if (g_bytestream || x->carried_on || !x->s || x->closed || x->n_failed == 0 || env_transient_faults() == 0 ||
        !(x->term_errno == ENOBUFS || x->term_errno == ENOMEM))
        return;
    x->carried_on = 1;
    int m = x->failed[x->n_failed - 1], len = x->last_send_len;
    unsigned char *buf = g_buf[x->idx];
    mc_sched_point("finish");
    int rc = API("xcm_finish", !x->blocking, xcm_finish(x->s));
    mc_observe("%s carries on: finish -> %d %s", x->name, rc, rc < 0 ? errname(errno) : "");
    pay_fill(buf, m, len);
    mc_sched_point("send");
    x->inflight = m;
    x->inflight_len = len;
    x->inflight_buf = buf;
    rc = API("xcm_send", !x->blocking, xcm_send(x->s, buf, len));
    int err = rc < 0 ? errno : 0;
    mc_observe("%s carries on: re-send m%d len=%d -> %d %s", x->name, m, len, rc, rc < 0 ? errname(err) : "");
    on_send_result(x, m, len, rc, err);
    for (int i = 0; i < 3; i++) {
        mc_sched_point("finish");
        rc = API("xcm_finish", !x->blocking, xcm_finish(x->s));
        mc_observe("%s carries on: finish -> %d %s", x->name, rc, rc < 0 ? errname(errno) : "");
        if (!(rc < 0 && errno == EAGAIN) || x->blocking)
            break;
        if (cond_wait(x, 0, "carry-on-finish") < 0)
            break;
    }
}

static void give_up(struct side *x)
{
    carry_on_after_failed_send(x);
    if (x->s && !x->closed) {
        if (!x->term_errno && !x->eof_seen)
            x->term_errno = EIO;
        API("xcm_close", !x->blocking, xcm_close(x->s));
        x->closed = 1;
        x->gave_up = 1;
        x->s = NULL;
    }
}

static void run_script(struct side *x)
{
    if (!x->blocking && strcmp(g_style, "loop") == 0 && !g_bytestream) {
        if (run_loop_style(x) < 0) {
            mc_observe("%s loop ended early eof=%d errno=%s", x->name, x->eof_seen, errname(x->term_errno));
            give_up(x);
        }
        return;
    }
    for (x->pc = 0; x->pc < x->nops; x->pc++) {
        struct op *o = &x->ops[x->pc];
        int rc = 0;
        switch (o->k) {
        case OP_SEND:
            rc = do_send(x, o);
            if (rc < 0 && o->try_only) {
                mc_observe("%s goes on after the failed send (errno=%s)", x->name, errname(x->term_errno));
                rc = 0;
                /* the failed write says nothing about what the peer had sent before it closed: the completeness
                   oracle at end-of-stream (final_checks) stays armed unless a RECEIVE fails */
                x->term_errno = 0;
                x->own_write_failed = 1;
            }
            if (rc == 0 && g_fin_each)
                rc = do_finish(x);
            break;
        case OP_RECV: rc = do_recv(x, o, 0); break;
        case OP_RECV_EOF: rc = do_recv(x, o, 1); break;
        case OP_FINISH: rc = do_finish(x); break;
        case OP_CLOSE: do_close(x); return;
        default: break;
        }
        if (rc < 0) {
            mc_observe("%s stops at op %d eof=%d errno=%s", x->name, x->pc, x->eof_seen, errname(x->term_errno));
            give_up(x);
            return;
        }
    }
}

/* ---- tasks ------------------------------------------------------------------------------------ */
static struct xcm_attr_map *mk_attrs(int blocking)
{
    struct xcm_attr_map *m = xcm_attr_map_create();
    xcm_attr_map_add_bool(m, "xcm.blocking", blocking);
    if (g_bytestream)
        xcm_attr_map_add_str(m, "xcm.service", "bytestream");
    return m;
}

static void task_a(void *arg)
{
    (void)arg;
    struct side *x = &A;
    struct xcm_attr_map *at = mk_attrs(x->blocking);
    mc_sched_point("connect");
    x->s = API("xcm_connect_a", !x->blocking, xcm_connect_a(g_addr, at));
    xcm_attr_map_destroy(at);
    if (!x->s) {
        int e = errno;
        mc_observe("A connect failed %s", errname(e));
        x->term_errno = e;
        x->gave_up = 1;
        /* the only legitimate failure in this closed system: the environment delayed the
           establishment beyond tcp.connect_timeout (3 s of virtual time) */
        if (!(e == ETIMEDOUT && env_now_ns() - g_t0 >= 3000000000LL))
            V("C04", "C04/connect-failed-unexpectedly", "xcm_connect_a(%s) failed with %s although the server listens",
              g_addr, errname(e));
        return;
    }
    mc_observe("A connected");
    if (!x->blocking)
        x->fd0 = xcm_fd(x->s);
    x->tcp_fd = -1;
    if (env_connect_log_count() > 0) {
        char ip[64];
        int port;
        env_connect_log_entry(env_connect_log_count() - 1, &x->tcp_fd, ip, sizeof ip, &port);
    }
    run_script(x);
}

static void task_b(void *arg)
{
    (void)arg;
    struct side *x = &B;
    struct xcm_attr_map *at = mk_attrs(x->blocking);
    for (;;) {
        if (!x->blocking) {
            if (API("xcm_await", 1, xcm_await(g_server, XCM_SO_ACCEPTABLE)) < 0)
                break;
            mc_wait_readable(xcm_fd(g_server), "accept-wait");
        }
        mc_sched_point("accept");
        x->s = API("xcm_accept_a", !x->blocking, xcm_accept_a(g_server, at));
        if (x->s)
            break;
        mc_observe("B accept -> %s", errname(errno));
        if (errno != EAGAIN) {
            /* legitimate only when the client has already given up on this attempt */
            /* ... or when the environment withheld the establishment beyond tcp.connect_timeout
               (virtual time): the client side has abandoned the attempt inside the library even if
               its application has not been told yet (same rule as terminal()) */
            /* ... or when the client has already finished its script and closed: a handshake that
               fails because the peer is gone (e.g. EPIPE while sending TLS session tickets behind the
               client's FIN) is the peer's departure, not a liveness failure */
            if (!A.gave_up && !A.closed && env_now_ns() - g_t0 < 3000000000LL)
                V("C04", "C04/accept-failed-unexpectedly", "xcm_accept_a failed with %s", errname(errno));
            xcm_attr_map_destroy(at);
            x->term_errno = errno;
            x->gave_up = 1;
            return;
        }
        mc_set_progress(0);
    }
    xcm_attr_map_destroy(at);
    if (!x->s)
        return;
    mc_observe("B accepted");
    if (!x->blocking)
        x->fd0 = xcm_fd(x->s);
    x->tcp_fd = A.tcp_fd >= 0 ? env_conn_fd_peer(A.tcp_fd) : -1;
    run_script(x);
}

/* ---- scripts -------------------------------------------------------------------------------- */
static void add(struct side *x, enum opk k, int len)
{
    static int mcount[2];
    struct op *o = &x->ops[x->nops++];
    o->k = k;
    o->len = len;
    o->m = (k == OP_SEND) ? (x->idx * 100 + mcount[x->idx]++) : 0;
}

static void build_script(const char *name)
{
    int big = g_bytestream ? 40000 : MAXMSG;
    if (strcmp(name, "T1") == 0) {            /* one way, three sizes */
        add(&A, OP_SEND, 1); add(&A, OP_SEND, 5); add(&A, OP_SEND, big); add(&A, OP_FINISH, 0);
        add(&B, OP_RECV, MAXMSG); add(&B, OP_RECV, MAXMSG); add(&B, OP_RECV, MAXMSG);
    } else if (strcmp(name, "T1s") == 0) {    /* small only (deep bounds) */
        add(&A, OP_SEND, 1); add(&A, OP_SEND, 5); add(&A, OP_SEND, 300); add(&A, OP_FINISH, 0);
        add(&B, OP_RECV, MAXMSG); add(&B, OP_RECV, MAXMSG); add(&B, OP_RECV, MAXMSG);
    } else if (strcmp(name, "T2") == 0) {     /* both directions at once */
        add(&A, OP_SEND, 2); add(&A, OP_SEND, 300); add(&A, OP_RECV, MAXMSG); add(&A, OP_RECV, MAXMSG);
        add(&A, OP_FINISH, 0);
        add(&B, OP_SEND, 300); add(&B, OP_SEND, 1); add(&B, OP_RECV, MAXMSG); add(&B, OP_RECV, MAXMSG);
        add(&B, OP_FINISH, 0);
    } else if (strcmp(name, "T3") == 0) {     /* truncation */
        add(&A, OP_SEND, 300); add(&A, OP_SEND, 7); add(&A, OP_FINISH, 0);
        add(&B, OP_RECV, 100); add(&B, OP_RECV, MAXMSG);
    } else if (strcmp(name, "T4") == 0) {     /* send, close; receive to EOF */
        add(&A, OP_SEND, 3); add(&A, OP_SEND, 300); add(&A, OP_SEND, 1); add(&A, OP_FINISH, 0);
        add(&A, OP_CLOSE, 0);
        add(&B, OP_RECV_EOF, MAXMSG);
    } else if (strcmp(name, "T5") == 0) {     /* sizes: 0, 1, max, max+1, huge (C03) */
        add(&A, OP_SEND, 0); add(&A, OP_SEND, 1); add(&A, OP_SEND, MAXMSG); add(&A, OP_SEND, MAXMSG + 1);
        add(&A, OP_SEND, 1 << 20);
        if (!g_bytestream) {                  /* k * 2^32 + n: must not be mistaken for an n-byte message */
            add(&A, OP_SEND, 1); A.ops[A.nops - 1].hi = 1;
            add(&A, OP_SEND, MAXMSG); A.ops[A.nops - 1].hi = 2;
        }
        add(&A, OP_SEND, 2); add(&A, OP_FINISH, 0);
        add(&B, OP_RECV, MAXMSG); add(&B, OP_RECV, MAXMSG); add(&B, OP_RECV, MAXMSG);
    } else if (strcmp(name, "T6") == 0) {     /* ping-pong */
        add(&A, OP_SEND, 4); add(&A, OP_RECV, MAXMSG); add(&A, OP_SEND, 9); add(&A, OP_RECV, MAXMSG);
        add(&A, OP_FINISH, 0);
        add(&B, OP_RECV, MAXMSG); add(&B, OP_SEND, 6); add(&B, OP_RECV, MAXMSG); add(&B, OP_SEND, 1);
        add(&B, OP_FINISH, 0);
    } else if (strcmp(name, "S1") == 0) {     /* bytestream: 6 bytes in 3 calls, small capacities */
        add(&A, OP_SEND, 1); add(&A, OP_SEND, 2); add(&A, OP_SEND, 3); add(&A, OP_FINISH, 0); add(&A, OP_CLOSE, 0);
        add(&B, OP_RECV_EOF, 3);
    } else if (strcmp(name, "S2") == 0) {     /* bytestream: a large write crossing a TLS record, then 3 bytes */
        add(&A, OP_SEND, 40000); add(&A, OP_SEND, 3); add(&A, OP_FINISH, 0); add(&A, OP_CLOSE, 0);
        add(&B, OP_RECV_EOF, 65536);
    } else if (strcmp(name, "T7") == 0 || strcmp(name, "S5") == 0) {
        /* the peer sends, flushes and closes; this end first WRITES (twice: the second write meets the broken pipe) and
           only then reads what the peer had sent: delivered data must be delivered whole and counted (C06 drain, C17) */
        int bs = name[0] == 'S';
        add(&A, OP_SEND, bs ? 5 : 3); add(&A, OP_SEND, bs ? 2 : 300); add(&A, OP_FINISH, 0); add(&A, OP_CLOSE, 0);
        add(&B, OP_RECV, bs ? 2 : MAXMSG); if (bs) B.ops[B.nops - 1].m = 2;
        add(&B, OP_SEND, 1); B.ops[B.nops - 1].try_only = 1;
        add(&B, OP_SEND, 2); B.ops[B.nops - 1].try_only = 1;
        add(&B, OP_SEND, 1); B.ops[B.nops - 1].try_only = 1;
        add(&B, OP_RECV_EOF, bs ? 65536 : MAXMSG);
    } else if (strcmp(name, "S4") == 0) {     /* bytestream: the accepted side writes across TLS records, then 3 bytes */
        add(&B, OP_SEND, 40000); add(&B, OP_SEND, 3); add(&B, OP_FINISH, 0); add(&B, OP_CLOSE, 0);
        add(&A, OP_RECV_EOF, 65536);
    } else if (strcmp(name, "R1") == 0) {     /* bytestream: refused sends retried per policy (retry=...) */
        add(&A, OP_SEND, 8); add(&A, OP_SEND, 8); add(&A, OP_SEND, 3); add(&A, OP_FINISH, 0); add(&A, OP_CLOSE, 0);
        add(&B, OP_RECV_EOF, 65536);
    } else if (strcmp(name, "S3") == 0) {     /* bytestream both ways */
        add(&A, OP_SEND, 5); add(&A, OP_RECV, 64); A.ops[A.nops - 1].m = 4; add(&A, OP_FINISH, 0);
        add(&B, OP_SEND, 4); add(&B, OP_RECV, 2); B.ops[B.nops - 1].m = 5; add(&B, OP_FINISH, 0);
    } else {
        mc_fail("internal/unknown-script", "unknown script %s", name);
    }
    if (g_bytestream)
        for (struct side *x = &A; x; x = (x == &A ? &B : NULL))
            for (int i = 0; i < x->nops; i++)
                if (x->ops[i].k == OP_RECV && x->ops[i].m == 0)
                    x->ops[i].m = 1;
}

/* ---- state digest ----------------------------------------------------------------------------- */
static uint64_t state_digest(void)
{
    uint64_t h = 17;
    for (struct side *x = &A; x; x = (x == &A ? &B : NULL)) {
        h = mc_hash_mix(h, x->pc);
        h = mc_hash_mix(h, x->n_acc * 131 + x->n_rcv);
        h = mc_hash_mix(h, x->bytes_sent_acc * 7 + x->bytes_rcv);
        h = mc_hash_mix(h, (uint64_t)(x->last_rc + 2) * 1000 + x->last_errno);
        h = mc_hash_mix(h, x->closed * 4 + x->eof_seen * 2 + (x->s != NULL));
        for (int i = 0; i < 8; i++)
            h = mc_hash_mix(h, x->cnt_valid ? x->prev_cnt[i] : -1);
        if (x->s && !x->blocking && !x->closed)
            h = mc_hash_mix(h, fd_readable_mask(x->fd0));
    }
    h = mc_hash_mix(h, env_pending_connects() * 16 + env_stalled_count());
    h = mc_hash_mix(h, env_now_ns());
    h = mc_hash_mix(h, env_data_calls());
    return h;
}

/* ---- C16 probes at the final quiescent state --------------------------------------------------- */
static int poll3(int fd)
{
    int m = 0;
    for (int i = 0; i < 3; i++)
        m |= fd_readable_mask(fd);
    return m;
}

static void probes(void)
{
    char sig[160];
    env_reset_deviations();
    if (!A.s || !B.s || A.closed || B.closed || A.blocking || B.blocking)
        return;
    struct side *xs[2] = { &A, &B };
    /* precondition: both flushed */
    for (int i = 0; i < 2; i++)
        if (API("xcm_finish", 1, xcm_finish(xs[i]->s)) < 0)
            return;
    /* drain anything the transport itself still has to read (TLS session tickets...) */
    for (int i = 0; i < 2; i++) {
        unsigned char b[16];
        int rc = API("xcm_receive", 1, xcm_receive(xs[i]->s, b, sizeof b));
        if (!(rc < 0 && errno == EAGAIN)) {
            if (rc > 0 && !g_bytestream) {
                snprintf(sig, sizeof sig, "C01/extra-message-at-quiescence/tp=%s", g_tp);
                V("C01", sig, "%s obtains a %d-byte message when everything sent has been received", xs[i]->name, rc);
            }
            return;
        }
    }
    for (int i = 0; i < 2; i++) {
        struct side *x = xs[i];
        mc_count(0, 1);   /* quiescent points evaluated */
        API("xcm_await", 1, xcm_await(x->s, 0));
        int m = poll3(x->fd0);
        if (m) {
            snprintf(sig, sizeof sig, "C16/readable-while-awaiting-nothing/tp=%s", g_tp);
            V("C16", sig, "%s: idle, flushed connection, condition 0, but xcm_fd reports 0x%x", x->name, m);
        }
        API("xcm_await", 1, xcm_await(x->s, XCM_SO_RECEIVABLE));
        m = poll3(x->fd0);
        if (m) {
            snprintf(sig, sizeof sig, "C16/readable-after-eagain/tp=%s", g_tp);
            V("C16", sig, "%s: xcm_receive said EAGAIN, nothing arrived since, awaiting RECEIVABLE, xcm_fd reports 0x%x",
              x->name, m);
        }
        /* the same in the other call order: receive says EAGAIN, THEN a finish (which succeeds: nothing is pending),
           then RECEIVABLE is awaited - nothing new has arrived, so the descriptor stays quiet */
        {
            unsigned char b2[16];
            int r2 = API("xcm_receive", 1, xcm_receive(x->s, b2, sizeof b2));
            int f2 = API("xcm_finish", 1, xcm_finish(x->s));
            if (r2 < 0 && errno == EAGAIN && f2 == 0) {
                API("xcm_await", 1, xcm_await(x->s, XCM_SO_RECEIVABLE));
                m = poll3(x->fd0);
                mc_count(0, 1);
                if (m) {
                    snprintf(sig, sizeof sig, "C16/readable-after-eagain-and-finish/tp=%s", g_tp);
                    V("C16", sig, "%s: xcm_receive said EAGAIN, xcm_finish returned 0, nothing arrived since, awaiting RECEIVABLE, "
                      "xcm_fd reports 0x%x", x->name, m);
                }
                API("xcm_await", 1, xcm_await(x->s, 0));
                m = poll3(x->fd0);
                if (m) {
                    snprintf(sig, sizeof sig, "C16/readable-while-awaiting-nothing/after-finish/tp=%s", g_tp);
                    V("C16", sig, "%s: idle, flushed connection, condition 0 after receive=EAGAIN and finish=0, xcm_fd reports 0x%x", x->name, m);
                }
            }
        }
        API("xcm_await", 1, xcm_await(x->s, XCM_SO_SENDABLE));
        m = poll3(x->fd0);
        if (!(m & POLLIN)) {
            snprintf(sig, sizeof sig, "C16/not-readable-though-sendable/tp=%s", g_tp);
            V("C16", sig, "%s: writable established connection awaiting SENDABLE, xcm_fd not readable", x->name);
        }
        if (m & ~POLLIN) {
            snprintf(sig, sizeof sig, "C16/fd-not-only-readable/tp=%s", g_tp);
            V("C16", sig, "xcm_fd of %s reports events 0x%x", x->name, m);
        }
        /* the same with both conditions awaited: one of them (SENDABLE) is met */
        API("xcm_await", 1, xcm_await(x->s, XCM_SO_SENDABLE | XCM_SO_RECEIVABLE));
        m = poll3(x->fd0);
        mc_count(0, 1);
        if (!(m & POLLIN)) {
            snprintf(sig, sizeof sig, "C16/not-readable-though-sendable/awaiting=both/tp=%s", g_tp);
            V("C16", sig, "%s: writable established connection awaiting SENDABLE|RECEIVABLE, xcm_fd not readable", x->name);
        }
        API("xcm_await", 1, xcm_await(x->s, 0));
        check_fd_stable(x);
    }
    /* server socket with nothing pending */
    if (g_server && !xcm_is_blocking(g_server)) {
        API("xcm_await", 1, xcm_await(g_server, XCM_SO_ACCEPTABLE));
        int m = poll3(xcm_fd(g_server));
        mc_count(0, 1);
        if (m) {
            snprintf(sig, sizeof sig, "C16/server-readable-nothing-pending/tp=%s", g_tp);
            V("C16", sig, "server socket awaiting ACCEPTABLE with no connection pending reports 0x%x", m);
        }
    }
    /* conversely: a queued message makes the descriptor readable at once */
    unsigned char one[8];
    pay_fill(one, 77, 3);
    A.inflight = 77;
    A.inflight_len = 3;
    A.inflight_buf = one;
    int rc = API("xcm_send", 1, xcm_send(A.s, one, 3));
    if (rc >= 0 && API("xcm_finish", 1, xcm_finish(A.s)) == 0) {
        on_send_result(&A, 77, 3, rc, 0);
        API("xcm_await", 1, xcm_await(B.s, XCM_SO_RECEIVABLE));
        int m = poll3(B.fd0);
        mc_count(0, 1);
        if (!(m & POLLIN)) {
            snprintf(sig, sizeof sig, "C16/not-readable-though-receivable/tp=%s", g_tp);
            V("C16", sig, "B: a complete message is queued, awaiting RECEIVABLE, xcm_fd not readable");
        }
        unsigned char b[16];
        rc = API("xcm_receive", 1, xcm_receive(B.s, b, sizeof b));
        if (rc > 0)
            on_received(&B, b, rc, sizeof b);
        else if (rc < 0 && errno == EAGAIN && !(m & POLLIN)) {
        } else if (rc <= 0) {
            snprintf(sig, sizeof sig, "C01/queued-message-not-delivered/tp=%s", g_tp);
            V("C01", sig, "B: receive returned %d/%s for a flushed message", rc, errname(errno));
        }
    } else
        A.inflight = -1;
}

/* ---- end-of-execution verdicts ------------------------------------------------------------------- */
static void describe_wait(struct side *x, char *buf, size_t n)
{
    if (!x->s && !x->closed)
        snprintf(buf, n, "%s: connection not established", x->name);
    else if (x->pc < x->nops) {
        static const char *kn[] = { "send", "receive", "finish", "close", "receive-until-eof", "end" };
        snprintf(buf, n, "%s: stuck in op #%d (%s)", x->name, x->pc, kn[x->ops[x->pc].k]);
    } else
        snprintf(buf, n, "%s: script complete", x->name);
}

static void final_checks(enum mc_end end)
{
    char sig[200], wa[96], wb[96];
    describe_wait(&A, wa, sizeof wa);
    describe_wait(&B, wb, sizeof wb);
    if (end == MC_END_HORIZON) {
        snprintf(sig, sizeof sig, "C04/livelock/tp=%s", g_tp);
        V("C04", sig, "no termination within %d scheduler steps; %s; %s", mc_steps(), wa, wb);
        return;
    }
    if (end == MC_END_QUIESCENT) {
        /* nobody can run, no event is pending, yet somebody waits: a lost wake-up (or a blocking
           call that never returns) */
        struct side *xs[2] = { &A, &B };
        for (int i = 0; i < 2; i++) {
            struct side *x = xs[i];
            if (mc_task_done(i))
                continue;
            const char *kind = x->blocking ? "blocking-call-never-returns" : "lost-wakeup";
            const char *what = "connect";
            if (x->s && x->pc < x->nops) {
                static const char *kn[] = { "send", "receive", "finish", "close", "receive-eof", "end" };
                what = kn[x->ops[x->pc].k];
            } else if (x->s)
                what = "finish";
            else if (i == 1)
                what = "accept";
            snprintf(sig, sizeof sig, "C04/%s/%s/tp=%s", kind, what, g_tp);
            V("C04", sig, "system quiescent (no descriptor readable, no timer armed, no environment event pending) but %s; peer: %s",
              i == 0 ? wa : wb, i == 0 ? wb : wa);
        }
        return;
    }
    /* both scripts ran to their end: delivery must be complete */
    struct side *xs[2] = { &A, &B };
    for (int i = 0; i < 2; i++) {
        struct side *tx = xs[i], *rx = xs[1 - i];
        int rx_wants_all = 0;
        for (int k = 0; k < rx->nops; k++)
            if (rx->ops[k].k == OP_RECV_EOF)
                rx_wants_all = 1;
        if (g_bytestream) {
            if (rx_wants_all && rx->eof_seen && rx->bytes_rcv != tx->bytes_sent_acc && !tx->term_errno && !rx->term_errno) {
                snprintf(sig, sizeof sig, "C02/stream-incomplete-at-eof%s/tp=%s", rx->own_write_failed ? "/after-own-write-failed" : "", g_tp);
                V("C02", sig, "%s flushed and closed gracefully after %lld accepted bytes, %s saw EOF after %lld",
                  tx->name, (long long)tx->bytes_sent_acc, rx->name, (long long)rx->bytes_rcv);
            }
            continue;
        }
        if (rx_wants_all && rx->eof_seen && rx->n_rcv != tx->n_acc && !tx->term_errno && !rx->term_errno) {
            snprintf(sig, sizeof sig, "C01/messages-missing-at-eof%s/tp=%s", rx->own_write_failed ? "/after-own-write-failed" : "", g_tp);
            V("C01", sig, "%s had %d sends accepted, flushed and closed; %s obtained %d before EOF", tx->name,
              tx->n_acc, rx->name, rx->n_rcv);
            /* C03: a successful send is delivered exactly once when the sender lets the socket finish its work */
            snprintf(sig, sizeof sig, "C03/accepted-send-never-delivered%s/tp=%s", rx->own_write_failed ? "/after-own-write-failed" : "", g_tp);
            V("C03", sig, "%s: %d sends returned success and the socket was allowed to finish (xcm_finish 0 / blocking send "
              "returned) before the close; %s obtained only %d before EOF", tx->name, tx->n_acc, rx->name, rx->n_rcv);
        }
        if (rx->n_rcv > tx->n_acc) {
            snprintf(sig, sizeof sig, "C01/more-received-than-accepted/tp=%s", g_tp);
            V("C01", sig, "%s obtained %d messages, %s had %d accepted", rx->name, rx->n_rcv, tx->name, tx->n_acc);
        }
    }
    /* C17 at quiescence: sender.to_lower == receiver.from_lower == what was exchanged */
    if (A.s && B.s && !A.closed && !B.closed && !A.term_errno && !B.term_errno) {
        int flushed = 1;
        for (int i = 0; i < 2; i++)
            if (!xs[i]->blocking && API("xcm_finish", 1, xcm_finish(xs[i]->s)) < 0)
                flushed = 0;
        if (flushed) {
            int64_t ca[8], cb[8];
            if (read_counters(&A, ca) == 0 && read_counters(&B, cb) == 0) {
                for (int i = 0; i < 2; i++) {
                    int64_t *ct = i == 0 ? ca : cb, *cr = i == 0 ? cb : ca;
                    struct side *tx = xs[i], *rx = xs[1 - i];
                    int all_rcvd = g_bytestream ? rx->bytes_rcv == tx->bytes_sent_acc : rx->n_rcv == tx->n_acc;
                    if (!all_rcvd)
                        continue;
                    int64_t bytes = g_bytestream ? tx->bytes_sent_acc : 0;
                    if (!g_bytestream)
                        for (int k = 0; k < tx->n_acc; k++)
                            bytes += tx->acc_len[k];
                    mc_count(4, 1);
                    if (ct[7] != bytes || cr[5] != bytes || (!g_bytestream && (ct[6] != tx->n_acc || cr[4] != tx->n_acc))) {
                        snprintf(sig, sizeof sig, "C17/idle-counters-disagree/tp=%s", g_tp);
                        V("C17", sig, "idle and flushed: %s.to_lower=%lld/%lld, %s.from_lower=%lld/%lld, applications exchanged %d msgs/%lld bytes",
                          tx->name, (long long)ct[6], (long long)ct[7], rx->name, (long long)cr[4],
                          (long long)cr[5], tx->n_acc, (long long)bytes);
                    }
                }
            }
        }
    }
    if (g_probe)
        probes();
}

/* ---- scenario ------------------------------------------------------------------------------------ */
static void mk_addr(void)
{
    int id = getpid();
    if (!strcmp(g_tp, "ux"))
        snprintf(g_addr, sizeof g_addr, "ux:mcx-%d", id);
    else if (!strcmp(g_tp, "uxf")) {
        snprintf(g_addr, sizeof g_addr, "uxf:/tmp/mcx-uxf-%d", id);
        unlink(g_addr + 4);
    } else if (!strcmp(g_tp, "utls"))
        snprintf(g_addr, sizeof g_addr, "utls:127.0.0.1:%d", 20000 + id % 20000);
    else if (!strcmp(g_tp, "utlstls"))
        snprintf(g_addr, sizeof g_addr, "tls:127.0.0.1:%d", 20000 + id % 20000);
    else
        snprintf(g_addr, sizeof g_addr, "%s:127.0.0.1:%d", g_tp, 20000 + id % 20000);
}

static void scenario(const char *params)
{
    char b[64];
    param_get(params, "tp", g_tp, sizeof g_tp, "tcp");
    param_get(params, "script", g_script, sizeof g_script, "T1");
    param_get(params, "style", g_style, sizeof g_style, "spec");
    param_get(params, "prop", g_prop, sizeof g_prop, "");
    param_get(params, "retry", g_retry, sizeof g_retry, "");
    param_get(params, "certs", g_certs, sizeof g_certs, "");
    A.blocking = strcmp(param_get(params, "ma", b, sizeof b, "nb"), "b") == 0;
    B.blocking = strcmp(param_get(params, "mb", b, sizeof b, "nb"), "b") == 0;
    g_fin_each = strcmp(param_get(params, "fin", b, sizeof b, "end"), "each") == 0;
    g_resend = param_int(params, "resend", 1);
    g_probe = param_int(params, "probe", 1);
    g_sig = param_int(params, "sig", 0);
    g_counters = param_int(params, "cnt", 1);
    g_bytestream = !strcmp(g_tp, "btcp") || !strcmp(g_tp, "btls");
    A.name = "A"; A.idx = 0; A.inflight = -1; A.tcp_fd = -1;
    B.name = "B"; B.idx = 1; B.inflight = -1; B.tcp_fd = -1;
    g_buf[0] = malloc(1 << 21);
    g_buf[1] = malloc(1 << 21);
    A.stream = malloc(1 << 18);
    B.stream = malloc(1 << 18);
    setenv("XCM_CTL", "/nonexistent-ctl-dir", 1);
    if (g_certs[0])
        setenv("XCM_TLS_CERT", g_certs, 1);

    struct env_cfg cfg = { .io_menu = (unsigned)param_int(params, "menu", ENV_IO_DEFAULT),
                           .sleep_monitor = 1, .only_task = -1,
                           /* bp=1: back-pressure with flow-control semantics (loop style only: both ends keep
                              reading while they wait to write, so a correct library cannot deadlock) */
                           .stall_until_read = (int)param_int(params, "bp", 0),
                           /* tf=1: one send(2) may be answered ENOBUFS/ENOMEM with the connection unaffected */
                           .fault_transient = (int)param_int(params, "tf", 0) };
    if (cfg.stall_until_read && (strcmp(g_style, "loop") || A.blocking || B.blocking))
        mc_fail("internal/bp-needs-loop-style", "bp=1 is only sound with style=loop on two non-blocking endpoints");
    env_init(&cfg);
    env_register_events();
    det_rand_install(1);
    mc_enable_signals(g_sig);
    mc_set_state_fn(state_digest);
    build_script(g_script);
    mk_addr();

    struct xcm_attr_map *at = mk_attrs(B.blocking);
    g_server = xcm_server_a(g_addr, at);
    /* utls binds a UX name derived from the port: abstract AF_UNIX names are shared by every process of the
       machine, and the port carries only pid % 20000 - step aside if somebody else's run holds it (the port is
       part of no observation, so this cannot make a replay diverge) */
    for (int k = 1; !g_server && errno == EADDRINUSE && k < 40; k++) {
        char *colon = strrchr(g_addr, ':');
        if (!colon || !strncmp(g_tp, "ux", 2))
            break;
        snprintf(colon + 1, 8, "%d", 41000 + (getpid() * 7 + k * 997) % 20000);
        g_server = xcm_server_a(g_addr, at);
    }
    xcm_attr_map_destroy(at);
    if (!g_server)
        mc_fail("internal/server-create", "xcm_server_a(%s): %s", g_addr, errname(errno));
    if (!strcmp(g_tp, "utlstls")) {
        /* the client is utls; the server is a plain tls server, so the UX attempt is refused */
        memmove(g_addr + 1, g_addr, strlen(g_addr) + 1);
        g_addr[0] = 'u';
    }

    g_t0 = env_now_ns();
    mc_task_create("A", task_a, NULL);
    mc_task_create("B", task_b, NULL);
    enum mc_end end = mc_run((int)param_int(params, "horizon", 3000));
    mc_observe("end=%d", end);
    final_checks(end);
    mc_outcome("end=%d A:pc=%d acc=%d rcv=%d eof=%d err=%s B:pc=%d acc=%d rcv=%d eof=%d err=%s bytes=%lld/%lld",
               end, A.pc, A.n_acc, A.n_rcv, A.eof_seen, errname(A.term_errno), B.pc, B.n_acc, B.n_rcv,
               B.eof_seen, errname(B.term_errno), (long long)A.bytes_rcv, (long long)B.bytes_rcv);
    if (!strcmp(g_tp, "uxf"))
        unlink(g_addr + 4);
}

int main(int argc, char **argv)
{
    return mc_main(argc, argv, scenario, NULL);
}
