/* attr_states.h - deterministic construction of XCM sockets in every reachable state (C10, C11).
 *
 * One function per state.  Everything runs in the calling thread, against the envshim with an empty
 * deviation menu (the default environment): emulated TCP, stub resolver, virtual clock.  No mcx task
 * is needed - outside an explorer execution every choice point of the shim answers "default".
 *
 *   struct as_world w;  as_world_init(&w, "tls", ip6, "file", pki_dir, run_dir);
 *   as_build(&w, "established", extra_client_attrs, extra_server_attrs)   -> 0 / -1 (w.err says why)
 *   ... use w.server / w.conn / w.accepted ...
 *   as_teardown(&w);
 *
 * transports (w.tp): ux uxf tcp tls utls btcp btls, plus two pseudo transports that put the UTLS
 * socket on its TLS leg:  utlsc = utls client -> plain tls server   (subject: w.conn)
 *                         utlss = plain tls client -> utls server   (subject: w.accepted)
 *
 * states:
 *   server            listening server socket, nothing pending
 *   resolving         xcm_connect_a(name) with the resolver silent            (TCP based only)
 *   connecting        TCP handshake never answered                            (TCP based only)
 *   handshaking       TCP established with a raw peer that says nothing: TLS handshake pending,
 *                     for tcp/btcp simply an established connection to a mute peer (TCP based only)
 *   handshaking-srv   a raw client connected to the XCM server, xcm_accept_a() done, peer mute
 *   established       both ends finished (w.conn, w.accepted)
 *   closing-c / -s    the peer has closed, the subject (c: w.conn, s: w.accepted) has not looked yet
 *   closed-c / -s     ... and the subject has seen xcm_receive() == 0
 *   reset-c / -s      the peer closed with unread data, the subject has seen the error
 *   (a refused connection is reported inside xcm_connect_a itself in the default environment - the
 *   connect completes at once - so no socket exists in that state; the failed states are the three
 *   below and reset-*)
 *   conn-timeout      tcp.connect_timeout expired (virtual clock)             (TCP based only)
 *   dns-timeout       resolver never answered, dns.timeout expired            (TCP based only)
 */
#ifndef ATTR_STATES_H
#define ATTR_STATES_H

#include "hcommon.h"

#include <arpa/inet.h>
#include <fcntl.h>
#include <netinet/in.h>
#include <sys/socket.h>
#include <sys/stat.h>

struct as_world {
    char tp[12];            /* as given (may be utlsc / utlss) */
    int ip6;
    char cred[8];           /* file | value | env */
    char pki[256];          /* /verif/build/pki */
    char run[256];          /* scratch directory of this process */
    char srv_set[32], cli_set[32];
    int port;
    char host[64];          /* 127.0.0.1 or [::1] */
    char ip[64];            /* 127.0.0.1 or ::1 */
    char saddr[320], caddr[320];
    struct xcm_socket *server, *conn, *accepted;
    int raw_listen, raw_conn;
    char state[24];
    char err[256];
    int last_errno;         /* errno of the call that put the subject into a failed state */
};

static inline int as_tcp_based(const struct as_world *w)
{
    return strcmp(w->tp, "ux") != 0 && strcmp(w->tp, "uxf") != 0;
}

static inline int as_tls_based(const struct as_world *w)
{
    return !strcmp(w->tp, "tls") || !strcmp(w->tp, "btls") || !strncmp(w->tp, "utls", 4);
}

static inline int as_bytestream(const struct as_world *w)
{
    return !strcmp(w->tp, "btcp") || !strcmp(w->tp, "btls");
}

/* the transport name as XCM spells it */
static inline const char *as_tp_name(const struct as_world *w)
{
    return !strncmp(w->tp, "utls", 4) ? "utls" : w->tp;
}

static inline void as_world_init(struct as_world *w, const char *tp, int ip6, const char *cred,
                                 const char *pki, const char *run)
{
    memset(w, 0, sizeof *w);
    snprintf(w->tp, sizeof w->tp, "%s", tp);
    w->ip6 = ip6;
    snprintf(w->cred, sizeof w->cred, "%s", cred && cred[0] ? cred : "file");
    snprintf(w->pki, sizeof w->pki, "%s", pki ? pki : "");
    snprintf(w->run, sizeof w->run, "%s", run ? run : "/tmp");
    snprintf(w->srv_set, sizeof w->srv_set, "san_5");
    snprintf(w->cli_set, sizeof w->cli_set, "good_a");
    w->port = 21000 + getpid() % 20000;
    snprintf(w->ip, sizeof w->ip, "%s", ip6 ? "::1" : "127.0.0.1");
    snprintf(w->host, sizeof w->host, "%s", ip6 ? "[::1]" : "127.0.0.1");
    w->raw_listen = w->raw_conn = -1;
    const char *stp = w->tp, *ctp = w->tp;
    if (!strcmp(w->tp, "utlsc")) {
        stp = "tls";
        ctp = "utls";
    } else if (!strcmp(w->tp, "utlss")) {
        stp = "utls";
        ctp = "tls";
    }
    if (!strcmp(w->tp, "ux")) {
        snprintf(w->saddr, sizeof w->saddr, "ux:verif-attr-%d", getpid());
        snprintf(w->caddr, sizeof w->caddr, "%s", w->saddr);
    } else if (!strcmp(w->tp, "uxf")) {
        snprintf(w->saddr, sizeof w->saddr, "uxf:%s/s%d.sock", w->run, getpid());
        snprintf(w->caddr, sizeof w->caddr, "%s", w->saddr);
    } else {
        snprintf(w->saddr, sizeof w->saddr, "%s:%s:%d", stp, w->host, w->port);
        snprintf(w->caddr, sizeof w->caddr, "%s:%s:%d", ctp, w->host, w->port);
    }
}

static inline char *as_slurp(const char *path, size_t *n)
{
    FILE *f = fopen(path, "rb");
    if (!f)
        return NULL;
    char *b = malloc(1 << 16);
    size_t k = fread(b, 1, (1 << 16) - 1, f);
    fclose(f);
    b[k] = 0;
    if (n)
        *n = k;
    return b;
}

/* attributes every socket of this world is created with: non-blocking, any service, and - for the
 * TLS based transports - the credentials of `set` in the form selected by w->cred */
static inline struct xcm_attr_map *as_base_attrs(const struct as_world *w, int tls_side, const char *set)
{
    struct xcm_attr_map *m = xcm_attr_map_create();
    xcm_attr_map_add_bool(m, "xcm.blocking", false);
    xcm_attr_map_add_str(m, "xcm.service", "any");
    if (!tls_side || !strcmp(w->cred, "env"))
        return m;
    static const char *const item[3] = { "cert", "key", "tc" };
    for (int i = 0; i < 3; i++) {
        char path[400], nm[32];
        snprintf(path, sizeof path, "%s/%s/%s.pem", w->pki, set, item[i]);
        if (!strcmp(w->cred, "value")) {
            size_t n;
            char *d = as_slurp(path, &n);
            if (d) {
                snprintf(nm, sizeof nm, "tls.%s", item[i]);
                xcm_attr_map_add_bin(m, nm, d, n);
                free(d);
            }
        } else {
            snprintf(nm, sizeof nm, "tls.%s_file", item[i]);
            xcm_attr_map_add_str(m, nm, path);
        }
    }
    return m;
}

static inline int as_side_is_tls(const struct as_world *w, int server_side)
{
    if (!strcmp(w->tp, "utlsc") || !strcmp(w->tp, "utlss"))
        return 1;
    (void)server_side;
    return as_tls_based(w);
}

static inline int as_fail(struct as_world *w, const char *what)
{
    snprintf(w->err, sizeof w->err, "%s: %s", what, errname(errno));
    return -1;
}

static inline int as_mk_server(struct as_world *w, const struct xcm_attr_map *extra)
{
    struct xcm_attr_map *m = as_base_attrs(w, as_side_is_tls(w, 1), w->srv_set);
    if (as_tls_based(w)) {
        /* acceptable peer names: makes tls.peer_names readable on the server and exercises the
           setter's replace path (the client certificate good_a carries both names) */
        xcm_attr_map_add_bool(m, "tls.verify_peer_name", true);
        xcm_attr_map_add_str(m, "tls.peer_names", "alpha.verif.test:peer.verif.test");
    }
    if (extra)
        xcm_attr_map_add_all(m, extra);
    if (!strcmp(w->tp, "uxf"))
        unlink(w->saddr + 4);
    w->server = xcm_server_a(w->saddr, m);
    xcm_attr_map_destroy(m);
    return w->server ? 0 : as_fail(w, "xcm_server_a");
}

static inline int as_mk_conn(struct as_world *w, const char *addr, const struct xcm_attr_map *extra)
{
    struct xcm_attr_map *m = as_base_attrs(w, as_side_is_tls(w, 0), w->cli_set);
    if (extra)
        xcm_attr_map_add_all(m, extra);
    w->conn = xcm_connect_a(addr, m);
    xcm_attr_map_destroy(m);
    return w->conn ? 0 : as_fail(w, "xcm_connect_a");
}

static inline int as_raw_listener(struct as_world *w)
{
    int fam = w->ip6 ? AF_INET6 : AF_INET;
    int fd = socket(fam, SOCK_STREAM | SOCK_NONBLOCK, 0);
    if (fd < 0)
        return as_fail(w, "raw socket");
    env_set_raw(fd);
    int rc;
    if (w->ip6) {
        struct sockaddr_in6 a = { .sin6_family = AF_INET6, .sin6_port = htons(w->port) };
        inet_pton(AF_INET6, "::1", &a.sin6_addr);
        rc = bind(fd, (struct sockaddr *)&a, sizeof a);
    } else {
        struct sockaddr_in a = { .sin_family = AF_INET, .sin_port = htons(w->port) };
        inet_pton(AF_INET, "127.0.0.1", &a.sin_addr);
        rc = bind(fd, (struct sockaddr *)&a, sizeof a);
    }
    if (rc < 0 || listen(fd, 8) < 0) {
        close(fd);
        return as_fail(w, "raw listen");
    }
    w->raw_listen = fd;
    return 0;
}

static inline int as_raw_connect(struct as_world *w)
{
    int fam = w->ip6 ? AF_INET6 : AF_INET;
    int fd = socket(fam, SOCK_STREAM | SOCK_NONBLOCK, 0);
    if (fd < 0)
        return as_fail(w, "raw socket");
    env_set_raw(fd);
    int rc;
    if (w->ip6) {
        struct sockaddr_in6 a = { .sin6_family = AF_INET6, .sin6_port = htons(w->port) };
        inet_pton(AF_INET6, "::1", &a.sin6_addr);
        rc = connect(fd, (struct sockaddr *)&a, sizeof a);
    } else {
        struct sockaddr_in a = { .sin_family = AF_INET, .sin_port = htons(w->port) };
        inet_pton(AF_INET, "127.0.0.1", &a.sin_addr);
        rc = connect(fd, (struct sockaddr *)&a, sizeof a);
    }
    if (rc < 0 && errno != EINPROGRESS) {
        close(fd);
        return as_fail(w, "raw connect");
    }
    w->raw_conn = fd;
    return 0;
}

/* ---- one function per state ------------------------------------------------------------------- */

static inline int as_state_server(struct as_world *w, const struct xcm_attr_map *xs)
{
    return as_mk_server(w, xs);
}

static inline int as_state_resolving(struct as_world *w, const struct xcm_attr_map *xc)
{
    const char *ips[1] = { w->ip };
    env_dns_set("silent.verif.test", ips, 1, ENV_DNS_SILENT);
    char addr[320];
    snprintf(addr, sizeof addr, "%s:silent.verif.test:%d", as_tp_name(w), w->port);
    return as_mk_conn(w, addr, xc);
}

static inline int as_state_connecting(struct as_world *w, const struct xcm_attr_map *xc)
{
    env_policy_set(w->ip, ENV_SILENT);
    return as_mk_conn(w, w->caddr, xc);
}

static inline int as_state_handshaking(struct as_world *w, const struct xcm_attr_map *xc)
{
    if (as_raw_listener(w) < 0)
        return -1;
    if (as_mk_conn(w, w->caddr, xc) < 0)
        return -1;
    w->raw_conn = accept4(w->raw_listen, NULL, NULL, SOCK_NONBLOCK);
    if (w->raw_conn >= 0)
        env_set_raw(w->raw_conn);
    for (int i = 0; i < 5; i++)
        xcm_finish(w->conn);         /* TCP done, ClientHello out; the peer stays mute */
    return 0;
}

static inline int as_state_handshaking_srv(struct as_world *w, const struct xcm_attr_map *xs)
{
    if (as_mk_server(w, xs) < 0)
        return -1;
    if (as_raw_connect(w) < 0)
        return -1;
    struct xcm_attr_map *m = xcm_attr_map_create();
    xcm_attr_map_add_bool(m, "xcm.blocking", false);
    for (int i = 0; i < 20 && !w->accepted; i++)
        w->accepted = xcm_accept_a(w->server, m);
    xcm_attr_map_destroy(m);
    if (!w->accepted)
        return as_fail(w, "xcm_accept_a");
    for (int i = 0; i < 5; i++)
        xcm_finish(w->accepted);
    return 0;
}

static inline int as_state_established(struct as_world *w, const struct xcm_attr_map *xc,
                                       const struct xcm_attr_map *xs)
{
    if (as_mk_server(w, xs) < 0)
        return -1;
    if (as_mk_conn(w, w->caddr, xc) < 0)
        return -1;
    struct xcm_attr_map *m = xcm_attr_map_create();
    xcm_attr_map_add_bool(m, "xcm.blocking", false);
    int ok = 0;
    for (int i = 0; i < 400 && !ok; i++) {
        if (!w->accepted)
            w->accepted = xcm_accept_a(w->server, m);
        int f1 = xcm_finish(w->conn);
        int e1 = errno;
        int f2 = w->accepted ? xcm_finish(w->accepted) : -1;
        int e2 = errno;
        if (f1 < 0 && e1 != EAGAIN) {
            errno = e1;
            xcm_attr_map_destroy(m);
            return as_fail(w, "xcm_finish(conn) while establishing");
        }
        if (w->accepted && f2 < 0 && e2 != EAGAIN) {
            errno = e2;
            xcm_attr_map_destroy(m);
            return as_fail(w, "xcm_finish(accepted) while establishing");
        }
        ok = w->accepted && f1 == 0 && f2 == 0;
    }
    xcm_attr_map_destroy(m);
    if (!ok) {
        errno = EAGAIN;
        return as_fail(w, "connection did not get established in 400 rounds");
    }
    return 0;
}

/* subject: 'c' = w->conn stays, the accepted end goes away; 's' = the other way round */
static inline struct xcm_socket **as_subject(struct as_world *w, int side)
{
    return side == 'c' ? &w->conn : &w->accepted;
}

static inline struct xcm_socket **as_peer(struct as_world *w, int side)
{
    return side == 'c' ? &w->accepted : &w->conn;
}

static inline int as_state_closing(struct as_world *w, int side, const struct xcm_attr_map *xc,
                                   const struct xcm_attr_map *xs)
{
    if (as_state_established(w, xc, xs) < 0)
        return -1;
    struct xcm_socket **p = as_peer(w, side);
    xcm_close(*p);
    *p = NULL;
    return 0;
}

static inline int as_state_closed(struct as_world *w, int side, const struct xcm_attr_map *xc,
                                  const struct xcm_attr_map *xs)
{
    if (as_state_closing(w, side, xc, xs) < 0)
        return -1;
    struct xcm_socket *s = *as_subject(w, side);
    unsigned char b[64];
    int rc = -1;
    for (int i = 0; i < 50; i++) {
        rc = xcm_receive(s, b, sizeof b);
        if (!(rc < 0 && errno == EAGAIN))
            break;
    }
    w->last_errno = rc < 0 ? errno : 0;
    if (rc != 0) {
        snprintf(w->err, sizeof w->err, "subject did not see end-of-stream: rc=%d %s", rc, rc < 0 ? errname(errno) : "");
        return -1;
    }
    return 0;
}

static inline int as_state_reset(struct as_world *w, int side, const struct xcm_attr_map *xc,
                                 const struct xcm_attr_map *xs)
{
    if (as_state_established(w, xc, xs) < 0)
        return -1;
    struct xcm_socket *s = *as_subject(w, side);
    struct xcm_socket **p = as_peer(w, side);
    unsigned char b[64] = { 1, 2, 3 };
    if (xcm_send(s, b, 3) < 0)
        return as_fail(w, "xcm_send before reset");
    for (int i = 0; i < 20 && xcm_finish(s) < 0 && errno == EAGAIN; i++)
        ;
    xcm_close(*p);                  /* unread data at the closing side = reset */
    *p = NULL;
    int rc = -1;
    for (int i = 0; i < 50; i++) {
        rc = xcm_receive(s, b, sizeof b);
        if (!(rc < 0 && errno == EAGAIN))
            break;
    }
    w->last_errno = rc < 0 ? errno : 0;
    return 0;                       /* rc 0 (TLS close_notify first) or -1/ECONNRESET: both are "gone" */
}

static inline int as_finish_until_error(struct as_world *w)
{
    int rc = -1;
    for (int i = 0; i < 50; i++) {
        rc = xcm_finish(w->conn);
        if (!(rc < 0 && errno == EAGAIN))
            break;
    }
    w->last_errno = rc < 0 ? errno : 0;
    if (rc == 0) {
        snprintf(w->err, sizeof w->err, "xcm_finish succeeded although the attempt must fail");
        return -1;
    }
    if (errno == EAGAIN) {
        snprintf(w->err, sizeof w->err, "xcm_finish still EAGAIN after 50 rounds");
        return -1;
    }
    return 0;
}

static inline int as_state_refused(struct as_world *w, const struct xcm_attr_map *xc)
{
    env_policy_set(w->ip, ENV_REFUSE);
    if (as_mk_conn(w, w->caddr, xc) < 0)
        return -1;
    return as_finish_until_error(w);
}

static inline int as_state_conn_timeout(struct as_world *w, const struct xcm_attr_map *xc)
{
    if (as_state_connecting(w, xc) < 0)
        return -1;
    xcm_finish(w->conn);
    env_advance_ns(20LL * 1000000000LL);
    return as_finish_until_error(w);
}

static inline int as_state_dns_timeout(struct as_world *w, const struct xcm_attr_map *xc)
{
    if (as_state_resolving(w, xc) < 0)
        return -1;
    xcm_finish(w->conn);
    env_advance_ns(60LL * 1000000000LL);
    return as_finish_until_error(w);
}

/* which states exist for which transport */
static inline int as_state_applicable(const struct as_world *w, const char *state)
{
    int tcpb = as_tcp_based(w);
    int leg = !strcmp(w->tp, "utlsc") || !strcmp(w->tp, "utlss");
    if (!strcmp(state, "resolving") || !strcmp(state, "connecting") || !strcmp(state, "handshaking") ||
        !strcmp(state, "refused") || !strcmp(state, "conn-timeout") || !strcmp(state, "dns-timeout"))
        return tcpb && !leg;
    if (!strcmp(state, "handshaking-srv"))
        return tcpb && strcmp(w->tp, "utlsc") != 0;
    if (!strcmp(state, "server"))
        return !leg;
    return 1;
}

static inline int as_build(struct as_world *w, const char *state, const struct xcm_attr_map *xc,
                           const struct xcm_attr_map *xs)
{
    snprintf(w->state, sizeof w->state, "%s", state);
    if (!as_state_applicable(w, state)) {
        snprintf(w->err, sizeof w->err, "state %s does not exist for transport %s", state, w->tp);
        return -1;
    }
    if (!strcmp(state, "server")) return as_state_server(w, xs);
    if (!strcmp(state, "resolving")) return as_state_resolving(w, xc);
    if (!strcmp(state, "connecting")) return as_state_connecting(w, xc);
    if (!strcmp(state, "handshaking")) return as_state_handshaking(w, xc);
    if (!strcmp(state, "handshaking-srv")) return as_state_handshaking_srv(w, xs);
    if (!strcmp(state, "established")) return as_state_established(w, xc, xs);
    if (!strcmp(state, "closing-c")) return as_state_closing(w, 'c', xc, xs);
    if (!strcmp(state, "closing-s")) return as_state_closing(w, 's', xc, xs);
    if (!strcmp(state, "closed-c")) return as_state_closed(w, 'c', xc, xs);
    if (!strcmp(state, "closed-s")) return as_state_closed(w, 's', xc, xs);
    if (!strcmp(state, "reset-c")) return as_state_reset(w, 'c', xc, xs);
    if (!strcmp(state, "reset-s")) return as_state_reset(w, 's', xc, xs);
    if (!strcmp(state, "refused")) return as_state_refused(w, xc);
    if (!strcmp(state, "conn-timeout")) return as_state_conn_timeout(w, xc);
    if (!strcmp(state, "dns-timeout")) return as_state_dns_timeout(w, xc);
    snprintf(w->err, sizeof w->err, "unknown state %s", state);
    return -1;
}

static inline void as_teardown(struct as_world *w)
{
    if (w->conn) xcm_close(w->conn);
    if (w->accepted) xcm_close(w->accepted);
    if (w->server) xcm_close(w->server);
    w->conn = w->accepted = w->server = NULL;
    if (w->raw_conn >= 0) close(w->raw_conn);
    if (w->raw_listen >= 0) close(w->raw_listen);
    w->raw_conn = w->raw_listen = -1;
    if (!strcmp(w->tp, "uxf"))
        unlink(w->saddr + 4);
}

/* the environment every C10/C11 process starts from */
static inline void as_env_start(void)
{
    setenv("XCM_CTL", "/nonexistent-ctl-dir", 1);
    struct env_cfg cfg = { .io_menu = 0, .sleep_monitor = 0, .only_task = -1 };
    env_init(&cfg);
    det_rand_install(1);
}

#endif
