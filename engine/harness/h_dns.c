/* h_dns - C13: name resolution and multi-address connect follow the selected algorithm.
 *
 * ONE explorer run enumerates MANY world tables: the table itself is chosen by a sequence of FREE
 * choice points (cost 0, labels "T:...") taken before anything else happens, so the explorer's
 * frontier = (every table of the slice named by the parameters) x (every event order / environment
 * deviation with <= D deviations inside that table).  The number of tables of a slice is measured by a
 * level-0 run with count=1 (level 0 of a normal run also holds the free event orders of each table).
 *
 * A world table = resolver answer list (1..maxlen entries over {v4a,v4b,v6a,v6b}) x policy of every
 * address that occurs (accepts / refuses / silent) x resolver behaviour (answers at once, late, fails,
 * fails late, silent) x dns.algorithm x xcm.local_addr (none, v4/v6 literal with port 0 or a fixed port)
 * x tcp.connect_timeout (default 3 s / 0.5 s) x dns.timeout (default 10 s / 2 s) x the call that drives
 * the connection (xcm_finish / xcm_send / xcm_receive).
 *
 * params (all bit masks select the alternatives offered at the corresponding table choice point):
 *   tp=btcp|tcp|btls|tls|utls   fam=conn|cap|server   (cap: total=<entries> hit=<index of the only accepting entry>;
 *                               server: xcm_server on a name that is unknown / fails / fails late / silent / late / ok)
 *   count=1                     table census: stop after choosing the table (level 0 = one execution per table)
 *   minlen= maxlen=             list length range
 *   naddr=4|3                   address alphabet (3: without v6b; forced with XCM servers)
 *   canon=0|1                   1: only lists in which v4b/v6b occur after v4a/v6a (renaming symmetry)
 *   algs=   1 single 2 sequential 4 happy_eyeballs 8 (attribute unset = default)
 *   dns=    1 now 2 late 4 fails 8 fails-late 16 silent
 *   laddrs= 1 none 2 v4:0 4 v4:fixed 8 v6:0 16 v6:fixed
 *   ctos=   1 default 2 short     dnstos= 1 default 2 short      probes= 1 finish 2 send 4 receive
 *   pols=   1 accept 2 refuse 4 silent   (policies offered per address)
 *   opts=   1 default tcp.* options 2 non-default ones in the creation map (C11: options in force on the descriptor
 *                               that carries the connection, whichever address / family / track it was made on)
 *   certs=<dir>                 TLS credentials (tls-class transports use real XCM servers as peers)
 */
#define _GNU_SOURCE
#include "hcommon.h"

#include <arpa/inet.h>
#include <fcntl.h>
#include <netinet/in.h>
#include <netinet/tcp.h>
#include <sys/epoll.h>
#include <sys/socket.h>

#define PORT 4711
#define LPORT 36001
#define NS 1000000000LL
#define SLACK_NS 20000000LL         /* 20 ms: covers the +1 us the clock event adds per expiry */

static const char *ADDR[4] = { "127.0.0.1", "127.0.0.2", "::1", "fd00::2" };
static const char *ANAME[4] = { "v4a", "v4b", "v6a", "v6b" };
static const int AFAM[4] = { 4, 4, 6, 6 };
static const char *LADDR4 = "127.0.0.9", *LADDR6 = "fd00::9";

enum { POL_ACCEPT = 0, POL_REFUSE, POL_SILENT };
enum { ALG_SINGLE = 0, ALG_SEQ, ALG_HE, ALG_UNSET };
enum { DNS_NOW = 0, DNS_LATE, DNS_FAIL, DNS_FAIL_LATE, DNS_SILENT };
enum { LA_NONE = 0, LA_V4_0, LA_V4_FIXED, LA_V6_0, LA_V6_FIXED };
enum { PR_FINISH = 0, PR_SEND, PR_RECEIVE };
enum { EFF_A = 0, EFF_R, EFF_S, EFF_M };

static const char *ALGN[] = { "single", "sequential", "happy_eyeballs", "unset" };
static const char *DNSN[] = { "now", "late", "fails", "fails-late", "silent" };
static const char *LAN[] = { "none", "v4:0", "v4:fixed", "v6:0", "v6:fixed" };
static const char *LAK[] = { "none", "port0", "port", "port0", "port" };
static const char *ALGS[] = { "single", "sequential", "happy", "unset" };      /* in signatures */
static const char *PRN[] = { "xcm_finish", "xcm_send", "xcm_receive" };
static const char *POLN[] = { "accept", "refuse", "silent" };

static char g_tp[16], g_fam[16], g_certs[256];
static int g_bytestream, g_tlsclass, g_xsrv;

/* the table */
static int t_alg, t_dns, t_laddr, t_cto, t_dnsto, t_probe, t_len;
static int t_list[40], t_pol[4], t_used[4];
static int64_t g_cto_ns, g_dnsto_ns;
static char t_desc[200];
static int t_cap_hit = -1;
static int t_opts;              /* 1: non-default tcp.* values in the creation map (C11 in-force oracle) */

/* results of the client */
static int g_cli_done, g_connected, g_errno;
static const char *g_by = "";
static char g_remote[96], g_local[96];
static int64_t g_t0, g_t_end;
static int g_calls;

/* attempt bookkeeping */
static int g_seen_conn;
static int64_t g_att_start[260];
static int64_t g_last_now, g_slow_ns;
static int g_last_pending, g_last_ready;
static int g_cli_fd = -1;

/* server side */
static struct xcm_socket *g_xl[2];
static int g_rawl[2] = { -1, -1 };
static int g_need_srv;

static const char *ename(int e)
{
    return e == EAFNOSUPPORT ? "EAFNOSUPPORT" : errname(e);
}

static void addr_host(const char *xa, char *out, size_t n, int *port);
static int same_ip(const char *a, const char *b);

static void sample(void)
{
    /* virtual time that passed while the environment withheld the answer to an attempt it would
       answer, or while the application had a wake-up it had not serviced yet: only then can an
       attempt to an accepting/refusing address end in ETIMEDOUT */
    int64_t now = env_now_ns();
    if (now != g_last_now && (g_last_pending > 0 || g_last_ready))
        g_slow_ns += now - g_last_now;
    g_last_now = now;
    g_last_pending = env_pending_connects();
    g_last_ready = 0;
    if (g_cli_fd >= 0) {
        struct pollfd p = { .fd = g_cli_fd, .events = POLLIN };
        g_last_ready = poll(&p, 1, 0) > 0 && (p.revents & POLLIN);
    }
}

/* Overwrite the dead part of the calling task's stack: whatever an API call left in its own
   (returned) frames is gone, as it would be after the application has called anything else.  A pointer
   the library kept into such a frame now reads 0xA5.. deterministically (plain build; the asan build
   reports the access itself). */
static void __attribute__((noinline)) scrub_stack(void)
{
    volatile unsigned char pad[200 * 1024];
    for (size_t i = 0; i < sizeof pad; i++)
        pad[i] = 0xA5;
}

static void note(void)
{
    scrub_stack();
    sample();
    int n = env_connect_log_count();
    for (; g_seen_conn < n && g_seen_conn < 260; g_seen_conn++)
        g_att_start[g_seen_conn] = env_now_ns();
}

static uint64_t state_digest(void)
{
    sample();
    uint64_t h = 29;
    h = mc_hash_bytes(h, t_desc, strlen(t_desc));
    h = mc_hash_mix(h, (uint64_t)g_calls * 8 + g_cli_done * 4 + g_connected * 2);
    h = mc_hash_mix(h, g_errno);
    h = mc_hash_mix(h, env_now_ns());
    h = mc_hash_mix(h, env_pending_connects() * 1000 + env_connect_log_count() * 10 + env_bind_log_count());
    return h;
}

/* ---- table selection ---------------------------------------------------------------------- */
static int pick(unsigned mask, int nvals, const char *label)
{
    int vals[16], n = 0;
    for (int i = 0; i < nvals; i++)
        if (mask & (1u << i))
            vals[n++] = i;
    if (n == 0)
        mc_fail("internal/empty-dimension", "no alternative for %s", label);
    int c = mc_choose_mask(n, MC_EVENT, label, 0);
    return vals[c];
}

static void choose_table(const char *params)
{
    unsigned algs = param_int(params, "algs", 7), dns = param_int(params, "dns", 3);
    unsigned laddrs = param_int(params, "laddrs", 7), ctos = param_int(params, "ctos", 3);
    unsigned dnstos = param_int(params, "dnstos", 1), probes = param_int(params, "probes", 1);
    unsigned pols = param_int(params, "pols", 7);
    int minlen = param_int(params, "minlen", 1), maxlen = param_int(params, "maxlen", 3);
    int naddr = param_int(params, "naddr", 4), canon = param_int(params, "canon", 0);
    if (g_xsrv)
        naddr = 3;
    t_alg = pick(algs, 4, "T:alg");
    t_dns = pick(dns, 5, "T:dns");
    t_laddr = pick(laddrs, 5, "T:laddr");
    t_probe = pick(probes, 3, "T:probe");
    t_opts = pick(param_int(params, "opts", 1), 2, "T:tcp-opts");
    int dns_ok = t_dns == DNS_NOW || t_dns == DNS_LATE;
    if (!strcmp(g_fam, "cap")) {
        /* the 32-entry cap of the result: 31 x v4a, then v4b at position capidx, v4a behind it */
        int total = param_int(params, "total", 33), hit = param_int(params, "hit", 31);
        t_len = total > 40 ? 40 : total;
        t_cap_hit = hit;
        for (int i = 0; i < t_len; i++)
            t_list[i] = i == hit ? 1 : 0;
        t_used[0] = t_used[1] = 1;
        t_pol[0] = param_int(params, "fill", POL_REFUSE);
        t_pol[1] = POL_ACCEPT;
    } else if (!dns_ok) {
        /* the list is never delivered */
        t_len = 1;
        t_list[0] = 0;
        t_used[0] = 1;
        t_pol[0] = POL_ACCEPT;
    } else {
        t_len = minlen + mc_choose_mask(maxlen - minlen + 1, MC_EVENT, "T:len", 0);
        for (int i = 0; i < t_len; i++) {
            unsigned m = 0;
            for (int a = 0; a < naddr; a++) {
                if (canon && (a == 1 || a == 3) && !t_used[a - 1])
                    continue;
                m |= 1u << a;
            }
            char lb[16];
            snprintf(lb, sizeof lb, "T:addr%d", i);
            int a = pick(m, 4, lb);
            t_list[i] = a;
            if (!t_used[a]) {
                t_used[a] = 1;
                snprintf(lb, sizeof lb, "T:pol-%s", ANAME[a]);
                t_pol[a] = pick(pols, 3, lb);
            }
        }
    }
    /* a short tcp.connect_timeout is crossed with every table of the slice: an attempt withheld by the
       environment can reach it too, not only a silent address */
    t_cto = dns_ok ? pick(ctos, 2, "T:cto") : 0;
    t_dnsto = (t_dns == DNS_LATE || t_dns == DNS_SILENT || t_dns == DNS_FAIL_LATE) ? pick(dnstos, 2, "T:dnsto") : 0;
    g_cto_ns = t_cto ? NS / 2 : 3 * NS;
    g_dnsto_ns = t_dnsto ? 2 * NS : 10 * NS;

    size_t o = 0;
    o += snprintf(t_desc + o, sizeof t_desc - o, "alg=%s dns=%s laddr=%s cto=%s dnsto=%s by=%s list=", ALGN[t_alg],
                  DNSN[t_dns], LAN[t_laddr], t_cto ? "0.5" : "3", t_dnsto ? "2" : "10", PRN[t_probe]);
    for (int i = 0; i < t_len && o + 24 < sizeof t_desc; i++) {
        if (i >= 4 && i < t_len - 3) {
            if (i == 4)
                o += snprintf(t_desc + o, sizeof t_desc - o, "...,");
            continue;
        }
        o += snprintf(t_desc + o, sizeof t_desc - o, "%s%s:%s", i ? "," : "", ANAME[t_list[i]], POLN[t_pol[t_list[i]]]);
    }
}

/* ---- environment --------------------------------------------------------------------------- */
static void fmt_host(char *out, size_t n, const char *ip)
{
    if (strchr(ip, ':'))
        snprintf(out, n, "[%s]", ip);
    else
        snprintf(out, n, "%s", ip);
}

static int raw_listener(int family)
{
    int fd = socket(family, SOCK_STREAM | SOCK_NONBLOCK, 0);
    if (fd < 0)
        mc_fail("internal/raw-socket", "socket: %s", errname(errno));
    env_set_raw(fd);
    int one = 1;
    setsockopt(fd, SOL_SOCKET, SO_REUSEADDR, &one, sizeof one);
    struct sockaddr_storage ss;
    memset(&ss, 0, sizeof ss);
    socklen_t l;
    if (family == AF_INET) {
        struct sockaddr_in *a = (void *)&ss;
        a->sin_family = AF_INET;
        a->sin_port = htons(PORT);
        l = sizeof *a;
    } else {
        struct sockaddr_in6 *a = (void *)&ss;
        a->sin6_family = AF_INET6;
        a->sin6_port = htons(PORT);
        l = sizeof *a;
    }
    if (bind(fd, (struct sockaddr *)&ss, l) < 0)
        mc_fail("internal/raw-bind", "raw listener bind: %s", errname(errno));
    return fd;
}

static void world_setup(void)
{
    env_local_addr_add("fd00::2");
    env_local_addr_add(LADDR6);
    static const enum env_policy P[] = { ENV_AUTO, ENV_REFUSE, ENV_SILENT };
    int acc4 = 0, acc6 = 0;
    for (int a = 0; a < 4; a++) {
        /* addresses outside the list are never to be contacted: they refuse */
        env_policy_set(ADDR[a], t_used[a] ? P[t_pol[a]] : ENV_REFUSE);
        if (t_used[a] && t_pol[a] == POL_ACCEPT)
            (AFAM[a] == 4 ? (acc4 = 1) : (acc6 = 1));
    }
    if (g_xsrv) {
        /* real XCM servers: one per family; v4 wildcard, v6 on ::1 (naddr = 3) */
        struct xcm_attr_map *at = xcm_attr_map_create();
        xcm_attr_map_add_bool(at, "xcm.blocking", false);
        xcm_attr_map_add_str(at, "xcm.service", "any");
        const char *stp = !strcmp(g_tp, "utls") ? "tls" : g_tp;
        char addr[96];
        if (acc4) {
            snprintf(addr, sizeof addr, "%s:0.0.0.0:%d", stp, PORT);
            g_xl[0] = API("xcm_server_a", 1, xcm_server_a(addr, at));
            if (!g_xl[0])
                mc_fail("internal/xcm-server", "xcm_server_a(%s): %s", addr, errname(errno));
        }
        if (acc6) {
            snprintf(addr, sizeof addr, "%s:[::1]:%d", stp, PORT);
            g_xl[1] = API("xcm_server_a", 1, xcm_server_a(addr, at));
            if (!g_xl[1])
                mc_fail("internal/xcm-server", "xcm_server_a(%s): %s", addr, errname(errno));
        }
        xcm_attr_map_destroy(at);
    } else {
        /* raw wildcard listeners, both bound before either listens (no dual-stack conflict);
           which addresses answer is decided by the policy table */
        if (acc4)
            g_rawl[0] = raw_listener(AF_INET);
        if (acc6)
            g_rawl[1] = raw_listener(AF_INET6);
        for (int i = 0; i < 2; i++)
            if (g_rawl[i] >= 0 && listen(g_rawl[i], 64) < 0)
                mc_fail("internal/raw-listen", "listen: %s", errname(errno));
    }
    const char *ips[40];
    for (int i = 0; i < t_len; i++)
        ips[i] = ADDR[t_list[i]];
    static const enum env_dns_mode M[] = { ENV_DNS_NOW, ENV_DNS_LATE, ENV_DNS_FAIL, ENV_DNS_FAIL_LATE, ENV_DNS_SILENT };
    env_dns_set("h.verif.test", ips, t_len, M[t_dns]);
}

/* ---- server task (XCM servers, or raw listeners when the client waits for data) ------------------ */
#define MAXC 6
static void srv_task(void *arg)
{
    (void)arg;
    struct xcm_socket *xc[MAXC] = { 0 };
    int xsent[MAXC] = { 0 };
    int rc_[MAXC], nraw = 0;
    int ep = epoll_create1(0);
    struct epoll_event ev = { .events = EPOLLIN };
    for (int i = 0; i < 2; i++) {
        if (g_xl[i])
            epoll_ctl(ep, EPOLL_CTL_ADD, xcm_fd(g_xl[i]), &ev);
        if (g_rawl[i] >= 0)
            epoll_ctl(ep, EPOLL_CTL_ADD, g_rawl[i], &ev);
    }
    struct xcm_attr_map *at = xcm_attr_map_create();
    xcm_attr_map_add_bool(at, "xcm.blocking", false);
    static const unsigned char tcpmsg[5] = { 0, 0, 0, 1, 'x' };
    while (!g_cli_done) {
        for (int i = 0; i < 2; i++)
            if (g_xl[i])
                API("xcm_await", 1, xcm_await(g_xl[i], XCM_SO_ACCEPTABLE));
        for (int i = 0; i < MAXC; i++)
            if (xc[i])
                API("xcm_await", 1, xcm_await(xc[i], XCM_SO_RECEIVABLE));
        mc_wait_readable(ep, "srv-wait");
        if (g_cli_done)
            break;
        int progressed = 0;
        for (int i = 0; i < 2; i++) {
            if (g_xl[i]) {
                struct xcm_socket *c = API("xcm_accept_a", 1, xcm_accept_a(g_xl[i], at));
                if (c) {
                    progressed = 1;
                    int k = 0;
                    while (k < MAXC && xc[k])
                        k++;
                    if (k == MAXC) {
                        API("xcm_close", 1, xcm_close(c));
                    } else {
                        xc[k] = c;
                        xsent[k] = 0;
                        epoll_ctl(ep, EPOLL_CTL_ADD, xcm_fd(c), &ev);
                    }
                }
            }
            if (g_rawl[i] >= 0) {
                int fd = accept4(g_rawl[i], NULL, NULL, SOCK_NONBLOCK);
                if (fd >= 0) {
                    progressed = 1;
                    env_set_raw(fd);
                    if (g_bytestream)
                        send(fd, "x", 1, MSG_NOSIGNAL);
                    else
                        send(fd, tcpmsg, sizeof tcpmsg, MSG_NOSIGNAL);
                    if (nraw < MAXC)
                        rc_[nraw++] = fd;
                }
            }
        }
        for (int i = 0; i < MAXC; i++) {
            if (!xc[i])
                continue;
            int dead = 0;
            if (!xsent[i]) {
                int rc = API("xcm_send", 1, xcm_send(xc[i], "x", 1));
                if (rc >= 0) {
                    xsent[i] = 1;
                    progressed = 1;
                } else if (errno != EAGAIN)
                    dead = 1;
            } else {
                int rc = API("xcm_finish", 1, xcm_finish(xc[i]));
                if (rc < 0 && errno != EAGAIN)
                    dead = 1;
                char b[8];
                rc = API("xcm_receive", 1, xcm_receive(xc[i], b, sizeof b));
                if (rc == 0 || (rc < 0 && errno != EAGAIN))
                    dead = 1;
                if (rc > 0)
                    progressed = 1;
            }
            if (dead) {
                epoll_ctl(ep, EPOLL_CTL_DEL, xcm_fd(xc[i]), NULL);
                API("xcm_close", 1, xcm_close(xc[i]));
                xc[i] = NULL;
                progressed = 1;
            }
        }
        mc_set_progress(progressed);
    }
    for (int i = 0; i < MAXC; i++)
        if (xc[i])
            API("xcm_close", 1, xcm_close(xc[i]));
    for (int i = 0; i < nraw; i++)
        close(rc_[i]);
    xcm_attr_map_destroy(at);
    close(ep);
}

/* ---- C11: the tcp.* options are in force on the descriptor that carries the connection --------------- */
static void in_force(struct xcm_socket *s, const char *when)
{
    /* the descriptor: the one the last connect() to the connected address was issued on */
    char rhost[64], ip[64];
    int rport, cfd = -1, a0 = t_list[0], ra = -1;
    addr_host(g_remote, rhost, sizeof rhost, &rport);
    for (int i = 0; i < env_connect_log_count(); i++) {
        int fd, port;
        env_connect_log_entry(i, &fd, ip, sizeof ip, &port);
        if (rhost[0] && same_ip(ip, rhost))
            cfd = fd;
    }
    for (int a = 0; a < 4; a++)
        if (rhost[0] && same_ip(rhost, ADDR[a]))
            ra = a;
    if (cfd < 0 || ra < 0 || !env_is_emulated_tcp(cfd))
        return;
    const char *fam = AFAM[ra] == AFAM[a0] ? "first" : "other";
    static const struct { const char *attr; int level, opt, dflt, scale, is_bool; } O[] = {
        { "tcp.keepalive", SOL_SOCKET, SO_KEEPALIVE, 0, 1, 1 },
        { "tcp.keepalive_time", SOL_TCP, TCP_KEEPIDLE, 7200, 1, 0 },
        { "tcp.keepalive_interval", SOL_TCP, TCP_KEEPINTVL, 75, 1, 0 },
        { "tcp.keepalive_count", SOL_TCP, TCP_KEEPCNT, 9, 1, 0 },
        { "tcp.user_timeout", SOL_TCP, TCP_USER_TIMEOUT, 0, 1000, 0 },
    };
    for (size_t k = 0; k < sizeof O / sizeof O[0]; k++) {
        int64_t want;
        if (O[k].is_bool) {
            bool b;
            if (API("xcm_attr_get", 1, xcm_attr_get_bool(s, O[k].attr, &b)) < 0)
                continue;
            want = b;
        } else {
            int64_t v;
            if (API("xcm_attr_get", 1, xcm_attr_get_int64(s, O[k].attr, &v)) < 0)
                continue;
            want = v * O[k].scale;
        }
        int have = O[k].dflt;
        env_sockopt_get(cfd, O[k].level, O[k].opt, &have);     /* never set: the kernel's default stays */
        mc_count(7, 1);
        if (have != want) {
            char sig[200];
            snprintf(sig, sizeof sig, "C11/not-in-force/%s/alg=%s/connected-on=%s-family/tp=%s", O[k].attr, ALGS[t_alg], fam, g_tp);
            mc_violation(sig, "%s: xcm_attr_get(%s) says %lld (socket option value %lld) but the descriptor that carries the "
                         "connection to %s has %d (%s) [%s]", when, O[k].attr, (long long)(want / O[k].scale), (long long)want,
                         g_remote, have, env_sockopt_get(cfd, O[k].level, O[k].opt, &have) < 0 ?
                         "never set on it: kernel default" : "last value set", t_desc);
        }
    }
    int nd = 0;
    if (env_sockopt_get(cfd, SOL_TCP, TCP_NODELAY, &nd) < 0 || nd != 1)
        mc_info("C11/info/nodelay-not-set", "TCP_NODELAY is not set on the descriptor that carries the connection "
                "(connected on the %s family of the answer) [%s]", fam, t_desc);
}

/* ---- client task ------------------------------------------------------------------------------ */
static void cli_done(int connected, int err, const char *by)
{
    g_connected = connected;
    g_errno = err;
    g_by = by;
    g_t_end = env_now_ns();
    g_cli_done = 1;
    mc_observe("outcome: %s%s reported by %s after %lld ms", connected ? "connected" : "failed ",
               connected ? "" : ename(err), by, (long long)((g_t_end - g_t0) / 1000000));
}

static void cli_task(void *arg)
{
    (void)arg;
    char addr[128], la[128], host[64];
    struct xcm_attr_map *a = xcm_attr_map_create();
    xcm_attr_map_add_bool(a, "xcm.blocking", false);
    xcm_attr_map_add_str(a, "xcm.service", "any");
    if (t_alg != ALG_UNSET)
        xcm_attr_map_add_str(a, "dns.algorithm", ALGN[t_alg]);
    if (t_laddr != LA_NONE) {
        fmt_host(host, sizeof host, (t_laddr == LA_V4_0 || t_laddr == LA_V4_FIXED) ? LADDR4 : LADDR6);
        snprintf(la, sizeof la, "%s:%s:%d", g_tp, host,
                 (t_laddr == LA_V4_FIXED || t_laddr == LA_V6_FIXED) ? LPORT : 0);
        xcm_attr_map_add_str(a, "xcm.local_addr", la);
    }
    if (t_cto)
        xcm_attr_map_add_double(a, "tcp.connect_timeout", 0.5);
    if (t_dnsto)
        xcm_attr_map_add_double(a, "dns.timeout", 2.0);
    if (t_opts) {
        xcm_attr_map_add_int64(a, "tcp.keepalive_time", 11);
        xcm_attr_map_add_int64(a, "tcp.keepalive_interval", 13);
        xcm_attr_map_add_int64(a, "tcp.keepalive_count", 5);
        xcm_attr_map_add_int64(a, "tcp.user_timeout", 7);
    }
    snprintf(addr, sizeof addr, "%s:h.verif.test:%d", g_tp, PORT);
    g_t0 = env_now_ns();
    mc_sched_point("xcm_connect_a");
    struct xcm_socket *s = API("xcm_connect_a", 1, xcm_connect_a(addr, a));
    int err = errno;
    g_calls++;
    note();
    xcm_attr_map_destroy(a);
    mc_observe("xcm_connect_a(%s) -> %s", addr, s ? "socket" : errname(err));
    if (!s) {
        cli_done(0, err, "xcm_connect_a");
        return;
    }
    int fd = xcm_fd(s);
    g_cli_fd = fd;
    unsigned char buf[16];
    uint64_t prev_env = 0;
    const char *op = PRN[t_probe];
    int probe = t_probe, sent = 0;
    int cond = t_probe == PR_FINISH ? 0 : (t_probe == PR_SEND ? XCM_SO_SENDABLE : XCM_SO_RECEIVABLE);
    for (;;) {
        mc_sched_point(op);
        int rc;
        if (probe == PR_FINISH)
            rc = API("xcm_finish", 1, xcm_finish(s));
        else if (probe == PR_SEND)
            rc = API("xcm_send", 1, xcm_send(s, "y", 1));
        else
            rc = API("xcm_receive", 1, xcm_receive(s, buf, sizeof buf));
        err = errno;
        g_calls++;
        note();
        mc_observe("%s -> %d %s", op, rc, rc < 0 ? ename(err) : "");
        if (rc >= 0 && probe == PR_SEND) {
            /* accepted: a messaging transport may only have queued it; the connection is proven
               (or the failure reported) by the xcm_finish calls that flush it */
            sent = 1;
            probe = PR_FINISH;
            cond = 0;
            op = "xcm_finish";
            continue;
        }
        if (rc > 0 || (rc == 0 && probe != PR_RECEIVE)) {
            const char *r = API("xcm_remote_addr", 1, xcm_remote_addr(s));
            snprintf(g_remote, sizeof g_remote, "%s", r ? r : "(null)");
            const char *l = API("xcm_local_addr", 1, xcm_local_addr(s));
            snprintf(g_local, sizeof g_local, "%s", l ? l : "(null)");
            cli_done(1, 0, sent ? "xcm_send+xcm_finish" : op);
            in_force(s, "when the connection is established");
            API("xcm_finish", 1, xcm_finish(s));      /* (no scheduling point: the C13 frontier stays as it was) */
            in_force(s, "at the end");
            break;
        }
        if (rc == 0) {          /* end of stream before any data: the peer is a harness listener, never */
            cli_done(0, EPIPE, op);
            break;
        }
        if (err != EAGAIN) {
            cli_done(0, err, op);
            break;
        }
        /* the caller waits for the descriptor; it counts as spinning (events first, DESIGN 1.3) only when
           nothing in the environment has changed since its previous fruitless call */
        uint64_t envst = mc_hash_mix(mc_hash_mix(env_now_ns(), env_connect_log_count()), env_pending_connects() + 7);
        mc_set_progress(envst != prev_env);
        prev_env = envst;
        if (API("xcm_await", 1, xcm_await(s, cond)) < 0) {
            cli_done(0, errno, "xcm_await");
            break;
        }
        mc_wait_readable(fd, "cli-wait");
    }
    g_cli_fd = -1;
    mc_sched_point("xcm_close");
    API("xcm_close", 1, xcm_close(s));
    note();
}

/* ---- oracle ----------------------------------------------------------------------------------- */
static int laddr_family(void)
{
    if (t_laddr == LA_NONE)
        return 0;
    return (t_laddr == LA_V4_0 || t_laddr == LA_V4_FIXED) ? 4 : 6;
}

static int eff(int i)
{
    int a = t_list[i];
    int lf = laddr_family();
    if (lf && lf != AFAM[a])
        return EFF_M;
    return t_pol[a] == POL_ACCEPT ? EFF_A : (t_pol[a] == POL_REFUSE ? EFF_R : EFF_S);
}

static int eff_errno(int e)
{
    return e == EFF_R ? ECONNREFUSED : (e == EFF_S ? ETIMEDOUT : EAFNOSUPPORT);
}

/* host part of "tp:host:port" / "tp:[v6]:port" */
static void addr_host(const char *xa, char *out, size_t n, int *port)
{
    out[0] = 0;
    *port = -1;
    const char *p = strchr(xa, ':');
    if (!p)
        return;
    p++;
    const char *e;
    if (*p == '[') {
        p++;
        e = strchr(p, ']');
        if (!e)
            return;
        snprintf(out, n, "%.*s", (int)(e - p), p);
        if (e[1] == ':')
            *port = atoi(e + 2);
    } else {
        e = strrchr(p, ':');
        if (!e)
            return;
        snprintf(out, n, "%.*s", (int)(e - p), p);
        *port = atoi(e + 1);
    }
}

static int same_ip(const char *a, const char *b)
{
    unsigned char x[16], y[16];
    int fa = strchr(a, ':') ? AF_INET6 : AF_INET, fb = strchr(b, ':') ? AF_INET6 : AF_INET;
    if (fa != fb || inet_pton(fa, a, x) != 1 || inet_pton(fb, b, y) != 1)
        return 0;
    return memcmp(x, y, fa == AF_INET ? 4 : 16) == 0;
}

static void got_str(char *out, size_t n, int remote_idx)
{
    if (g_connected)
        snprintf(out, n, "connected%s", remote_idx >= 0 ? "" : "-to-unknown-peer");
    else
        snprintf(out, n, "%s", ename(g_errno));
}

#define VIOL(sig, ...) do { mc_violation(sig, __VA_ARGS__); } while (0)

static void oracle_conn(enum mc_end end)
{
    char sig[200], got[48];
    const char *lak = LAK[t_laddr];
    int64_t el = g_t_end - g_t0;
    int N = t_alg == ALG_SINGLE || t_alg == ALG_UNSET ? 1 : (t_len > 32 ? 32 : t_len);
    int single = t_alg == ALG_SINGLE || t_alg == ALG_UNSET;

    if (!g_cli_done) {
        snprintf(sig, sizeof sig, "C13/no-outcome/%s/alg=%s/dns=%s/tp=%s", end == MC_END_HORIZON ? "livelock" : "hang",
                 ALGS[t_alg], DNSN[t_dns], g_tp);
        VIOL(sig, "neither xcm_connect_a nor %s ever reported the outcome: the system is %s after %d calls, "
             "virtual time +%lld ms [%s]", PRN[t_probe], end == MC_END_HORIZON ? "still busy at the step horizon" :
             "quiescent (nothing can wake the caller)", g_calls, (long long)((env_now_ns() - g_t0) / 1000000), t_desc);
        return;
    }
    mc_count(g_connected ? 3 : 4, 1);

    /* ---- which address are we connected to ---- */
    int ridx = -1, rport = -1;
    char rhost[64] = "";
    if (g_connected) {
        addr_host(g_remote, rhost, sizeof rhost, &rport);
        for (int a = 0; a < 4; a++)
            if (rhost[0] && same_ip(rhost, ADDR[a]))
                ridx = a;
    }
    got_str(got, sizeof got, ridx);

    /* ---- the connect() ledger ---- */
    int nconn = env_connect_log_count();
    mc_count(5, nconn);
    int first_v4_att = -1;
    for (int i = 0; i < nconn; i++) {
        int fd, port, a = -1;
        char ip[64];
        env_connect_log_entry(i, &fd, ip, sizeof ip, &port);
        for (int k = 0; k < 4; k++)
            if (same_ip(ip, ADDR[k]))
                a = k;
        if (a < 0 || !t_used[a] || port != PORT) {
            snprintf(sig, sizeof sig, "C13/connect-to-foreign-address/alg=%s/tp=%s", ALGS[t_alg], g_tp);
            VIOL(sig, "connect() #%d goes to %s port %d, which is not in the resolver's answer [%s]", i, ip, port, t_desc);
            continue;
        }
        if (single && a != t_list[0]) {
            snprintf(sig, sizeof sig, "C13/single-tried-other-address/tp=%s", g_tp);
            VIOL(sig, "dns.algorithm single: connect() #%d goes to %s (%s), not to the first address %s [%s]", i, ip,
                 ANAME[a], ANAME[t_list[0]], t_desc);
        }
        if (AFAM[a] == 4 && first_v4_att < 0)
            first_v4_att = i;
    }
    if (t_dns >= DNS_FAIL && nconn > 0) {
        snprintf(sig, sizeof sig, "C13/connect-without-resolution/dns=%s/tp=%s", DNSN[t_dns], g_tp);
        VIOL(sig, "%d connect() call(s) although the resolver never delivered an address [%s]", nconn, t_desc);
    }

    /* ---- the bind() ledger: exactly the configured local address, or nothing ---- */
    int nbind = env_bind_log_count(), client_binds = 0;
    for (int i = 0; i < nbind; i++) {
        int fd, port;
        char ip[64];
        env_bind_log_entry(i, &fd, ip, sizeof ip, &port);
        if (fd == g_rawl[0] || fd == g_rawl[1] || port == PORT)
            continue;                /* the listeners' own */
        client_binds++;
        const char *want = laddr_family() == 4 ? LADDR4 : LADDR6;
        int wport = (t_laddr == LA_V4_FIXED || t_laddr == LA_V6_FIXED) ? LPORT : 0;
        if (t_laddr == LA_NONE || !same_ip(ip, want) || port != wport) {
            snprintf(sig, sizeof sig, "C13/local-addr/bind-with-other-address/laddr=%s/tp=%s", lak, g_tp);
            VIOL(sig, "bind() #%d carries %s port %d; configured xcm.local_addr is %s%s%s [%s]", i, ip, port,
                 t_laddr == LA_NONE ? "absent" : want, t_laddr == LA_NONE ? "" : " port ",
                 t_laddr == LA_NONE ? "" : (wport ? "36001" : "0"), t_desc);
        }
    }
    mc_count(6, client_binds);

    /* ---- source of the attempt that succeeded ---- */
    if (g_connected && t_laddr != LA_NONE) {
        char lhost[64];
        int lport;
        addr_host(g_local, lhost, sizeof lhost, &lport);
        const char *want = laddr_family() == 4 ? LADDR4 : LADDR6;
        int fixed = t_laddr == LA_V4_FIXED || t_laddr == LA_V6_FIXED;
        if (!lhost[0] || !same_ip(lhost, want) || (fixed && lport != LPORT)) {
            snprintf(sig, sizeof sig, "C13/local-addr/source-mismatch/laddr=%s/tp=%s", lak, g_tp);
            VIOL(sig, "connected, but xcm_local_addr is %s while xcm.local_addr was configured as %s%s [%s]", g_local, want,
                 fixed ? " with the fixed port" : "", t_desc);
        }
    }

    /* ---- time bounds ---- */
    int64_t dns_part = (t_dns == DNS_LATE || t_dns == DNS_SILENT || t_dns == DNS_FAIL_LATE) ? g_dnsto_ns : 0;
    int64_t upper = dns_part + (int64_t)N * g_cto_ns + NS / 5 + SLACK_NS;
    if (el > upper) {
        snprintf(sig, sizeof sig, "C13/time-bound/late/alg=%s/dns=%s/tp=%s", ALGS[t_alg], DNSN[t_dns], g_tp);
        VIOL(sig, "outcome (%s) reported after %lld ms; configured bounds allow %lld ms [%s]", got,
             (long long)(el / 1000000), (long long)(upper / 1000000), t_desc);
    }
    if (!g_connected && g_errno == ETIMEDOUT && el < g_cto_ns) {
        snprintf(sig, sizeof sig, "C13/time-bound/early-ETIMEDOUT/alg=%s/tp=%s", ALGS[t_alg], g_tp);
        VIOL(sig, "ETIMEDOUT reported after %lld ms, tcp.connect_timeout is %lld ms [%s]", (long long)(el / 1000000),
             (long long)(g_cto_ns / 1000000), t_desc);
    }

    /* ---- resolution outcome ---- */
    if (t_dns >= DNS_FAIL) {
        int ok = !g_connected && g_errno == ENOENT;
        if (ok && t_dns == DNS_SILENT && el < g_dnsto_ns)
            ok = 0;
        if (!ok) {
            snprintf(sig, sizeof sig, "C13/resolution-failure/dns=%s/want=ENOENT/got=%s/tp=%s", DNSN[t_dns], got, g_tp);
            VIOL(sig, "resolver %s: expected ENOENT%s, got %s after %lld ms by %s [%s]", DNSN[t_dns],
                 t_dns == DNS_SILENT ? " once dns.timeout has passed" : "", got, (long long)(el / 1000000), g_by, t_desc);
        }
        return;
    }
    if (!g_connected && g_errno == ENOENT) {
        /* legitimate only if the resolution exceeded dns.timeout */
        if (!(t_dns == DNS_LATE && el >= g_dnsto_ns)) {
            snprintf(sig, sizeof sig, "C13/outcome/alg=%s/laddr=%s/odd-errno=ENOENT/tp=%s", ALGS[t_alg], lak, g_tp);
            VIOL(sig, "ENOENT although the resolver answered within dns.timeout (+%lld ms) [%s]", (long long)(el / 1000000),
                 t_desc);
        } else
            mc_count(2, 1);
        return;
    }

    if (t_cap_hit >= 32 && g_connected && ridx == 1) {
        /* beyond the documented 32-entry cap of the result: either behaviour is accepted */
        mc_info("C13/info/beyond-32-entries", "connected to entry #%d of a %d-entry answer (the result is documented to be cut at 32)",
                t_cap_hit, t_len);
        return;
    }

    /* ---- the algorithm ---- */
    int slow = g_slow_ns >= g_cto_ns - SLACK_NS;   /* an attempt the environment would have answered may have timed out */
    mc_count(slow ? 2 : 1, 1);
    int first_acc = -1, any_acc = 0, last4 = -1, last6 = -1;
    for (int i = 0; i < N; i++) {
        if (eff(i) == EFF_A) {
            any_acc = 1;
            if (first_acc < 0)
                first_acc = i;
        }
        if (AFAM[t_list[i]] == 4)
            last4 = i;
        else
            last6 = i;
    }
    if (g_connected) {
        /* never acceptable: connected to something that does not accept, or that is not in the (cut) list */
        int in_list = 0;
        for (int i = 0; i < N; i++)
            if (t_list[i] == ridx && eff(i) == EFF_A)
                in_list = 1;
        if (!in_list) {
            snprintf(sig, sizeof sig, "C13/outcome/alg=%s/laddr=%s/want=%s/got=foreign-peer/tp=%s",
                     ALGS[t_alg], lak, any_acc ? "connected" : "failure", g_tp);
            VIOL(sig, "connected to %s, which is not an eligible accepting address of the answer [%s]", g_remote, t_desc);
            return;
        }
    } else {
        /* never acceptable: an errno that no attempt in this world can end in */
        int ok = g_errno == ETIMEDOUT;
        for (int i = 0; i < N; i++)
            if (eff(i) != EFF_A && eff_errno(eff(i)) == g_errno)
                ok = 1;
        if (!ok) {
            snprintf(sig, sizeof sig, "C13/outcome/alg=%s/laddr=%s/odd-errno=%s/tp=%s", ALGS[t_alg], lak, got, g_tp);
            VIOL(sig, "%s: the outcome is %s (reported by %s after %lld ms, %d connect() calls), which is not the errno of "
                 "any attempt this world can produce%s [%s]", ALGN[t_alg], got, g_by, (long long)(el / 1000000), nconn,
                 any_acc ? "; an eligible address accepts" : "", t_desc);
            return;
        }
    }
    if (slow)           /* relaxed: accepting/refusing addresses may have behaved as silent ones */
        return;
    if (single || t_alg == ALG_SEQ) {
        int want_conn = first_acc >= 0;
        int want_errno = want_conn ? 0 : eff_errno(eff(N - 1));
        int ok = want_conn ? (g_connected && ridx == t_list[first_acc]) : (!g_connected && g_errno == want_errno);
        if (!ok) {
            snprintf(sig, sizeof sig, "C13/outcome/alg=%s/laddr=%s/want=%s/got=%s%s/tp=%s", ALGS[t_alg], lak,
                     want_conn ? "connected" : "failure", g_connected ? "connected" : got,
                     (g_connected && want_conn) ? "-later" : "", g_tp);
            if (want_conn)
                VIOL(sig, "%s: the first accepting address is #%d %s, outcome is %s%s%s (reported by %s after %lld ms, "
                     "%d connect() calls) [%s]", ALGN[t_alg], first_acc, ANAME[t_list[first_acc]], got,
                     g_connected ? " " : "", g_connected ? g_remote : "", g_by, (long long)(el / 1000000), nconn, t_desc);
            else
                VIOL(sig, "%s: no eligible address accepts, the last failed attempt (#%d %s) ends in %s, outcome is %s%s%s "
                     "(reported by %s after %lld ms) [%s]", ALGN[t_alg], N - 1, ANAME[t_list[N - 1]], ename(want_errno),
                     got, g_connected ? " " : "", g_connected ? g_remote : "", g_by, (long long)(el / 1000000), t_desc);
        }
        return;
    }
    /* happy eyeballs */
    /* An accepting address of one family must not have to wait until the other, silent family's attempt is
       given up.  Demanded only where nothing was withheld (no virtual time passed while the environment held back
       an answer or the caller had an unserviced wake-up) and no local address turns entries into failed binds:
       then every refusal is immediate, so if the accepting family has no silent entry ahead of its first accepting
       one, the connection exists well before first-attempt + tcp.connect_timeout.  (How long before - the 200 ms
       figure - stays INFO.) */
    if (g_connected && t_laddr == LA_NONE && g_slow_ns == 0 && last4 >= 0 && last6 >= 0 && nconn > 0) {
        for (int fam = 4; fam <= 6; fam += 2) {          /* fam = the family that is silent throughout */
            int all_silent = 1, other_ok = 0, other_blocked = 0;
            for (int i = 0; i < N; i++) {
                if (AFAM[t_list[i]] == fam) {
                    if (eff(i) != EFF_S)
                        all_silent = 0;
                } else if (!other_ok) {
                    if (eff(i) == EFF_A)
                        other_ok = 1;
                    else if (eff(i) == EFF_S)
                        other_blocked = 1;
                }
            }
            if (!all_silent || !other_ok || other_blocked)
                continue;
            int64_t since = g_t_end - g_att_start[0];
            if (since >= g_cto_ns) {
                snprintf(sig, sizeof sig, "C13/happy-eyeballs/other-family-waits-for-timeout/tp=%s", g_tp);
                VIOL(sig, "happy_eyeballs: every IPv%d address is silent and an IPv%d address accepts, nothing was withheld, "
                     "yet the connection (%s) is reported %lld ms after the first attempt began - not before that attempt "
                     "was given up (tcp.connect_timeout %lld ms): the accepting family waited for the silent one to time "
                     "out [%s]", fam, fam == 4 ? 6 : 4, g_remote, (long long)(since / 1000000),
                     (long long)(g_cto_ns / 1000000), t_desc);
            }
        }
    }
    if (any_acc) {
        if (!g_connected) {
            snprintf(sig, sizeof sig, "C13/outcome/alg=%s/laddr=%s/want=connected/got=%s/tp=%s", ALGS[t_alg], lak, got, g_tp);
            VIOL(sig, "happy_eyeballs: address #%d %s accepts but the outcome is %s (reported by %s after %lld ms) [%s]",
                 first_acc, ANAME[t_list[first_acc]], got, g_by, (long long)(el / 1000000), t_desc);
        }
    } else {
        int e4 = last4 >= 0 ? eff_errno(eff(last4)) : -1, e6 = last6 >= 0 ? eff_errno(eff(last6)) : -1;
        if (g_errno != e4 && g_errno != e6) {
            snprintf(sig, sizeof sig, "C13/outcome/alg=%s/laddr=%s/want=failure/got=%s/tp=%s", ALGS[t_alg], lak, got, g_tp);
            VIOL(sig, "happy_eyeballs: nothing accepts; the last attempts end in %s (IPv4 track) / %s (IPv6 track), outcome "
                 "is %s [%s]", e4 >= 0 ? ename(e4) : "-", e6 >= 0 ? ename(e6) : "-", got, t_desc);
        }
    }
    /* INFO only: the 200 ms head start of IPv6 */
    if (t_laddr == LA_NONE && last6 >= 0 && first_v4_att >= 0 && first_v4_att < 260) {
        int64_t t_res = g_att_start[0];
        if (g_att_start[first_v4_att] - t_res < NS / 5 - SLACK_NS)
            mc_info("C13/info/ipv4-head-start", "happy_eyeballs: first IPv4 connect() %lld ms after the first attempt "
                    "although the answer holds IPv6 addresses (documented delay 200 ms) [%s]",
                    (long long)((g_att_start[first_v4_att] - t_res) / 1000000), t_desc);
    }
}

/* ---- xcm_server on names ---------------------------------------------------------------------- */
static int s_mode;
static struct xcm_socket *s_sock;
static int s_done, s_errno;
static int64_t s_t_end;
static const char *SMODE[] = { "unknown-name", "fails", "fails-late", "silent", "late", "now" };

static void server_task(void *arg)
{
    (void)arg;
    char addr[128];
    /* a port of this process' own: the UX half of a utls server is named host:port in the abstract
       AF_UNIX namespace, which concurrent explorer workers share */
    snprintf(addr, sizeof addr, "%s:srv.verif.test:%d", g_tp, 10000 + (int)(getpid() % 20000));
    struct xcm_attr_map *a = xcm_attr_map_create();
    xcm_attr_map_add_str(a, "xcm.service", "any");
    if (param_int((const char *)arg, "nb", 0))
        xcm_attr_map_add_bool(a, "xcm.blocking", false);
    g_t0 = env_now_ns();
    mc_sched_point("xcm_server_a");
    s_sock = API("xcm_server_a", 0, xcm_server_a(addr, a));
    s_errno = errno;
    s_t_end = env_now_ns();
    s_done = 1;
    xcm_attr_map_destroy(a);
    mc_observe("xcm_server_a(%s:srv.verif.test:<port>) -> %s", g_tp, s_sock ? "socket" : errname(s_errno));
    if (s_sock)
        API("xcm_close", 0, xcm_close(s_sock));
}

static void scenario_server(const char *params)
{
    s_mode = mc_choose_mask(6, MC_EVENT, "T:srv-dns", 0);
    static const char *ips[] = { "127.0.0.1" };
    static const enum env_dns_mode M[] = { 0, ENV_DNS_FAIL, ENV_DNS_FAIL_LATE, ENV_DNS_SILENT, ENV_DNS_LATE, ENV_DNS_NOW };
    if (s_mode > 0)
        env_dns_set("srv.verif.test", ips, 1, M[s_mode]);
    snprintf(t_desc, sizeof t_desc, "xcm_server dns=%s", SMODE[s_mode]);
    mc_count(0, 1);
    if (param_int(params, "count", 0)) {
        mc_outcome("%s", t_desc);
        return;
    }
    mc_task_create("srv", server_task, (void *)params);
    enum mc_end end = mc_run(400);
    char sig[200];
    int64_t el = s_t_end - g_t0;
    if (!s_done) {
        snprintf(sig, sizeof sig, "C13/server-unresolvable/%s/dns=%s/tp=%s", end == MC_END_HORIZON ? "livelock" : "hang",
                 SMODE[s_mode], g_tp);
        VIOL(sig, "xcm_server on a name whose resolution is '%s' never returns: %s, virtual time +%lld ms", SMODE[s_mode],
             end == MC_END_HORIZON ? "still looping at the step horizon" : "asleep with nothing left to wake it",
             (long long)((env_now_ns() - g_t0) / 1000000));
    } else if (s_mode <= 3) {
        if (s_sock || s_errno != ENOENT) {
            snprintf(sig, sizeof sig, "C13/server-unresolvable/want=ENOENT/got=%s/dns=%s/tp=%s",
                     s_sock ? "socket" : errname(s_errno), SMODE[s_mode], g_tp);
            VIOL(sig, "xcm_server on an unresolvable name (%s): expected NULL/ENOENT, got %s", SMODE[s_mode],
                 s_sock ? "a socket" : errname(s_errno));
        }
        if (el > 10 * NS + SLACK_NS) {
            snprintf(sig, sizeof sig, "C13/server-unresolvable/late/dns=%s/tp=%s", SMODE[s_mode], g_tp);
            VIOL(sig, "xcm_server returned after %lld ms", (long long)(el / 1000000));
        }
    } else if (!s_sock && !(s_mode == 4 && s_errno == ENOENT && el >= 10 * NS)) {
        /* (a late answer that takes longer than the 10 s the synchronous resolution allows is a timeout) */
        snprintf(sig, sizeof sig, "C13/server-resolvable/got=%s/dns=%s/tp=%s", errname(s_errno), SMODE[s_mode], g_tp);
        VIOL(sig, "xcm_server on a name that resolves (%s) to 127.0.0.1 failed with %s", SMODE[s_mode], errname(s_errno));
    }
    mc_outcome("%s tp=%s -> %s after %lld ms", t_desc, g_tp, !s_done ? "never" : (s_sock ? "socket" : errname(s_errno)),
               (long long)(el / 1000000));
}

/* ---- scenario ---------------------------------------------------------------------------------- */
static void scenario(const char *params)
{
    param_get(params, "tp", g_tp, sizeof g_tp, "btcp");
    param_get(params, "fam", g_fam, sizeof g_fam, "conn");
    param_get(params, "certs", g_certs, sizeof g_certs, "");
    g_bytestream = !strcmp(g_tp, "btcp") || !strcmp(g_tp, "btls");
    g_tlsclass = !strcmp(g_tp, "tls") || !strcmp(g_tp, "btls") || !strcmp(g_tp, "utls");
    g_xsrv = g_tlsclass || param_int(params, "xsrv", 0);
    setenv("XCM_CTL", "/nonexistent-ctl-dir", 1);
    if (g_certs[0])
        setenv("XCM_TLS_CERT", g_certs, 1);
    struct env_cfg cfg = { .io_menu = (unsigned)param_int(params, "menu", ENV_IO_CONNPEND), .sleep_monitor = 0,
                           .only_task = 0 };
    env_init(&cfg);
    env_register_events();
    det_rand_install(1);
    g_last_now = env_now_ns();
    mc_set_state_fn(state_digest);
    if (!strcmp(g_fam, "server")) {
        scenario_server(params);
        return;
    }
    choose_table(params);
    mc_count(0, 1);
    if (param_int(params, "count", 0)) {      /* table census: every execution of level 0 is one table */
        mc_outcome("%s", t_desc);
        return;
    }
    world_setup();
    g_need_srv = g_xsrv || t_probe == PR_RECEIVE;
    mc_task_create("cli", cli_task, NULL);
    if (g_need_srv)
        mc_task_create("peer", srv_task, NULL);
    enum mc_end end = mc_run((int)param_int(params, "horizon", 600));
    sample();
    if (mc_steps() > 200)
        mc_info("C13/info/long-execution", "%d scheduler steps (end=%d, client %s) [%s]", mc_steps(), end,
                g_cli_done ? "done" : "not done", t_desc);
    oracle_conn(end);
    mc_outcome("%s tp=%s -> %s%s%s by=%s t=+%lldms conn=%d bind=%d", t_desc, g_tp,
               !g_cli_done ? "no-outcome" : (g_connected ? "connected " : ename(g_errno)),
               g_connected ? g_remote : "", "", g_by, (long long)((g_t_end - g_t0) / 1000000),
               env_connect_log_count(), env_bind_log_count());
}

int main(int argc, char **argv)
{
    return mc_main(argc, argv, scenario, NULL);
}
