/* h_nb - C05: non-blocking sockets never put the calling thread to sleep.
 *
 * One cell = (transport, phase); inside it EVERY operation is issued on the non-blocking socket
 * while the shim's sleep monitor watches for any primitive that may sleep (poll/ppoll/select/
 * epoll_wait with a timeout != 0, sleeps, and connect/accept/send/recv on a descriptor lacking
 * O_NONBLOCK).  The monitor is active in every other explorer harness as well.
 *
 * params: tp=<transport> phase=resolving|connecting|handshaking|ready|backpressure|closed|failed|
 *                              server|connect-variants  certs=<dir>
 */
#define _GNU_SOURCE
#include "hcommon.h"

#include <arpa/inet.h>
#include <fcntl.h>
#include <netinet/in.h>
#include <sys/socket.h>
#include <sys/stat.h>

static char g_tp[16], g_phase[24], g_certs[256];
static struct xcm_socket *g_conn, *g_server, *g_peer;
static int g_raw_listen = -1, g_raw_conn = -1;
static int g_port;
static int g_bytestream;
static int g_ops;

static struct xcm_attr_map *nb_attrs(void)
{
    struct xcm_attr_map *m = xcm_attr_map_create();
    xcm_attr_map_add_bool(m, "xcm.blocking", false);
    xcm_attr_map_add_str(m, "xcm.service", "any");
    return m;
}

static void get_all_cb(const char *name, enum xcm_attr_type type, void *value, size_t len, void *d)
{
    (void)name; (void)type; (void)value; (void)len;
    (*(int *)d)++;
}

#define OP(name, call) do { mc_sched_point(name); int _rc = (int)(intptr_t)API(name, 1, call); \
        mc_observe("%s -> %d %s", name, _rc, _rc < 0 ? errname(errno) : ""); g_ops++; mc_count(1, 1); } while (0)

static void all_ops_on(struct xcm_socket *s, int is_conn)
{
    unsigned char buf[256];
    static unsigned char big[65535];
    char sbuf[512];
    int n = 0;
    OP("xcm_fd", xcm_fd(s));
    for (int c = 0; c <= 3; c++)
        if (is_conn)
            OP("xcm_await", xcm_await(s, c));
    if (!is_conn) {
        OP("xcm_await", xcm_await(s, XCM_SO_ACCEPTABLE));
        OP("xcm_await", xcm_await(s, 0));
    }
    OP("xcm_finish", xcm_finish(s));
    if (is_conn) {
        buf[0] = 1;
        OP("xcm_send", xcm_send(s, buf, 1));
        OP("xcm_receive", xcm_receive(s, buf, sizeof buf));
        OP("xcm_send", xcm_send(s, big, g_bytestream ? 40000 : sizeof big));
        OP("xcm_finish", xcm_finish(s));
        OP("xcm_receive", xcm_receive(s, buf, sizeof buf));
        OP("xcm_remote_addr", xcm_remote_addr(s) != NULL);
    } else {
        struct xcm_attr_map *a = nb_attrs();
        mc_sched_point("xcm_accept_a");
        struct xcm_socket *c = API("xcm_accept_a", 1, xcm_accept_a(s, a));
        mc_observe("xcm_accept_a -> %s", c ? "conn" : errname(errno));
        g_ops++;
        xcm_attr_map_destroy(a);
        if (c)
            OP("xcm_close", xcm_close(c));
        /* the server stays non-blocking whatever mode is asked for the connection: the call acts on the server
           socket and must not wait for a client (nor for the client's handshake) */
        a = xcm_attr_map_create();
        xcm_attr_map_add_bool(a, "xcm.blocking", true);
        mc_sched_point("xcm_accept_a(blocking conn)");
        c = API("xcm_accept_a(blocking conn)", 1, xcm_accept_a(s, a));
        mc_observe("xcm_accept_a(blocking conn) -> %s", c ? "conn" : errname(errno));
        g_ops++;
        xcm_attr_map_destroy(a);
        if (c) {
            /* the connection itself is blocking: closing it is not a non-blocking call */
            xcm_attr_set_bool(c, "xcm.blocking", false);
            OP("xcm_close", xcm_close(c));
        }
    }
    OP("xcm_local_addr", xcm_local_addr(s) != NULL);
    OP("xcm_attr_get_all", (xcm_attr_get_all(s, get_all_cb, &n), n));
    /* every attribute by name, typed getters too */
    static const char *names[] = { "xcm.type", "xcm.transport", "xcm.service", "xcm.blocking", "xcm.local_addr",
        "xcm.remote_addr", "xcm.max_msg_size", "xcm.from_app_bytes", "tcp.rtt", "tcp.total_retrans", "tcp.segs_in",
        "tcp.segs_out", "tcp.keepalive", "tcp.keepalive_time", "tcp.keepalive_interval", "tcp.keepalive_count",
        "tcp.user_timeout", "tcp.connect_timeout", "dns.timeout", "dns.algorithm", "ipv6.scope", "tls.cert_file",
        "tls.auth", "tls.client", "tls.peer_subject_key_id", "tls.peer.cert.subject.cn", "tls.peer_names",
        "ux.credentials", "no.such.attr" };
    for (size_t i = 0; i < sizeof names / sizeof names[0]; i++) {
        enum xcm_attr_type t;
        mc_sched_point("xcm_attr_get");
        int rc = API("xcm_attr_get", 1, xcm_attr_get(s, names[i], &t, sbuf, sizeof sbuf));
        (void)rc;
        g_ops++;
    }
    OP("xcm_attr_set", xcm_attr_set_bool(s, "tcp.keepalive", false));
    OP("xcm_attr_set", xcm_attr_set_int64(s, "tcp.keepalive_time", 7));
    OP("xcm_attr_set", xcm_attr_set_int64(s, "tcp.user_timeout", 5));
    OP("xcm_attr_set", xcm_attr_set_str(s, "xcm.local_addr", "tcp:127.0.0.1:0"));
    OP("xcm_attr_set", xcm_attr_set_bool(s, "xcm.blocking", false));
    OP("xcm_attr_set", xcm_attr_set_double(s, "dns.timeout", 1.0));
    OP("xcm_set_blocking(false)", xcm_set_blocking(s, false));
}

static int raw_listener(int port)
{
    int fd = socket(AF_INET, SOCK_STREAM | SOCK_NONBLOCK, 0);
    env_set_raw(fd);
    struct sockaddr_in a = { .sin_family = AF_INET, .sin_port = htons(port) };
    inet_pton(AF_INET, "127.0.0.1", &a.sin_addr);
    if (bind(fd, (struct sockaddr *)&a, sizeof a) < 0 || listen(fd, 8) < 0)
        mc_fail("internal/raw-listen", "raw listener: %s", errname(errno));
    return fd;
}

static void mkaddr(char *out, size_t n, const char *host)
{
    if (!strcmp(g_tp, "ux"))
        snprintf(out, n, "ux:mcx-nb-%d", getpid());
    else if (!strcmp(g_tp, "uxf"))
        snprintf(out, n, "uxf:/tmp/mcx-nb-%d", getpid());
    else
        snprintf(out, n, "%s:%s:%d", g_tp, host, g_port);
}

static const char *g_connect_api = "xcm_connect_a";

static struct xcm_socket *nb_connect(const char *addr, struct xcm_attr_map *extra)
{
    struct xcm_attr_map *a = nb_attrs();
    if (extra)
        xcm_attr_map_add_all(a, extra);
    mc_sched_point("xcm_connect_a");
    struct xcm_socket *s = API(g_connect_api, 1, xcm_connect_a(addr, a));
    mc_observe("%s(%s) -> %s", g_connect_api, addr, s ? "socket" : errname(errno));
    g_ops++;
    mc_count(1, 1);
    xcm_attr_map_destroy(a);
    return s;
}

/* drive both ends until the connection is established on both sides (or 200 rounds) */
static struct xcm_socket *establish(const char *addr)
{
    struct xcm_attr_map *a = nb_attrs();
    g_server = API("xcm_server_a", 1, xcm_server_a(addr, a));
    if (!g_server)
        mc_fail("internal/server", "xcm_server_a(%s): %s", addr, errname(errno));
    g_conn = nb_connect(addr, NULL);
    if (!g_conn)
        mc_fail("internal/connect", "connect: %s", errname(errno));
    for (int i = 0; i < 200; i++) {
        if (!g_peer)
            g_peer = API("xcm_accept_a", 1, xcm_accept_a(g_server, a));
        int f1 = API("xcm_finish", 1, xcm_finish(g_conn));
        int f2 = g_peer ? API("xcm_finish", 1, xcm_finish(g_peer)) : -1;
        if (g_peer && f1 == 0 && f2 == 0)
            break;
    }
    xcm_attr_map_destroy(a);
    return g_peer;
}

/* phase=creds-change: the credential directory is a private copy; at each fopen() inside an API call the explorer
   may let "somebody else" touch every file in it */
static int g_creds_watch, g_touches;
static char g_priv[300];

static void touch_creds(void)
{
    static const char *fn[] = { "cert.pem", "key.pem", "tc.pem", "crl.pem" };
    g_touches++;
    for (int i = 0; i < 4; i++) {
        char p[400];
        snprintf(p, sizeof p, "%s/%s", g_priv, fn[i]);
        struct timespec ts[2] = { { 1700000000 + g_touches * 10, 0 }, { 1700000000 + g_touches * 10, 0 } };
        utimensat(AT_FDCWD, p, ts, 0);
    }
}

static void creds_hook(const char *name, long a, long b, long c)
{
    (void)b; (void)c;
    if (!g_creds_watch || strcmp(name, "fopen") || !mc_cur_api()[0])
        return;
    const char *path = (const char *)a;
    if (!path || strncmp(path, g_priv, strlen(g_priv)))
        return;
    if (mc_choose(2, MC_IO, "creds-touched") == 0)
        return;
    touch_creds();
    mc_observe("credential files touched (#%d) while %s reads %s", g_touches, mc_cur_api(), strrchr(path, '/') + 1);
}

static void private_certs(void)
{
    static const char *fn[] = { "cert.pem", "key.pem", "tc.pem", "crl.pem" };
    snprintf(g_priv, sizeof g_priv, "/verif/build/run/nbcreds-%d", getpid());
    mkdir("/verif/build/run", 0755);
    mkdir(g_priv, 0700);
    for (int i = 0; i < 4; i++) {
        char src[600], dst[600], buf[16384];
        snprintf(src, sizeof src, "%s/%s", g_certs, fn[i]);
        snprintf(dst, sizeof dst, "%s/%s", g_priv, fn[i]);
        FILE *f = fopen(src, "r");
        if (!f)
            continue;
        size_t n = fread(buf, 1, sizeof buf, f);
        fclose(f);
        FILE *o = fopen(dst, "w");
        if (o) {
            fwrite(buf, 1, n, o);
            fclose(o);
        }
    }
    snprintf(g_certs, sizeof g_certs, "%s", g_priv);
}

static void remove_private_certs(void)
{
    static const char *fn[] = { "cert.pem", "key.pem", "tc.pem", "crl.pem" };
    if (!g_priv[0])
        return;
    for (int i = 0; i < 4; i++) {
        char p[400];
        snprintf(p, sizeof p, "%s/%s", g_priv, fn[i]);
        unlink(p);
    }
    rmdir(g_priv);
}

static void task(void *arg)
{
    (void)arg;
    char addr[256];
    int tcpish = strcmp(g_tp, "ux") && strcmp(g_tp, "uxf");
    if (!strcmp(g_phase, "resolving") && tcpish) {
        static const char *ips[] = { "127.0.0.1" };
        env_dns_set("silent.verif.test", ips, 1, ENV_DNS_SILENT);
        mkaddr(addr, sizeof addr, "silent.verif.test");
        g_conn = nb_connect(addr, NULL);
        if (g_conn) {
            all_ops_on(g_conn, 1);
            OP("xcm_close", xcm_close(g_conn));
        }
    } else if (!strcmp(g_phase, "connecting") && tcpish) {
        env_policy_set("127.0.0.1", ENV_SILENT);
        mkaddr(addr, sizeof addr, "127.0.0.1");
        g_conn = nb_connect(addr, NULL);
        if (g_conn) {
            all_ops_on(g_conn, 1);
            OP("xcm_close", xcm_close(g_conn));
        }
    } else if (!strcmp(g_phase, "handshaking") && tcpish) {
        /* a raw peer that accepts the TCP connection and then says nothing */
        g_raw_listen = raw_listener(g_port);
        mkaddr(addr, sizeof addr, "127.0.0.1");
        g_conn = nb_connect(addr, NULL);
        g_raw_conn = accept4(g_raw_listen, NULL, NULL, SOCK_NONBLOCK);
        if (g_conn) {
            all_ops_on(g_conn, 1);
            OP("xcm_close", xcm_close(g_conn));
        }
    } else if (!strcmp(g_phase, "connect-variants") && tcpish) {
        /* every way of naming the two ends, against late / silent / failing resolvers */
        static const char *ips[] = { "127.0.0.1" };
        env_dns_set("late.verif.test", ips, 1, ENV_DNS_LATE);
        env_dns_set("fail.verif.test", ips, 0, ENV_DNS_FAIL_LATE);
        env_dns_set("silent.verif.test", ips, 1, ENV_DNS_SILENT);
        env_dns_set("local.verif.test", ips, 1, ENV_DNS_LATE);
        g_raw_listen = raw_listener(g_port);
        static const char *hosts[] = { "127.0.0.1", "late.verif.test", "fail.verif.test", "silent.verif.test" };
        static const char *locals[] = { NULL, "127.0.0.1:0", "local.verif.test:0", "silent.verif.test:0" };
        for (int h = 0; h < 4; h++)
            for (int l = 0; l < 4; l++) {
                struct xcm_attr_map *x = xcm_attr_map_create();
                if (locals[l]) {
                    char la[128];
                    snprintf(la, sizeof la, "%s:%s", g_tp, locals[l]);
                    xcm_attr_map_add_str(x, "xcm.local_addr", la);
                }
                mkaddr(addr, sizeof addr, hosts[h]);
                /* the way the local end is named is part of the call site (finding signatures) */
                g_connect_api = l >= 2 ? "xcm_connect_a[xcm.local_addr=dns-name]" : "xcm_connect_a";
                struct xcm_socket *s = nb_connect(addr, x);
                g_connect_api = "xcm_connect_a";
                xcm_attr_map_destroy(x);
                if (s) {
                    /* with a remote name that resolves late the connect proper - and with it the resolution of a
                       named local end - happens inside a later call on the socket: same call-site decoration */
                    if (l >= 2) {
                        OP("xcm_finish[xcm.local_addr=dns-name]", xcm_finish(s));
                        OP("xcm_finish[xcm.local_addr=dns-name]", xcm_finish(s));
                    } else {
                        OP("xcm_finish", xcm_finish(s));
                        OP("xcm_finish", xcm_finish(s));
                    }
                    OP("xcm_close", xcm_close(s));
                }
            }
    } else if (!strcmp(g_phase, "creds-change") && g_certs[0]) {
        /* another process rewrites the credential files while the library is reading them (every fopen() made inside an
           API call is a choice point: "the files' time stamps change now"): whatever the library does about it, the
           non-blocking connect/accept that loads them must not go to sleep */
        env_syscall_hook = creds_hook;
        mkaddr(addr, sizeof addr, "127.0.0.1");
        struct xcm_attr_map *a = nb_attrs();
        /* (server creation is not among the calls C05 lists; no choice points there) */
        g_server = API("xcm_server_a", 0, xcm_server_a(addr, a));
        g_ops++;
        if (g_server) {
            /* whatever is cached from the server's creation is stale: the connect has to read the files */
            touch_creds();
            g_creds_watch = 1;
            g_conn = nb_connect(addr, NULL);
            for (int i = 0; i < 6; i++) {
                if (!g_peer) {
                    g_creds_watch = 0;
                    touch_creds();
                    g_creds_watch = 1;
                    mc_sched_point("xcm_accept_a");
                    g_peer = API("xcm_accept_a", 1, xcm_accept_a(g_server, a));
                    g_ops++;
                }
                if (g_conn)
                    OP("xcm_finish", xcm_finish(g_conn));
                if (g_peer)
                    OP("xcm_finish", xcm_finish(g_peer));
            }
            if (g_conn)
                OP("xcm_close", xcm_close(g_conn));
            if (g_peer)
                OP("xcm_close", xcm_close(g_peer));
            OP("xcm_close", xcm_close(g_server));
        }
        xcm_attr_map_destroy(a);
        env_syscall_hook = NULL;
    } else if (!strcmp(g_phase, "server")) {
        mkaddr(addr, sizeof addr, "127.0.0.1");
        struct xcm_attr_map *a = nb_attrs();
        mc_sched_point("xcm_server_a");
        g_server = API("xcm_server_a", 1, xcm_server_a(addr, a));
        g_ops++;
        xcm_attr_map_destroy(a);
        if (g_server) {
            all_ops_on(g_server, 0);          /* nothing pending */
            g_conn = nb_connect(addr, NULL);
            all_ops_on(g_server, 0);          /* a connection pending */
            if (g_conn)
                OP("xcm_close", xcm_close(g_conn));
            OP("xcm_close", xcm_close(g_server));
        }
        /* server on a name that resolves late: xcm_server blocks by design only for blocking
           sockets?  The API has no non-blocking server creation; not part of C05's list. */
    } else {
        mkaddr(addr, sizeof addr, "127.0.0.1");
        if (!establish(addr))
            mc_fail("internal/establish", "could not establish %s", addr);
        if (!strcmp(g_phase, "backpressure")) {
            static unsigned char big[65535];
            int n = 0;
            while (n < 400 && API("xcm_send", 1, xcm_send(g_conn, big, g_bytestream ? 40000 : sizeof big)) >= 0)
                n++;
            mc_observe("filled after %d sends: %s", n, errname(errno));
        } else if (!strcmp(g_phase, "closed")) {
            API("xcm_close", 1, xcm_close(g_peer));
            g_peer = NULL;
        } else if (!strcmp(g_phase, "failed")) {
            /* unread data at the closing side = reset */
            unsigned char b[8] = { 1, 2, 3 };
            API("xcm_send", 1, xcm_send(g_conn, b, 3));
            API("xcm_finish", 1, xcm_finish(g_conn));
            API("xcm_close", 1, xcm_close(g_peer));
            g_peer = NULL;
        }
        all_ops_on(g_conn, 1);
        OP("xcm_close", xcm_close(g_conn));
        if (g_peer)
            OP("xcm_close", xcm_close(g_peer));
        OP("xcm_close", xcm_close(g_server));
    }
}

static void scenario(const char *params)
{
    param_get(params, "tp", g_tp, sizeof g_tp, "tcp");
    param_get(params, "phase", g_phase, sizeof g_phase, "ready");
    param_get(params, "certs", g_certs, sizeof g_certs, "");
    g_bytestream = !strcmp(g_tp, "btcp") || !strcmp(g_tp, "btls");
    g_port = 21000 + getpid() % 20000;
    setenv("XCM_CTL", "/nonexistent-ctl-dir", 1);
    if (g_certs[0] && !strcmp(g_phase, "creds-change"))
        private_certs();
    if (g_certs[0])
        setenv("XCM_TLS_CERT", g_certs, 1);
    struct env_cfg cfg = { .io_menu = (unsigned)param_int(params, "menu", ENV_IO_DEFAULT & ~ENV_IO_CONNPEND),
                           .sleep_monitor = 1, .only_task = -1 };
    env_init(&cfg);
    env_register_events();
    det_rand_install(1);
    mc_task_create("app", task, NULL);
    enum mc_end end = mc_run(20000);
    if (end != MC_END_DONE) {
        /* the task went to sleep inside an API call: the monitor has recorded where */
        char sig[160];
        snprintf(sig, sizeof sig, "C05/never-returned/in=%s/phase=%s/tp=%s", mc_last_api(), g_phase, g_tp);
        mc_violation(sig, "the calling thread was put to sleep and nothing in the closed system wakes it (end=%d)", end);
    }
    mc_outcome("end=%d ops=%d", end, g_ops);
    remove_private_certs();
    if (!strcmp(g_tp, "uxf")) {
        char p[64];
        snprintf(p, sizeof p, "/tmp/mcx-nb-%d", getpid());
        unlink(p);
    }
}

int main(int argc, char **argv)
{
    return mc_main(argc, argv, scenario, NULL);
}
