/*
 * h_attr.c -- property C10: attribute reads and writes are memory-safe and type-checked.
 *
 * Technique: exhaustive enumeration of INPUTS against the real code (no schedules: the envshim runs
 * with an empty deviation menu).  One process = one "cell" (transport, state, ip version, credential
 * form); it builds the sockets of that state (attr_states.h) and then, for every subject socket and
 * EVERY attribute name of the name universe, forks a child that runs the whole "group" of that name:
 *
 *   getters  xcm_attr_get (with and without type pointer), xcm_attr_getf, xcm_attr_get_str/_bin,
 *            xcm_attr_getf_str/_bin  x  every capacity 0..size+2 (boundary set for values above the
 *            tier's threshold), xcm_attr_get_bool/_int64/_double and the getf forms,
 *            xcm_attr_get_list_len
 *   setters  xcm_attr_set  x  every value type  x  lengths {0,1,size-1,size,size+1,4096}  x  values
 *
 * name universe = names reported by xcm_attr_get_all on that socket + every name of
 * common/xcm_attr_names.h (file given with --names) + the documented attribute table + list elements
 * [i] for i <= len+1 + every interior prefix + the malformed-name family.
 *
 * Memory discipline.  Every getter cell is run three times.  Twice on a "canary" buffer: `capacity`
 * bytes followed by 20 KB of canary inside the same heap block, with two different fill patterns, so
 * the exact set of bytes written is known and a write beyond `capacity` is seen WITHOUT a crash.  If
 * that is clean, once more on a "tight" buffer: a heap block of exactly `capacity` bytes, so that the
 * AddressSanitizer build traps the first byte read or written at offset >= capacity, however far.
 * Names and set-values are always exact heap blocks (strlen+1 / len bytes).
 *
 * A child that dies (sanitizer abort, assert, SEGV, watchdog) is a finding naming the exact call; the
 * parent re-forks the group behind the fatal cell, so the enumeration always completes.
 *
 * Output: JSON lines on stdout (finding / crash / sample / info / stats / done) for checks/C10.py.
 * `--one "<subject>|<pct-name>|<cell>"` re-runs one cell (or with cell -1 the whole group) verbosely.
 */
#define _GNU_SOURCE
#include "attr_states.h"

#include <limits.h>
#include <math.h>
#include <signal.h>
#include <stdarg.h>
#include <sys/mman.h>
#include <sys/prctl.h>
#include <sys/resource.h>
#include <sys/wait.h>
#include <time.h>

/* ============================================================================================ */
/* shared state between the cell process and its group children                                  */
/* ============================================================================================ */

#define MAX_SIGS 400
struct shared {
    volatile long cell_no;          /* cell being executed in the current group */
    volatile int phase;
    char desc[900];
    uint64_t cells, get_cells, set_cells, fresh_cells, calls, checked, groups, forks, crashes, findings;
    uint64_t get_success, get_overflow, get_fail, set_success, set_rejected, set_failed_other, snapshots;
    uint64_t names, subjects;
    uint64_t nsamples;
    int nsigs;
    struct { char sig[220]; uint64_t n; } sigtab[MAX_SIGS];
    int ninfo;
    char infokeys[32][96];
};
static struct shared *SH;

static int g_verbose;               /* --one */
static char g_cellparams[512];
static char g_tpname[16];           /* transport as it appears in signatures */
static const char *g_exe = "h_attr";

/* ---- output: unbuffered single write(2) per line ------------------------------------------- */
struct tb { char *p; size_t n, cap; };

static void tb_raw(struct tb *b, const char *s, size_t n)
{
    if (b->n + n + 1 > b->cap) {
        b->cap = (b->n + n + 1) * 2 + 256;
        b->p = realloc(b->p, b->cap);
        if (!b->p)
            _exit(9);
    }
    memcpy(b->p + b->n, s, n);
    b->n += n;
    b->p[b->n] = 0;
}

static void tb_f(struct tb *b, const char *fmt, ...) __attribute__((format(printf, 2, 3)));
static void tb_f(struct tb *b, const char *fmt, ...)
{
    char tmp[2048];
    va_list ap;
    va_start(ap, fmt);
    int n = vsnprintf(tmp, sizeof tmp, fmt, ap);
    va_end(ap);
    if (n < 0)
        return;
    if ((size_t)n >= sizeof tmp)
        n = sizeof tmp - 1;
    tb_raw(b, tmp, (size_t)n);
}

static void tb_jstr(struct tb *b, const char *s, size_t n)
{
    tb_raw(b, "\"", 1);
    for (size_t i = 0; i < n; i++) {
        unsigned char c = (unsigned char)s[i];
        if (c == '"' || c == '\\') {
            char e[2] = { '\\', (char)c };
            tb_raw(b, e, 2);
        } else if (c >= 0x20 && c < 0x7f)
            tb_raw(b, (const char *)&c, 1);
        else
            tb_f(b, "\\u%04x", c);
    }
    tb_raw(b, "\"", 1);
}

/* human readable rendering of a byte string, shortened */
static void tb_cstr(struct tb *b, const char *s, size_t n)
{
    size_t show = n > 80 ? 60 : n;
    tb_raw(b, "\"", 1);
    for (size_t i = 0; i < show; i++) {
        unsigned char c = (unsigned char)s[i];
        if (c == '"' || c == '\\')
            tb_f(b, "\\%c", c);
        else if (c >= 0x20 && c < 0x7f)
            tb_raw(b, (const char *)&c, 1);
        else
            tb_f(b, "\\x%02x", c);
    }
    tb_raw(b, "\"", 1);
    if (show < n)
        tb_f(b, "...(%zu bytes)", n);
}

static void tb_pct(struct tb *b, const char *s, size_t n)
{
    if (n == 0) {
        tb_raw(b, "%", 1);
        return;
    }
    for (size_t i = 0; i < n; i++) {
        unsigned char c = (unsigned char)s[i];
        if ((c >= 'a' && c <= 'z') || (c >= 'A' && c <= 'Z') || (c >= '0' && c <= '9') || c == '.' || c == '_' ||
            c == '-' || c == '/')
            tb_raw(b, (const char *)&c, 1);
        else
            tb_f(b, "%%%02X", c);
    }
}

static char *pct_decode(const char *a, size_t *n_out)
{
    size_t n = strlen(a);
    char *r = malloc(n + 1);
    size_t k = 0;
    if (strcmp(a, "%") == 0) {
        r[0] = 0;
        *n_out = 0;
        return r;
    }
    for (size_t i = 0; i < n; i++) {
        if (a[i] == '%' && i + 2 < n) {
            char h[3] = { a[i + 1], a[i + 2], 0 };
            r[k++] = (char)strtol(h, NULL, 16);
            i += 2;
        } else
            r[k++] = a[i];
    }
    r[k] = 0;
    *n_out = k;
    return r;
}

static void out_line(struct tb *b)
{
    tb_raw(b, "\n", 1);
    size_t off = 0;
    while (off < b->n) {
        ssize_t w = write(1, b->p + off, b->n - off);
        if (w <= 0)
            break;
        off += (size_t)w;
    }
    b->n = 0;
}

static const char *ename(int e)
{
    if (e == EOVERFLOW)
        return "EOVERFLOW";
    return errname(e);
}

static const char *tname(int t)
{
    switch (t) {
    case xcm_attr_type_bool: return "bool";
    case xcm_attr_type_int64: return "int64";
    case xcm_attr_type_str: return "str";
    case xcm_attr_type_bin: return "bin";
    case xcm_attr_type_double: return "double";
    default: return "?";
    }
}

/* ---- findings -------------------------------------------------------------------------------- */
struct ctx;
static void one_spec(struct tb *b, const struct ctx *cx, long cell);

static void finding_v(const struct ctx *cx, long cell, const char *sig, const char *text)
{
    SH->findings++;
    int k;
    for (k = 0; k < SH->nsigs; k++)
        if (strcmp(SH->sigtab[k].sig, sig) == 0)
            break;
    if (k == SH->nsigs) {
        if (SH->nsigs == MAX_SIGS)
            k = MAX_SIGS - 1;
        else {
            snprintf(SH->sigtab[k].sig, sizeof SH->sigtab[k].sig, "%s", sig);
            SH->sigtab[k].n = 0;
            SH->nsigs++;
        }
    }
    SH->sigtab[k].n++;
    if (g_verbose) {
        printf("VIOLATION %s\n  %s\n", sig, text);
        fflush(stdout);
        return;
    }
    if (SH->sigtab[k].n > 2)
        return;
    struct tb b = { 0 }, one = { 0 };
    one_spec(&one, cx, cell);
    tb_f(&b, "{\"t\":\"finding\",\"sig\":");
    tb_jstr(&b, sig, strlen(sig));
    tb_f(&b, ",\"cell\":");
    tb_jstr(&b, g_cellparams, strlen(g_cellparams));
    tb_f(&b, ",\"text\":");
    tb_jstr(&b, text, strlen(text));
    tb_f(&b, ",\"one\":");
    tb_jstr(&b, one.p ? one.p : "", one.n);
    tb_f(&b, "}");
    out_line(&b);
    free(b.p);
    free(one.p);
}

static void info_line(const char *key, const char *text)
{
    if (g_verbose) {
        printf("INFO %s: %s\n", key, text);
        return;
    }
    for (int i = 0; i < SH->ninfo; i++)
        if (strcmp(SH->infokeys[i], key) == 0)
            return;
    if (SH->ninfo < 32)
        snprintf(SH->infokeys[SH->ninfo++], 96, "%s", key);
    struct tb b = { 0 };
    tb_f(&b, "{\"t\":\"info\",\"key\":");
    tb_jstr(&b, key, strlen(key));
    tb_f(&b, ",\"text\":");
    tb_jstr(&b, text, strlen(text));
    tb_f(&b, "}");
    out_line(&b);
    free(b.p);
}

static void sample_line(const char *text)
{
    if (g_verbose || SH->nsamples >= 6)
        return;
    SH->nsamples++;
    struct tb b = { 0 };
    tb_f(&b, "{\"t\":\"sample\",\"cell\":");
    tb_jstr(&b, g_cellparams, strlen(g_cellparams));
    tb_f(&b, ",\"text\":");
    tb_jstr(&b, text, strlen(text));
    tb_f(&b, "}");
    out_line(&b);
    free(b.p);
}

/* ============================================================================================ */
/* exact heap blocks                                                                             */
/* ============================================================================================ */

#define SLACK (20 * 1024)
#define CAPMAX (72 * 1024)
#define P1 0xA5
#define P2 0x5A
#define C1 0xC3
#define C2 0x3C

static unsigned char *canary_blk;           /* CAPMAX + SLACK bytes */
static unsigned char *tight_cache[2048];

static unsigned char *tight_get(size_t cap)
{
    if (cap < 2048) {
        if (!tight_cache[cap])
            tight_cache[cap] = malloc(cap);
        return tight_cache[cap];
    }
    return malloc(cap);
}

static void tight_put(unsigned char *p, size_t cap)
{
    if (cap >= 2048)
        free(p);
}

/* an exact copy of n bytes (n may be 0) */
static void *exact_dup(const void *p, size_t n)
{
    unsigned char *b = malloc(n);
    if (n)
        memcpy(b, p, n);
    return b;
}

static char *exact_name(const char *name, size_t n)
{
    char *b = malloc(n + 1);
    memcpy(b, name, n);
    b[n] = 0;
    return b;
}

/* ============================================================================================ */
/* snapshots (xcm_attr_get_all)                                                                  */
/* ============================================================================================ */

struct snap_ent {
    char *name;
    int type;
    size_t len;
    unsigned char *val;
};
struct snap {
    int n;
    struct snap_ent e[700];
};

static void snap_cb(const char *name, enum xcm_attr_type type, void *value, size_t len, void *d)
{
    struct snap *s = d;
    if (s->n >= 700)
        return;
    struct snap_ent *e = &s->e[s->n++];
    e->name = strdup(name);
    e->type = type;
    e->len = len;
    e->val = malloc(len ? len : 1);
    memcpy(e->val, value, len);
}

static void snap_take(struct xcm_socket *s, struct snap *sn)
{
    sn->n = 0;
    SH->snapshots++;
    xcm_attr_get_all(s, snap_cb, sn);
}

static void snap_free(struct snap *sn)
{
    for (int i = 0; i < sn->n; i++) {
        free(sn->e[i].name);
        free(sn->e[i].val);
    }
    sn->n = 0;
}

static const struct snap_ent *snap_find(const struct snap *sn, const char *name)
{
    for (int i = 0; i < sn->n; i++)
        if (strcmp(sn->e[i].name, name) == 0)
            return &sn->e[i];
    return NULL;
}

/* first difference between two snapshots, described into buf; returns 0 if equal */
static int snap_diff(const struct snap *a, const struct snap *b, char *name, size_t nn, char *buf, size_t bn)
{
    for (int i = 0; i < a->n; i++) {
        const struct snap_ent *o = snap_find(b, a->e[i].name);
        if (!o) {
            snprintf(name, nn, "%s", a->e[i].name);
            snprintf(buf, bn, "attribute %s disappeared", a->e[i].name);
            return 1;
        }
        if (o->type != a->e[i].type || o->len != a->e[i].len || memcmp(o->val, a->e[i].val, o->len) != 0) {
            struct tb t = { 0 };
            tb_f(&t, "attribute %s changed from ", a->e[i].name);
            if (a->e[i].type == xcm_attr_type_int64 && a->e[i].len == 8 && o->len == 8) {
                int64_t x, y;
                memcpy(&x, a->e[i].val, 8);
                memcpy(&y, o->val, 8);
                tb_f(&t, "%lld to %lld", (long long)x, (long long)y);
            } else {
                tb_cstr(&t, (const char *)a->e[i].val, a->e[i].len);
                tb_f(&t, " to ");
                tb_cstr(&t, (const char *)o->val, o->len);
            }
            snprintf(name, nn, "%s", a->e[i].name);
            snprintf(buf, bn, "%s", t.p);
            free(t.p);
            return 1;
        }
    }
    for (int i = 0; i < b->n; i++)
        if (!snap_find(a, b->e[i].name)) {
            snprintf(name, nn, "%s", b->e[i].name);
            snprintf(buf, bn, "attribute %s appeared", b->e[i].name);
            return 1;
        }
    return 0;
}

/* ============================================================================================ */
/* reference model: documented attributes (xcm.h), name syntax, classification                   */
/* ============================================================================================ */

enum fam { F_ALL, F_TCP, F_TLS };           /* all transports / TCP based / TLS based */
enum sk { S_ALL, S_CONN };
struct doc_attr {
    const char *name;
    int type;                   /* 0 = list */
    int rw;
    enum fam fam;
    enum sk sk;
    int msg_only;
};
#define T_B xcm_attr_type_bool
#define T_I xcm_attr_type_int64
#define T_S xcm_attr_type_str
#define T_N xcm_attr_type_bin
#define T_D xcm_attr_type_double
static const struct doc_attr DOC[] = {
    { "xcm.type", T_S, 0, F_ALL, S_ALL, 0 },
    { "xcm.transport", T_S, 0, F_ALL, S_ALL, 0 },
    { "xcm.service", T_S, 1, F_ALL, S_ALL, 0 },
    { "xcm.local_addr", T_S, 1, F_ALL, S_ALL, 0 },
    { "xcm.blocking", T_B, 1, F_ALL, S_ALL, 0 },
    { "xcm.remote_addr", T_S, 0, F_ALL, S_CONN, 0 },
    { "xcm.max_msg_size", T_I, 0, F_ALL, S_CONN, 1 },
    { "xcm.from_app_bytes", T_I, 0, F_ALL, S_CONN, 0 },
    { "xcm.to_app_bytes", T_I, 0, F_ALL, S_CONN, 0 },
    { "xcm.from_lower_bytes", T_I, 0, F_ALL, S_CONN, 0 },
    { "xcm.to_lower_bytes", T_I, 0, F_ALL, S_CONN, 0 },
    { "xcm.from_app_msgs", T_I, 0, F_ALL, S_CONN, 1 },
    { "xcm.to_app_msgs", T_I, 0, F_ALL, S_CONN, 1 },
    { "xcm.from_lower_msgs", T_I, 0, F_ALL, S_CONN, 1 },
    { "xcm.to_lower_msgs", T_I, 0, F_ALL, S_CONN, 1 },
    { "dns.algorithm", T_S, 1, F_TCP, S_CONN, 0 },
    { "dns.timeout", T_D, 1, F_TCP, S_CONN, 0 },
    { "tcp.rtt", T_I, 0, F_TCP, S_CONN, 0 },
    { "tcp.total_retrans", T_I, 0, F_TCP, S_CONN, 0 },
    { "tcp.segs_in", T_I, 0, F_TCP, S_CONN, 0 },
    { "tcp.segs_out", T_I, 0, F_TCP, S_CONN, 0 },
    { "tcp.connect_timeout", T_D, 1, F_TCP, S_CONN, 0 },
    { "tcp.user_timeout", T_I, 1, F_TCP, S_CONN, 0 },
    { "tcp.keepalive", T_B, 1, F_TCP, S_CONN, 0 },
    { "tcp.keepalive_time", T_I, 1, F_TCP, S_CONN, 0 },
    { "tcp.keepalive_interval", T_I, 1, F_TCP, S_CONN, 0 },
    { "tcp.keepalive_count", T_I, 1, F_TCP, S_CONN, 0 },
    { "ipv6.scope", T_I, 1, F_TCP, S_ALL, 0 },
    { "tls.cert_file", T_S, 1, F_TLS, S_ALL, 0 },
    { "tls.key_file", T_S, 1, F_TLS, S_ALL, 0 },
    { "tls.tc_file", T_S, 1, F_TLS, S_ALL, 0 },
    { "tls.crl_file", T_S, 1, F_TLS, S_ALL, 0 },
    { "tls.cert", T_N, 1, F_TLS, S_ALL, 0 },
    { "tls.key", T_N, 1, F_TLS, S_ALL, 0 },
    { "tls.tc", T_N, 1, F_TLS, S_ALL, 0 },
    { "tls.crl", T_N, 1, F_TLS, S_ALL, 0 },
    { "tls.client", T_B, 1, F_TLS, S_ALL, 0 },
    { "tls.auth", T_B, 1, F_TLS, S_ALL, 0 },
    { "tls.check_crl", T_B, 1, F_TLS, S_ALL, 0 },
    { "tls.check_time", T_B, 1, F_TLS, S_ALL, 0 },
    { "tls.verify_peer_name", T_B, 1, F_TLS, S_ALL, 0 },
    { "tls.peer_names", T_S, 1, F_TLS, S_ALL, 0 },
    { "tls.peer_subject_key_id", T_N, 0, F_TLS, S_CONN, 0 },
    { "tls.peer.cert.subject.cn", T_S, 0, F_TLS, S_CONN, 0 },
    { "tls.peer.cert.san.dns", 0, 0, F_TLS, S_CONN, 0 },
    { "tls.peer.cert.san.emails", 0, 0, F_TLS, S_CONN, 0 },
    { "tls.peer.cert.san.dirs", 0, 0, F_TLS, S_CONN, 0 },
};
#define NDOC ((int)(sizeof DOC / sizeof DOC[0]))

static int g_fam_tcp, g_fam_tls;            /* of the cell's transport */

static int doc_applies(const struct doc_attr *d, int is_server)
{
    if (d->fam == F_TCP && !g_fam_tcp)
        return 0;
    if (d->fam == F_TLS && !g_fam_tls)
        return 0;
    if (d->sk == S_CONN && is_server)
        return 0;
    return 1;
}

/* syntax of an attribute name, written from xcm.h "Attribute Names":
 *   0 = not a name; 1 = a name in canonical form; 2 = a name with an unusual index spelling
 *   ("[01]", "[+1]", "[ 1]") that strtol-style readers accept and strict ones refuse: no verdict */
static int name_syntax(const char *s, size_t n)
{
    int odd = 0;
    size_t i = 0;
    if (n == 0 || memchr(s, 0, n))
        return 0;
    /* root key */
    size_t st = i;
    while (i < n && s[i] != '.' && s[i] != '[' && s[i] != ']')
        i++;
    if (i == st)
        return 0;
    while (i < n) {
        if (s[i] == '.') {
            i++;
            st = i;
            while (i < n && s[i] != '.' && s[i] != '[' && s[i] != ']')
                i++;
            if (i == st)
                return 0;
        } else if (s[i] == '[') {
            i++;
            st = i;
            while (i < n && s[i] != ']')
                i++;
            if (i == n || i == st)
                return 0;
            size_t k = st;
            while (k < i && (s[k] == ' ' || (s[k] >= '\t' && s[k] <= '\r'))) {
                k++;
                odd = 1;
            }
            if (k < i && (s[k] == '+')) {
                k++;
                odd = 1;
            }
            if (k == i)
                return 0;
            if (i - k > 1 && s[k] == '0')
                odd = 1;
            if (i - k > 9)
                odd = 1;                /* beyond any list: huge index, over/underflow is the reader's business */
            for (; k < i; k++)
                if (s[k] < '0' || s[k] > '9')
                    return 0;
            i++;
        } else
            return 0;
    }
    return odd ? 2 : 1;
}

enum nkind {
    NK_SNAP,        /* reported by xcm_attr_get_all on this socket: exists, readable */
    NK_DOC,         /* documented for this transport/socket kind but not reported in this state */
    NK_INTERIOR,    /* proper prefix of an existing/documented name: dictionary or list */
    NK_LISTELEM,    /* element (or below an element) of a documented list, not reported: index beyond the list */
    NK_UNKNOWN,     /* well-formed, designates nothing */
    NK_MALFORMED,   /* not a name */
    NK_ODD,         /* unusual index spelling: no verdict */
    NK_TOOLONG      /* well-formed but longer than any documented attribute path can be (> 255) */
};
static const char *const nkname[] = { "reported", "documented", "interior", "list-element", "unknown",
                                      "malformed", "odd-index", "too-long" };

struct name_ent {
    char *name;
    size_t len;
    const char *label;          /* signature label for names that are not attribute names */
};

#define MAXNAMES 900
static struct name_ent g_names[MAXNAMES];
static int g_nnames;

static void names_add(const char *s, size_t n, const char *label)
{
    for (int i = 0; i < g_nnames; i++)
        if (g_names[i].len == n && memcmp(g_names[i].name, s, n) == 0)
            return;
    if (g_nnames >= MAXNAMES)
        return;
    g_names[g_nnames].name = exact_name(s, n);
    g_names[g_nnames].len = n;
    g_names[g_nnames].label = label;
    g_nnames++;
}

static void names_adds(const char *s, const char *label) { names_add(s, strlen(s), label); }

static char *g_hdr_names[200];
static int g_nhdr;

static void load_header_names(const char *path)
{
    FILE *f = fopen(path, "r");
    if (!f)
        return;
    char line[600];
    while (fgets(line, sizeof line, f) && g_nhdr < 200) {
        size_t l = strlen(line);
        while (l && (line[l - 1] == '\n' || line[l - 1] == '\r'))
            line[--l] = 0;
        if (l)
            g_hdr_names[g_nhdr++] = strdup(line);
    }
    fclose(f);
}

/* is `pre` (length n) a proper prefix of `full` ending at a component boundary? */
static int is_prefix_at_boundary(const char *pre, size_t n, const char *full)
{
    size_t fl = strlen(full);
    if (n >= fl || memcmp(pre, full, n) != 0)
        return 0;
    return full[n] == '.' || full[n] == '[';
}

static const struct doc_attr *doc_find(const char *name, int is_server)
{
    for (int i = 0; i < NDOC; i++)
        if (strcmp(DOC[i].name, name) == 0 && doc_applies(&DOC[i], is_server))
            return &DOC[i];
    return NULL;
}

/* name without indices: "a.b[3].c" -> "a.b[i].c" */
static void canon_name(const char *s, char *out, size_t on)
{
    size_t k = 0;
    for (size_t i = 0; s[i] && k + 4 < on; i++) {
        if (s[i] == '[') {
            out[k++] = '[';
            out[k++] = 'i';
            out[k++] = ']';
            while (s[i] && s[i] != ']')
                i++;
            if (!s[i])
                break;
        } else
            out[k++] = s[i];
    }
    out[k] = 0;
}

static enum nkind classify(const char *name, size_t n, const struct snap *sn, int is_server)
{
    int sy = name_syntax(name, n);
    if (sy == 0)
        return NK_MALFORMED;
    if (sy == 2)
        return NK_ODD;
    if (n > 255)
        return NK_TOOLONG;
    if (sn && snap_find(sn, name))
        return NK_SNAP;
    const struct doc_attr *d = doc_find(name, is_server);
    if (d)
        return d->type ? NK_DOC : NK_INTERIOR;
    if (sn)
        for (int i = 0; i < sn->n; i++)
            if (is_prefix_at_boundary(name, n, sn->e[i].name))
                return NK_INTERIOR;
    for (int i = 0; i < NDOC; i++)
        if (doc_applies(&DOC[i], is_server)) {
            if (is_prefix_at_boundary(name, n, DOC[i].name))
                return NK_INTERIOR;
            if (DOC[i].type == 0 && is_prefix_at_boundary(DOC[i].name, strlen(DOC[i].name), name))
                return NK_LISTELEM;
        }
    return NK_UNKNOWN;
}

/* the malformed / limit family (C19 owns the path grammar; here: no crash, honest errno) */
static void names_add_family(void)
{
    static char buf[5000];
    names_adds("", "empty");
    names_adds(".", "dot");
    names_adds("xcm.", "trailing-dot");
    names_adds(".xcm", "leading-dot");
    names_adds("xcm..type", "double-dot");
    names_adds("[", "open-bracket");
    names_adds("]", "close-bracket");
    names_adds("[0]", "index-at-root");
    names_adds("xcm[", "unterminated-index");
    names_adds("xcm.type[", "unterminated-index");
    names_adds("xcm.type[0", "unterminated-index");
    names_adds("xcm.type[]", "empty-index");
    names_adds("xcm.type[0]", NULL);                   /* index below a value: designates nothing */
    names_adds("xcm.type.x", NULL);
    names_adds("xcm[0]", NULL);
    names_adds("tls.peer.cert.san.dns[-1]", "negative-index");
    names_adds("tls.peer.cert.san.dns[0x0]", "hex-index");
    names_adds("tls.peer.cert.san.dns[0]x", "junk-after-index");
    names_adds("tls.peer.cert.san.dns[a]", "alpha-index");
    names_adds("tls.peer.cert.san.dns[00]", NULL);     /* odd spellings: memory safety only */
    names_adds("tls.peer.cert.san.dns[ 0]", NULL);
    names_adds("tls.peer.cert.san.dns[+0]", NULL);
    names_adds("tls.peer.cert.san.dns[4294967296]", NULL);
    names_adds("tls.peer.cert.san.dns[9223372036854775807]", NULL);
    names_adds("tls.peer.cert.san.dns[99999999999999999999999]", NULL);
    names_adds("tls.peer.cert.san.dns[0][0]", NULL);
    names_adds("tls.peer.cert.san.dirs[0].cn.x", NULL);
    names_adds("tls.peer.cert.san.dirs[0][0]", NULL);
    names_adds("no.such.attr", NULL);
    names_adds("xcm", NULL);
    names_adds("xcm.typ", NULL);
    names_adds("xcm.typee", NULL);
    names_adds("XCM.TYPE", NULL);
    names_adds("%s%s%s%n", NULL);
    names_adds("xcm.%s", NULL);
    names_adds("xcm.type ", NULL);
    names_adds(" xcm.type", NULL);
    names_adds("xcm.\x01type", NULL);
    names_adds("xcm.typ\xc3\xa9", NULL);
    /* many components */
    static const int comps[] = { 2, 63, 64, 65, 70, 127 };
    for (size_t c = 0; c < sizeof comps / sizeof comps[0]; c++) {
        size_t k = 0;
        for (int i = 0; i < comps[c]; i++) {
            if (i)
                buf[k++] = '.';
            buf[k++] = 'a';
        }
        names_add(buf, k, comps[c] > 64 ? "over-64-components" : NULL);
    }
    /* many index components: a[0][0]...  (70 of them, 211 bytes) */
    {
        size_t k = 0;
        buf[k++] = 'a';
        for (int i = 0; i < 70; i++) {
            buf[k++] = '[';
            buf[k++] = '0';
            buf[k++] = ']';
        }
        names_add(buf, k, "over-64-components");
        k = 0;
        buf[k++] = 'a';
        for (int i = 0; i < 63; i++) {
            buf[k++] = '[';
            buf[k++] = '0';
            buf[k++] = ']';
        }
        names_add(buf, k, NULL);
    }
    /* long names: one component */
    static const int lens[] = { 254, 255, 256, 257, 300, 1024, 4096 };
    for (size_t c = 0; c < sizeof lens / sizeof lens[0]; c++) {
        memset(buf, 'n', (size_t)lens[c]);
        names_add(buf, (size_t)lens[c], lens[c] > 255 ? "over-255-bytes" : NULL);
    }
    /* long names: "xcm." + 300 */
    memcpy(buf, "xcm.", 4);
    memset(buf + 4, 'x', 300);
    names_add(buf, 304, "over-255-bytes");
}

static const char *const DOC_LISTS[] = { "tls.peer.cert.san.dns", "tls.peer.cert.san.emails", "tls.peer.cert.san.dirs" };

/* build the name universe of one subject socket */
static int g_own_names;         /* names=own: only what exists or is documented for this socket */

static void names_build(struct xcm_socket *s, const struct snap *sn, int is_server)
{
    g_nnames = 0;
    if (sn)
        for (int i = 0; i < sn->n; i++)
            names_adds(sn->e[i].name, NULL);
    if (!g_own_names)
        for (int i = 0; i < g_nhdr; i++)
            names_adds(g_hdr_names[i], NULL);
    for (int i = 0; i < NDOC; i++)
        if (!g_own_names || doc_applies(&DOC[i], is_server))
            names_adds(DOC[i].name, NULL);
    /* interior prefixes of everything so far */
    int n0 = g_nnames;
    for (int i = 0; i < n0; i++) {
        const char *nm = g_names[i].name;
        for (size_t k = 1; k < g_names[i].len; k++)
            if (nm[k] == '.' || nm[k] == '[')
                names_add(nm, k, NULL);
    }
    /* list elements [i] for i <= len+1 (len from the library, 0 when it refuses) */
    for (size_t l = 0; l < sizeof DOC_LISTS / sizeof DOC_LISTS[0]; l++) {
        if (g_own_names && !(g_fam_tls && !is_server))
            break;
        int len = s ? xcm_attr_get_list_len(s, DOC_LISTS[l]) : -1;
        if (len < 0)
            len = 0;
        if (len > 80)
            len = 80;
        for (int i = 0; i <= len + 1; i++) {
            char b[128];
            snprintf(b, sizeof b, "%s[%d]", DOC_LISTS[l], i);
            names_adds(b, NULL);
            if (l == 2) {
                snprintf(b, sizeof b, "%s[%d].cn", DOC_LISTS[l], i);
                names_adds(b, NULL);
            }
        }
    }
    if (!g_own_names)
        names_add_family();
}

/* ============================================================================================ */
/* group context                                                                                 */
/* ============================================================================================ */

struct ref {
    int ok, err;
    int type;
    size_t len;
    unsigned char *val;
};

struct ctx {
    struct xcm_socket *s;
    const char *subject;            /* conn | accepted | server | fresh-conn | fresh-server | fresh-accept */
    int is_server;
    const char *state;
    const struct name_ent *ne;
    char *name;                     /* exact heap block */
    enum nkind kind;
    const struct doc_attr *doc;
    char signame[200];              /* how the name appears in signatures */
    struct ref ref;
    struct snap snap;               /* snapshot at group start / after the last successful set */
    int snap_valid;
    long start_cell, only_cell;
    int reduced;
    int pending_rejects;
    long cell;                      /* running cell counter */
    size_t cap_all;                 /* every capacity up to this value size */
    struct as_world *w;
};

static void one_spec(struct tb *b, const struct ctx *cx, long cell)
{
    if (!cx) {
        tb_f(b, "-");
        return;
    }
    tb_f(b, "%s|", cx->subject);
    tb_pct(b, cx->ne->name, cx->ne->len);
    tb_f(b, "|%ld", cell);
}

static void finding(const struct ctx *cx, const char *sig, const char *fmt, ...) __attribute__((format(printf, 3, 4)));
static void finding(const struct ctx *cx, const char *sig, const char *fmt, ...)
{
    char text[1800];
    va_list ap;
    va_start(ap, fmt);
    vsnprintf(text, sizeof text, fmt, ap);
    va_end(ap);
    char full[2400];
    snprintf(full, sizeof full, "%s  [socket: %s of %s, state %s]", text, cx->subject, g_cellparams, cx->state);
    finding_v(cx, cx->cell, sig, full);
}

/* does this cell run?  (resume after a crash, --one) */
static int cell_begin(struct ctx *cx, int phase, const char *fmt, ...) __attribute__((format(printf, 3, 4)));
static int cell_begin(struct ctx *cx, int phase, const char *fmt, ...)
{
    cx->cell++;
    if (cx->cell < cx->start_cell)
        return 0;
    if (cx->only_cell >= 0 && cx->cell != cx->only_cell)
        return 0;
    va_list ap;
    va_start(ap, fmt);
    vsnprintf(SH->desc, sizeof SH->desc, fmt, ap);
    va_end(ap);
    SH->cell_no = cx->cell;
    SH->phase = phase;
    SH->cells++;
    alarm(g_verbose ? 600 : 240);       /* watchdog per cell: a call that does not return */
    if (g_verbose)
        printf("cell %ld: %s\n", cx->cell, SH->desc);
    return 1;
}

/* ============================================================================================ */
/* getters                                                                                       */
/* ============================================================================================ */

enum getter {
    G_GET, G_GET_NT, G_GETF, G_STR, G_BIN, G_GETF_STR, G_GETF_BIN,      /* capacity is a parameter */
    G_BOOL, G_INT64, G_DOUBLE, G_GETF_BOOL, G_GETF_INT64, G_GETF_DOUBLE,
    G_N
};
static const char *const gname[G_N] = {
    "xcm_attr_get", "xcm_attr_get(type=NULL)", "xcm_attr_getf", "xcm_attr_get_str", "xcm_attr_get_bin",
    "xcm_attr_getf_str", "xcm_attr_getf_bin", "xcm_attr_get_bool", "xcm_attr_get_int64", "xcm_attr_get_double",
    "xcm_attr_getf_bool", "xcm_attr_getf_int64", "xcm_attr_getf_double"
};
/* type demanded by a typed getter, 0 = untyped */
static const int gtype[G_N] = { 0, 0, 0, T_S, T_N, T_S, T_N, T_B, T_I, T_D, T_B, T_I, T_D };
static const size_t gfixed[G_N] = { 0, 0, 0, 0, 0, 0, 0, sizeof(bool), 8, 8, sizeof(bool), 8, 8 };
static int g_reports_type(enum getter g) { return g == G_GET || g == G_GETF; }

struct gres {
    int rc, err;
    int type;               /* -1 = not reported / untouched */
};

static struct gres call_getter(enum getter g, struct xcm_socket *s, const char *name, void *buf, size_t cap)
{
    struct gres r = { .rc = -2, .err = 0, .type = -1 };
    enum xcm_attr_type t = (enum xcm_attr_type)-1;
    SH->calls++;
    errno = 0;
    switch (g) {
    case G_GET: r.rc = xcm_attr_get(s, name, &t, buf, cap); break;
    case G_GET_NT: r.rc = xcm_attr_get(s, name, NULL, buf, cap); break;
    case G_GETF: r.rc = xcm_attr_getf(s, &t, buf, cap, "%s", name); break;
    case G_STR: r.rc = xcm_attr_get_str(s, name, buf, cap); break;
    case G_BIN: r.rc = xcm_attr_get_bin(s, name, buf, cap); break;
    case G_GETF_STR: r.rc = xcm_attr_getf_str(s, buf, cap, "%s", name); break;
    case G_GETF_BIN: r.rc = xcm_attr_getf_bin(s, buf, cap, "%s", name); break;
    case G_BOOL: r.rc = xcm_attr_get_bool(s, name, buf); break;
    case G_INT64: r.rc = xcm_attr_get_int64(s, name, buf); break;
    case G_DOUBLE: r.rc = xcm_attr_get_double(s, name, buf); break;
    case G_GETF_BOOL: r.rc = xcm_attr_getf_bool(s, buf, "%s", name); break;
    case G_GETF_INT64: r.rc = xcm_attr_getf_int64(s, buf, "%s", name); break;
    case G_GETF_DOUBLE: r.rc = xcm_attr_getf_double(s, buf, "%s", name); break;
    default: break;
    }
    r.err = errno;
    r.type = (int)t;
    return r;
}

/* per capacity: which clauses the BASE getter (xcm_attr_get) already violated, so that the same root
 * cause seen again through a wrapper is not reported under the wrapper's name */
#define CL_OVERRUN 1
#define CL_ERRNO 2
#define CL_RESULT 4
static unsigned char *g_basebad;        /* CAPMAX+1 entries */

static int errno_in(int e, const int *set, int n)
{
    for (int i = 0; i < n; i++)
        if (set[i] == e)
            return 1;
    return 0;
}

static void errset_str(char *out, size_t on, const int *set, int n)
{
    size_t k = 0;
    out[0] = 0;
    for (int i = 0; i < n; i++)
        k += (size_t)snprintf(out + k, k < on ? on - k : 0, "%s%s", i ? "|" : "", ename(set[i]));
}

/* signature for a getter-side violation */
static void gsig(struct ctx *cx, enum getter g, size_t cap, int clause_bit, const char *clause, const char *detail,
                 char *sig, size_t sn, int *suppress)
{
    *suppress = 0;
    if (g == G_GET) {
        if (cap <= CAPMAX)
            g_basebad[cap] |= (unsigned char)clause_bit;
        snprintf(sig, sn, "C10/%s/%sattr=%s/tp=%s", clause, detail, cx->signame, g_tpname);
        return;
    }
    if (cap <= CAPMAX && (g_basebad[cap] & clause_bit)) {
        *suppress = 1;              /* same attribute, same capacity, same clause: one root cause */
        return;
    }
    snprintf(sig, sn, "C10/%s/%sgetter=%s/on=%s/tp=%s", clause, detail, gname[g],
             cx->ref.ok ? tname(cx->ref.type) : "none", g_tpname);
}

static void getter_cell(struct ctx *cx, enum getter g, size_t cap)
{
    if (!cell_begin(cx, 'A', "%s(%s, \"%.200s\"%s, capacity=%zu)", gname[g], cx->subject, cx->name,
                    cx->ne->len > 200 ? "..." : "", cap))
        return;
    SH->get_cells++;
    struct xcm_socket *s = cx->s;
    const struct ref *R = &cx->ref;
    char sig[300];
    int sup;

    /* ---- phase A: canary buffer, two fill patterns ---- */
    unsigned char *buf = canary_blk;
    static unsigned char *w1, *w2;
    if (!w1) {
        w1 = malloc(CAPMAX);
        w2 = malloc(CAPMAX);
    }
    memset(buf, P1, cap);
    memset(buf + cap, C1, SLACK);
    struct gres r1 = call_getter(g, s, cx->name, buf, cap);
    memcpy(w1, buf, cap);
    size_t over1 = 0, first1 = 0, last1 = 0;
    for (size_t i = 0; i < SLACK; i++)
        if (buf[cap + i] != C1) {
            if (!over1)
                first1 = i;
            over1++;
            last1 = i;
        }
    /* the second fill pattern tells which bytes inside the buffer were written: needed after a success
       only (after a failure the bytes inside `capacity` are the callee's to scribble on) */
    struct gres r2 = r1;
    size_t over2 = 0, last2 = 0;
    if (r1.rc >= 0 || over1) {
        memset(buf, P2, cap);
        memset(buf + cap, C2, SLACK);
        r2 = call_getter(g, s, cx->name, buf, cap);
        memcpy(w2, buf, cap);
        for (size_t i = 0; i < SLACK; i++)
            if (buf[cap + i] != C2) {
                over2++;
                last2 = i;
            }
        SH->checked++;
    }
    SH->checked++;
    if (g_verbose)
        printf("  canary run: rc=%d errno=%s type=%s; bytes beyond capacity modified: %zu / %zu\n", r1.rc,
               r1.rc < 0 ? ename(r1.err) : "-", r1.type > 0 ? tname(r1.type) : "-", over1, over2);
    if (over1 || over2) {
        gsig(cx, g, cap, CL_OVERRUN, "write-beyond-capacity", "", sig, sizeof sig, &sup);
        if (!sup)
            finding(cx, sig, "%s on attribute \"%s\" (%s, value size %zu) with capacity %zu wrote %zu byte(s) beyond the "
                    "caller's buffer (offsets %zu..%zu), return value %d%s%s", gname[g], cx->signame,
                    R->ok ? tname(R->type) : "unreadable", R->len, cap, over1 > over2 ? over1 : over2, cap + first1,
                    cap + (last2 > last1 ? last2 : last1), r1.rc, r1.rc < 0 ? " errno " : "", r1.rc < 0 ? ename(r1.err) : "");
        return;
    }
    if (r1.rc != r2.rc || (r1.rc < 0 && r1.err != r2.err)) {
        snprintf(sig, sizeof sig, "C10/unstable-result/getter=%s/attr=%s/tp=%s", gname[g], cx->signame, g_tpname);
        finding(cx, sig, "two identical calls returned %d/%s and %d/%s", r1.rc, ename(r1.err), r2.rc, ename(r2.err));
        return;
    }

    /* ---- expectation ---- */
    int want = gtype[g];
    size_t L = R->len;
    int expect_ok;
    int allowed[6], na = 0;
    int no_verdict = 0;
    if (cx->kind == NK_ODD) {
        no_verdict = 1;
        expect_ok = r1.rc >= 0;
    } else if (!R->ok) {
        expect_ok = 0;
        allowed[na++] = R->err;
        if (want)
            allowed[na++] = ENOENT;
        if (cx->kind == NK_SNAP || cx->kind == NK_DOC || cx->kind == NK_LISTELEM)
            allowed[na++] = EOVERFLOW;      /* which check comes first is not specified */
    } else if (want && want != R->type) {
        expect_ok = 0;
        allowed[na++] = ENOENT;
        if (cap < L)
            allowed[na++] = EOVERFLOW;      /* DESIGN 4.1 */
    } else if (cap < L) {
        expect_ok = 0;
        allowed[na++] = EOVERFLOW;
    } else
        expect_ok = 1;

    if (r1.rc >= 0) {
        SH->get_success++;
        /* exact set of bytes written */
        size_t nwritten = 0, hi = 0;
        for (size_t i = 0; i < cap; i++)
            if (w1[i] != P1 || w2[i] != P2) {
                nwritten++;
                hi = i + 1;
            }
        if (!expect_ok && !no_verdict) {
            const char *why = !R->ok ? "unreadable-attribute" : (want && want != R->type) ? "wrong-type" : "too-small";
            char det[64];
            snprintf(det, sizeof det, "%s/", why);
            gsig(cx, g, cap, CL_RESULT, "get-succeeded", det, sig, sizeof sig, &sup);
            if (!sup)
                finding(cx, sig, "%s on \"%s\" (%s, value size %zu) with capacity %zu returned %d although it must "
                        "fail (%s)", gname[g], cx->signame, R->ok ? tname(R->type) : "unreadable", L, cap, r1.rc, why);
            return;
        }
        if ((size_t)r1.rc > cap) {
            gsig(cx, g, cap, CL_RESULT, "length-exceeds-capacity", "", sig, sizeof sig, &sup);
            if (!sup)
                finding(cx, sig, "%s on \"%s\" with capacity %zu returned length %d", gname[g], cx->signame, cap, r1.rc);
            return;
        }
        if (hi > (size_t)r1.rc || nwritten != (size_t)r1.rc) {
            gsig(cx, g, cap, CL_RESULT, "length-not-bytes-written", "", sig, sizeof sig, &sup);
            if (!sup)
                finding(cx, sig, "%s on \"%s\" (capacity %zu) returned %d but wrote %zu byte(s), the last at offset %zu",
                        gname[g], cx->signame, cap, r1.rc, nwritten, hi ? hi - 1 : 0);
            return;
        }
        if (!no_verdict) {
            if ((size_t)r1.rc != L || memcmp(w1, R->val, L) != 0) {
                gsig(cx, g, cap, CL_RESULT, "value-differs", "", sig, sizeof sig, &sup);
                if (!sup)
                    finding(cx, sig, "%s on \"%s\" with capacity %zu returned %d bytes that differ from the %zu bytes "
                            "read with a 64 KB buffer", gname[g], cx->signame, cap, r1.rc, L);
                return;
            }
            if (g_reports_type(g) && r1.type != R->type) {
                gsig(cx, g, cap, CL_RESULT, "type-differs", "", sig, sizeof sig, &sup);
                if (!sup)
                    finding(cx, sig, "%s on \"%s\" reported type %d, the reference read %s", gname[g], cx->signame,
                            r1.type, tname(R->type));
                return;
            }
        }
    } else {
        if (r1.err == EOVERFLOW)
            SH->get_overflow++;
        else
            SH->get_fail++;
        if (expect_ok && !no_verdict) {
            char det[64];
            snprintf(det, sizeof det, "got=%s/", ename(r1.err));
            gsig(cx, g, cap, CL_ERRNO, "fits-but-failed", det, sig, sizeof sig, &sup);
            if (!sup)
                finding(cx, sig, "%s on \"%s\" (%s, value size %zu) with capacity %zu failed with %s although the value "
                        "fits", gname[g], cx->signame, tname(R->type), L, cap, ename(r1.err));
            return;
        }
        if (!no_verdict && !errno_in(r1.err, allowed, na)) {
            char det[96], exp[96];
            errset_str(exp, sizeof exp, allowed, na);
            const char *why = !R->ok ? "unreadable-attribute" : (want && want != R->type) ? "wrong-type" : "too-small";
            snprintf(det, sizeof det, "%s/got=%s/", why, ename(r1.err));
            gsig(cx, g, cap, CL_ERRNO, "get-errno", det, sig, sizeof sig, &sup);
            if (!sup)
                finding(cx, sig, "%s on \"%s\" (%s, value size %zu) with capacity %zu failed with %s, expected %s (%s)",
                        gname[g], cx->signame, R->ok ? tname(R->type) : "unreadable", L, cap, ename(r1.err), exp, why);
            return;
        }
    }

    /* ---- phase B: tight heap block, the sanitizer watches every byte beyond capacity ---- */
    SH->phase = 'B';
    unsigned char *tb_ = tight_get(cap);
    memset(tb_, P1, cap);
    struct gres r3 = call_getter(g, s, cx->name, tb_, cap);
    SH->checked++;
    int same = r3.rc == r1.rc && (r3.rc >= 0 || r3.err == r1.err) && memcmp(tb_, w1, cap) == 0;
    tight_put(tb_, cap);
    if (g_verbose)
        printf("  tight run: rc=%d errno=%s\n", r3.rc, r3.rc < 0 ? ename(r3.err) : "-");
    if (!same) {
        snprintf(sig, sizeof sig, "C10/unstable-result/getter=%s/attr=%s/tp=%s", gname[g], cx->signame, g_tpname);
        finding(cx, sig, "the call on an exactly sized heap block returned %d/%s, on the canary buffer %d/%s", r3.rc,
                ename(r3.err), r1.rc, ename(r1.err));
    }
}

static size_t caps_for(const struct ctx *cx, size_t *caps, size_t max)
{
    size_t n = 0;
    const struct ref *R = &cx->ref;
    if (!R->ok) {
        static const size_t c0[] = { 0, 1, 2, 8, 9, 64, 256, 4096 };
        for (size_t i = 0; i < sizeof c0 / sizeof c0[0]; i++)
            caps[n++] = c0[i];
        return n;
    }
    size_t L = R->len;
    if (L <= cx->cap_all) {
        for (size_t c = 0; c <= L + 2 && n < max; c++)
            caps[n++] = c;
        return n;
    }
    size_t cand[] = { 0, 1, 2, 7, 8, 9, 255, 256, 257, 511, 512, 513, L / 2, L - 2, L - 1, L, L + 1, L + 2 };
    size_t nc = sizeof cand / sizeof cand[0];
    for (size_t i = 0; i < nc; i++)
        for (size_t j = i + 1; j < nc; j++)
            if (cand[j] < cand[i]) {
                size_t t = cand[i];
                cand[i] = cand[j];
                cand[j] = t;
            }
    for (size_t i = 0; i < nc; i++)
        if (cand[i] <= L + 2 && (n == 0 || caps[n - 1] != cand[i]))
            caps[n++] = cand[i];
    return n;
}

/* number of elements the snapshot shows below list `name` (-1: the name is a reported value) */
static int snap_list_count(const struct snap *sn, const char *name)
{
    size_t nl = strlen(name);
    int maxi = -1;
    for (int i = 0; i < sn->n; i++) {
        const char *e = sn->e[i].name;
        if (strcmp(e, name) == 0)
            return -1;
        if (strncmp(e, name, nl) == 0 && e[nl] == '[') {
            int idx = atoi(e + nl + 1);
            if (idx > maxi)
                maxi = idx;
        }
    }
    return maxi + 1;
}

static void listlen_cell(struct ctx *cx)
{
    if (!cell_begin(cx, 'L', "xcm_attr_get_list_len(%s, \"%.200s\")", cx->subject, cx->name))
        return;
    SH->get_cells++;
    SH->calls++;
    errno = 0;
    int rc = xcm_attr_get_list_len(cx->s, cx->name);
    int err = errno;
    SH->checked++;
    char sig[300];
    if (g_verbose)
        printf("  rc=%d errno=%s\n", rc, rc < 0 ? ename(err) : "-");
    if (cx->kind == NK_ODD)
        return;
    int k = cx->snap_valid ? snap_list_count(&cx->snap, cx->name) : 0;
    int is_doc_list = 0;
    for (size_t l = 0; l < sizeof DOC_LISTS / sizeof DOC_LISTS[0]; l++)
        if (strcmp(DOC_LISTS[l], cx->name) == 0 && g_fam_tls && !cx->is_server)
            is_doc_list = 1;
    if (k > 0 || is_doc_list) {
        if (k > 0 && rc < k) {
            snprintf(sig, sizeof sig, "C10/list-len/attr=%s/tp=%s", cx->signame, g_tpname);
            finding(cx, sig, "xcm_attr_get_list_len(\"%s\") returned %d/%s, xcm_attr_get_all reports %d element(s)",
                    cx->name, rc, rc < 0 ? ename(err) : "", k);
        } else if (rc < 0 && err != ENOENT) {
            snprintf(sig, sizeof sig, "C10/list-len-errno/got=%s/attr=%s/tp=%s", ename(err), cx->signame, g_tpname);
            finding(cx, sig, "xcm_attr_get_list_len(\"%s\") failed with %s", cx->name, ename(err));
        }
        return;
    }
    /* not a list */
    if (rc >= 0 && cx->kind != NK_LISTELEM && cx->kind != NK_INTERIOR) {
        snprintf(sig, sizeof sig, "C10/list-len-of-non-list/name=%s/tp=%s", cx->signame, g_tpname);
        finding(cx, sig, "xcm_attr_get_list_len(\"%s\") returned %d for a name that is not a list (%s)", cx->name, rc,
                nkname[cx->kind]);
        return;
    }
    if (rc < 0) {
        int ok = err == ENOENT;
        if (cx->kind == NK_MALFORMED || cx->kind == NK_TOOLONG || cx->ne->label)
            ok = ok || err == EINVAL;
        if (cx->kind == NK_MALFORMED && cx->ne->len == 0)
            ok = ok || err == EACCES;
        if (cx->kind == NK_INTERIOR)
            ok = ok || err == EACCES;
        if (!ok) {
            snprintf(sig, sizeof sig, "C10/list-len-errno/got=%s/name=%s/tp=%s", ename(err), cx->signame, g_tpname);
            finding(cx, sig, "xcm_attr_get_list_len(\"%s\") (%s name) failed with %s", cx->name, nkname[cx->kind],
                    ename(err));
        }
    }
}

/* ============================================================================================ */
/* setters                                                                                       */
/* ============================================================================================ */

struct val {
    int type;
    const unsigned char *p;
    size_t n;                   /* natural size */
    const char *what;           /* for texts */
    int current;                /* the value just read from the attribute */
};

static int64_t I64S[] = { 0, -1, 1, 7, 127, 128, 32767, 32768, 2147483, 2147484, INT32_MAX, (int64_t)INT32_MAX + 1,
                          UINT32_MAX, (int64_t)UINT32_MAX + 1, INT64_MAX, INT64_MIN };
static double DBLS[] = { -1.0, 0.0, 0.5, 2.5, 1e9, -1e-9 };
static bool BOOLS[] = { false, true };
static const char *const STRS[] = { "", "any", "messaging", "bytestream", "junk", "single", "sequential",
                                    "happy_eyeballs", "alpha.verif.test:peer.verif.test", "not a!valid:name",
                                    "/nonexistent/file.pem", "tcp:127.0.0.1:0" };
static char STR300[301], STR700[701];
static unsigned char BIN100[100], BINNUL[8] = { 'a', 'b', 0, 'c', 'd', 'e', 'f', 'g' };

/* is this value of the right type certainly invalid for this attribute (by xcm.h or by plain sense)? */
static int value_known_invalid(const char *attr, const struct val *v)
{
    if (v->type == T_I && v->n == 8) {
        int64_t x;
        memcpy(&x, v->p, 8);
        if (!strcmp(attr, "tcp.keepalive_time") || !strcmp(attr, "tcp.keepalive_interval") ||
            !strcmp(attr, "tcp.keepalive_count"))
            return x < 0 || x > INT32_MAX;
        if (!strcmp(attr, "tcp.user_timeout"))
            return x < 0 || x > INT32_MAX / 1000;
        if (!strcmp(attr, "ipv6.scope"))
            return x < 0 || x > (int64_t)UINT32_MAX;
    }
    if (v->type == T_D && v->n == 8) {
        double d;
        memcpy(&d, v->p, 8);
        if (!strcmp(attr, "dns.timeout") || !strcmp(attr, "tcp.connect_timeout"))
            return d < 0;
    }
    if (v->type == T_S) {
        const char *s = (const char *)v->p;
        if (!strcmp(attr, "xcm.service"))
            return strcmp(s, "any") && strcmp(s, "messaging") && strcmp(s, "bytestream");
        if (!strcmp(attr, "dns.algorithm"))
            return strcmp(s, "single") && strcmp(s, "sequential") && strcmp(s, "happy_eyeballs");
        if (!strcmp(attr, "tls.peer_names"))
            return strchr(s, ' ') != NULL || strchr(s, '!') != NULL;
    }
    return 0;
}

static size_t set_lens(const struct val *v, size_t *lens)
{
    size_t cand[6] = { 0, 1, v->n ? v->n - 1 : 0, v->n, v->n + 1, 4096 };
    size_t n = 0;
    for (int i = 0; i < 6; i++) {
        int dup = 0;
        for (size_t j = 0; j < n; j++)
            if (lens[j] == cand[i])
                dup = 1;
        if (!dup)
            lens[n++] = cand[i];
    }
    return n;
}

/* exact heap block of `len` bytes: the value, truncated or padded with 'Z' */
static unsigned char *value_block(const struct val *v, size_t len)
{
    unsigned char *b = malloc(len);
    size_t k = len < v->n ? len : v->n;
    if (k)
        memcpy(b, v->p, k);
    if (len > k)
        memset(b + k, 'Z', len - k);
    return b;
}

static int len_valid_for_type(int type, size_t len)
{
    switch (type) {
    case T_B: return len == sizeof(bool);
    case T_I: return len == 8;
    case T_D: return len == 8;
    case T_S: return len > 0;
    default: return 1;
    }
}

static void val_text(struct tb *b, const struct val *v, size_t len)
{
    tb_f(b, "%s ", tname(v->type));
    if (v->type == T_I && v->n == 8) {
        int64_t x;
        memcpy(&x, v->p, 8);
        tb_f(b, "%lld", (long long)x);
    } else if (v->type == T_D && v->n == 8) {
        double d;
        memcpy(&d, v->p, 8);
        tb_f(b, "%g", d);
    } else if (v->type == T_B && v->n == 1)
        tb_f(b, "%s", v->p[0] ? "true" : "false");
    else
        tb_cstr(b, (const char *)v->p, v->type == T_S && v->n ? v->n - 1 : v->n);
    tb_f(b, "%s, len=%zu (natural size %zu)", v->current ? " (the current value)" : "", len, v->n);
}

struct setverdict {
    int must_reject;
    int no_verdict;
    const char *reason;
    int applicable[5];
    int na;
};

static void sv_add(struct setverdict *sv, int e)
{
    for (int i = 0; i < sv->na; i++)
        if (sv->applicable[i] == e)
            return;
    if (sv->na < 5)
        sv->applicable[sv->na++] = e;
}

/* what the property demands of xcm_attr_set(name, v->type, value, len) */
static void set_model(const struct ctx *cx, const struct val *v, size_t len, struct setverdict *sv)
{
    memset(sv, 0, sizeof *sv);
    sv->reason = "";
    if (cx->kind == NK_ODD) {
        sv->no_verdict = 1;
        return;
    }
    int lv = len_valid_for_type(v->type, len);
    /* the block handed over holds min(len, natural) value bytes, then 'Z' padding */
    int unterminated = v->type == T_S && len > 0 && memchr(v->p, 0, len < v->n ? len : v->n) == NULL;
    if (!lv) {
        sv->must_reject = 1;
        sv->reason = "wrong-length";
        sv_add(sv, EINVAL);
    }
    if (unterminated)
        sv_add(sv, EINVAL);             /* a string without its NUL: a wrong length/value whatever the name is */
    switch (cx->kind) {
    case NK_MALFORMED:
    case NK_TOOLONG:
        sv->must_reject = 1;
        if (!sv->reason[0]) sv->reason = "malformed-name";
        sv_add(sv, EINVAL);
        sv_add(sv, ENOENT);
        if (cx->ne->len == 0)
            sv_add(sv, EACCES);         /* the empty path is the root dictionary */
        return;
    case NK_UNKNOWN:
        sv->must_reject = 1;
        if (!sv->reason[0]) sv->reason = "unknown-name";
        sv_add(sv, ENOENT);
        if (cx->ne->label)
            sv_add(sv, EINVAL);         /* beyond a size limit of the path syntax */
        return;
    case NK_INTERIOR:
        sv->must_reject = 1;
        if (!sv->reason[0]) sv->reason = "interior-node";
        sv_add(sv, ENOENT);
        sv_add(sv, EACCES);
        return;
    case NK_LISTELEM:
        sv->must_reject = 1;
        if (!sv->reason[0]) sv->reason = "beyond-list";
        sv_add(sv, ENOENT);
        sv_add(sv, EACCES);
        return;
    default:
        break;
    }
    /* NK_SNAP / NK_DOC */
    int rw = cx->doc ? cx->doc->rw : 0;         /* reported but undocumented (list elements): read-only */
    int atype = cx->ref.ok ? cx->ref.type : (cx->doc ? cx->doc->type : 0);
    if (cx->kind == NK_DOC)
        sv_add(sv, ENOENT);                     /* not present in this state */
    sv_add(sv, EACCES);                         /* read-only, or read-only in this state */
    if (!rw) {
        sv->must_reject = 1;
        if (!sv->reason[0]) sv->reason = "read-only";
        return;
    }
    if (atype && v->type != atype) {
        sv->must_reject = 1;
        if (!sv->reason[0]) sv->reason = "wrong-type";
        sv_add(sv, EINVAL);
        return;
    }
    if (!lv)
        return;
    if (unterminated) {
        /* a string without its NUL inside `len`: must not be read beyond len; rejecting it is
           expected (EINVAL), accepting the len bytes would be tolerated */
        sv_add(sv, EINVAL);
        sv->reason = "unterminated-string";
        return;
    }
    if (len == v->n && value_known_invalid(cx->name, v)) {
        sv->must_reject = 1;
        sv->reason = "invalid-value";
        sv_add(sv, EINVAL);
        return;
    }
    sv_add(sv, EINVAL);
    sv->reason = "plausible-value";
}

static int state_settled(const char *st)
{
    return !strcmp(st, "server") || !strcmp(st, "established");
}

static int g_wrap_bnd;           /* wrapcaps=bnd */
static int g_set_lite;           /* setlite=1 */
static int g_snap_each;          /* snap=each: compare the snapshot after every rejected set */

/* compare the socket with the baseline snapshot; a difference is a side effect of a rejected set */
static void side_effect_check(struct ctx *cx, const char *what_set, const char *errtxt)
{
    struct snap after;
    char nm[200], what[500], sig[300];
    snap_take(cx->s, &after);
    if (snap_diff(&cx->snap, &after, nm, sizeof nm, what, sizeof what)) {
        char cn[200];
        canon_name(nm, cn, sizeof cn);
        snprintf(sig, sizeof sig, "C10/set-side-effect/attr=%s/changed=%s/tp=%s", cx->signame,
                 strcmp(cn, cx->signame) ? cn : "itself", g_tpname);
        finding(cx, sig, "%s %s but changed the socket: %s", what_set, errtxt, what);
        snap_free(&cx->snap);
        cx->snap = after;
    } else
        snap_free(&after);
}

static void set_cell(struct ctx *cx, const struct val *v, size_t len, int check_now)
{
    struct tb d = { 0 };
    val_text(&d, v, len);
    int run = cell_begin(cx, 'S', "xcm_attr_set(%s, \"%.200s\", %s)", cx->subject, cx->name, d.p);
    if (!run) {
        free(d.p);
        return;
    }
    SH->set_cells++;
    struct setverdict sv;
    set_model(cx, v, len, &sv);
    if (!cx->snap_valid) {
        snap_free(&cx->snap);
        snap_take(cx->s, &cx->snap);
        cx->snap_valid = 1;
    }
    unsigned char *blk = value_block(v, len);
    SH->calls++;
    errno = 0;
    int rc = xcm_attr_set(cx->s, cx->name, (enum xcm_attr_type)v->type, blk, len);
    int err = errno;
    free(blk);
    SH->checked++;
    char sig[300];
    if (g_verbose)
        printf("  rc=%d errno=%s; model: %s%s (%s)\n", rc, rc < 0 ? ename(err) : "-",
               sv.no_verdict ? "no verdict" : sv.must_reject ? "must be rejected" : "may succeed",
               "", sv.reason);
    if (rc == 0) {
        SH->set_success++;
        cx->snap_valid = 0;
        if (sv.must_reject && !sv.no_verdict) {
            snprintf(sig, sizeof sig, "C10/set-accepted/%s/attr=%s/tp=%s", sv.reason, cx->signame, g_tpname);
            finding(cx, sig, "xcm_attr_set(\"%s\", %s) returned 0 although it must be rejected (%s; name is %s)",
                    cx->signame, d.p, sv.reason, nkname[cx->kind]);
        }
        free(d.p);
        return;
    }
    int classic = err == EINVAL || err == EACCES || err == ENOENT;
    if (classic)
        SH->set_rejected++;
    else
        SH->set_failed_other++;
    if (!sv.no_verdict && (sv.must_reject || classic) && !errno_in(err, sv.applicable, sv.na)) {
        char exp[96];
        errset_str(exp, sizeof exp, sv.applicable, sv.na);
        if (sv.must_reject || classic) {
            snprintf(sig, sizeof sig, "C10/set-errno/%s/got=%s/attr=%s/tp=%s", sv.reason, ename(err), cx->signame,
                     g_tpname);
            finding(cx, sig, "xcm_attr_set(\"%s\", %s) failed with %s; applicable here: %s (%s; name is %s)",
                    cx->signame, d.p, ename(err), exp, sv.reason, nkname[cx->kind]);
        }
    }
    if (!classic && !sv.must_reject) {
        char key[96], txt[300];
        snprintf(key, sizeof key, "set-fails-with-%s/attr=%s", ename(err), cx->signame);
        snprintf(txt, sizeof txt, "xcm_attr_set(\"%s\", %s) in state %s failed with %s (outside the property's errno list; "
                 "not judged)", cx->signame, d.p, cx->state, ename(err));
        info_line(key, txt);
    }
    /* a rejected set has no side effects */
    if (classic || sv.must_reject) {
        if (check_now) {
            char ws[700], et[64];
            snprintf(ws, sizeof ws, "xcm_attr_set(\"%s\", %s)", cx->signame, d.p);
            snprintf(et, sizeof et, "was rejected with %s", ename(err));
            side_effect_check(cx, ws, et);
        } else
            cx->pending_rejects++;
    }
    free(d.p);
}

/* every (type, value, length) tried on one name */
static void set_cells(struct ctx *cx)
{
    int atype = cx->ref.ok ? cx->ref.type : (cx->doc ? cx->doc->type : 0);
    int rich = cx->kind == NK_SNAP || cx->kind == NK_DOC;
    static const int types[5] = { T_B, T_I, T_D, T_S, T_N };
    for (int ti = 0; ti < 5; ti++) {
        int t = types[ti];
        struct val vals[40];
        int nv = 0;
        int full = rich && t == atype;
        /* the attribute's own setter can only run for values of its own type on a writable attribute:
           there the socket is compared after every rejected set; elsewhere once per value type */
        int each = g_snap_each || (full && cx->doc && cx->doc->rw);
        cx->pending_rejects = 0;
        if (full && cx->ref.ok)
            vals[nv++] = (struct val){ t, cx->ref.val, cx->ref.len, "current", 1 };
        switch (t) {
        case T_B:
            for (int i = 0; i < 2; i++)
                vals[nv++] = (struct val){ t, (unsigned char *)&BOOLS[i], sizeof(bool), "", 0 };
            break;
        case T_I:
            for (size_t i = 0; i < (full ? sizeof I64S / sizeof I64S[0] : 2); i++)
                vals[nv++] = (struct val){ t, (unsigned char *)&I64S[i], 8, "", 0 };
            break;
        case T_D:
            for (size_t i = 0; i < (full ? sizeof DBLS / sizeof DBLS[0] : 2); i++)
                vals[nv++] = (struct val){ t, (unsigned char *)&DBLS[i], 8, "", 0 };
            break;
        case T_S:
            for (size_t i = 0; i < (full ? sizeof STRS / sizeof STRS[0] : 2); i++)
                vals[nv++] = (struct val){ t, (const unsigned char *)STRS[i], strlen(STRS[i]) + 1, "", 0 };
            if (full) {
                vals[nv++] = (struct val){ t, (unsigned char *)STR300, 301, "", 0 };
                vals[nv++] = (struct val){ t, (unsigned char *)STR700, 701, "", 0 };
            }
            break;
        case T_N:
            vals[nv++] = (struct val){ t, (const unsigned char *)"x", 1, "", 0 };
            vals[nv++] = (struct val){ t, BIN100, sizeof BIN100, "", 0 };
            if (full)
                vals[nv++] = (struct val){ t, BINNUL, sizeof BINNUL, "", 0 };
            break;
        }
        for (int vi = 0; vi < nv; vi++) {
            /* switching a socket whose connection is still under way to blocking mode waits for the
               peer by definition: not a set that can be judged here (C11 owns its effect) */
            if (t == T_B && !strcmp(cx->name, "xcm.blocking") && vals[vi].p[0] && !state_settled(cx->state)) {
                continue;
            }
            size_t lens[6];
            size_t nl = set_lens(&vals[vi], lens);
            if (cx->reduced) {
                if (vi > 0)
                    break;
                lens[0] = vals[vi].n;
                nl = 1;
            }
            for (size_t li = 0; li < nl; li++) {
                if (t == T_B && !strcmp(cx->name, "xcm.blocking") && vals[vi].p[0] && lens[li] != 1 &&
                    !state_settled(cx->state))
                    continue;
                /* setlite=1: the wrong-length family only with the first two values of the attribute's
                   own type, and other types with one value at lengths 0 and natural */
                if (g_set_lite && !cx->reduced) {
                    if (full ? (vi >= 2 && lens[li] != vals[vi].n)
                             : (vi >= 1 || (lens[li] != vals[vi].n && lens[li] != 0)))
                        continue;
                }
                int valid_before = cx->snap_valid;
                set_cell(cx, &vals[vi], lens[li], each);
                if (!each && valid_before && !cx->snap_valid)
                    cx->pending_rejects = 0;        /* a set succeeded: new baseline */
            }
        }
        if (!each && cx->pending_rejects && cx->snap_valid) {
            char ws[300], et[96];
            snprintf(ws, sizeof ws, "one of %d rejected xcm_attr_set(\"%s\", <%s value>) calls", cx->pending_rejects,
                     cx->signame, tname(t));
            snprintf(et, sizeof et, "(errno EINVAL/EACCES/ENOENT)");
            cx->cell = cx->cell;    /* replay: the whole group (cell -1) */
            side_effect_check(cx, ws, et);
        }
        cx->pending_rejects = 0;
    }
}

/* ============================================================================================ */
/* "fresh" sockets: the only way to reach a socket that is not yet connected/bound is the         */
/* attribute map of xcm_connect_a / xcm_server_a / xcm_accept_a                                   */
/* ============================================================================================ */

static void fresh_cell(struct ctx *cx, const struct val *v, size_t len)
{
    struct tb d = { 0 };
    val_text(&d, v, len);
    const char *fn = !strcmp(cx->subject, "fresh-conn") ? "xcm_connect_a" :
        !strcmp(cx->subject, "fresh-server") ? "xcm_server_a" : "xcm_accept_a";
    if (!cell_begin(cx, 'F', "%s(attrs={\"%.200s\": %s})", fn, cx->name, d.p)) {
        free(d.p);
        return;
    }
    SH->fresh_cells++;
    struct as_world *w = cx->w;
    struct setverdict sv;
    set_model(cx, v, len, &sv);
    unsigned char *blk = value_block(v, len);
    int which = fn[4] == 'c' ? 0 : fn[4] == 's' ? 1 : 2;
    struct xcm_attr_map *m = which == 2 ? xcm_attr_map_create() :
        as_base_attrs(w, as_side_is_tls(w, which), which ? w->srv_set : w->cli_set);
    if (which == 2)
        xcm_attr_map_add_bool(m, "xcm.blocking", false);
    xcm_attr_map_add(m, cx->name, (enum xcm_attr_type)v->type, blk, len);
    free(blk);
    struct xcm_socket *s = NULL, *cli = NULL;
    SH->calls++;
    errno = 0;
    if (which == 0)
        s = xcm_connect_a(w->caddr, m);
    else if (which == 1) {
        if (!strcmp(w->tp, "uxf"))
            unlink(w->saddr + 4);
        s = xcm_server_a(w->saddr, m);
    } else {
        struct xcm_attr_map *cm = as_base_attrs(w, as_side_is_tls(w, 0), w->cli_set);
        cli = xcm_connect_a(w->caddr, cm);
        xcm_attr_map_destroy(cm);
        if (cli)
            for (int i = 0; i < 20 && !s; i++) {
                errno = 0;
                s = xcm_accept_a(w->server, m);
                if (!s && errno != EAGAIN)
                    break;
                xcm_finish(cli);
            }
    }
    int err = errno;
    xcm_attr_map_destroy(m);
    SH->checked++;
    if (g_verbose)
        printf("  -> %s errno=%s; model: %s (%s)\n", s ? "socket" : "NULL", s ? "-" : ename(err),
               sv.no_verdict ? "no verdict" : sv.must_reject ? "must be rejected" : "may succeed", sv.reason);
    char sig[300];
    if (which == 2 && !cli) {
        info_line("fresh-accept-no-client", "client connection for xcm_accept_a could not be created");
    } else if (s) {
        SH->set_success++;
        if (sv.must_reject && !sv.no_verdict) {
            snprintf(sig, sizeof sig, "C10/set-accepted/%s/at=%s/attr=%s/tp=%s", sv.reason, fn, cx->signame, g_tpname);
            finding(cx, sig, "%s with attribute \"%s\" = %s returned a socket although the attribute must be rejected "
                    "(%s; name is %s)", fn, cx->signame, d.p, sv.reason, nkname[cx->kind]);
        }
    } else {
        if (err == EINVAL || err == EACCES || err == ENOENT)
            SH->set_rejected++;
        else
            SH->set_failed_other++;
        if (sv.must_reject && !sv.no_verdict && !errno_in(err, sv.applicable, sv.na)) {
            char exp[96];
            errset_str(exp, sizeof exp, sv.applicable, sv.na);
            snprintf(sig, sizeof sig, "C10/set-errno/%s/at=%s/got=%s/attr=%s/tp=%s", sv.reason, fn, ename(err),
                     cx->signame, g_tpname);
            finding(cx, sig, "%s with attribute \"%s\" = %s failed with %s; applicable: %s (%s)", fn, cx->signame, d.p,
                    ename(err), exp, sv.reason);
        }
    }
    if (s)
        xcm_close(s);
    if (cli)
        xcm_close(cli);
    if (which == 2 && !s) {
        /* a refused xcm_accept_a may leave the connection in the listen queue: empty it */
        struct xcm_attr_map *dm = xcm_attr_map_create();
        xcm_attr_map_add_bool(dm, "xcm.blocking", false);
        for (int i = 0; i < 8; i++) {
            struct xcm_socket *x = xcm_accept_a(w->server, dm);
            if (!x)
                break;
            xcm_close(x);
        }
        xcm_attr_map_destroy(dm);
    }
    free(d.p);
}

static void fresh_cells(struct ctx *cx)
{
    int atype = cx->doc ? cx->doc->type : 0;
    int rich = cx->kind == NK_DOC;
    static const int types[5] = { T_B, T_I, T_D, T_S, T_N };
    for (int ti = 0; ti < 5; ti++) {
        int t = types[ti];
        struct val vals[40];
        int nv = 0;
        int full = rich && t == atype;
        switch (t) {
        case T_B:
            for (int i = 0; i < 2; i++)
                vals[nv++] = (struct val){ t, (unsigned char *)&BOOLS[i], sizeof(bool), "", 0 };
            break;
        case T_I:
            for (size_t i = 0; i < (full ? sizeof I64S / sizeof I64S[0] : 2); i++)
                vals[nv++] = (struct val){ t, (unsigned char *)&I64S[i], 8, "", 0 };
            break;
        case T_D:
            for (size_t i = 0; i < (full ? sizeof DBLS / sizeof DBLS[0] : 2); i++)
                vals[nv++] = (struct val){ t, (unsigned char *)&DBLS[i], 8, "", 0 };
            break;
        case T_S:
            for (size_t i = 0; i < (full ? sizeof STRS / sizeof STRS[0] : 2); i++)
                vals[nv++] = (struct val){ t, (const unsigned char *)STRS[i], strlen(STRS[i]) + 1, "", 0 };
            if (full) {
                vals[nv++] = (struct val){ t, (unsigned char *)STR300, 301, "", 0 };
                vals[nv++] = (struct val){ t, (unsigned char *)STR700, 701, "", 0 };
            }
            break;
        case T_N:
            vals[nv++] = (struct val){ t, (const unsigned char *)"x", 1, "", 0 };
            vals[nv++] = (struct val){ t, BIN100, sizeof BIN100, "", 0 };
            if (full)
                vals[nv++] = (struct val){ t, BINNUL, sizeof BINNUL, "", 0 };
            break;
        }
        for (int vi = 0; vi < nv; vi++) {
            if (t == T_B && !strcmp(cx->name, "xcm.blocking") && vals[vi].p[0])
                continue;       /* a blocking connect/accept waits for a peer that is this very thread */
            size_t lens[6];
            size_t nl = set_lens(&vals[vi], lens);
            for (size_t li = 0; li < nl; li++) {
                /* xcm_attr_map_add() itself demands the exact length of the fixed-size types */
                if ((t == T_B || t == T_I || t == T_D) && lens[li] != vals[vi].n)
                    continue;
                fresh_cell(cx, &vals[vi], lens[li]);
            }
        }
    }
}

/* ============================================================================================ */
/* one group = everything about one name on one subject socket (runs in a forked child)          */
/* ============================================================================================ */

static void make_signame(struct ctx *cx)
{
    if (cx->ne->label) {
        snprintf(cx->signame, sizeof cx->signame, "<%s>", cx->ne->label);
        return;
    }
    if (cx->kind == NK_SNAP || cx->kind == NK_DOC || cx->kind == NK_INTERIOR || cx->kind == NK_LISTELEM) {
        canon_name(cx->name, cx->signame, sizeof cx->signame);
        return;
    }
    struct tb b = { 0 };
    tb_pct(&b, cx->ne->name, cx->ne->len > 40 ? 40 : cx->ne->len);
    snprintf(cx->signame, sizeof cx->signame, "<%s:%s%s>", nkname[cx->kind], b.p, cx->ne->len > 40 ? "..." : "");
    free(b.p);
}

static void reference_read(struct ctx *cx, int skip)
{
    struct ref *R = &cx->ref;
    memset(R, 0, sizeof *R);
    R->err = ENOENT;
    if (skip || !cx->s)
        return;
    /* always performed (the later cells need it); judged only when this cell is due */
    int counted = cell_begin(cx, 'R', "xcm_attr_get(%s, \"%.200s\", capacity=65536) [reference read]", cx->subject,
                             cx->name);
    if (!counted) {
        snprintf(SH->desc, sizeof SH->desc, "xcm_attr_get(%s, \"%.200s\", capacity=65536) [reference read]", cx->subject,
                 cx->name);
        SH->phase = 'R';
    }
    static unsigned char *big;
    if (!big)
        big = malloc(65536);
    enum xcm_attr_type t = 0;
    SH->calls++;
    errno = 0;
    int rc = xcm_attr_get(cx->s, cx->name, &t, big, 65536);
    int err = errno;
    if (rc >= 0) {
        R->ok = 1;
        R->type = t;
        R->len = (size_t)rc;
        R->val = exact_dup(big, (size_t)rc);
    } else
        R->err = err;
    if (g_verbose)
        printf("  reference: %s, name is %s\n", rc >= 0 ? tname(t) : ename(err), nkname[cx->kind]);
    if (!counted)
        return;
    char sig[300];
    int ok = 1;
    int al[4], na = 0;
    switch (cx->kind) {
    case NK_SNAP: {
        const struct snap_ent *e = snap_find(&cx->snap, cx->name);
        if (rc < 0 || !e || e->type != (int)t || e->len != (size_t)rc || memcmp(e->val, big, e->len) != 0) {
            snprintf(sig, sizeof sig, "C10/unstable-result/get-vs-get-all/attr=%s/tp=%s", cx->signame, g_tpname);
            finding(cx, sig, "xcm_attr_get(\"%s\") with a 64 KB buffer returned %d/%s, xcm_attr_get_all reported a %s of "
                    "%zu bytes", cx->name, rc, rc < 0 ? ename(err) : "", e ? tname(e->type) : "?", e ? e->len : 0);
        }
        return;
    }
    case NK_UNKNOWN:
        al[na++] = ENOENT;
        if (cx->ne->label)
            al[na++] = EINVAL;
        break;
    case NK_MALFORMED:
    case NK_TOOLONG:
        al[na++] = EINVAL;
        al[na++] = ENOENT;
        if (cx->ne->len == 0)
            al[na++] = EACCES;
        break;
    case NK_INTERIOR:
        al[na++] = ENOENT;
        al[na++] = EACCES;
        break;
    case NK_LISTELEM:
        al[na++] = ENOENT;
        al[na++] = EACCES;
        break;
    default:
        return;
    }
    if (rc >= 0)
        ok = 0;
    else if (!errno_in(err, al, na))
        ok = 0;
    if (!ok) {
        char exp[64];
        errset_str(exp, sizeof exp, al, na);
        if (rc >= 0)
            snprintf(sig, sizeof sig, "C10/get-succeeded/%s-name/name=%s/tp=%s", nkname[cx->kind], cx->signame, g_tpname);
        else
            snprintf(sig, sizeof sig, "C10/get-errno/%s-name/got=%s/name=%s/tp=%s", nkname[cx->kind], ename(err),
                     cx->signame, g_tpname);
        finding(cx, sig, "xcm_attr_get on the %s name \"%.120s\" returned %d/%s, expected failure with %s",
                nkname[cx->kind], cx->name, rc, rc < 0 ? ename(err) : "", exp);
    }
}

static void run_group(struct ctx *cx, int skip_ref)
{
    cx->name = exact_name(cx->ne->name, cx->ne->len);
    cx->cell = -1;
    int fresh = cx->s == NULL;
    if (!fresh) {
        snap_take(cx->s, &cx->snap);
        cx->snap_valid = 1;
    }
    cx->kind = classify(cx->ne->name, cx->ne->len, fresh ? NULL : &cx->snap, cx->is_server);
    cx->doc = cx->kind == NK_SNAP || cx->kind == NK_DOC ? doc_find(cx->name, cx->is_server) : NULL;
    make_signame(cx);
    if (fresh) {
        reference_read(cx, 1);
        if (!strcmp(cx->subject, "fresh-accept")) {
            if (as_mk_server(cx->w, NULL) < 0) {
                info_line("fresh-accept-no-server", cx->w->err);
                return;
            }
        }
        fresh_cells(cx);
        return;
    }
    reference_read(cx, skip_ref);
    if (skip_ref && cx->ne->label) {
        /* the reference read itself is fatal for this name: every getter is still tried */
    }
    size_t caps[CAPMAX > 4096 ? 9000 : 4096];
    size_t nc = caps_for(cx, caps, 8990);
    cx->reduced = skip_ref;
    if (skip_ref) {
        /* the plain read of this name kills the process: every API function is still tried, once */
        nc = 0;
        caps[nc++] = 8;
    }
    int has1 = 0, has8 = 0;
    for (size_t i = 0; i < nc; i++) {
        has1 |= caps[i] == 1;
        has8 |= caps[i] == 8;
    }
    if (!has1)
        caps[nc++] = 1;
    if (!has8)
        caps[nc++] = 8;
    size_t L = cx->ref.ok ? cx->ref.len : 0;
    for (size_t i = 0; i < nc; i++)
        for (int g = G_GET; g <= G_GETF_BIN; g++) {
            size_t c = caps[i];
            /* wrapcaps=bnd: the thin wrappers only at the boundary capacities */
            if (g != G_GET && g_wrap_bnd && cx->ref.ok &&
                !(c <= 1 || c == 8 || c + 1 == L || c == L || c == L + 1 || c == L + 2))
                continue;
            getter_cell(cx, (enum getter)g, c);
        }
    for (int g = G_BOOL; g < G_N; g++)
        getter_cell(cx, (enum getter)g, gfixed[g]);
    listlen_cell(cx);
    set_cells(cx);
}

/* ============================================================================================ */
/* the cell process                                                                              */
/* ============================================================================================ */

static char g_rundir[300];
static char g_stderr_path[340];

static void parse_crash(const char *txt, int status, char *kind, size_t kn)
{
    const char *p;
    if ((p = strstr(txt, "ERROR: AddressSanitizer: ")) != NULL) {
        p += strlen("ERROR: AddressSanitizer: ");
        size_t k = 0;
        while (p[k] && p[k] != ' ' && p[k] != '\n' && k < 60)
            k++;
        const char *rw = strstr(txt, "READ of size") ? "-READ" : strstr(txt, "WRITE of size") ? "-WRITE" : "";
        snprintf(kind, kn, "asan:%.*s%s", (int)k, p, rw);
        char *hb = strstr(kind, "heap-buffer-overflow");        /* keep signatures below the artefact name limit */
        if (hb)
            memmove(hb + 4, hb + 11, strlen(hb + 11) + 1);      /* -> heap-overflow */
        return;
    }
    if ((p = strstr(txt, "runtime error: ")) != NULL) {
        p += strlen("runtime error: ");
        char b[48];
        size_t k = 0;
        for (; p[k] && p[k] != '\n' && k < 40; k++) {
            char c = p[k];
            if (c >= '0' && c <= '9')
                break;                  /* numbers vary with the input */
            b[k] = (c >= 'a' && c <= 'z') ? c : '-';
        }
        while (k && b[k - 1] == '-')
            k--;
        b[k] = 0;
        snprintf(kind, kn, "ubsan:%s", b);
        return;
    }
    if ((p = strstr(txt, "ssertion")) != NULL) {
        snprintf(kind, kn, "assert");
        return;
    }
    if (WIFSIGNALED(status)) {
        int sg = WTERMSIG(status);
        snprintf(kind, kn, "%s", sg == SIGSEGV ? "SIGSEGV" : sg == SIGABRT ? "SIGABRT" : sg == SIGALRM ? "hang" :
                 sg == SIGBUS ? "SIGBUS" : sg == SIGFPE ? "SIGFPE" : "signal");
        return;
    }
    snprintf(kind, kn, "exit-%d", WEXITSTATUS(status));
}

static int g_any_bad;
static int g_timing;
int __real_clock_gettime(clockid_t, struct timespec *);

static void do_group(struct ctx *proto, const struct name_ent *ne, long only_cell)
{
    long start = 0;
    int skip_ref = 0;
    int crashes = 0;
    SH->groups++;
    for (;;) {
        SH->cell_no = -1;
        SH->phase = 0;
        SH->desc[0] = 0;
        fflush(stdout);
        pid_t pid = fork();
        if (pid < 0) {
            info_line("fork-failed", strerror(errno));
            return;
        }
        if (pid == 0) {
            int fd = open(g_stderr_path, O_WRONLY | O_CREAT | O_TRUNC, 0644);
            if (fd >= 0) {
                dup2(fd, 2);
                close(fd);
            }
            alarm(g_verbose ? 600 : 240);
            struct ctx cx = *proto;
            cx.ne = ne;
            cx.start_cell = start;
            cx.only_cell = only_cell;
            g_basebad = calloc(CAPMAX + 2, 1);
            run_group(&cx, skip_ref);
            fflush(stdout);
            _exit(0);
        }
        SH->forks++;
        int st = 0;
        struct timespec t0, t1;
        if (g_timing)
            __real_clock_gettime(CLOCK_MONOTONIC, &t0);
        while (waitpid(pid, &st, 0) < 0 && errno == EINTR)
            ;
        if (g_timing) {
            __real_clock_gettime(CLOCK_MONOTONIC, &t1);
            fprintf(stderr, "timing: %.1f ms status=0x%x cells=%ld name=%.40s\n",
                    (t1.tv_sec - t0.tv_sec) * 1e3 + (t1.tv_nsec - t0.tv_nsec) / 1e6, st, SH->cell_no, ne->name);
        }
        if (WIFEXITED(st) && WEXITSTATUS(st) == 0)
            return;
        /* the child died inside cell SH->cell_no */
        crashes++;
        SH->crashes++;
        g_any_bad = 1;
        char txt[6000];
        size_t tl = 0;
        FILE *f = fopen(g_stderr_path, "r");
        if (f) {
            tl = fread(txt, 1, sizeof txt - 1, f);
            fclose(f);
        }
        txt[tl] = 0;
        char kind[96];
        parse_crash(txt, st, kind, sizeof kind);
        long cell = SH->cell_no;
        /* signature: what was called on what */
        struct ctx cx = *proto;
        cx.ne = ne;
        cx.name = ne->name;
        cx.cell = cell;
        struct snap sn = { 0 };
        if (cx.s)
            snap_take(cx.s, &sn);
        cx.kind = classify(ne->name, ne->len, cx.s ? &sn : NULL, cx.is_server);
        make_signame(&cx);
        snap_free(&sn);
        char op[64];
        size_t k = 0;
        while (SH->desc[k] && SH->desc[k] != '(' && k < sizeof op - 1) {
            op[k] = SH->desc[k];
            k++;
        }
        op[k] = 0;
        char detail[64] = "";
        if (SH->phase == 'S' || SH->phase == 'F') {
            /* value type and whether the length is the natural one are part of the input shape */
            const char *t = strstr(SH->desc, ", bool ") ? "bool" : strstr(SH->desc, ", int64 ") ? "int64" :
                strstr(SH->desc, ", double ") ? "double" : strstr(SH->desc, ", str ") ? "str" :
                strstr(SH->desc, ", bin ") ? "bin" : strstr(SH->desc, ": bool ") ? "bool" :
                strstr(SH->desc, ": int64 ") ? "int64" : strstr(SH->desc, ": double ") ? "double" :
                strstr(SH->desc, ": str ") ? "str" : "bin";
            size_t len = 0, nat = 0;
            const char *lp = strstr(SH->desc, "len=");
            if (lp)
                sscanf(lp, "len=%zu (natural size %zu)", &len, &nat);
            snprintf(detail, sizeof detail, "%s.%s/", t, len < nat ? "short" : len == nat ? "exact" : "long");
        }
        char sig[400];
        int about_name = cx.kind == NK_MALFORMED || cx.kind == NK_TOOLONG || cx.kind == NK_UNKNOWN || cx.kind == NK_ODD;
        if (about_name)
            /* not an attribute: whatever is called, the name is the input that matters */
            snprintf(sig, sizeof sig, "C10/crash/%s/name=%s/tp=%s", kind, cx.signame, g_tpname);
        else if (SH->phase == 'S' || SH->phase == 'F')
            /* set at run time or through the attribute map of a creating call: the attribute's setter */
            snprintf(sig, sizeof sig, "C10/crash/%s/set/%sname=%s/tp=%s", kind, detail, cx.signame, g_tpname);
        else if (SH->phase == 'A' || SH->phase == 'B' || SH->phase == 'R' || SH->phase == 'L')
            /* a read of an attribute: the attribute's getter (or what the generic layer does with its result) */
            snprintf(sig, sizeof sig, "C10/crash/%s/get/name=%s/tp=%s", kind, cx.signame, g_tpname);
        else if (cell < 0)
            snprintf(sig, sizeof sig, "C10/crash/%s/group-setup/name=%s/tp=%s", kind, cx.signame, g_tpname);
        else
            snprintf(sig, sizeof sig, "C10/crash/%s/%s/%sname=%s/tp=%s", kind, op, detail, cx.signame, g_tpname);
        char text[1500];
        /* first lines of the report */
        char head[500];
        size_t hl = 0;
        const char *e = strstr(txt, "ERROR");
        if (!e)
            e = strstr(txt, "runtime error");
        if (!e)
            e = txt;
        for (; e[hl] && hl < sizeof head - 1; hl++)
            head[hl] = e[hl] == '\n' ? ' ' : e[hl];
        head[hl] = 0;
        snprintf(text, sizeof text, "the process died (%s, wait status 0x%x) inside %s  [socket: %s of %s]  %s", kind, st,
                 SH->desc[0] ? SH->desc : "(group set-up)", cx.subject, g_cellparams, head);
        if (g_verbose)
            printf("CRASH %s\n  %s\n", sig, text);
        finding_v(&cx, cell, sig, text);
        if (only_cell >= 0 || cell < 0 || cell < start || crashes > 4000)
            return;
        if (SH->phase == 'R') {
            if (skip_ref)
                return;
            skip_ref = 1;
        }
        start = cell + 1;
    }
}

static void usage(void)
{
    fprintf(stderr, "usage: h_attr --cell tp=..,state=..,ip=4|6,cred=file|value,capall=N --pki DIR --names FILE "
                    "--run DIR [--one 'subject|pct-name|cell']\n");
    exit(2);
}

int main(int argc, char **argv)
{
    const char *cell = NULL, *pki = "/verif/build/pki", *names = NULL, *run = NULL, *one = NULL;
    g_exe = argv[0];
    for (int i = 1; i < argc; i++) {
        if (!strcmp(argv[i], "--cell") && i + 1 < argc) cell = argv[++i];
        else if (!strcmp(argv[i], "--pki") && i + 1 < argc) pki = argv[++i];
        else if (!strcmp(argv[i], "--names") && i + 1 < argc) names = argv[++i];
        else if (!strcmp(argv[i], "--run") && i + 1 < argc) run = argv[++i];
        else if (!strcmp(argv[i], "--one") && i + 1 < argc) one = argv[++i];
        else usage();
    }
    if (!cell)
        usage();
    signal(SIGPIPE, SIG_IGN);
    setvbuf(stdout, NULL, _IOLBF, 0);
    {   /* a dying child must not spend seconds writing the core of a sanitizer-sized address space */
        struct rlimit rl = { 0, 0 };
        setrlimit(RLIMIT_CORE, &rl);
        prctl(PR_SET_DUMPABLE, 0);
    }
    snprintf(g_cellparams, sizeof g_cellparams, "%s", cell);
    char tp[16], state[32], cred[16], b[32];
    param_get(cell, "tp", tp, sizeof tp, "tcp");
    param_get(cell, "state", state, sizeof state, "established");
    param_get(cell, "cred", cred, sizeof cred, "file");
    int ip6 = param_int(cell, "ip", 4) == 6;
    size_t cap_all = (size_t)param_int(cell, "capall", 700);
    char nm[16];
    g_own_names = !strcmp(param_get(cell, "names", nm, sizeof nm, "full"), "own");
    g_wrap_bnd = !strcmp(param_get(cell, "wrapcaps", nm, sizeof nm, "all"), "bnd");
    g_snap_each = !strcmp(param_get(cell, "snap", nm, sizeof nm, "type"), "each");
    g_set_lite = param_int(cell, "setlite", 0) != 0;
    (void)b;
    if (run)
        snprintf(g_rundir, sizeof g_rundir, "%s", run);
    else
        snprintf(g_rundir, sizeof g_rundir, "/verif/build/run/h_attr-%d", getpid());
    mkdir("/verif/build/run", 0755);
    mkdir(g_rundir, 0755);
    snprintf(g_stderr_path, sizeof g_stderr_path, "%s/child-%d.stderr", g_rundir, getpid());
    if (names)
        load_header_names(names);
    g_verbose = one != NULL;
    g_timing = getenv("H_ATTR_TIMING") != NULL;

    SH = mmap(NULL, sizeof *SH, PROT_READ | PROT_WRITE, MAP_SHARED | MAP_ANONYMOUS, -1, 0);
    if (SH == MAP_FAILED) {
        perror("mmap");
        return 2;
    }
    memset(SH, 0, sizeof *SH);
    canary_blk = malloc(CAPMAX + SLACK);
    memset(STR300, 'q', 300);
    memset(STR700, 'r', 700);
    memset(BIN100, 'A', sizeof BIN100);

    as_env_start();
    struct as_world w;
    as_world_init(&w, tp, ip6, cred, pki, g_rundir);
    {
        char d1[32], d2[32];
        snprintf(d1, sizeof d1, "%s", w.srv_set);
        snprintf(d2, sizeof d2, "%s", w.cli_set);
        param_get(cell, "srvset", w.srv_set, sizeof w.srv_set, d1);
        param_get(cell, "cliset", w.cli_set, sizeof w.cli_set, d2);
    }
    snprintf(g_tpname, sizeof g_tpname, "%s", as_tp_name(&w));
    g_fam_tcp = as_tcp_based(&w);
    g_fam_tls = as_tls_based(&w);

    struct { const char *label; struct xcm_socket *s; int is_server; } subj[3];
    int ns = 0;
    int fresh = !strncmp(state, "fresh-", 6);
    if (fresh) {
        if (g_fam_tcp)
            env_policy_set(w.ip, ENV_SILENT);
        if (!strcmp(state, "fresh-accept"))
            env_policy_set(w.ip, ENV_AUTO);
        subj[ns].label = strdup(state);
        subj[ns].s = NULL;
        subj[ns].is_server = !strcmp(state, "fresh-server");
        ns++;
    } else {
        if (as_build(&w, state, NULL, NULL) < 0) {
            struct tb t = { 0 };
            tb_f(&t, "{\"t\":\"broken\",\"cell\":");
            tb_jstr(&t, cell, strlen(cell));
            tb_f(&t, ",\"text\":");
            tb_jstr(&t, w.err, strlen(w.err));
            tb_f(&t, "}");
            out_line(&t);
            return 2;
        }
        if (w.conn && strcmp(tp, "utlss") != 0) {
            subj[ns].label = "conn"; subj[ns].s = w.conn; subj[ns].is_server = 0; ns++;
        }
        if (w.accepted && strcmp(tp, "utlsc") != 0) {
            subj[ns].label = "accepted"; subj[ns].s = w.accepted; subj[ns].is_server = 0; ns++;
        }
        if (!strcmp(state, "server")) {
            subj[ns].label = "server"; subj[ns].s = w.server; subj[ns].is_server = 1; ns++;
        }
    }

    char *one_subj = NULL, *one_name = NULL;
    size_t one_len = 0;
    long one_cell = -1;
    if (one) {
        char *c = strdup(one);
        char *p1 = strchr(c, '|');
        char *p2 = p1 ? strchr(p1 + 1, '|') : NULL;
        if (!p1 || !p2)
            usage();
        *p1 = *p2 = 0;
        one_subj = c;
        one_name = pct_decode(p1 + 1, &one_len);
        one_cell = atol(p2 + 1);
    }

    for (int si = 0; si < ns; si++) {
        if (one_subj && strcmp(one_subj, subj[si].label) != 0)
            continue;
        SH->subjects++;
        struct snap sn = { 0 };
        if (subj[si].s)
            snap_take(subj[si].s, &sn);
        names_build(subj[si].s, subj[si].s ? &sn : NULL, subj[si].is_server);
        if (!g_verbose && subj[si].s) {
            struct tb t = { 0 };
            tb_f(&t, "%s socket of %s: xcm_attr_get_all reports %d attributes (", subj[si].label, cell, sn.n);
            for (int i = 0; i < sn.n && i < 400; i++)
                tb_f(&t, "%s%s:%s/%zu", i ? " " : "", sn.e[i].name, tname(sn.e[i].type), sn.e[i].len);
            tb_f(&t, "); name universe %d", g_nnames);
            if (t.n > 1500) {
                t.n = 1500;
                t.p[1500] = 0;
            }
            sample_line(t.p);
            free(t.p);
        }
        snap_free(&sn);
        struct ctx proto;
        memset(&proto, 0, sizeof proto);
        proto.s = subj[si].s;
        proto.subject = subj[si].label;
        proto.is_server = subj[si].is_server;
        proto.state = state;
        proto.cap_all = cap_all;
        proto.w = &w;
        if (one_name) {
            struct name_ent ne = { one_name, one_len, NULL };
            for (int i = 0; i < g_nnames; i++)
                if (g_names[i].len == one_len && memcmp(g_names[i].name, one_name, one_len) == 0)
                    ne.label = g_names[i].label;
            do_group(&proto, &ne, one_cell);
            continue;
        }
        for (int i = 0; i < g_nnames; i++) {
            SH->names++;
            do_group(&proto, &g_names[i], -1);
        }
    }
    as_teardown(&w);
    unlink(g_stderr_path);
    if (!run)
        rmdir(g_rundir);
    if (g_verbose) {
        printf("VERDICT %s (%llu finding(s), %llu crash(es), %llu cell(s))\n",
               SH->findings ? "violation" : "ok", (unsigned long long)SH->findings,
               (unsigned long long)SH->crashes, (unsigned long long)SH->cells);
        return SH->findings ? 1 : 0;
    }
    struct tb t = { 0 };
    tb_f(&t, "{\"t\":\"stats\",\"cell\":");
    tb_jstr(&t, cell, strlen(cell));
    tb_f(&t, ",\"cells\":%llu,\"get_cells\":%llu,\"set_cells\":%llu,\"fresh_cells\":%llu,\"calls\":%llu,"
         "\"checked\":%llu,\"groups\":%llu,\"forks\":%llu,\"crashes\":%llu,\"findings\":%llu,\"get_success\":%llu,"
         "\"get_overflow\":%llu,\"get_fail\":%llu,\"set_success\":%llu,\"set_rejected\":%llu,"
         "\"set_failed_other\":%llu,\"snapshots\":%llu,\"names\":%llu,\"subjects\":%llu,\"sigs\":{",
         (unsigned long long)SH->cells, (unsigned long long)SH->get_cells, (unsigned long long)SH->set_cells,
         (unsigned long long)SH->fresh_cells, (unsigned long long)SH->calls, (unsigned long long)SH->checked,
         (unsigned long long)SH->groups, (unsigned long long)SH->forks, (unsigned long long)SH->crashes,
         (unsigned long long)SH->findings, (unsigned long long)SH->get_success, (unsigned long long)SH->get_overflow,
         (unsigned long long)SH->get_fail, (unsigned long long)SH->set_success, (unsigned long long)SH->set_rejected,
         (unsigned long long)SH->set_failed_other, (unsigned long long)SH->snapshots, (unsigned long long)SH->names,
         (unsigned long long)SH->subjects);
    for (int k = 0; k < SH->nsigs; k++) {
        if (k)
            tb_raw(&t, ",", 1);
        tb_jstr(&t, SH->sigtab[k].sig, strlen(SH->sigtab[k].sig));
        tb_f(&t, ":%llu", (unsigned long long)SH->sigtab[k].n);
    }
    tb_f(&t, "}}");
    out_line(&t);
    tb_f(&t, "{\"t\":\"done\"}");
    out_line(&t);
    return 0;
}
