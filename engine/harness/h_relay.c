/* h_relay - C20: xcmrelay is transparent.
 *
 * tools/xcmrelay/{rserver,xrelay}.c from the working tree, linked with the real libevent, run
 * between client and server endpoint tasks:
 *
 *      C_k  --(lc)-->  [ rserver / xrelay ]  --(ls)-->  real server, accepted as S_k
 *
 * The relay is a scheduler task whose step is one event_base_loop(EVLOOP_NONBLOCK).  Between steps
 * it waits (mc_wait_readable) on libevent's own epoll descriptor: libevent registers every
 * xcm_fd() of the relay there, xcm_fd is a real (nested) epoll descriptor, so poll(libevent epfd)
 * is exactly "epoll_wait would return": the task is disabled precisely when the real xcmrelay
 * process would sleep in event_base_dispatch (the relay arms no libevent timers).  With gran=api a
 * scheduling point additionally precedes every XCM call the relay makes.
 *
 * The relay code is observed, not changed: -Wl,--wrap of the XCM calls made by xrelay.o/rserver.o
 * (they pass straight through for every other task) marks the call as "API in progress" for the
 * shim (so that I/O deviations are offered on the relay's legs), logs its result, and feeds the
 * fairness flag; --wrap=xrelay_create interposes the per-relay termination callback to log it.
 *
 * Oracle (what the property text demands, nothing else):
 *   chan      per connection and direction: received is a prefix of accepted - unmodified, in order,
 *             exactly once, never from another connection;
 *   close     the side that did not close sees EOF only after every message the closer's sends
 *             accepted - evaluated when the closer flushed (xcm_finish()==0) before xcm_close, no
 *             deviation hit the close itself, and the other side had nothing under way towards the
 *             closer (otherwise a reset may legitimately destroy data, as with plain TCP);
 *   no exit   rserver's fatal callback is never invoked, event_base_loop never reports "no events";
 *   no stall  the system is never quiescent (no task enabled, no environment event pending) while an
 *             endpoint still waits for a delivery or for a close to be propagated; no livelock;
 *   no break  no endpoint sees EOF or a terminal error while its peer endpoint is alive;
 *   independence: with two relayed connections each pair is judged by its own ledger.
 * Everything is void once the environment has withheld a connection establishment for
 * tcp.connect_timeout (3 s) of virtual time: then the attempt legitimately fails.
 *
 *   pairing  a client whose outbound leg the relay cannot set up (destination not listening: ux/uxf connect fails
 *            synchronously; or cfault=1: the relay's xcm_connect_a itself returns NULL/EMFILE, a labelled fault
 *            alternative) is simply dropped - EOF or reset on that client only; the relay stays up, the other
 *            connections keep carrying messages both ways, later clients are served.
 * params: lc=<transport client<->relay> ls=<transport relay<->server> script=<name>
 *         gran=loop|api  menu=<hex>  certs=<dir>  horizon=<steps>  dev=all|relay  cfault=0|1
 */
#define _GNU_SOURCE
#include "hcommon.h"

#include <event.h>
#include <fcntl.h>
#include <sys/epoll.h>
#include <sys/eventfd.h>
#include <sys/socket.h>
#include <sys/stat.h>

#include "rserver.h"
#include "xrelay.h"

#define MAXOPS 16
#define MAXPROG 48
#define MAXMSG 65535
#define MAXCONN 3

enum opk { OP_CONNECT, OP_SEND, OP_RECV, OP_FINISH, OP_CLOSE, OP_RECV_EOF, OP_HANG };

struct op {
    enum opk k;
    int len;   /* send: length; recv: capacity */
    int m;     /* send: message number; bytestream recv: bytes wanted */
};

struct side {
    char name[4];
    int is_server, conn;
    struct side *peer;
    struct xcm_socket *s;
    int bound;               /* server side: connected to a socket */
    int fd0;
    struct op ops[MAXOPS];
    int nops, pc, nsend;
    int loop;                /* serve both directions from one event loop */
    int mbase;
    int n_acc, acc[MAXOPS], acc_len[MAXOPS];
    int inflight, inflight_len;
    const unsigned char *inflight_buf;
    int pending_len;         /* bytestream: bytes offered in a call that said EAGAIN and will be offered again */
    const unsigned char *pending_buf;
    int n_rcv;
    int64_t bytes_sent_acc, bytes_rcv;
    unsigned char *stream;
    int eof_seen, closed, term_errno, gave_up;
    int flushed;             /* xcm_finish returned 0 and nothing was accepted since */
    int graceful;            /* script close after a successful flush */
    int close_disturbed;     /* the environment deviated inside xcm_close */
    int unexpected;          /* ended although the peer was alive (reported on the spot) */
    int first_consumed;      /* server side: its first receive was taken while identifying the connection */
    int expect_drop;         /* the relay cannot set up this client's outbound leg: the client is simply dropped */
    int may_block;           /* the script lets this side wait for ever (its peer never reads) */
    int last_rc, last_errno;
    int done;
    unsigned char *buf;
};

static struct side C[MAXCONN], S[MAXCONN];
static int g_nconn = 1;
static struct xcm_socket *g_server;
static char g_lc[12], g_ls[12], g_legs[32], g_script[16], g_certs[256];
static char g_raddr[128], g_saddr[128];
static int g_bytestream, g_gran_api, g_dev_relay_only, g_first_cap = MAXMSG;
static int g_listen_at_start = 1, g_cfault, g_relay_connects, g_abort_efd = -1, g_sync[4] = { -1, -1, -1, -1 };
static int g_connect_order[MAXCONN], g_n_connect_order;
static int64_t g_t0;

/* relay */
static struct event_base *g_base;
static struct rserver *g_rserver;
static int g_evfd = -1, g_relay_task = -1, g_relay_progress, g_relay_steps, g_fatal;

struct rleg {
    struct xcm_socket *s;
    int open;
    int n_rcv, n_snd;
    int64_t b_rcv, b_snd;
    int64_t unflushed;       /* xcm.from_app_bytes - xcm.to_lower_bytes when the relay closed it */
};
struct rpair {
    struct rleg leg[2];      /* 0 = towards the client, 1 = towards the server */
    int terminated, reason;
    int conn;                /* index of the client/server pair it carries, -1 = not known yet */
    xrelay_err_cb cb;
    void *cb_data;
};
static struct rpair g_rp[8];
static int g_nrp;

static const char *sg(const char *fmt, ...) __attribute__((format(printf, 1, 2)));
static const char *sg(const char *fmt, ...)
{
    static __thread char b[4][200];
    static __thread int i;
    char *o = b[i++ & 3];
    va_list ap;
    va_start(ap, fmt);
    int n = vsnprintf(o, 160, fmt, ap);
    va_end(ap);
    snprintf(o + n, 200 - n, "/legs=%s", g_legs);
    return o;
}

static int excused(void)
{
    /* virtual time only advances when the environment withholds a connection establishment until
       tcp.connect_timeout expires; whatever anybody reports after that is a consequence */
    return env_now_ns() - g_t0 >= 3000000000LL;
}

static const char *role(struct side *x) { return x->is_server ? "server" : "client"; }
static const char *dir_to(struct side *rx) { return rx->is_server ? "c2s" : "s2c"; }

/* ====================================================================================== */
/* passive instrumentation of the relay's XCM calls                                       */
/* ====================================================================================== */
int __real_xcm_send(struct xcm_socket *s, const void *buf, size_t len);
int __real_xcm_receive(struct xcm_socket *s, void *buf, size_t cap);
int __real_xcm_finish(struct xcm_socket *s);
int __real_xcm_close(struct xcm_socket *s);
struct xcm_socket *__real_xcm_accept_a(struct xcm_socket *s, const struct xcm_attr_map *attrs);
struct xcm_socket *__real_xcm_connect_a(const char *addr, const struct xcm_attr_map *attrs);
struct xrelay *__real_xrelay_create(struct xcm_socket *conn0, struct xcm_socket *conn1, xrelay_err_cb err_cb,
                                    void *cb_data, struct event_base *event_base);

static int in_relay(void) { return g_relay_task >= 0 && mc_cur_task() == g_relay_task; }

static void relay_point(const char *what)
{
    if (g_gran_api)
        mc_sched_point(what);
}

static struct rleg *leg_of(struct xcm_socket *s, int *pair, int *leg)
{
    for (int p = 0; p < g_nrp; p++)
        for (int l = 0; l < 2; l++)
            if (g_rp[p].leg[l].open && g_rp[p].leg[l].s == s) {
                *pair = p;
                *leg = l;
                return &g_rp[p].leg[l];
            }
    *pair = -1;
    *leg = -1;
    return NULL;
}

static const char *legname(int pair, int leg)
{
    static __thread char b[16];
    if (pair < 0)
        return "?";
    snprintf(b, sizeof b, "r%d.%s", pair, leg == 0 ? "cl" : "sv");
    return b;
}

/* which connection opens with these bytes (first message / first stream bytes of a side)? */
static int whose_opening(int from_server, const unsigned char *buf, int rc)
{
    for (int k = 0; k < g_nconn; k++) {
        struct side *x = from_server ? &S[k] : &C[k];
        for (int i = 0; i < x->nops; i++)
            if (x->ops[i].k == OP_SEND) {
                int n = rc < x->ops[i].len ? rc : x->ops[i].len;
                if ((g_bytestream || rc == x->ops[i].len) && pay_diff(buf, x->ops[i].m, n) < 0)
                    return k;
                break;
            }
    }
    return -1;
}

int __wrap_xcm_send(struct xcm_socket *s, const void *buf, size_t len)
{
    if (!in_relay())
        return __real_xcm_send(s, buf, len);
    relay_point("R:send");
    int p, l;
    struct rleg *g = leg_of(s, &p, &l);
    mc_api_begin("xcm_send", 1);
    int rc = __real_xcm_send(s, buf, len);
    int e = errno;
    mc_api_end();
    mc_observe("R %s send len=%zu -> %d %s", legname(p, l), len, rc, rc < 0 ? errname(e) : "");
    if (rc >= 0) {
        g_relay_progress = 1;
        if (g) {
            g->n_snd++;
            g->b_snd += g_bytestream ? rc : (int)len;
        }
    }
    errno = e;
    return rc;
}

int __wrap_xcm_receive(struct xcm_socket *s, void *buf, size_t cap)
{
    if (!in_relay())
        return __real_xcm_receive(s, buf, cap);
    relay_point("R:recv");
    int p, l;
    struct rleg *g = leg_of(s, &p, &l);
    mc_api_begin("xcm_receive", 1);
    int rc = __real_xcm_receive(s, buf, cap);
    int e = errno;
    mc_api_end();
    mc_observe("R %s recv -> %d %s", legname(p, l), rc, rc < 0 ? errname(e) : "");
    if (rc >= 0) {
        g_relay_progress = 1;
        if (g && rc > 0) {
            g->n_rcv++;
            g->b_rcv += rc;
            if (g_rp[p].conn < 0)
                g_rp[p].conn = whose_opening(l == 1, buf, rc);
        }
    }
    errno = e;
    return rc;
}

int __wrap_xcm_finish(struct xcm_socket *s)
{
    if (!in_relay())
        return __real_xcm_finish(s);
    relay_point("R:finish");
    int p, l;
    leg_of(s, &p, &l);
    mc_api_begin("xcm_finish", 1);
    int rc = __real_xcm_finish(s);
    int e = errno;
    mc_api_end();
    mc_trace("R %s finish -> %d %s", legname(p, l), rc, rc < 0 ? errname(e) : "");
    errno = e;
    return rc;
}

int __wrap_xcm_close(struct xcm_socket *s)
{
    if (!in_relay())
        return __real_xcm_close(s);
    relay_point("R:close");
    int p, l;
    struct rleg *g = leg_of(s, &p, &l);
    if (g) {
        /* what XCM still holds of the data the relay's sends had accepted (read-only attribute access) */
        int64_t fa = 0, tl = 0;
        if (xcm_attr_get_int64(s, "xcm.from_app_bytes", &fa) >= 0 && xcm_attr_get_int64(s, "xcm.to_lower_bytes", &tl) >= 0)
            g->unflushed = fa - tl;
    }
    mc_api_begin("xcm_close", 1);
    int rc = __real_xcm_close(s);
    mc_api_end();
    mc_observe("R %s close%s", legname(p, l), g && g->unflushed > 0 ? " (with unflushed data)" : "");
    if (g)
        g->open = 0;
    g_relay_progress = 1;
    return rc;
}

struct xcm_socket *__wrap_xcm_accept_a(struct xcm_socket *s, const struct xcm_attr_map *attrs)
{
    if (!in_relay())
        return __real_xcm_accept_a(s, attrs);
    relay_point("R:accept");
    mc_api_begin("xcm_accept_a", 1);
    struct xcm_socket *c = __real_xcm_accept_a(s, attrs);
    int e = errno;
    mc_api_end();
    mc_observe("R accept -> %s", c ? "conn" : errname(e));
    if (c)
        g_relay_progress = 1;
    errno = e;
    return c;
}

struct xcm_socket *__wrap_xcm_connect_a(const char *addr, const struct xcm_attr_map *attrs)
{
    if (!in_relay())
        return __real_xcm_connect_a(addr, attrs);
    relay_point("R:connect");
    int nth = g_relay_connects++;
    if (g_cfault && mc_choose(2, MC_FAULT, "fault:R:xcm_connect_a=EMFILE") == 1) {
        /* descriptor exhaustion: socket() fails, xcm_connect_a returns NULL at once.  The relay's listen queue is
           FIFO, so this is the outbound leg of the nth client that connected */
        if (nth < g_n_connect_order)
            C[g_connect_order[nth]].expect_drop = 1;
        uint64_t one = 1;
        if (write(g_abort_efd, &one, sizeof one) < 0) {
        }
        mc_observe("R connect -> EMFILE (injected)");
        errno = EMFILE;
        return NULL;
    }
    mc_api_begin("xcm_connect_a", 1);
    struct xcm_socket *c = __real_xcm_connect_a(addr, attrs);
    int e = errno;
    mc_api_end();
    mc_observe("R connect -> %s", c ? "conn" : errname(e));
    if (c)
        g_relay_progress = 1;
    errno = e;
    return c;
}

static void relay_term_cb(struct xrelay *relay, int reason, const char *msg, void *cb_data)
{
    struct rpair *rp = cb_data;
    rp->terminated = 1;
    rp->reason = reason;
    mc_observe("R r%d terminates: %s%s%s", (int)(rp - g_rp), reason == 0 ? "leg closed" : "error",
               msg ? " " : "", msg ? msg : "");
    rp->cb(relay, reason, msg, rp->cb_data);
}

struct xrelay *__wrap_xrelay_create(struct xcm_socket *conn0, struct xcm_socket *conn1, xrelay_err_cb err_cb,
                                    void *cb_data, struct event_base *event_base)
{
    if (g_nrp >= 8)
        mc_fail("internal/too-many-relays", "more than 8 relays created");
    struct rpair *rp = &g_rp[g_nrp++];
    memset(rp, 0, sizeof *rp);
    rp->leg[0].s = conn0;
    rp->leg[1].s = conn1;
    rp->leg[0].open = rp->leg[1].open = 1;
    rp->cb = err_cb;
    rp->cb_data = cb_data;
    rp->conn = -1;
    mc_observe("R r%d created", g_nrp - 1);
    return __real_xrelay_create(conn0, conn1, relay_term_cb, rp, event_base);
}

static void relay_fatal(void *arg)
{
    (void)arg;
    g_fatal = 1;
    mc_violation(sg("C20/relay-fatal"), "rserver invoked its fatal callback: the xcmrelay process would exit "
                 "(%d relay(s) created)", g_nrp);
}

static void task_client(void *arg);

static void task_relay(void *arg)
{
    (void)arg;
    /* start-up order T, R, C is fixed: the prologues of the server application (await on its listening
       socket) and of the relay (first epoll_wait) touch nothing the others can see, so their relative
       order is not a schedule worth enumerating */
    mc_task_create("C", task_client, NULL);
    for (;;) {
        /* sleeps exactly when the real process would sleep in epoll_wait */
        mc_wait_readable(g_evfd, "relay-idle");
        g_relay_progress = 0;
        int rc = event_base_loop(g_base, EVLOOP_NONBLOCK | EVLOOP_ONCE);   /* one dispatch round */
        g_relay_steps++;
        if (rc != 0) {
            mc_violation(sg("C20/relay-exits"), "event_base_loop returned %d: no event is registered any more, "
                         "event_base_dispatch would return and xcmrelay would exit", rc);
            return;
        }
        mc_set_progress(g_relay_progress);
        if (g_fatal)
            return;
    }
}

/* ====================================================================================== */
/* chan oracle                                                                            */
/* ====================================================================================== */
static struct side *all_sides(int i) { return i < MAXCONN ? &C[i] : &S[i - MAXCONN]; }

/* does the buffer look like something a side of ANOTHER connection sent? */
static int from_other_connection(struct side *tx, const unsigned char *buf, int rc)
{
    for (int i = 0; i < 2 * MAXCONN; i++) {
        struct side *o = all_sides(i);
        if (o == tx || o->conn == tx->conn || rc <= 0)
            continue;
        for (int k = 0; k < o->n_acc; k++)
            if (pay_diff(buf, o->acc[k], rc < o->acc_len[k] ? rc : o->acc_len[k]) < 0)
                return 1;
        if (o->inflight >= 0 && pay_diff(buf, o->inflight, rc < o->inflight_len ? rc : o->inflight_len) < 0)
            return 1;
    }
    return 0;
}

static void on_received(struct side *rx, const unsigned char *buf, int rc, int cap)
{
    struct side *tx = rx->peer;
    if (g_bytestream) {
        int64_t off = rx->bytes_rcv;
        if (rc > cap) {
            mc_violation(sg("C20/more-than-capacity/%s", dir_to(rx)), "xcm_receive returned %d with capacity %d", rc, cap);
            rc = cap;
        }
        /* bytes on offer: in a call in progress, or in a call that was refused with EAGAIN and is being
           retried with the same bytes.  (That a byte-stream transport may transmit refused bytes early is
           C02's subject - known for btls - and says nothing about the relay.) */
        const unsigned char *obuf = tx->inflight >= 0 ? tx->inflight_buf : tx->pending_buf;
        int olen = tx->inflight >= 0 ? tx->inflight_len : tx->pending_len;
        int64_t limit = tx->bytes_sent_acc + olen;
        if (off + rc > limit)
            mc_violation(sg("C20/stream-bytes-never-accepted/%s", dir_to(rx)),
                         "%s received %lld bytes but only %lld were accepted by %s (+%d on offer)",
                         rx->name, (long long)(off + rc), (long long)tx->bytes_sent_acc, tx->name, olen);
        for (int j = 0; j < rc; j++) {
            int64_t pos = off + j;
            unsigned char want;
            if (pos < tx->bytes_sent_acc)
                want = tx->stream[pos];
            else if (pos - tx->bytes_sent_acc < olen)
                want = obuf[pos - tx->bytes_sent_acc];
            else
                break;
            if (buf[j] != want) {
                /* lost, duplicated or foreign bytes? */
                const char *what = "wrong-byte";
                if (pos + 1 < limit) {
                    int64_t p2 = pos + 1;
                    unsigned char nx = p2 < tx->bytes_sent_acc ? tx->stream[p2] : obuf[p2 - tx->bytes_sent_acc];
                    if (buf[j] == nx)
                        what = "bytes-lost";
                }
                if (pos > 0 && pos - 1 < tx->bytes_sent_acc && buf[j] == tx->stream[pos - 1])
                    what = "bytes-duplicated";
                mc_violation(sg("C20/stream-%s/%s", what, dir_to(rx)),
                             "%s: stream byte %lld is 0x%02x, the stream accepted from %s has 0x%02x there (%s)",
                             rx->name, (long long)pos, buf[j], tx->name, want, what);
                break;
            }
        }
        rx->bytes_rcv += rc;
        return;
    }
    int k = rx->n_rcv++;
    int exp_m, exp_len;
    if (k < tx->n_acc) {
        exp_m = tx->acc[k];
        exp_len = tx->acc_len[k];
    } else if (k == tx->n_acc && tx->inflight >= 0) {
        exp_m = tx->inflight;
        exp_len = tx->inflight_len;
    } else {
        const char *what = "never-sent";
        for (int i = 0; i < tx->n_acc; i++)
            if (rc <= tx->acc_len[i] && pay_diff(buf, tx->acc[i], rc) < 0)
                what = "duplicate";
        if (from_other_connection(tx, buf, rc))
            what = "cross-connection";
        mc_violation(sg("C20/%s/%s", what, dir_to(rx)),
                     "%s obtained a message (%d bytes, first byte 0x%02x) as receive #%d but %s had only %d accepted sends (%s)",
                     rx->name, rc, rc > 0 ? buf[0] : 0, k + 1, tx->name, tx->n_acc, what);
        return;
    }
    int want = exp_len < cap ? exp_len : cap;
    if (rc != want) {
        mc_violation(sg("C20/%s-message/%s", rc < want ? "partial" : "too-long", dir_to(rx)),
                     "%s receive #%d returned %d bytes, message %d of %s has %d (capacity %d)", rx->name, k + 1,
                     rc, exp_m, tx->name, exp_len, cap);
        return;
    }
    long d = pay_diff(buf, exp_m, rc);
    if (d >= 0) {
        const char *what = "altered";
        for (int i = 0; i < tx->n_acc; i++)
            if (i != k && rc <= tx->acc_len[i] && pay_diff(buf, tx->acc[i], rc) < 0)
                what = i < k ? "duplicate" : "reordered-or-lost";
        if (from_other_connection(tx, buf, rc))
            what = "cross-connection";
        mc_violation(sg("C20/%s/%s", what, dir_to(rx)),
                     "%s receive #%d: %d bytes differ from message %d of %s at offset %ld (%s)", rx->name, k + 1,
                     rc, exp_m, tx->name, d, what);
    }
}

static void on_send_result(struct side *tx, int m, int len, int rc, int err)
{
    tx->inflight = -1;
    if (g_bytestream) {
        tx->pending_len = 0;
        if (rc < 0 && err == EAGAIN) {
            tx->pending_buf = tx->inflight_buf;
            tx->pending_len = len;
        }
        if (rc > 0) {
            if (rc > len)
                rc = len;
            memcpy(tx->stream + tx->bytes_sent_acc, tx->inflight_buf, rc);
            tx->bytes_sent_acc += rc;
            tx->flushed = 0;
        }
        return;
    }
    if (rc == 0) {
        tx->acc[tx->n_acc] = m;
        tx->acc_len[tx->n_acc++] = len;
        tx->flushed = 0;
    }
}

/* ====================================================================================== */
/* endpoint operations                                                                    */
/* ====================================================================================== */
static int cond_wait(struct side *x, int cond, const char *why)
{
    if (API("xcm_await", 1, xcm_await(x->s, cond)) < 0) {
        mc_observe("%s await(%d) failed %s", x->name, cond, errname(errno));
        return -1;
    }
    mc_wait_readable(x->fd0, why);
    return 0;
}

static void terminal(struct side *x, const char *op, int err)
{
    struct side *p = x->peer;
    x->term_errno = err;
    if (excused() || x->expect_drop)
        return;
    if (p && (p->gave_up || p->closed))
        return;
    x->unexpected = 1;
    mc_violation(sg("C20/unexpected-termination/%s/%s/at=%s", op, errname(err), role(x)),
                 "%s: %s failed with %s although the peer endpoint is alive (has not closed) and the environment "
                 "injected no fault", x->name, op, errname(err));
}

static void saw_eof(struct side *x)
{
    struct side *p = x->peer;
    x->eof_seen = 1;
    if (excused() || x->expect_drop)
        return;
    if (p && (p->closed || p->gave_up))
        return;
    x->unexpected = 1;
    mc_violation(sg("C20/eof-without-close/at=%s", role(x)),
                 "%s: xcm_receive returned 0 although %s has not closed its connection", x->name,
                 p ? p->name : "its peer");
}

static int do_send(struct side *x, struct op *o)
{
    unsigned char *buf = x->buf;
    int m = o->m, sent_total = 0;
    pay_fill(buf, m, o->len);
    for (;;) {
        mc_sched_point("send");
        x->inflight = m;
        x->inflight_len = o->len - sent_total;
        x->inflight_buf = buf + sent_total;
        int rc = API("xcm_send", 1, xcm_send(x->s, buf + sent_total, o->len - sent_total));
        int err = rc < 0 ? errno : 0;
        x->last_rc = rc;
        x->last_errno = err;
        mc_observe("%s send m%d len=%d -> %d %s", x->name, m, o->len - sent_total, rc, rc < 0 ? errname(err) : "");
        on_send_result(x, m, o->len - sent_total, rc, err);
        if (rc >= 0) {
            mc_set_progress(1);
            if (g_bytestream) {
                sent_total += rc;
                if (sent_total < o->len)
                    continue;
            }
            return 0;
        }
        if (err == EAGAIN) {
            mc_set_progress(0);
            if (cond_wait(x, XCM_SO_SENDABLE, "send-eagain") < 0)
                return -1;
            continue;
        }
        terminal(x, "send", err);
        return -1;
    }
}

static int do_recv(struct side *x, struct op *o, int until_eof)
{
    unsigned char *buf = x->buf;
    for (;;) {
        mc_sched_point("recv");
        int cap = o->len;
        int rc = API("xcm_receive", 1, xcm_receive(x->s, buf, cap));
        int err = rc < 0 ? errno : 0;
        x->last_rc = rc;
        x->last_errno = err;
        mc_observe("%s recv cap=%d -> %d %s", x->name, cap, rc, rc < 0 ? errname(err) : "");
        if (rc > 0) {
            on_received(x, buf, rc, cap);
            mc_set_progress(1);
            if (until_eof)
                continue;
            if (g_bytestream) {
                o->m -= rc;
                if (o->m > 0)
                    continue;
            }
            return 0;
        }
        if (rc == 0) {
            mc_set_progress(1);
            saw_eof(x);
            return until_eof ? 0 : -1;
        }
        if (err == EAGAIN) {
            mc_set_progress(0);
            if (cond_wait(x, XCM_SO_RECEIVABLE, "recv-eagain") < 0)
                return -1;
            continue;
        }
        terminal(x, "receive", err);
        return -1;
    }
}

static int do_finish(struct side *x)
{
    for (;;) {
        mc_sched_point("finish");
        int rc = API("xcm_finish", 1, xcm_finish(x->s));
        int err = rc < 0 ? errno : 0;
        mc_observe("%s finish -> %d %s", x->name, rc, rc < 0 ? errname(err) : "");
        if (rc == 0) {
            mc_set_progress(1);
            x->flushed = 1;
            return 0;
        }
        if (err == EAGAIN) {
            mc_set_progress(0);
            if (cond_wait(x, 0, "finish-eagain") < 0)
                return -1;
            continue;
        }
        terminal(x, "finish", err);
        return -1;
    }
}

static void do_close(struct side *x, int by_script)
{
    if (by_script)
        mc_sched_point("close");
    int before = mc_budget_left();
    API("xcm_close", 1, xcm_close(x->s));
    if (mc_budget_left() != before)
        x->close_disturbed = 1;
    mc_observe("%s close%s", x->name, by_script ? "" : " (gives up)");
    x->closed = 1;
    x->graceful = by_script && x->flushed && !x->term_errno;
    if (!by_script)
        x->gave_up = 1;
    x->s = NULL;
}

static int run_loop_style(struct side *x)
{
    int si = 0, ri = 0;
    unsigned char *buf = x->buf;
    for (;;) {
        while (si < x->nops && x->ops[si].k != OP_SEND)
            si++;
        while (ri < x->nops && x->ops[ri].k != OP_RECV)
            ri++;
        int want_send = si < x->nops, want_recv = ri < x->nops;
        x->pc = want_recv ? ri : si;
        if (!want_send && !want_recv)
            break;
        int cond = (want_send ? XCM_SO_SENDABLE : 0) | (want_recv ? XCM_SO_RECEIVABLE : 0);
        if (cond_wait(x, cond, "loop") < 0)
            return -1;
        int progressed = 0;
        if (want_recv) {
            mc_sched_point("recv");
            int cap = x->ops[ri].len;
            int rc = API("xcm_receive", 1, xcm_receive(x->s, buf, cap));
            int err = rc < 0 ? errno : 0;
            mc_observe("%s recv cap=%d -> %d %s", x->name, cap, rc, rc < 0 ? errname(err) : "");
            if (rc > 0) {
                on_received(x, buf, rc, cap);
                ri++;
                progressed = 1;
            }
            if (rc == 0) {
                saw_eof(x);
                return -1;
            }
            if (rc < 0 && err != EAGAIN) {
                terminal(x, "receive", err);
                return -1;
            }
        }
        if (want_send) {
            struct op *o = &x->ops[si];
            pay_fill(buf, o->m, o->len);
            mc_sched_point("send");
            x->inflight = o->m;
            x->inflight_len = o->len;
            x->inflight_buf = buf;
            int rc = API("xcm_send", 1, xcm_send(x->s, buf, o->len));
            int err = rc < 0 ? errno : 0;
            mc_observe("%s send m%d len=%d -> %d %s", x->name, o->m, o->len, rc, rc < 0 ? errname(err) : "");
            on_send_result(x, o->m, o->len, rc, err);
            if (rc == 0) {
                si++;
                progressed = 1;
            } else if (err != EAGAIN) {
                terminal(x, "send", err);
                return -1;
            }
        }
        mc_set_progress(progressed);
    }
    x->pc = x->nops;
    return do_finish(x);
}

/* one step of a side's script; returns -1 when the side has stopped */
static int connect_side(struct side *x);

static int step(struct side *x)
{
    if (x->done)
        return -1;
    if (x->pc >= x->nops) {
        x->done = 1;
        return -1;
    }
    struct op *o = &x->ops[x->pc];
    int rc = 0;
    if (x->loop && o->k != OP_CONNECT) {
        if (run_loop_style(x) < 0) {
            mc_observe("%s loop ended early eof=%d errno=%s", x->name, x->eof_seen, errname(x->term_errno));
            do_close(x, 0);
        }
        x->done = 1;
        return -1;
    }
    switch (o->k) {
    case OP_CONNECT: rc = connect_side(x); if (rc < 0) { x->done = 1; return -1; } break;
    case OP_SEND: rc = do_send(x, o); break;
    case OP_RECV: rc = do_recv(x, o, 0); break;
    case OP_RECV_EOF: rc = do_recv(x, o, 1); break;
    case OP_FINISH: rc = do_finish(x); break;
    case OP_CLOSE: do_close(x, 1); x->pc = x->nops; x->done = 1; return -1;
    case OP_HANG: x->pc = x->nops; x->done = 1; return -1;     /* keeps the connection, never reads again */
    }
    if (rc < 0) {
        mc_observe("%s stops at op %d eof=%d errno=%s", x->name, x->pc, x->eof_seen, errname(x->term_errno));
        do_close(x, 0);
        x->done = 1;
        return -1;
    }
    if (++x->pc >= x->nops)
        x->done = 1;
    return 0;
}

/* ====================================================================================== */
/* tasks: one client application (all client connections, in program order), one server     */
/* application (all accepted connections, in program order), the relay                      */
/* ====================================================================================== */
static char g_cprog[MAXPROG], g_sprog[MAXPROG];
static struct side *g_cur[2];      /* the side each endpoint task is working on */

static struct xcm_attr_map *mk_attrs(void)
{
    struct xcm_attr_map *m = xcm_attr_map_create();
    xcm_attr_map_add_bool(m, "xcm.blocking", false);
    if (g_bytestream)
        xcm_attr_map_add_str(m, "xcm.service", "bytestream");
    return m;
}

static int connect_side(struct side *x)
{
    struct xcm_attr_map *at = mk_attrs();
    mc_sched_point("connect");
    x->s = API("xcm_connect_a", 1, xcm_connect_a(g_raddr, at));
    xcm_attr_map_destroy(at);
    if (!x->s) {
        int e = errno;
        mc_observe("%s connect failed %s", x->name, errname(e));
        x->term_errno = e;
        x->gave_up = 1;
        if (!excused())
            mc_violation(sg("C20/connect-to-relay-failed/%s", errname(e)),
                         "xcm_connect_a(%s) failed with %s although the relay listens there", g_raddr, errname(e));
        return -1;
    }
    mc_observe("%s connected", x->name);
    x->fd0 = xcm_fd(x->s);
    return 0;
}

/* "!n" posts, "?n" awaits synchronisation point n between the two applications (out of band: think of an operator) */
static int prog_sync(const char **pp)
{
    const char *p = *pp;
    if (*p != '!' && *p != '?')
        return 0;
    int n = p[1] - '0';
    if (*p == '!') {
        uint64_t one = 1;
        if (write(g_sync[n], &one, sizeof one) < 0) {
        }
        mc_observe("sync %d posted", n);
    } else
        mc_wait_readable(g_sync[n], "sync");
    *pp = p + 1;
    return 1;
}

static void task_client(void *arg)
{
    (void)arg;
    for (const char *p = g_cprog; *p; p++) {
        if (prog_sync(&p))
            continue;
        g_cur[0] = &C[*p - '0'];
        step(g_cur[0]);
    }
    g_cur[0] = NULL;
}

/* which client's opening bytes are these? */
static int identify(const unsigned char *buf, int rc)
{
    for (int k = 0; k < g_nconn; k++) {
        if (S[k].bound)
            continue;
        struct op *o = NULL;
        for (int i = 0; i < C[k].nops && !o; i++)
            if (C[k].ops[i].k == OP_SEND)
                o = &C[k].ops[i];
        if (!o)
            continue;
        int n = rc < o->len ? rc : o->len;
        if (!g_bytestream && rc != o->len)
            continue;
        if (pay_diff(buf, o->m, n) < 0)
            return k;
    }
    return -1;
}

static int client_dropped(struct side *x) { return C[x->conn].expect_drop; }

static struct xcm_socket *accept_one(struct side *x)
{
    struct xcm_attr_map *at = mk_attrs();
    struct xcm_socket *s = NULL;
    for (;;) {
        if (client_dropped(x) || !g_server)
            break;
        if (API("xcm_await", 1, xcm_await(g_server, XCM_SO_ACCEPTABLE)) < 0)
            break;
        if (g_cfault) {
            /* wait for a connection - or for the news that the relay could not make the one we wait for */
            int ep = epoll_create1(0);
            struct epoll_event ev = { .events = EPOLLIN };
            epoll_ctl(ep, EPOLL_CTL_ADD, xcm_fd(g_server), &ev);
            epoll_ctl(ep, EPOLL_CTL_ADD, g_abort_efd, &ev);
            mc_wait_readable(ep, "accept-wait");
            close(ep);
            uint64_t v;
            if (read(g_abort_efd, &v, sizeof v) < 0) {
            }
            if (client_dropped(x))
                break;
        } else
            mc_wait_readable(xcm_fd(g_server), "accept-wait");
        mc_sched_point("accept");
        s = API("xcm_accept_a", 1, xcm_accept_a(g_server, at));
        if (s)
            break;
        mc_observe("T accept -> %s", errname(errno));
        if (errno != EAGAIN) {
            if (!excused())
                mc_violation(sg("C20/accept-failed/%s", errname(errno)), "xcm_accept_a on the real server failed with %s",
                             errname(errno));
            break;
        }
        mc_set_progress(0);
    }
    xcm_attr_map_destroy(at);
    if (s)
        mc_observe("T accepted");
    return s;
}

static void bind_side(struct side *x, struct xcm_socket *s)
{
    x->s = s;
    x->bound = 1;
    x->fd0 = xcm_fd(s);
}

/* make sure server side x has its connection: accept, and with several relayed connections let the
   first bytes say whose partner an accepted connection is */
static int ensure_bound(struct side *x)
{
    static struct xcm_socket *unid[MAXCONN];
    static int n_unid, n_accepted;
    static unsigned char first[MAXMSG + 1];
    while (!x->bound) {
        if (n_unid == 0) {
            if (n_accepted >= g_nconn)
                return -1;
            struct xcm_socket *s = accept_one(x);
            if (!s)
                return -1;
            n_accepted++;
            if (g_nconn == 1) {
                bind_side(&S[0], s);
                continue;
            }
            unid[n_unid++] = s;
        }
        struct xcm_socket *s = unid[0];
        int fd = xcm_fd(s), rc, err;
        for (;;) {
            mc_sched_point("recv");
            rc = API("xcm_receive", 1, xcm_receive(s, first, g_first_cap));
            err = rc < 0 ? errno : 0;
            mc_observe("T first recv -> %d %s", rc, rc < 0 ? errname(err) : "");
            if (!(rc < 0 && err == EAGAIN))
                break;
            mc_set_progress(0);
            if (API("xcm_await", 1, xcm_await(s, XCM_SO_RECEIVABLE)) < 0)
                break;
            mc_wait_readable(fd, "first-recv");
        }
        mc_set_progress(1);
        memmove(&unid[0], &unid[1], (MAXCONN - 1) * sizeof unid[0]);
        n_unid--;
        int k = rc > 0 ? identify(first, rc) : -1;
        if (rc <= 0) {
            /* ended before any data: attribute it to a connection without partner whose client has closed */
            for (int i = 0; i < g_nconn && k < 0; i++)
                if (!S[i].bound && (C[i].closed || C[i].gave_up))
                    k = i;
            for (int i = 0; i < g_nconn && k < 0; i++)
                if (!S[i].bound)
                    k = i;
        }
        if (k < 0) {
            mc_violation(sg("C20/unidentified-opening/c2s"),
                         "a relayed connection opens with %d bytes (first 0x%02x) that are not the opening message of any "
                         "client still without a partner", rc, first[0]);
            API("xcm_close", 1, xcm_close(s));
            continue;
        }
        struct side *y = &S[k];
        bind_side(y, s);
        mc_observe("T serves %s on this connection", y->name);
        if (rc > 0) {
            struct op *o = &y->ops[0];
            on_received(y, first, rc, g_first_cap);
            if (o->k == OP_RECV) {
                if (g_bytestream) {
                    o->m -= rc;
                    if (o->m <= 0)
                        y->pc = 1;
                } else
                    y->pc = 1;
                y->first_consumed = y->pc == 1;
            }
        } else {
            if (rc == 0)
                saw_eof(y);
            else
                terminal(y, "receive", err);
            mc_observe("%s stops before its first message eof=%d errno=%s", y->name, y->eof_seen, errname(y->term_errno));
            do_close(y, 0);
            y->done = 1;
        }
    }
    return 0;
}

static void task_server(void *arg)
{
    (void)arg;
    if (g_server)
        API("xcm_await", 1, xcm_await(g_server, XCM_SO_ACCEPTABLE));
    g_relay_task = mc_task_create("R", task_relay, NULL);
    if (g_dev_relay_only)
        env_cfg()->only_task = g_relay_task;
    for (const char *p = g_sprog; *p; p++) {
        if (prog_sync(&p))
            continue;
        if (*p == 'u') {            /* the destination stops listening; its established connections stay */
            mc_sched_point("unlisten");
            API("xcm_close", 1, xcm_close(g_server));
            g_server = NULL;
            mc_observe("T stops listening");
            continue;
        }
        if (*p == 'l') {            /* ... and listens (again) */
            mc_sched_point("listen");
            struct xcm_attr_map *at = mk_attrs();
            g_server = API("xcm_server_a", 1, xcm_server_a(g_saddr, at));
            xcm_attr_map_destroy(at);
            if (!g_server)
                mc_fail("internal/server-create", "xcm_server_a(%s): %s", g_saddr, errname(errno));
            mc_observe("T listens");
            continue;
        }
        struct side *x = &S[*p - '0'];
        g_cur[1] = x;
        if (x->done)
            continue;
        if (client_dropped(x)) {
            x->done = 1;
            continue;
        }
        if (!x->bound && ensure_bound(x) < 0) {
            x->done = 1;
            continue;
        }
        if (x->first_consumed) {    /* this program step was the receive that identified the connection */
            x->first_consumed = 0;
            continue;
        }
        step(x);
    }
    g_cur[1] = NULL;
}

/* ====================================================================================== */
/* scripts                                                                                */
/* ====================================================================================== */
static void add(struct side *x, enum opk k, int len)
{
    struct op *o = &x->ops[x->nops++];
    o->k = k;
    o->len = len;
    o->m = 0;
    if (k == OP_SEND)
        o->m = x->mbase + x->nsend++;
    else if (k == OP_RECV && g_bytestream)
        o->m = 1;
}

static void addn(struct side *x, enum opk k, int len, int want)
{
    add(x, k, len);
    x->ops[x->nops - 1].m = want;
}

static void prog_default(char *prog, struct side *x)
{
    int n = 0;
    for (int i = 0; i < x->nops; i++)
        prog[n++] = '0';
    prog[n] = 0;
}

static void build_script(const char *name)
{
    struct side *c = &C[0], *s = &S[0], *c1 = &C[1], *s1 = &S[1];
    int big = MAXMSG;
    int small = name[0] && name[1] && name[2] == 's';
    g_cprog[0] = g_sprog[0] = 0;
    if (!strncmp(name, "R1", 2)) {                              /* client sends three, flushes, closes */
        add(c, OP_SEND, 1); add(c, OP_SEND, 300); add(c, OP_SEND, small ? 5 : big); add(c, OP_FINISH, 0); add(c, OP_CLOSE, 0);
        add(s, OP_RECV_EOF, MAXMSG); add(s, OP_CLOSE, 0);
    } else if (!strncmp(name, "R2", 2)) {                       /* the server does */
        add(s, OP_SEND, 1); add(s, OP_SEND, 300); add(s, OP_SEND, small ? 5 : big); add(s, OP_FINISH, 0); add(s, OP_CLOSE, 0);
        add(c, OP_RECV_EOF, MAXMSG); add(c, OP_CLOSE, 0);
    } else if (!strcmp(name, "R3")) {                           /* both directions, then the client closes */
        add(c, OP_SEND, 2); add(c, OP_SEND, 300); add(c, OP_RECV, MAXMSG); add(c, OP_RECV, MAXMSG);
        add(c, OP_FINISH, 0); add(c, OP_CLOSE, 0);
        add(s, OP_SEND, 300); add(s, OP_SEND, 1); add(s, OP_RECV_EOF, MAXMSG); add(s, OP_CLOSE, 0);
    } else if (!strncmp(name, "R4", 2)) {                       /* three each way at once, event-loop style */
        c->loop = s->loop = 1;
        add(c, OP_SEND, 1); add(c, OP_SEND, 300); add(c, OP_SEND, small ? 7 : big);
        add(c, OP_RECV, MAXMSG); add(c, OP_RECV, MAXMSG); add(c, OP_RECV, MAXMSG);
        add(s, OP_SEND, small ? 9 : big); add(s, OP_SEND, 300); add(s, OP_SEND, 1);
        add(s, OP_RECV, MAXMSG); add(s, OP_RECV, MAXMSG); add(s, OP_RECV, MAXMSG);
    } else if (!strcmp(name, "R5")) {                           /* ping-pong, the server closes last */
        add(c, OP_SEND, 4); add(c, OP_RECV, MAXMSG); add(c, OP_SEND, 300); add(c, OP_RECV, MAXMSG);
        add(c, OP_RECV_EOF, MAXMSG); add(c, OP_CLOSE, 0);
        add(s, OP_RECV, MAXMSG); add(s, OP_SEND, 6); add(s, OP_RECV, MAXMSG); add(s, OP_SEND, 1);
        add(s, OP_FINISH, 0); add(s, OP_CLOSE, 0);
    } else if (!strncmp(name, "R6", 2)) {                       /* both send everything before reading anything */
        add(c, OP_SEND, 1); add(c, OP_SEND, 300); add(c, OP_SEND, small ? 7 : big);
        add(c, OP_RECV, MAXMSG); add(c, OP_RECV, MAXMSG); add(c, OP_RECV, MAXMSG); add(c, OP_FINISH, 0);
        add(s, OP_SEND, 2); add(s, OP_SEND, small ? 9 : big); add(s, OP_SEND, 300);
        add(s, OP_RECV, MAXMSG); add(s, OP_RECV, MAXMSG); add(s, OP_RECV, MAXMSG); add(s, OP_FINISH, 0);
    } else if (!strcmp(name, "B1")) {                           /* bytestream: 6 bytes in 3 calls, small reads */
        add(c, OP_SEND, 1); add(c, OP_SEND, 2); add(c, OP_SEND, 3); add(c, OP_FINISH, 0); add(c, OP_CLOSE, 0);
        add(s, OP_RECV_EOF, 3); add(s, OP_CLOSE, 0);
    } else if (!strcmp(name, "B2")) {                           /* bytestream: a large run (partial relay sends), then 3 */
        add(c, OP_SEND, 40000); add(c, OP_SEND, 3); add(c, OP_FINISH, 0); add(c, OP_CLOSE, 0);
        add(s, OP_RECV_EOF, 65536); add(s, OP_CLOSE, 0);
    } else if (!strcmp(name, "B3")) {                           /* bytestream both ways, the client closes */
        add(c, OP_SEND, 5); add(c, OP_SEND, 300); addn(c, OP_RECV, 64, 4); add(c, OP_FINISH, 0); add(c, OP_CLOSE, 0);
        add(s, OP_SEND, 4); add(s, OP_RECV_EOF, 200); add(s, OP_CLOSE, 0);
    } else if (!strcmp(name, "B4")) {                           /* bytestream: the server sends and closes */
        add(s, OP_SEND, 300); add(s, OP_SEND, 2); add(s, OP_FINISH, 0); add(s, OP_CLOSE, 0);
        add(c, OP_RECV_EOF, 100); add(c, OP_CLOSE, 0);
    } else if (!strcmp(name, "M1")) {                           /* two connections: one closes early, one talks on */
        g_nconn = 2;
        add(c, OP_SEND, 1); add(c, OP_SEND, 300); add(c, OP_FINISH, 0); add(c, OP_CLOSE, 0);
        addn(s, OP_RECV, MAXMSG, 1); add(s, OP_RECV_EOF, MAXMSG); add(s, OP_CLOSE, 0);
        add(c1, OP_SEND, 5); addn(c1, OP_RECV, MAXMSG, 7); add(c1, OP_SEND, 300); addn(c1, OP_RECV, MAXMSG, 2);
        add(c1, OP_FINISH, 0); add(c1, OP_CLOSE, 0);
        addn(s1, OP_RECV, MAXMSG, 5); add(s1, OP_SEND, 7); addn(s1, OP_RECV, MAXMSG, 300); add(s1, OP_SEND, 2);
        add(s1, OP_RECV_EOF, MAXMSG); add(s1, OP_CLOSE, 0);
        /* c0: connect send | c1: connect send | c0: send finish close | c1: the rest */
        strcpy(g_cprog, "00" "11" "000" "11111");
        strcpy(g_sprog, "11" "000" "1111");
    } else if (!strcmp(name, "M2")) {                           /* two connections: one client stops reading for ever */
        g_nconn = 2;
        add(c, OP_SEND, 300); add(c, OP_FINISH, 0); add(c, OP_HANG, 0);
        add(s, OP_RECV, MAXMSG);
        for (int i = 0; i < 5; i++)
            add(s, OP_SEND, big);
        add(s, OP_FINISH, 0); add(s, OP_HANG, 0);
        s->may_block = 1;
        add(c1, OP_SEND, 5); add(c1, OP_RECV, MAXMSG); add(c1, OP_SEND, big); add(c1, OP_RECV, MAXMSG);
        add(c1, OP_FINISH, 0); add(c1, OP_CLOSE, 0);
        add(s1, OP_RECV, MAXMSG); add(s1, OP_SEND, 7); add(s1, OP_RECV, MAXMSG); add(s1, OP_SEND, 2);
        add(s1, OP_RECV_EOF, MAXMSG); add(s1, OP_CLOSE, 0);
        strcpy(g_cprog, "00" "11" "00" "11111");
        strcpy(g_sprog, "00000000" "111111");
    } else if (!strcmp(name, "M3")) {                           /* two connections, both one-way with close */
        g_nconn = 2;
        add(c, OP_SEND, 1); add(c, OP_SEND, 300); add(c, OP_SEND, 5); add(c, OP_FINISH, 0); add(c, OP_CLOSE, 0);
        add(s, OP_RECV_EOF, MAXMSG); add(s, OP_CLOSE, 0);
        add(c1, OP_SEND, 2); add(c1, OP_SEND, 7); add(c1, OP_FINISH, 0); add(c1, OP_CLOSE, 0);
        add(s1, OP_RECV_EOF, MAXMSG); add(s1, OP_CLOSE, 0);
        strcpy(g_cprog, "01010101010");
        strcpy(g_sprog, "0011");
    } else if (!strcmp(name, "P1")) {
        /* pairing phase: c0 is relayed and talks; the destination stops listening (keeps s0); c1 connects to the relay,
           whose outbound connect fails synchronously: c1 is dropped; c0<->s0 carry on both ways; the destination
           listens again; c2 is served; c0<->s0 carry on */
        struct side *c2 = &C[2], *s2 = &S[2];
        g_nconn = 3;
        add(c, OP_SEND, 4); add(c, OP_RECV, MAXMSG); add(c, OP_SEND, 300); add(c, OP_RECV, MAXMSG);
        add(c, OP_SEND, 2); add(c, OP_RECV, MAXMSG); add(c, OP_FINISH, 0); add(c, OP_CLOSE, 0);
        add(s, OP_RECV, MAXMSG); add(s, OP_SEND, 6); add(s, OP_RECV, MAXMSG); add(s, OP_SEND, 300);
        add(s, OP_RECV, MAXMSG); add(s, OP_SEND, 1); add(s, OP_RECV_EOF, MAXMSG); add(s, OP_CLOSE, 0);
        c1->expect_drop = 1;
        add(c1, OP_SEND, 5); add(c1, OP_RECV_EOF, MAXMSG); add(c1, OP_CLOSE, 0);
        add(c2, OP_SEND, 7); add(c2, OP_RECV, MAXMSG); add(c2, OP_FINISH, 0); add(c2, OP_CLOSE, 0);
        add(s2, OP_RECV, MAXMSG); add(s2, OP_SEND, 9); add(s2, OP_RECV_EOF, MAXMSG); add(s2, OP_CLOSE, 0);
        /* c0: connect send recv | wait "not listening" | c1: connect send recv-eof close | c0: send recv |
           wait "listening" | c2: all | c0: the rest */
        strcpy(g_cprog, "000" "?0" "1111" "00" "?1" "22222" "0000");
        strcpy(g_sprog, "00" "u!0" "00" "l!1" "2222" "0000");
    } else if (!strcmp(name, "P2")) {
        /* the destination has never listened: c0 is dropped; then it listens and c1 is served */
        g_nconn = 2;
        g_listen_at_start = 0;
        c->expect_drop = 1;
        add(c, OP_SEND, 5); add(c, OP_RECV_EOF, MAXMSG); add(c, OP_CLOSE, 0);
        add(c1, OP_SEND, 7); add(c1, OP_RECV, MAXMSG); add(c1, OP_SEND, 300); add(c1, OP_RECV, MAXMSG);
        add(c1, OP_FINISH, 0); add(c1, OP_CLOSE, 0);
        add(s1, OP_RECV, MAXMSG); add(s1, OP_SEND, 9); add(s1, OP_RECV, MAXMSG); add(s1, OP_SEND, 1);
        add(s1, OP_RECV_EOF, MAXMSG); add(s1, OP_CLOSE, 0);
        strcpy(g_cprog, "0000" "!0" "?1" "1111111");
        strcpy(g_sprog, "?0" "l!1" "111111");
    } else
        mc_fail("internal/unknown-script", "unknown script %s", name);
    if (!g_cprog[0])
        prog_default(g_cprog, c);
    if (!g_sprog[0])
        prog_default(g_sprog, s);
    if (g_nconn >= 2) {
        /* the server application takes the first receive before it knows whom a connection belongs to;
           every client must send its opening message before the client application first waits on that connection */
        g_first_cap = MAXMSG + 1;
        for (int k = 0; k < g_nconn; k++) {
            if (!S[k].nops)
                continue;
            if (S[k].ops[0].k != OP_RECV && S[k].ops[0].k != OP_RECV_EOF)
                mc_fail("internal/script", "server scripts of multi-connection scenarios must start with a receive");
            if (S[k].ops[0].len < g_first_cap)
                g_first_cap = S[k].ops[0].len;
        }
    }
    /* order in which the clients connect to the relay (= order of the relay's accepts: listen queues are FIFO) */
    for (const char *p = g_cprog; *p; p++) {
        if (*p == '!' || *p == '?') {
            p++;
            continue;
        }
        int k = *p - '0', seen = 0;
        for (int i = 0; i < g_n_connect_order; i++)
            seen |= g_connect_order[i] == k;
        if (!seen)
            g_connect_order[g_n_connect_order++] = k;
    }
    /* every op of every side must be in its program */
    for (int t = 0; t < 2; t++)
        for (int k = 0; k < g_nconn; k++) {
            int n = 0;
            for (const char *p = t ? g_sprog : g_cprog; *p; p++) {
                if (*p == '!' || *p == '?') {
                    p++;
                    continue;
                }
                n += *p - '0' == k;
            }
            struct side *x = t ? &S[k] : &C[k];
            if (n != x->nops)
                mc_fail("internal/script", "program of %s has %d steps for %d ops", x->name, n, x->nops);
        }
}

/* ====================================================================================== */
/* state digest, final verdicts                                                           */
/* ====================================================================================== */
static uint64_t state_digest(void)
{
    uint64_t h = 23;
    for (int i = 0; i < 2 * MAXCONN; i++) {
        struct side *x = all_sides(i);
        if (x->conn >= g_nconn)
            continue;
        h = mc_hash_mix(h, x->pc * 64 + x->bound);
        h = mc_hash_mix(h, x->n_acc * 131 + x->n_rcv);
        h = mc_hash_mix(h, x->bytes_sent_acc * 7 + x->bytes_rcv);
        h = mc_hash_mix(h, (uint64_t)(x->last_rc + 2) * 1000 + x->last_errno);
        h = mc_hash_mix(h, x->closed * 8 + x->eof_seen * 4 + x->flushed * 2 + (x->s != NULL));
        if (x->s && !x->closed)
            h = mc_hash_mix(h, fd_readable_mask(x->fd0));
    }
    for (int p = 0; p < g_nrp; p++)
        for (int l = 0; l < 2; l++) {
            struct rleg *g = &g_rp[p].leg[l];
            h = mc_hash_mix(h, g->open + 2 * g->n_rcv + 64 * g->n_snd);
            h = mc_hash_mix(h, g->b_rcv * 3 + g->b_snd);
        }
    h = mc_hash_mix(h, g_evfd >= 0 ? fd_readable_mask(g_evfd) : 0);
    h = mc_hash_mix(h, env_pending_connects() * 16 + env_stalled_count());
    h = mc_hash_mix(h, env_now_ns());
    h = mc_hash_mix(h, env_data_calls());
    return h;
}

static const char *OPN[] = { "connect", "send", "receive", "finish", "close", "receive-until-eof", "end" };

static void describe(struct side *x, char *b, size_t n)
{
    if (!x->s && !x->closed)
        snprintf(b, n, "%s: %s", x->name, x->is_server ? "no relayed connection accepted/identified" : "not connected");
    else if (x->closed)
        snprintf(b, n, "%s: closed%s (acc=%d rcv=%d)", x->name, x->gave_up ? " after a failure" : "", x->n_acc, x->n_rcv);
    else if (x->pc < x->nops)
        snprintf(b, n, "%s: in op #%d (%s) acc=%d rcv=%d", x->name, x->pc, OPN[x->ops[x->pc].k], x->n_acc, x->n_rcv);
    else
        snprintf(b, n, "%s: script complete acc=%d rcv=%d", x->name, x->n_acc, x->n_rcv);
}

static void relay_summary(char *b, size_t n)
{
    size_t o = 0;
    b[0] = 0;
    for (int p = 0; p < g_nrp && o + 90 < n; p++)
        o += snprintf(b + o, n - o, " r%d[cl:%s rcv=%d snd=%d | sv:%s rcv=%d snd=%d%s]", p,
                      g_rp[p].leg[0].open ? "open" : "closed", g_rp[p].leg[0].n_rcv, g_rp[p].leg[0].n_snd,
                      g_rp[p].leg[1].open ? "open" : "closed", g_rp[p].leg[1].n_rcv, g_rp[p].leg[1].n_snd,
                      g_rp[p].terminated ? (g_rp[p].reason ? " terminated:error" : " terminated:leg-closed") : "");
}

static struct rpair *pair_of_conn(int k)
{
    int claimed[MAXCONN] = { 0 };
    for (int c = 0; c < g_nconn; c++)
        claimed[c] = C[c].expect_drop;
    for (int p = 0; p < g_nrp; p++)
        if (g_rp[p].conn >= 0) {
            if (g_rp[p].conn == k)
                return &g_rp[p];
            claimed[g_rp[p].conn] = 1;
        }
    /* pairs that never obtained an opening message: in order of creation (the relay's listen queue is FIFO) */
    for (int p = 0; p < g_nrp; p++)
        if (g_rp[p].conn < 0)
            for (int c = 0; c < g_nconn; c++)
                if (!claimed[c]) {
                    if (c == k)
                        return &g_rp[p];
                    claimed[c] = 1;
                    break;
                }
    return NULL;
}

static void final_checks(enum mc_end end)
{
    char d[2 * MAXCONN][120], rs[400], all[700];
    size_t o = 0;
    all[0] = 0;
    for (int i = 0; i < 2 * MAXCONN; i++) {
        struct side *x = all_sides(i);
        if (x->conn >= g_nconn)
            continue;
        describe(x, d[i], sizeof d[i]);
        o += snprintf(all + o, sizeof all - o, "%s%s", o ? "; " : "", d[i]);
    }
    relay_summary(rs, sizeof rs);
    if (end == MC_END_HORIZON) {
        if (!excused())
            mc_violation(sg("C20/livelock"), "no termination within %d scheduler steps (%d relay loop iterations); %s; relay:%s",
                         mc_steps(), g_relay_steps, all, rs);
        return;
    }
    /* stall: nobody can run, nothing is pending in the environment, yet an endpoint still waits */
    for (int t = 0; t < 2; t++) {
        struct side *x = g_cur[t];
        if (!x || x->done || x->may_block || excused() || g_fatal || (x->is_server && client_dropped(x)))
            continue;
        const char *what;
        if (x->is_server && !x->bound)
            what = "relayed-connection";
        else if (x->pc < x->nops)
            what = OPN[x->ops[x->pc].k];
        else
            what = "finish";
        mc_violation(sg("C20/stall/%s-waits-for-%s", role(x), what),
                     "system quiescent (no descriptor readable - the relay sleeps in epoll_wait -, no timer armed, no "
                     "environment event pending) but %s still waits: %s; relay:%s", x->name, all, rs);
    }
    /* close order */
    for (int k = 0; k < g_nconn; k++)
        for (int dirn = 0; dirn < 2; dirn++) {
            struct side *tx = dirn ? &S[k] : &C[k], *rx = dirn ? &C[k] : &S[k];
            if (rx->peer != tx)
                continue;
            int more = g_bytestream ? rx->bytes_rcv > tx->bytes_sent_acc : rx->n_rcv > tx->n_acc;
            if (more)
                mc_violation(sg("C20/more-received-than-accepted/%s", dir_to(rx)), "%s obtained %d messages/%lld bytes, %s had %d/%lld accepted",
                             rx->name, rx->n_rcv, (long long)rx->bytes_rcv, tx->name, tx->n_acc, (long long)tx->bytes_sent_acc);
            /* the closer closed in good order, and the other side has seen its connection end - by EOF, or by an
               error (e.g. the relay closed a back-pressured TLS leg without close_notify) */
            if (!(tx->closed && tx->graceful && !tx->close_disturbed && !tx->term_errno) || excused())
                continue;
            if (!(rx->eof_seen || rx->term_errno) || rx->unexpected)
                continue;
            /* nothing was under way towards the closer, nothing was sent to it later */
            int reverse_quiet = g_bytestream ? rx->bytes_sent_acc == tx->bytes_rcv : rx->n_acc == tx->n_rcv;
            if (!reverse_quiet)
                continue;
            mc_count(1, 1);     /* close-order verdicts evaluated */
            int missing = g_bytestream ? rx->bytes_rcv != tx->bytes_sent_acc : rx->n_rcv != tx->n_acc;
            if (missing) {
                /* where did they get lost?  (the relay's own ledger: what it obtained on the closer's leg and
                   what its xcm_send calls accepted on the other leg) */
                struct rpair *rp = pair_of_conn(k);
                int src = tx->is_server ? 1 : 0;
                const char *where = "src-leg", *tp = src ? g_ls : g_lc;
                int beyond = 0;
                if (rp) {
                    int64_t acc = g_bytestream ? tx->bytes_sent_acc : tx->n_acc;
                    int64_t got = g_bytestream ? rp->leg[src].b_rcv : rp->leg[src].n_rcv;
                    int64_t fwd = g_bytestream ? rp->leg[1 - src].b_snd : rp->leg[1 - src].n_snd;
                    if (got >= acc) {
                        where = fwd >= acc ? "dst-leg" : "in-relay";
                        tp = src ? g_lc : g_ls;
                        /* everything passed on AND handed to the lower layer before the relay closed: whatever the
                           receiver then failed to obtain was lost in its own stack (its own stalled writes meeting
                           the close - C06's subject), exactly as it would be without a relay in between */
                        if (fwd >= acc && rp->leg[1 - src].unflushed <= 0)
                            beyond = 1;
                    }
                }
                if (beyond) {
                    mc_info("loss-beyond-relay", "a receiver missed data that the relay had completely flushed to its leg before "
                            "closing it (endpoint-side loss, not a relay verdict); legs %s", g_legs);
                    continue;
                }
                char sig[160];
                snprintf(sig, sizeof sig, "C20/close-before-all-%s/lost-at=%s/tp=%s", g_bytestream ? "bytes" : "messages", where, tp);
                mc_violation(sig, "%s had %d sends (%lld bytes) accepted, flushed them (xcm_finish returned 0) and closed; %s saw its "
                             "connection end (%s%s) after only %d messages (%lld bytes) [legs %s, %s]; relay:%s",
                             tx->name, tx->n_acc, (long long)tx->bytes_sent_acc, rx->name,
                             rx->eof_seen ? "xcm_receive returned 0" : "error ", rx->eof_seen ? "" : errname(rx->term_errno),
                             rx->n_rcv, (long long)rx->bytes_rcv, g_legs,
                             !strcmp(where, "src-leg") ? "the relay never obtained them from the closer's leg" :
                             !strcmp(where, "dst-leg") ? "the relay's xcm_send accepted all of them on the other leg, which it closed while XCM still held unflushed data" :
                             "the relay obtained them but did not pass all of them on", rs);
            }
        }
}

/* ====================================================================================== */
/* scenario                                                                               */
/* ====================================================================================== */
static void mk_addr(char *out, size_t n, const char *tp, int which)
{
    /* unique per process without any shared state: the pid is spelled into a loopback address (utls derives
       a UX name in the global abstract namespace from "ip:port", and other harnesses use 127.0.0.1) */
    int id = getpid();
    if (!strcmp(tp, "ux"))
        snprintf(out, n, "ux:mcxr-%d-%d", id, which);
    else if (!strcmp(tp, "uxf")) {
        snprintf(out, n, "uxf:/verif/build/run/hrelay-%d-%d.uxf", id, which);
        unlink(out + 4);
    } else
        snprintf(out, n, "%s:127.%d.%d.%d:%d", tp, 64 + ((id >> 16) & 0x3f), (id >> 8) & 0xff, id & 0xff, 4711 + which);
}

static int find_libevent_epfd(const unsigned char *before)
{
    for (int fd = 0; fd < 256; fd++) {
        if (before[fd] || fcntl(fd, F_GETFD) < 0)
            continue;
        char p[64], l[64];
        snprintf(p, sizeof p, "/proc/self/fd/%d", fd);
        ssize_t r = readlink(p, l, sizeof l - 1);
        if (r > 0) {
            l[r] = 0;
            if (strstr(l, "eventpoll"))
                return fd;
        }
    }
    return -1;
}

static void init_side(struct side *x, const char *nm, int is_server, int conn)
{
    snprintf(x->name, sizeof x->name, "%s", nm);
    x->is_server = is_server;
    x->conn = conn;
    x->inflight = -1;
    x->mbase = (is_server ? 100 : 0) + conn * 20;
    x->buf = malloc(MAXMSG + 64);
    x->stream = malloc(1 << 17);
    if (!is_server)
        x->ops[x->nops++].k = OP_CONNECT;
}

static void scenario(const char *params)
{
    char b[64];
    param_get(params, "lc", g_lc, sizeof g_lc, "tcp");
    param_get(params, "ls", g_ls, sizeof g_ls, "tcp");
    param_get(params, "script", g_script, sizeof g_script, "R1");
    param_get(params, "certs", g_certs, sizeof g_certs, "");
    g_gran_api = strcmp(param_get(params, "gran", b, sizeof b, "loop"), "api") == 0;
    g_dev_relay_only = strcmp(param_get(params, "dev", b, sizeof b, "all"), "relay") == 0;
    g_cfault = (int)param_int(params, "cfault", 0);
    snprintf(g_legs, sizeof g_legs, "%s-%s", g_lc, g_ls);
    g_bytestream = g_lc[0] == 'b';
    if ((g_ls[0] == 'b') != g_bytestream)
        mc_fail("internal/params", "legs %s and %s are not of equal service", g_lc, g_ls);
    setenv("XCM_CTL", "/nonexistent-ctl-dir", 1);
    if (g_certs[0])
        setenv("XCM_TLS_CERT", g_certs, 1);

    init_side(&C[0], "C0", 0, 0);
    init_side(&S[0], "S0", 1, 0);
    init_side(&C[1], "C1", 0, 1);
    init_side(&S[1], "S1", 1, 1);
    init_side(&C[2], "C2", 0, 2);
    init_side(&S[2], "S2", 1, 2);
    for (int k = 0; k < MAXCONN; k++) {
        C[k].peer = &S[k];
        S[k].peer = &C[k];
    }

    struct env_cfg cfg = { .io_menu = (unsigned)param_int(params, "menu", ENV_IO_DEFAULT),
                           .sleep_monitor = 0, .only_task = -1 };
    env_init(&cfg);
    env_register_events();
    det_rand_install(1);
    mc_set_state_fn(state_digest);
    build_script(g_script);
    mk_addr(g_raddr, sizeof g_raddr, g_lc, 0);
    mk_addr(g_saddr, sizeof g_saddr, g_ls, 1);

    /* the real server */
    if (g_listen_at_start) {
        struct xcm_attr_map *at = mk_attrs();
        g_server = xcm_server_a(g_saddr, at);
        xcm_attr_map_destroy(at);
        if (!g_server)
            mc_fail("internal/server-create", "xcm_server_a(%s): %s", g_saddr, errname(errno));
    }
    g_abort_efd = eventfd(0, EFD_NONBLOCK);
    env_set_raw(g_abort_efd);
    for (int i = 0; i < 4; i++) {
        g_sync[i] = eventfd(0, EFD_NONBLOCK);
        env_set_raw(g_sync[i]);
    }

    /* the relay, set up as tools/xcmrelay/main.c does */
    unsigned char before[256];
    for (int fd = 0; fd < 256; fd++)
        before[fd] = fcntl(fd, F_GETFD) >= 0;
    g_base = event_base_new();
    if (!g_base)
        mc_fail("internal/event-base", "event_base_new failed");
    g_evfd = find_libevent_epfd(before);
    if (g_evfd < 0)
        mc_fail("internal/libevent-backend", "libevent backend is '%s', not epoll: cannot observe its idleness",
                event_base_get_method(g_base));
    env_set_raw(g_evfd);
    struct xcm_attr_map *client_conn_attrs = xcm_attr_map_create();
    struct xcm_attr_map *server_attrs = xcm_attr_map_create();
    struct xcm_attr_map *server_conn_attrs = xcm_attr_map_create();
    xcm_attr_map_add_str(client_conn_attrs, "xcm.service", "any");
    xcm_attr_map_add_str(server_attrs, "xcm.service", "any");
    g_rserver = rserver_create(g_raddr, server_attrs, server_conn_attrs, g_saddr, client_conn_attrs, relay_fatal,
                               NULL, g_base);
    if (!g_rserver)
        mc_fail("internal/rserver-create", "rserver_create(%s -> %s) failed: %s", g_raddr, g_saddr, errname(errno));
    xcm_attr_map_destroy(server_attrs);
    xcm_attr_map_destroy(server_conn_attrs);
    xcm_attr_map_destroy(client_conn_attrs);
    if (rserver_start(g_rserver) < 0)
        mc_fail("internal/rserver-start", "rserver_start failed");

    g_t0 = env_now_ns();
    mc_task_create("T", task_server, NULL);
    enum mc_end end = mc_run((int)param_int(params, "horizon", 3000));
    mc_observe("end=%d", end);
    final_checks(end);
    char out[256];
    size_t o = snprintf(out, sizeof out, "end=%d", end);
    for (int i = 0; i < 2 * MAXCONN; i++) {
        struct side *x = all_sides(i);
        if (x->conn >= g_nconn)
            continue;
        o += snprintf(out + o, sizeof out - o, " %s:pc=%d acc=%d rcv=%d b=%lld eof=%d cl=%d err=%s", x->name, x->pc,
                      x->n_acc, x->n_rcv, (long long)x->bytes_rcv, x->eof_seen, x->closed, errname(x->term_errno));
    }
    mc_outcome("%s nrelay=%d", out, g_nrp);
    mc_count(0, g_relay_steps);
    for (int w = 0; w < 2; w++) {
        const char *a = w ? g_saddr : g_raddr;
        if (!strncmp(a, "uxf:", 4))
            unlink(a + 4);
    }
}

int main(int argc, char **argv)
{
    return mc_main(argc, argv, scenario, NULL);
}
