/* deterministic OpenSSL randomness: TLS wire bytes (and DER signature lengths) become a function
   of the choice sequence, so a replay is exact */
#define OPENSSL_SUPPRESS_DEPRECATED
#include <openssl/rand.h>
#include <stdint.h>
#include <string.h>

static uint64_t st = 0x243f6a8885a308d3ULL;

static int det_bytes(unsigned char *buf, int num)
{
    for (int i = 0; i < num; i++) {
        st ^= st << 13;
        st ^= st >> 7;
        st ^= st << 17;
        buf[i] = (unsigned char)(st >> 24);
    }
    return 1;
}
static int det_seed(const void *b, int n) { (void)b; (void)n; return 1; }
static int det_add(const void *b, int n, double e) { (void)b; (void)n; (void)e; return 1; }
static int det_status(void) { return 1; }
static void det_cleanup(void) {}

static RAND_METHOD det_method = { det_seed, det_bytes, det_cleanup, det_add, det_bytes, det_status };

void det_rand_install(uint64_t seed)
{
    st = seed ? seed : 0x243f6a8885a308d3ULL;
    RAND_set_rand_method(&det_method);
}
