/* h_ctl_xcmc - the control CLIENT library (libxcmctl/xcmc.c of the tree under test) compiled with one
 * seam: its blocking recv() first hands the processor to the cooperative scheduler until the
 * descriptor is readable (a reply, EOF) - otherwise the one runnable thread of the model would sit in
 * the kernel for the library's 300 ms receive timeout while the application that has to answer never
 * runs.  Nothing else of xcmc.c is changed; the file is taken from the same working tree as the
 * library (-I <repo>/libxcmctl), so an edited xcmc.c is what gets compiled.
 */
#define _GNU_SOURCE
#include <sys/types.h>
#include <sys/socket.h>

ssize_t h_ctl_xcmc_recv(int fd, void *buf, size_t len, int flags);

#define recv h_ctl_xcmc_recv
#include "xcmc.c"
#undef recv
